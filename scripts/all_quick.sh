#!/bin/bash
# development aid: all 20 quick checks on /repo's working tree, 5 at a time; prints one line per property.
/verif/scripts/check.sh C01 quick >/dev/null 2>&1
seq -w 1 20 | xargs -P 5 -I{} bash -c '/verif/scripts/check.sh C{} quick 2>&1 | grep -E "^property=|VIOLATION" | tr "\n" " "; echo'
