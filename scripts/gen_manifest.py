#!/usr/bin/env python3
"""Regenerates /verif/MANIFEST.json from the table below (kept next to the checker so the
two stay in step). Run after adding or changing a check."""
import json, os
V = os.path.dirname(os.path.dirname(os.path.abspath(__file__)))
BASE = json.load(open('/root/.vp/BASELINE.json'))['cmd'] if os.path.exists('/root/.vp/BASELINE.json') else "cd /repo && go test -vet=off -count=1 ./..."

TRUST = "Trusted: go/types, go/ssa and go/packages (x/tools v0.29.0), regexp/syntax, text/template/parse; the semantics (not the API) of the pinned gontainer-helpers runtime, go/format, x/tools/imports, yaml.v3, cobra, grouperror. Rules decide structural necessary conditions of the property; clauses listed under not_covered in the evidence are not decided."

# id -> (technique, level category, level text, design ref)
CHECKS = {
 "C08": ("AST lint over every range-over-map (order-insensitivity idioms), resolved-callee scan for nondeterminism sources, type-graph walk of the YAML input model",
         "other",
         "Decides for the whole module, on every run: no map range lets iteration order reach output or diagnostics; no generator code reads clock/env/cwd/randomness or runs goroutines; every YAML mapping decodes into a map or struct, so key order is erased. Together these imply determinism and key-order independence modulo the trusted formatter and YAML decoder; byte identity itself is not executed.",
         "DESIGN.md §4 C08"),
 "C10": ("who-may-call scan of file-mutating APIs, SSA dominance (write only behind Build's success edge, first-failure loop exit), error-flow taint for every error-yielding call site (rule E), writer provenance for --quiet",
         "other",
         "Decides the code-shape of the exit/diagnostics/output-file contract for all inputs: the only file write is os.WriteFile(outputFile) behind a successful Build and is the last runner step; a failing step stops the run and its error reaches main's os.Exit(1); no error is dropped anywhere in the module; count and numbered list are the same Collection; --quiet switches the only writer. I/O atomicity and cobra are trusted.",
         "DESIGN.md §4 C10"),
 "C09": ("type-driven exhaustiveness of the merge composite literals, abstract evaluation of the combinator bodies over {nil, empty, non-empty}, SSA ordering rule for sort/clean/return in findFiles, freshness lint for per-file state, who-may-sort table",
         "other",
         "Decides the wiring the tests do not reach: every field of Input/Meta/Service is merged by the combinator its documented class requires with (earlier, later) operand order; the combinators have the documented selection behaviour for all operand shapes; the fold keeps the accumulator first; files are cleaned, then sorted, and that sorted slice is what is iterated; patterns keep flag order; decode state is fresh per file. Split invariance then follows algebraically; byte identity is not executed.",
         "DESIGN.md §4 C09"),
 "C18": ("SSA typestate (v-prefix) for every semver argument, operand-provenance classification of all branch conditions and error sites of ValidateVersion, dominance rules for the skip conditions, store-order rule in main.buildVersion",
         "other",
         "Decides, for all build/config version pairs, the structure of the gate rather than sampled verdicts: semver functions only ever see v-prefixed operands; verdict-relevant conditions see versions only through Major/MajorMinor (patch/prerelease cannot matter); exactly the three documented rejection rules exist, each under the documented guards; skip conditions dominate everything; parse rules of Version.UnmarshalYAML; the build version's path from ldflags to the validator. semver's own semantics are trusted.",
         "DESIGN.md §4 C18"),
 "C19": ("wiring-model extraction from gontainer.go (AST + go/types) and from the YAML files in Makefile order, structural comparison of the two models; re-instantiation of the templates on the extracted model",
         "translation_validation",
         "Validates the one program the property is about: the checked-in generated container against its YAML sources, item by item (meta, parameters, every service's creation symbol, ordered arguments by kind and payload, fields, calls, tags, scope, todo, decorators, getters and their types). A disagreement is reported with both sides. The generator itself is not run, so byte identity of a regenerated file and alias numbering are not decided.",
         "DESIGN.md §4 C19"),
 "C16": ("resolved chain walk: flag literal -> variable -> payload field -> Active() argument -> getter -> service id (wiring model) -> validator value; SSA control-dependence of every validator error site on a failed comma-ok lookup; writer sets of the switch; purity (no store through the argument)",
         "other",
         "Decides each link of the chain that makes a flag suppress exactly one class, for all configurations: one negation, unconditional and independent switches, the getter's service holds exactly the matching validator, that validator can only report failed lookups of its own dependency field, no non-switchable validator reports a missing name, an inactive step is a no-op returning nil, nothing else is switchable, validators do not mutate the output. Output identity under flags follows; it is not executed.",
         "DESIGN.md §4 C16"),
 "C01": ("abstract instantiation of the template ASTs over a covering set of data shapes (own interpreter, never text/template.Execute) and go/types checking of every instantiated file against the pinned runtime; SSA rules for the format gate; derivation of the rejected getter set vs the runtime's method set",
         "other",
         "Decides compile-ability of the generated code for all branch combinations of the six templates (pairwise-covering set per run, full 15k-shape product in the thorough tier) x all argument/parameter code forms x YAML scalar kinds x both modes, with go/types as oracle; init() assertion via types.Implements; format gate is last and unconditional; getter collisions and duplicate getters are rejected. User symbols are a fixture universe; formatter idempotence is trusted.",
         "DESIGN.md §4 C01"),
 "C13": ("method sets and signatures of the generated container type read from the type-checked skeletons; AST pairing of getter bodies with their service; SSA guards of the must-getter rejection; constant defaults",
         "other",
         "Decides the getter API contract for every instantiated combination of getter x type form x must flag in both modes: exact method set, exact signatures, each getter calls Get/GetInContext of its own service and converts via copier.Copy, Must* wrap their own getter and panic; collisions and duplicates are rejected; defaults are the documented constants. The full 3x3 must-getter truth table is only partially decided (dependencies, error guards, no-getter case).",
         "DESIGN.md §4 C13"),
 "C17": ("pairwise comparison of normal and stub instantiations of the same valuation on go/types objects (signatures, method sets), object-kind scan of user-package uses in the stub, build-constraint evaluation, raw-data print lint over the template trace, wiring/SSA reachability of the stub flag",
         "other",
         "Decides stub parity for every instantiated valuation: same package/type/constructor/getter signatures, stub compiles while using user packages as types only, bodies are panic(\"stub\"), constraint requires the gontainerstub tag; the flag reaches only the template builder, so validation and compilation cannot depend on it; interface{}-typed user data is printed only via export, so mode-only comment blocks cannot flip the formatter's verdict.",
         "DESIGN.md §4 C17"),
 "C20": ("effect analysis of the instantiated generated code (typed AST): package-level variables, struct fields of the container, assignment targets of every function and closure; scope-setter emission",
         "other",
         "Schedules and the runtime's locking are out of reach of static analysis of this repository. Decided instead, for every instantiated valuation: the generated code declares no package variable, the container struct holds only the embedded runtime container, no function or closure writes to captured/receiver/shared storage, and default-scope services are registered with SetScopeDefault. Hence the generated code adds no shared mutable state and any race would be inside gontainer-helpers.",
         "DESIGN.md §4 C20"),
 "C02": ("call-sequence extraction from every type-checked template instantiation compared with the declared shape (origin-marked representatives), order-preservation and loop-exit lints over the compiler, receiver-state lint over resolvers/factories, who-may-sort table",
         "other",
         "The statement is about objects at run time; decided are the generator-side necessary conditions: each instantiated service block registers exactly the declared creation method, arguments, fields, calls/withers in declared order and then the service; the compiler preserves element order and visits every element; resolvers keep no state between arguments. What the runtime does with the registration is trusted.",
         "DESIGN.md §4 C02"),
 "C04": ("emission of s.Tag / c.AddDecorator in every type-checked instantiation, order-preservation lints, merge wiring (append class) for tags and decorators, SSA provenance of Tag.UnmarshalYAML",
         "other",
         "Run-time ordering of tagged services and decorator application are the runtime library's. Decided: tag name/priority and decorators reach the runtime calls unchanged, complete and in declaration order (one Tag per tag for every creation method, one AddDecorator per decorator after all services), across files they are appended in file order, and nothing in the module sorts them.",
         "DESIGN.md §4 C04"),
 "C05": ("enum-chain check (keyword literal -> input constant -> exhaustive switch -> output constant -> template predicate -> runtime setter) with the last links decided on the type-checked instantiations; SSA guards of the scope validator's single error site; wiring reachability; loop-exit and freshness lints over the dependency graph builder",
         "other",
         "Instance identity over Get histories is the runtime's. Decided: each scope keyword (and unset) reaches its own existing runtime setter for every instantiated shape; the validator raises exactly one error kind, only for shared-on-contextual, inspects every dependency of the full graph, is wired in and cannot be switched off; typed InContext getters pass their context on.",
         "DESIGN.md §4 C05"),
 "C15": ("todo emission on the type-checked instantiations, call-position analysis of the generated constructor (laziness), AST error-discipline lint of generated helpers, SSA shape of the todo branch, constants of the built-in function table, merge wiring of the todo flag",
         "other",
         "Override histories are the runtime's. Decided: a todo service/parameter compiles to an always-failing constructor/provider with the documented message and is still registered; todo entries count as declared; nothing user-supplied is evaluated while the container is constructed (only registration calls occur outside closures); generated helpers cannot swallow an error; a later file's todo overrides an earlier one.",
         "DESIGN.md §4 C15"),
 "C11": ("regular-language decisions by on-the-fly determinisation of the regexp/syntax programs (equality with reference grammars, inclusion, disjointness; shortest witnesses), AST field-to-sink coverage of the input model, loop-exit and sibling-completeness lints of the validators, SSA guard atoms of the creation-method rules",
         "other",
         "Decides for ALL strings, not samples: each of the 31 validating/recognising regular expressions, as compiled and as used (anchoring or search semantics), accepts exactly the documented grammar; identifier positions admit only identifiers; no language admits whitespace/newline/backslash/unbalanced quotes; prefixes are disjoint. Every string/any leaf of the input model reaches a validator; validators visit every element and call every sibling; todo exemption; creation-method, getter and tag rules; node kinds of the custom unmarshalers. Diagnostic wording is not decided.",
         "DESIGN.md §4 C11"),
 "C06": ("type-driven access-path coverage (required reference positions enumerated from the types of output.Output; the keys of every comma-ok lookup of the validators resolved to access paths on SSA, through helpers, range variables and append-built collections), same-value rules for emitted vs recorded identifiers, literal exhaustiveness of output.Arg, emission of registrations",
         "other",
         "Decides for every position a reference can occur in — the positions are enumerated from the types, so a new one is required automatically — that the validators look it up in the declared set; that the declared sets contain every parameter/service (todo included); that what a resolver emits is what it records, for all tokens of a pattern; that every declared service is registered. Hence an accepted configuration has no dangling reference, modulo the trusted runtime. Diagnostic wording is not decided.",
         "DESIGN.md §4 C06"),
 "C07": ("access paths of the arguments of every graph-builder call in BuildDependencyGraph vs the edge kinds enumerated from the types; SSA chain of ValidateCircularDeps; wiring reachability; freshness and loop-exit lints; copy rules for the dependency fields",
         "other",
         "The cycle enumeration itself is the runtime library's. Decided: every dependency-carrying position of the compiled output (all argument positions of services, decorator arguments and tags, parameter references) becomes an edge of the right kind with the right endpoints, per element and without leakage between elements; the validator returns exactly the library's verdict on that graph on every path and cannot be switched off; parameter references reach the graph because all tokens' references are recorded and copied.",
         "DESIGN.md §4 C07"),
 "C14": ("structural spec of decorateImport on the typed AST (first-segment lookup, single substitution, result forms), interprocedural sanitised-before-alias provenance on SSA (through parameters, fields and interface calls), SSA rules of the alias table (lookup-before-create, counter), regular-language decision on the sanitiser class, capture-group consumption and non-empty guards of the reference compilers, engine M on the table",
         "other",
         "Decides for all alias tables and references: an alias replaces exactly the whole first segment, once, independent of map order; every reference is normalised before it reaches the table and the current package never reaches it; one decorated path maps to one name and different paths to different names (counter), which is always an identifier; all groups of a reference reach the compiled expression. Which package a symbol finally comes from needs the user's module and is not decided. D12 (alias named like a template import) is a recorded finding.",
         "DESIGN.md §4 C14"),
 "C03": ("verb/argument discipline of every code-producing fmt.Sprintf on SSA (quoted, exported, grammar-safe capture group, or the one documented raw position), template raw-data print lint, accepted-language classes of token factories and resolvers read from their Supports with containment decided by automata, SSA case analysis of Tokens.GoCode, structural contracts of the generated helper methods on the type-checked instantiation",
         "other",
         "The chunker as a string algorithm and run-time evaluation are out of reach. Decided for all strings: user text enters generated code only quoted/exported (so the literal denotes the original string) or through a grammar that admits no quote/space; the token and argument grammars equal the documentation; no factory or resolver is shadowed, catch-alls are last, functions are prepended; one token keeps its type, several are concatenated in order, none is an error; references emitted = recorded; built-ins are registered first and their helpers have the documented calls, signatures, default rule and error discipline.",
         "DESIGN.md §4 C03"),
 "C12": ("enumeration of every panic-capable SSA construct of module code with a local discharge rule per site (constant pattern, Supports-guarded assertion resolved through the wiring, range-index/equal-length, len guards, library contracts, paired Indent/EndIndent, nil guards), SCCs of the CHA call graph, loop-shape lint, constant-set bound for strings.Repeat, static type-check of the reflective dependency-injection wiring in gontainer.go",
         "other",
         "Decides for all inputs that module code itself cannot panic or loop: every one of ~400 panic-capable sites is discharged by a stated local rule or reported; the only call-graph cycle is the composite-step pattern bounded by the acyclic wiring; all loops are bounded; the aligned printer's Repeat count is non-negative for the finite set of strings that can reach it; the container wiring type-checks, so buildRunner's Must* calls cannot panic; exit status and output-file contract rules are shared with C10. Third-party parsers, resource exhaustion and the runtime's cycle enumeration are not decided.",
         "DESIGN.md §4 C12"),
}
NOT_YET = "check not built yet in this session (design in DESIGN.md §4); will be claimed once its rules run on /repo"

props = [json.loads(l) for l in open(os.path.join(V, 'properties.jsonl'))]
checks, na = [], []
for p in props:
    pid = p['id']
    if pid in CHECKS:
        tech, cat, text, ref = CHECKS[pid]
        checks.append({
            "property_id": pid,
            "quick_cmd": "/verif/scripts/check.sh %s quick" % pid,
            "thorough_cmd": "/verif/scripts/check.sh %s thorough" % pid,
            "evidence_file": "/verif/evidence/%s.json" % pid,
            "replay_cmd_template": "cat {path}; /verif/scripts/check.sh %s quick" % pid,
            "engine": "gvcheck",
            "level_claimed": {"category": cat, "text": text, "design_ref": ref},
            "level_note": TRUST,
            "technique": "static analysis: " + tech,
        })
    else:
        na.append({"property_id": pid, "reason": NOT_YET})
m = {
 "version": 1,
 "setup_cmd": "cd /verif/checker && GOFLAGS=-mod=mod GOPROXY=off GOSUMDB=off GOTOOLCHAIN=local CGO_ENABLED=0 go build -o /verif/bin/gvcheck ./cmd/gvcheck",
 "hooks": {"guard": "verif", "enable": "no hooks: the checks read /repo's sources and never build or run them", "baseline_off_cmd": BASE, "source_commits": [], "add_only": True},
 "engines": [{"name": "gvcheck", "path": "/verif/checker", "serves_properties": sorted(CHECKS), "kind_free_text": "repository-specific static analyser (go/packages + go/types + go/ssa, template AST abstract instantiation, regex automata, wiring model); one binary, one rule table per property"}],
 "checks": checks,
 "notes": "All checks are static: they load /repo's current working tree on every run and report resolved constructs. known_findings.json lists recorded defects (known) and repaired ones (fixed).",
 "not_applicable": na,
}
json.dump(m, open(os.path.join(V, 'MANIFEST.json'), 'w'), indent=1)
print("checks:", len(checks), "not_applicable:", len(na))
