#!/bin/bash
# development aid: every stored seeded change must be reported by its own property's quick check.
# usage: regress_seeds.sh [jobs]   — uses scratch worktrees under /tmp/regress (removed afterwards)
export GOFLAGS=-mod=mod GOPROXY=off GOSUMDB=off GOTOOLCHAIN=local; unset GOWORK
jobs=${1:-8}
/verif/scripts/check.sh C01 quick >/dev/null 2>&1   # make sure the binary is current before forking
mkdir -p /tmp/regress
ls -d /verif/seeded/*/ | grep -v benign | xargs -n1 basename > /tmp/regress/all.txt
split -n l/$jobs /tmp/regress/all.txt /tmp/regress/part.
for part in /tmp/regress/part.*; do
  (
    wt=/tmp/regress/wt.$(basename $part)
    git -C /repo worktree add -q --detach $wt HEAD
    for s in $(cat $part); do
      prop=$(echo $s | sed -E 's/^(r[0-9]+|own)-//' | cut -c1-3)
      git -C $wt checkout -q -- . ; git -C $wt clean -fdq
      git -C $wt apply /verif/seeded/$s/patch.diff 2>/dev/null || { echo "$s APPLY-FAIL"; continue; }
      o=/tmp/regress/out.$s; mkdir -p $o
      res=$(VERIF_REPO=$wt VERIF_OUT=$o /verif/scripts/check.sh $prop quick 2>&1); rc=$?
      rules=$(echo "$res" | grep -E "^(VIOLATED|UNDECIDED)" | sed -E 's/^(VIOLATED|UNDECIDED) rule=([^ ]+).*/\2/' | sort -u | tr '\n' ',' | sed 's/,$//')
      if [ $rc -eq 0 ]; then echo "$s MISSED"; else echo "$s $prop[$rules]"; fi
      rm -rf $o
    done
    git -C /repo worktree remove --force $wt
  ) > $part.res 2>&1 &
done
wait
cat /tmp/regress/part.*.res | sort
rm -rf /tmp/regress
