#!/bin/bash
# usage: check.sh <property-id> [quick|thorough]
# Rebuilds the checker when its sources changed, then analyses /repo's current
# working tree. Exit 0 = property held on everything analysed; 1 = VIOLATION.
set -u
export GOFLAGS=-mod=mod GOPROXY=off GOSUMDB=off GOTOOLCHAIN=local CGO_ENABLED=0
unset GOWORK
VERIF="$(cd "$(dirname "$0")/.." && pwd)"
REPO="${VERIF_REPO:-/repo}"
BIN="$VERIF/bin/gvcheck"
need=0
[ -x "$BIN" ] || need=1
if [ $need = 0 ] && [ -n "$(find "$VERIF/checker" -name '*.go' -newer "$BIN" -print -quit; find "$VERIF/checker/go.mod" -newer "$BIN" -print -quit)" ]; then need=1; fi
if [ $need = 1 ]; then
  mkdir -p "$VERIF/bin"
  (cd "$VERIF/checker" && go build -o "$BIN.$$" ./cmd/gvcheck && mv "$BIN.$$" "$BIN") || { echo "VIOLATION property=$1 replay=$VERIF/replay/build-failed"; exit 1; }
fi
exec "$BIN" -prop "$1" -tier "${2:-${VERIF_TIER:-quick}}" -repo "$REPO" -verif "$VERIF" ${VERIF_OUT:+-out "$VERIF_OUT"}
