#!/bin/bash
# usage: try_seed.sh <patch.diff> <prop> [<prop>...]   — applies a seeded change to /repo, runs the quick checks, reverts.
P="$1"; shift
if [ -n "$(git -C /repo status --porcelain)" ]; then echo "/repo not clean"; exit 2; fi
if ! git -C /repo apply "$P" 2>/dev/null; then
  if ! (cd /repo && patch -p1 -s --no-backup-if-mismatch < "$P"); then echo "PATCH DOES NOT APPLY: $P"; git -C /repo checkout -- .; git -C /repo clean -fdq; exit 3; fi
fi
rc=0
for p in "$@"; do
  out=$(/verif/scripts/check.sh "$p" quick 2>&1); r=$?
  echo "== $p exit=$r"; echo "$out" | grep -E "^(VIOLATED|UNDECIDED)" | cut -c1-260 | head -${SEED_LINES:-6}
  [ $r -ne 0 ] && rc=1
done
git -C /repo checkout -- . ; git -C /repo clean -fdq
exit $rc
