#!/bin/bash
# usage: matrix.sh <worktree> <outfile> <seed>...   — development aid: runs all 20 quick checks against
# scratch worktrees with one seeded change applied each (outputs under /tmp, never /verif/evidence).
wt=$1; outf=$2; shift 2
for s in "$@"; do
  git -C $wt checkout -q -- . ; git -C $wt clean -fdq
  git -C $wt apply /verif/seeded/$s/patch.diff 2>/dev/null || { echo "$s APPLY-FAIL" >> $outf; continue; }
  line="$s"
  for i in $(seq -w 1 20); do
    o=/tmp/matrix/$s; mkdir -p $o
    res=$(VERIF_REPO=$wt VERIF_OUT=$o /verif/scripts/check.sh C$i quick 2>&1); rc=$?
    if [ $rc -ne 0 ]; then rules=$(echo "$res" | grep -E "^(VIOLATED|UNDECIDED)" | sed -E 's/^(VIOLATED|UNDECIDED) rule=([^ ]+).*/\2/' | sort -u | tr '\n' ',' | sed 's/,$//'); line="$line C$i[$rules]"; fi
  done
  echo "$line" >> $outf
  git -C $wt checkout -q -- . ; git -C $wt clean -fdq
done
