#!/bin/bash
# development aid: which surviving mutants does no check report?  usage: mutation_stage2.sh <mutants dir> <jobs>
# uses a frozen copy of the checker binary (its -sweep mode loads the tree once and stops at the first
# failing property) so that the checker sources can be edited meanwhile.
export GOFLAGS=-mod=mod GOPROXY=off GOSUMDB=off GOTOOLCHAIN=local CGO_ENABLED=0; unset GOWORK
M=$1; J=${2:-8}
/verif/scripts/check.sh C01 quick >/dev/null 2>&1; cp /verif/bin/gvcheck $M/gvcheck
cut -d' ' -f1 $M/survivors.txt > $M/s.txt
split -n l/$J $M/s.txt $M/spart.
ORDER="C12,C11,C10,C02,C03,C06,C14,C09,C01,C05,C13,C18,C07,C16,C04,C08,C15,C17,C19,C20"
for part in $M/spart.*; do
  (
    wt=$M/wt2.$(basename $part); git -C /repo worktree add -q --detach $wt HEAD
    for id in $(cat $part); do
      d=$M/$id; rel=$(cut -f1 $d/desc); cp $d/file $wt/$rel
      o=$M/out.$id; mkdir -p $o
      res=$($M/gvcheck -sweep $ORDER -tier quick -repo $wt -verif /verif -out $o 2>&1)
      hit=$(echo "$res" | grep -E "^FIRST-FAIL" | awk '{print $2}')
      rules=$(echo "$res" | grep -E "^(VIOLATED|UNDECIDED)" | sed -E 's/^(VIOLATED|UNDECIDED) rule=([^ ]+).*/\2/' | sort -u | tr '\n' ',' | sed 's/,$//')
      rm -rf $o
      if [ -n "$hit" ]; then echo "$id $hit[$rules] $(cat $d/desc)"; else echo "$id UNSEEN $(cat $d/desc)"; fi
      git -C $wt checkout -q -- .
    done
    git -C /repo worktree remove --force $wt
  ) > $part.res 2>/dev/null &
done
wait
cat $M/spart.*.res | sort > $M/stage2.txt; rm -f $M/spart.*
grep -c UNSEEN $M/stage2.txt
