#!/bin/bash
# development aid: re-evaluate the open false-alarm variants; those that now pass all 20 checks move to seeded/benign
export GOFLAGS=-mod=mod GOPROXY=off GOSUMDB=off GOTOOLCHAIN=local; unset GOWORK
jobs=${1:-8}
/verif/scripts/check.sh C01 quick >/dev/null 2>&1
mkdir -p /tmp/reopen
ls /verif/seeded/benign-open/*.diff > /tmp/reopen/all.txt
split -n l/$jobs /tmp/reopen/all.txt /tmp/reopen/part.
for part in /tmp/reopen/part.*; do
  (
    wt=/tmp/reopen/wt.$(basename $part)
    git -C /repo worktree add -q --detach $wt HEAD
    for p in $(cat $part); do
      s=$(basename $p .diff)
      git -C $wt checkout -q -- . ; git -C $wt clean -fdq
      git -C $wt apply $p 2>/dev/null || { echo "$s APPLY-FAIL"; continue; }
      line="$s"
      for i in $(seq -w 1 20); do
        o=/tmp/reopen/out.$s; mkdir -p $o
        res=$(VERIF_REPO=$wt VERIF_OUT=$o /verif/scripts/check.sh C$i quick 2>&1); rc=$?
        if [ $rc -ne 0 ]; then rules=$(echo "$res" | grep -E "^(VIOLATED|UNDECIDED)" | sed -E 's/^(VIOLATED|UNDECIDED) rule=([^ ]+).*/\2/' | sort -u | tr '\n' ',' | sed 's/,$//'); line="$line C$i:$rules"; fi
      done
      echo "$line"
      rm -rf /tmp/reopen/out.$s
    done
    git -C /repo worktree remove --force $wt
  ) > $part.res 2>&1 &
done
wait
cat /tmp/reopen/part.*.res | sort > /tmp/reopen/result.txt
grep -v " C[0-9]" /tmp/reopen/result.txt | grep -v APPLY-FAIL | while read -r s; do
  git -C /verif mv -k seeded/benign-open/$s.diff seeded/benign/$s.diff 2>/dev/null || mv /verif/seeded/benign-open/$s.diff /verif/seeded/benign/$s.diff
  [ -f /verif/seeded/benign-open/$s.md ] && mv /verif/seeded/benign-open/$s.md /verif/seeded/benign/$s.md
done
grep " C[0-9]" /tmp/reopen/result.txt > /verif/seeded/benign-open/FAILING.txt
echo "still open: $(wc -l < /verif/seeded/benign-open/FAILING.txt)"
rm -rf /tmp/reopen
