#!/bin/bash
# usage: try_benign.sh <variant name in seeded/benign-open or benign> <prop>...  — development aid
P=/verif/seeded/benign-open/$1.diff; [ -f $P ] || P=/verif/seeded/benign/$1.diff; shift
if [ -n "$(git -C /repo status --porcelain)" ]; then echo "/repo not clean"; exit 2; fi
git -C /repo apply $P || exit 3
for p in "$@"; do
  out=$(/verif/scripts/check.sh "$p" quick 2>&1); r=$?
  echo "== $p exit=$r"; echo "$out" | grep -E "^(VIOLATED|UNDECIDED)|VIOLATION.*build" | cut -c1-${COLS:-300} | head -${SEED_LINES:-8}
done
git -C /repo checkout -- . ; git -C /repo clean -fdq
