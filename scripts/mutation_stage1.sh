#!/bin/bash
# development aid: which mechanical mutants (tools/mutgen) compile and pass the pinned suite?
# usage: mutation_stage1.sh <mutants dir> <jobs>   -> <mutants dir>/survivors.txt
export GOFLAGS=-mod=mod GOPROXY=off GOSUMDB=off GOTOOLCHAIN=local; unset GOWORK
M=$1; J=${2:-12}
ls -d $M/[0-9]* > $M/all.txt
split -n l/$J $M/all.txt $M/part.
for part in $M/part.*; do
  (
    wt=$M/wt.$(basename $part); git -C /repo worktree add -q --detach $wt HEAD
    for d in $(cat $part); do
      rel=$(cut -f1 $d/desc)
      cp $d/file $wt/$rel
      if (cd $wt && go build ./... >/dev/null 2>&1 && go vet ./... >/dev/null 2>&1 || true; cd $wt && go build ./... >/dev/null 2>&1 && timeout 300 go test -vet=off -count=1 ./... >/dev/null 2>&1); then
        echo "$(basename $d) $(cat $d/desc)"
        git -C $wt diff > $d/patch.diff
      fi
      git -C $wt checkout -q -- .
    done
    git -C /repo worktree remove --force $wt
  ) > $part.surv 2>/dev/null &
done
wait
cat $M/part.*.surv | sort > $M/survivors.txt
rm -f $M/part.*
wc -l $M/survivors.txt
