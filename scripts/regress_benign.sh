#!/bin/bash
# development aid: every stored behaviour-preserving variant must pass all 20 quick checks.
# usage: regress_benign.sh [jobs]
export GOFLAGS=-mod=mod GOPROXY=off GOSUMDB=off GOTOOLCHAIN=local; unset GOWORK
jobs=${1:-8}
/verif/scripts/check.sh C01 quick >/dev/null 2>&1
mkdir -p /tmp/regressb
ls /verif/seeded/benign/*.diff > /tmp/regressb/all.txt
split -n l/$jobs /tmp/regressb/all.txt /tmp/regressb/part.
for part in /tmp/regressb/part.*; do
  (
    wt=/tmp/regressb/wt.$(basename $part)
    git -C /repo worktree add -q --detach $wt HEAD
    for p in $(cat $part); do
      s=$(basename $p .diff)
      git -C $wt checkout -q -- . ; git -C $wt clean -fdq
      git -C $wt apply $p 2>/dev/null || { echo "$s APPLY-FAIL"; continue; }
      line="$s"
      for i in $(seq -w 1 20); do
        o=/tmp/regressb/out.$s; mkdir -p $o
        res=$(VERIF_REPO=$wt VERIF_OUT=$o /verif/scripts/check.sh C$i quick 2>&1); rc=$?
        if [ $rc -ne 0 ]; then rules=$(echo "$res" | grep -E "^(VIOLATED|UNDECIDED)" | sed -E 's/^(VIOLATED|UNDECIDED) rule=([^ ]+) construct=(.{0,90}).*/\2:\3/' | sort -u | tr '\n' ';'); line="$line C$i[$rules]"; fi
      done
      echo "$line"
      rm -rf /tmp/regressb/out.$s
    done
    git -C /repo worktree remove --force $wt
  ) > $part.res 2>&1 &
done
wait
cat /tmp/regressb/part.*.res | sort
rm -rf /tmp/regressb
