// mutgen: development aid. Enumerates mechanical mutants (operator flips, negated conditions, deleted
// statements, literal tweaks, dropped errors, break/continue) of the non-test Go files of a tree and writes
// each as <out>/<n>/file (the mutated file) + <out>/<n>/desc (relpath \t line \t kind \t detail).
package main

import (
	"fmt"
	"go/ast"
	"go/parser"
	"go/token"
	"os"
	"path/filepath"
	"strconv"
	"strings"
)

type edit struct {
	from, to int // byte offsets
	repl     string
	kind     string
	line     int
	detail   string
}

func main() {
	root, out := os.Args[1], os.Args[2]
	n := 0
	filepath.Walk(root, func(p string, fi os.FileInfo, err error) error {
		if err != nil {
			return nil
		}
		if fi.IsDir() {
			if fi.Name() == ".git" || fi.Name() == "testdata" || fi.Name() == "examples" {
				return filepath.SkipDir
			}
			return nil
		}
		if !strings.HasSuffix(p, ".go") || strings.HasSuffix(p, "_test.go") {
			return nil
		}
		rel, _ := filepath.Rel(root, p)
		if rel == "internal/gontainer/gontainer.go" {
			return nil
		}
		src, _ := os.ReadFile(p)
		fset := token.NewFileSet()
		f, err := parser.ParseFile(fset, p, src, parser.ParseComments)
		if err != nil {
			return nil
		}
		off := func(pos token.Pos) int { return fset.Position(pos).Offset }
		var eds []edit
		add := func(from, to token.Pos, repl, kind, detail string) {
			eds = append(eds, edit{off(from), off(to), repl, kind, fset.Position(from).Line, detail})
		}
		swaps := map[token.Token][]string{
			token.EQL: {"!="}, token.NEQ: {"=="}, token.LSS: {"<=", ">"}, token.LEQ: {"<"}, token.GTR: {">=", "<"}, token.GEQ: {">"},
			token.LAND: {"||"}, token.LOR: {"&&"}, token.ADD: {"-"}, token.SUB: {"+"},
		}
		ast.Inspect(f, func(nd ast.Node) bool {
			switch x := nd.(type) {
			case *ast.BinaryExpr:
				for _, r := range swaps[x.Op] {
					if x.Op == token.ADD {
						// skip string concatenation (would not compile) cheaply: literal strings on either side
						if bl, ok := x.X.(*ast.BasicLit); ok && bl.Kind == token.STRING {
							continue
						}
						if bl, ok := x.Y.(*ast.BasicLit); ok && bl.Kind == token.STRING {
							continue
						}
					}
					add(x.OpPos, x.OpPos+token.Pos(len(x.Op.String())), r, "binop", x.Op.String()+"->"+r)
				}
			case *ast.IfStmt:
				add(x.Cond.Pos(), x.Cond.End(), "!("+string(src[off(x.Cond.Pos()):off(x.Cond.End())])+")", "negate-if", "")
			case *ast.ForStmt:
				if x.Cond != nil {
					add(x.Cond.Pos(), x.Cond.End(), "!("+string(src[off(x.Cond.Pos()):off(x.Cond.End())])+")", "negate-for", "")
				}
			case *ast.BlockStmt:
				for _, st := range x.List {
					switch s := st.(type) {
					case *ast.ExprStmt, *ast.IncDecStmt, *ast.DeferStmt, *ast.GoStmt:
						add(st.Pos(), st.End(), "", "del-stmt", firstLine(src[off(st.Pos()):off(st.End())]))
					case *ast.AssignStmt:
						if s.Tok != token.DEFINE {
							add(st.Pos(), st.End(), "", "del-assign", firstLine(src[off(st.Pos()):off(st.End())]))
						}
					case *ast.IfStmt:
						if s.Else == nil && s.Init == nil {
							add(st.Pos(), st.End(), "", "del-if", firstLine(src[off(st.Pos()):off(st.End())]))
						}
					}
				}
			case *ast.BasicLit:
				if x.Kind == token.INT {
					if v, err := strconv.ParseInt(x.Value, 0, 64); err == nil {
						add(x.Pos(), x.End(), strconv.FormatInt(v+1, 10), "int+1", x.Value)
						if v > 0 {
							add(x.Pos(), x.End(), strconv.FormatInt(v-1, 10), "int-1", x.Value)
						}
					}
				}
			case *ast.Ident:
				if x.Name == "true" {
					add(x.Pos(), x.End(), "false", "bool", "true->false")
				} else if x.Name == "false" {
					add(x.Pos(), x.End(), "true", "bool", "false->true")
				}
			case *ast.ReturnStmt:
				if len(x.Results) > 0 {
					last := x.Results[len(x.Results)-1]
					if id, ok := last.(*ast.Ident); ok && (id.Name == "err") {
						add(id.Pos(), id.End(), "nil", "drop-err", "")
					}
				}
			case *ast.BranchStmt:
				if x.Label == nil {
					if x.Tok == token.CONTINUE {
						add(x.Pos(), x.End(), "break", "branch", "continue->break")
					} else if x.Tok == token.BREAK {
						add(x.Pos(), x.End(), "continue", "branch", "break->continue")
					}
				}
			case *ast.UnaryExpr:
				if x.Op == token.NOT {
					add(x.Pos(), x.Pos()+1, "", "drop-not", "")
				}
			case *ast.CallExpr:
				// swap the first two arguments when they print differently (type errors are filtered by the build)
				if len(x.Args) == 2 {
					a := string(src[off(x.Args[0].Pos()):off(x.Args[0].End())])
					b := string(src[off(x.Args[1].Pos()):off(x.Args[1].End())])
					if a != b {
						add(x.Args[0].Pos(), x.Args[1].End(), b+", "+a, "swap-args", firstLine([]byte(a+", "+b)))
					}
				}
			}
			return true
		})
		for _, e := range eds {
			n++
			d := filepath.Join(out, fmt.Sprintf("%05d", n))
			os.MkdirAll(d, 0o755)
			mut := string(src[:e.from]) + e.repl + string(src[e.to:])
			os.WriteFile(filepath.Join(d, "file"), []byte(mut), 0o644)
			os.WriteFile(filepath.Join(d, "desc"), []byte(fmt.Sprintf("%s\t%d\t%s\t%s\n", rel, e.line, e.kind, e.detail)), 0o644)
		}
		return nil
	})
	fmt.Println(n, "mutants")
}

func firstLine(b []byte) string {
	s := string(b)
	if i := strings.IndexByte(s, '\n'); i >= 0 {
		s = s[:i]
	}
	if len(s) > 80 {
		s = s[:80]
	}
	return s
}
