// mutgen2: development aid. Type-aware mutants of the non-test Go files of a tree: an identifier replaced
// by another variable of the identical type that is in scope ("wrong variable"), a selected field replaced
// by a sibling field of the identical type ("wrong field"). Output layout as mutgen.
package main

import (
	"fmt"
	"go/ast"
	"go/token"
	"go/types"
	"os"
	"path/filepath"
	"sort"
	"strings"

	"golang.org/x/tools/go/packages"
)

func main() {
	root, out := os.Args[1], os.Args[2]
	cfg := &packages.Config{Mode: packages.LoadSyntax, Dir: root, Tests: false}
	pkgs, err := packages.Load(cfg, "./...")
	if err != nil {
		panic(err)
	}
	n := 0
	for _, pk := range pkgs {
		for _, f := range pk.Syntax {
			p := pk.Fset.Position(f.Pos()).Filename
			rel, _ := filepath.Rel(root, p)
			if strings.HasSuffix(p, "_test.go") || rel == "internal/gontainer/gontainer.go" {
				continue
			}
			src, _ := os.ReadFile(p)
			info := pk.TypesInfo
			type edit struct {
				from, to     int
				repl, kind   string
				line         int
				detail       string
			}
			var eds []edit
			off := func(pos token.Pos) int { return pk.Fset.Position(pos).Offset }
			// skip identifiers on the left of := and in declarations
			ast.Inspect(f, func(nd ast.Node) bool {
				switch x := nd.(type) {
				case *ast.SelectorExpr:
					sel := info.Selections[x]
					if sel == nil || sel.Kind() != types.FieldVal {
						return true
					}
					fld, _ := sel.Obj().(*types.Var)
					if fld == nil {
						return true
					}
					recv := sel.Recv()
					if pt, ok := recv.Underlying().(*types.Pointer); ok {
						recv = pt.Elem()
					}
					st, ok := recv.Underlying().(*types.Struct)
					if !ok {
						return true
					}
					k := 0
					for i := 0; i < st.NumFields() && k < 2; i++ {
						o := st.Field(i)
						if o == fld || o.Name() == fld.Name() || !types.Identical(o.Type(), fld.Type()) {
							continue
						}
						if !o.Exported() && o.Pkg() != pk.Types {
							continue
						}
						k++
						eds = append(eds, edit{off(x.Sel.Pos()), off(x.Sel.End()), o.Name(), "wrong-field", pk.Fset.Position(x.Pos()).Line, fld.Name() + "->" + o.Name()})
					}
				case *ast.Ident:
					v, ok := info.Uses[x].(*types.Var)
					if !ok || v.IsField() || v.Pkg() != pk.Types {
						return true
					}
					if v.Parent() == pk.Types.Scope() || v.Parent() == types.Universe {
						return true // package-level variables: too many unrelated candidates
					}
					// candidates: variables visible at this position with the identical type
					sc := pk.Types.Scope().Innermost(x.Pos())
					seen := map[string]bool{v.Name(): true}
					var cands []string
					for s := sc; s != nil && s != pk.Types.Scope(); s = s.Parent() {
						for _, name := range s.Names() {
							o, ok := s.Lookup(name).(*types.Var)
							if !ok || seen[name] || name == "_" {
								continue
							}
							seen[name] = true
							if o.Pos() < x.Pos() && types.Identical(o.Type(), v.Type()) {
								// the same name must resolve to o at the use site
								if _, found := sc.LookupParent(name, x.Pos()); found == o {
									cands = append(cands, name)
								}
							}
						}
					}
					sort.Strings(cands)
					if len(cands) > 2 {
						cands = cands[:2]
					}
					for _, c := range cands {
						eds = append(eds, edit{off(x.Pos()), off(x.End()), c, "wrong-var", pk.Fset.Position(x.Pos()).Line, v.Name() + "->" + c})
					}
				}
				return true
			})
			for _, e := range eds {
				n++
				d := filepath.Join(out, fmt.Sprintf("%05d", n))
				os.MkdirAll(d, 0o755)
				mut := string(src[:e.from]) + e.repl + string(src[e.to:])
				os.WriteFile(filepath.Join(d, "file"), []byte(mut), 0o644)
				os.WriteFile(filepath.Join(d, "desc"), []byte(fmt.Sprintf("%s\t%d\t%s\t%s\n", rel, e.line, e.kind, e.detail)), 0o644)
			}
		}
	}
	fmt.Println(n, "mutants")
}
