// Package m holds positive controls: each construct below violates one
// zero-expected rule of the checker and must be reported on every run.
package m

import (
	"os"
	"sort"
	"time"
)

// order-sensitive: first match wins
func FirstMatch(m map[string]string, s string) string {
	for k, v := range m {
		if len(s) > 0 && k[0] == s[0] {
			return v
		}
	}
	return ""
}

// order-sensitive: values collected, never sorted
func Values(m map[string]int) []int {
	var out []int
	for _, v := range m {
		out = append(out, v)
	}
	return out
}

// order-sensitive: sorted by a non-key, ties keep map order
func ByLen(m map[string]int) []string {
	var out []string
	for k := range m {
		out = append(out, k)
	}
	sort.Slice(out, func(i, j int) bool { return len(out[i]) < len(out[j]) })
	return out
}

// insensitive (must NOT be reported)
func Keys(m map[string]int) []string {
	var out []string
	for k := range m {
		out = append(out, k)
	}
	sort.Strings(out)
	return out
}

func Stamp() string { return time.Now().String() + os.Getenv("HOME") }

func Drop() {
	_ = os.Remove("x") // dropped error + file mutation outside the owner
}

type node struct{ scope int }

// deref of a pointer read from a map without a nil/ok test (must be reported by R12.1's deref-lookup)
func LookupDeref(m map[string]*node, k string) int {
	n := m[k]
	return n.scope
}

// guarded forms (must NOT be reported)
func LookupDerefGuarded(m map[string]*node, k string) int {
	if n, ok := m[k]; ok {
		return n.scope
	}
	if n := m[k]; n != nil {
		return n.scope
	}
	return 0
}
