module ctl

go 1.21
