package rules

import (
	"fmt"
	"strings"

	"golang.org/x/tools/go/ssa"
)

// R02.2 — constant usage: each code producer formats its result with the code-template constant
// of its own kind (and no other), so that "@x" becomes a service dependency, "!tagged t" a tag
// dependency, and so on.
var codeTemplateUse = []struct {
	rel, fn string
	consts  []string // names in internal/pkg/consts, every code-producing Sprintf of fn must use one of them
}{
	{resolverRel, "ServiceResolver.ResolveArg", []string{"TplDependencyService"}},
	{resolverRel, "TaggedResolver.ResolveArg", []string{"TplDependencyTag"}},
	{resolverRel, "ValueResolver.ResolveArg", []string{"TplDependencyValue"}},
	{resolverRel, "NonStringPrimitiveResolver.ResolveArg", []string{"TplDependencyValue"}},
	{resolverRel, "FixedValueResolver.ResolveArg", []string{"TplDependencyValue"}},
	{tokenRel, "Tokens.GoCode", []string{"TplDependencyProvider", "TplDependencyConcatenateChunks"}},
	{tokenRel, "FactoryReference.Create", []string{"TplTokenGetParam"}},
	{tokenRel, "FactoryPercentMark.Create", []string{"TplTokenProvider"}},
	{tokenRel, "FactoryString.Create", []string{"TplTokenProvider"}},
	{tokenRel, "FactoryFunction.Create", []string{"TplTokenProvider"}},
}

func c02ConstUsage(e *Env, rule string) {
	r := e.R
	vals := map[string]string{}
	byVal := map[string]string{}
	for _, n := range []string{"TplDependencyService", "TplDependencyTag", "TplDependencyValue", "TplDependencyProvider", "TplDependencyConcatenateChunks", "TplTokenGetParam", "TplTokenProvider"} {
		v, ok := e.P.ConstString("internal/pkg/consts", n)
		if !ok {
			r.Undecide(rule, "internal/pkg/consts."+n, "constant not found")
			continue
		}
		vals[n] = v
		byVal[v] = n
	}
	// each constant calls the helper of its kind
	helperOf := map[string]string{"TplDependencyService": "dependencyService(", "TplDependencyTag": "dependencyTag(", "TplDependencyValue": "dependencyValue(",
		"TplDependencyProvider": "dependencyProvider(", "TplDependencyConcatenateChunks": "dependencyProvider(", "TplTokenGetParam": "getParam("}
	for n, h := range helperOf {
		r.Check(strings.Contains(vals[n], h), rule, "internal/pkg/consts."+n+"#helper", fmt.Sprintf("the code template %s calls the constructor's local %s…) (value %q)", n, h, vals[n]))
	}
	r.Check(strings.Contains(vals["TplDependencyConcatenateChunks"], "concatenateChunks("), rule, "internal/pkg/consts.TplDependencyConcatenateChunks#concat", "the multi-token template calls concatenateChunks")
	for _, u := range codeTemplateUse {
		fn := e.P.Func(u.rel, u.fn)
		key := u.rel + "." + u.fn
		if fn == nil {
			r.Undecide(rule, key, "anchor not found")
			continue
		}
		var used []string
		bad := ""
		for _, b := range fn.Blocks {
			for _, ins := range b.Instrs {
				c, ok := ins.(*ssa.Call)
				if !ok || callName(&c.Call) != "fmt.Sprintf" || !flowsToCode(c) {
					continue
				}
				f, okf := formatOf(e, c.Call.Args[0])
				if !okf {
					bad = "non-constant format"
					continue
				}
				if n, isTpl := byVal[f]; isTpl {
					used = append(used, n)
				}
			}
		}
		okUse := len(used) > 0 && bad == ""
		for _, n := range used {
			allowed := false
			for _, a := range u.consts {
				if n == a {
					allowed = true
				}
			}
			if !allowed {
				okUse = false
			}
		}
		// all listed constants are used
		for _, a := range u.consts {
			found := false
			for _, n := range used {
				if n == a {
					found = true
				}
			}
			if !found {
				okUse = false
			}
		}
		r.Check(okUse, rule, key, fmt.Sprintf("generates its code with %v only (uses %v %s)", u.consts, used, bad))
	}
}
