package rules

import (
	"fmt"
	"go/ast"
	"go/build/constraint"
	"go/token"
	"go/types"
	"sort"
	"strings"

	"gverif/internal/load"
	"gverif/internal/tplabs"
	"gverif/internal/wiring"
)

// Rules evaluated on the typed skeletons (engine T.5). Obligations are keyed by the
// *shape* of the service (never by its index), so one broken template construct yields
// one finding per shape class, not one per instance.

func shapeKey(sh svcShape) string { return sh.String() }

// emissionRules: R02.5 (constructor / fields / calls emission and order), R04 (tags,
// decorators), R05.1 (scope setter), R15.1 (todo block), per service of every skeleton.
func emissionRules(e *Env, sks []*skeleton, want map[string]bool) {
	r := e.R
	scopeSetter := func(c *types.Const) string {
		if c == nil {
			return ""
		}
		return "Set" + c.Name() // output.ScopeShared -> SetScopeShared: the runtime's documented setters
	}
	// the runtime has these setters
	if cp := e.P.All[load.RuntimeMod+"/container"]; cp != nil && want["R05.1"] {
		svcT := cp.Types.Scope().Lookup("Service")
		for _, c := range tplabsScopeConsts(e) {
			has := false
			if svcT != nil {
				ms := types.NewMethodSet(types.NewPointer(svcT.Type()))
				for i := 0; i < ms.Len(); i++ {
					if ms.At(i).Obj().Name() == scopeSetter(c) {
						has = true
					}
				}
			}
			r.Check(has, "R05.1", "runtime:container.Service."+scopeSetter(c), "the runtime's Service has the setter that corresponds to output."+c.Name())
		}
	}
	type agg struct {
		ok  bool
		why string
		n   int
	}
	res := map[string]*agg{}
	note := func(rule, key string, ok bool, why string) {
		if !want[rule] {
			return
		}
		k := rule + "\x00" + key
		a := res[k]
		if a == nil {
			a = &agg{ok: true}
			res[k] = a
		}
		a.n++
		if !ok && a.ok {
			a.ok, a.why = false, why
		}
	}
	for _, sk := range sks {
		m := sk.Model[false]
		if m == nil {
			continue
		}
		for _, pr := range m.Problems {
			note("R02.5", "constructor#unrecognised-construct", false, pr)
		}
		// rootGontainer assigned before the first service block / param
		if len(m.Services) > 0 {
			note("R02.5", "constructor#root-assigned-before-services", m.RootAssign != token.NoPos && m.RootAssign < m.Services[0].Pos,
				"rootGontainer must be assigned before the first dependencyValue(rootGontainer) is evaluated (the runtime takes dependencies by value while the constructor runs)")
		}
		if len(m.Services) != len(sk.Services) {
			note("R02.5", "constructor#service-blocks", false, fmt.Sprintf("%d service blocks emitted for %d declared services", len(m.Services), len(sk.Services)))
			continue
		}
		for i, ex := range sk.Services {
			g := m.Services[i]
			sh := ex.Shape
			var cs []string
			for _, c := range sh.Calls {
				k := "call"
				if c.Immutable {
					k = "wither"
				}
				cs = append(cs, fmt.Sprintf("%s/%d", k, c.NArgs))
			}
			calls := "calls=[" + strings.Join(cs, " ") + "]"
			crea := sh.Creation + "/" + sh.TypeForm
			if sh.Todo {
				crea = "todo"
			}
			sk2 := crea
			if g.Name != ex.Name {
				note("R02.5", "service["+sk2+"]#registered-name", false, fmt.Sprintf("block %d registers %q, declared %q", i, g.Name, ex.Name))
				if ex.Todo {
					note("R15.1", "service[todo]#block", false, fmt.Sprintf("the todo service %q is not registered (c.OverrideService missing): dependants would fail with 'does not exist' instead of 'service todo'", ex.Name))
				}
				continue
			}
			// every mutation of s precedes OverrideService, which is present
			last := len(g.Order) > 0 && g.Order[len(g.Order)-1] == "OverrideService"
			note("R02.5", "service["+sk2+"]#override-last", last, "c.OverrideService(name, s) must be the last statement of the block (the runtime copies the Service value): order "+strings.Join(g.Order, ","))
			if ex.Todo {
				note("R15.1", "service[todo]#block", g.CtorKind == "todo" && len(g.Args)+len(g.Fields)+len(g.Calls)+len(g.Tags) == 0 && last,
					"a todo service registers an error constructor and nothing else")
				if g.CtorLit != nil && want["R15.1"] {
					msg := todoMessage(g)
					note("R15.1", "service[todo]#message", msg == "service todo", fmt.Sprintf("documented error text is \"service todo\", generated %q", msg))
				}
				continue
			}
			// creation method
			switch ex.Creation {
			case "ctor":
				okc := g.CtorKind == "func" && g.Ctor != nil && canonExpr(sk.fset, g.Ctor) == canonSrc(ex.Ctor)
				note("R02.5", "service["+sk2+"]#constructor", okc, fmt.Sprintf("SetConstructor's first argument must be the declared constructor %s", ex.Ctor))
			case "value":
				okv := g.CtorKind == "value" && g.CtorLit != nil
				if okv {
					ret := g.CtorLit.Body.List[0].(*ast.ReturnStmt).Results[0]
					okv = canonExpr(sk.fset, ret) == canonSrc(ex.Value)
				}
				note("R02.5", "service["+sk2+"]#value", okv, "a value service returns the declared expression "+ex.Value)
				if okv && g.CtorLit.Type.Results != nil && len(g.CtorLit.Type.Results.List) == 1 {
					wt := ex.Type
					if wt == "" {
						wt = "interface{}"
					}
					note("R02.5", "service["+sk2+"]#value-type", canonExpr(sk.fset, g.CtorLit.Type.Results.List[0].Type) == canonSrc(wt), "the value constructor's result type is the declared type "+wt)
				}
			case "type":
				okt := g.CtorKind == "type" && g.CtorLit != nil && g.CtorLit.Type.Results != nil && len(g.CtorLit.Type.Results.List) == 1 &&
					canonExpr(sk.fset, g.CtorLit.Type.Results.List[0].Type) == canonSrc(ex.Type)
				note("R02.5", "service["+sk2+"]#type-only", okt, "a type-only service returns the zero value of the declared type "+ex.Type)
			}
			// arguments, in order
			note("R02.5", fmt.Sprintf("service[%s args=%d]#arguments", sh.Creation, sh.NArgs), sameCodes(sk, g.Args, ex.Args), fmt.Sprintf("SetConstructor must receive the %d declared arguments in order", len(ex.Args)))
			// fields
			okf := len(g.Fields) == len(ex.Fields)
			for j := 0; okf && j < len(ex.Fields); j++ {
				okf = g.Fields[j].Name == ex.Fields[j].Name && canonExpr(sk.fset, g.Fields[j].Val.Expr0()) == canonSrc(ex.Fields[j].Code)
			}
			note("R02.5", fmt.Sprintf("service[%s fields=%d]#fields", sh.Creation, sh.NFields), okf, fmt.Sprintf("one SetField(name, value) per declared field (%d)", len(ex.Fields)))
			// calls
			okc := len(g.Calls) == len(ex.Calls)
			for j := 0; okc && j < len(ex.Calls); j++ {
				okc = g.Calls[j].Method == ex.Calls[j].Method && g.Calls[j].Immutable == ex.Calls[j].Immutable && sameCodes(sk, g.Calls[j].Args, ex.Calls[j].Args)
			}
			note("R02.5", fmt.Sprintf("service[%s %s]#calls", sh.Creation, calls), okc, "one AppendCall / AppendWither per declared call, withers exactly where declared, in order, with the declared arguments: "+callSummary(g.Calls, ex.Calls))
			// order: constructor, then fields, then calls
			note("R02.5", fmt.Sprintf("service[%s fields=%d %s]#phase-order", sh.Creation, sh.NFields, calls), phaseOrder(g.Order), "constructor before fields before calls: "+strings.Join(g.Order, ","))
			// tags
			okt := len(g.Tags) == len(ex.Tags)
			for j := 0; okt && j < len(ex.Tags); j++ {
				okt = g.Tags[j] == ex.Tags[j]
			}
			note("R04.3", fmt.Sprintf("service[%s tags=%d]#tags", sh.Creation, sh.NTags), okt, fmt.Sprintf("one s.Tag(name, priority) per declared tag with that argument order: generated %v, declared %v", g.Tags, ex.Tags))
			// scope
			note("R05.1", fmt.Sprintf("service[%s scope=%s]#setter", sh.Creation, constName(ex.ScopeC)), g.ScopeCall == scopeSetter(ex.ScopeC), fmt.Sprintf("scope %s must call %s, generated %q", constName(ex.ScopeC), scopeSetter(ex.ScopeC), g.ScopeCall))
		}
		// decorators: in order, after all services
		okd := len(m.Decorators) == len(sk.Decs)
		for j := 0; okd && j < len(sk.Decs); j++ {
			d := m.Decorators[j]
			okd = d.Tag == sk.Decs[j].Tag && canonExpr(sk.fset, d.Fn) == canonSrc(sk.Decs[j].Fn) && sameCodes(sk, d.Args, sk.Decs[j].Args)
			if okd && len(m.Services) > 0 {
				okd = d.Pos > m.Services[len(m.Services)-1].Pos
			}
		}
		note("R04.4", "decorators#emission", okd, fmt.Sprintf("one c.AddDecorator(tag, fn, args…) per declared decorator, in declaration order, after all services (%d declared, %d generated)", len(sk.Decs), len(m.Decorators)))
		// parameters
		okp := len(m.Params) == len(sk.Params)
		for j := 0; okp && j < len(sk.Params); j++ {
			okp = m.Params[j].Name == sk.Params[j].Name && canonExpr(sk.fset, m.Params[j].Dep.Expr0()) == canonSrc(sk.Params[j].Code)
		}
		note("R02.5", "params#emission", okp, fmt.Sprintf("one c.OverrideParam(name, code) per declared parameter, in order (%d declared, %d generated)", len(sk.Params), len(m.Params)))
	}
	var keys []string
	for k := range res {
		keys = append(keys, k)
	}
	sort.Strings(keys)
	for _, k := range keys {
		a := res[k]
		parts := strings.SplitN(k, "\x00", 2)
		if a.ok {
			r.Hold(parts[0], parts[1], fmt.Sprintf("holds in %d instantiated instances", a.n))
		} else {
			r.Violate(parts[0], parts[1], a.why, nil)
		}
	}
}

func tplabsScopeConsts(e *Env) []*types.Const {
	pk := e.P.Pkg(outputRel)
	if pk == nil {
		return nil
	}
	t := pk.Types.Scope().Lookup("Scope")
	var out []*types.Const
	for _, n := range pk.Types.Scope().Names() {
		if c, ok := pk.Types.Scope().Lookup(n).(*types.Const); ok && t != nil && types.Identical(c.Type(), t.Type()) {
			out = append(out, c)
		}
	}
	return out
}

func constName(c *types.Const) string {
	if c == nil {
		return "?"
	}
	return c.Name()
}

func todoMessage(g wiring.Service) string {
	msg := ""
	ast.Inspect(g.CtorLit, func(n ast.Node) bool {
		if bl, ok := n.(*ast.BasicLit); ok && bl.Kind == token.STRING {
			msg = strings.Trim(bl.Value, "\"`")
		}
		return true
	})
	return msg
}

func sameCodes(sk *skeleton, got []wiring.Dep, want []expArg) bool {
	if len(got) != len(want) {
		return false
	}
	for i := range got {
		if canonExpr(sk.fset, got[i].Expr0()) != canonSrc(want[i].Code) {
			return false
		}
		// the generated expression is of the intended dependency kind (the code template calls the
		// helper that is bound to the runtime constructor of that kind)
		if want[i].Kind != "" && got[i].Kind != want[i].Kind {
			return false
		}
	}
	return true
}

func callSummary(g []wiring.Call, ex []expCall) string {
	var a, b []string
	for _, c := range g {
		a = append(a, fmt.Sprintf("%s/w=%v/%d", c.Method, c.Immutable, len(c.Args)))
	}
	for _, c := range ex {
		b = append(b, fmt.Sprintf("%s/w=%v/%d", c.Method, c.Immutable, len(c.Args)))
	}
	return "generated [" + strings.Join(a, " ") + "] declared [" + strings.Join(b, " ") + "]"
}

func phaseOrder(order []string) bool {
	phase := 0
	for _, o := range order {
		p := 0
		switch o {
		case "SetConstructor":
			p = 1
		case "SetField":
			p = 2
		case "AppendCall", "AppendWither":
			p = 3
		default:
			continue
		}
		if p < phase {
			return false
		}
		phase = p
	}
	return true
}

// getterRules: R13.1 method-set contract and R13.2 pairing.
func getterRules(e *Env, sks []*skeleton) {
	r := e.R
	type agg struct {
		ok  bool
		why string
		n   int
	}
	res := map[string]*agg{}
	note := func(rule, key string, ok bool, why string) {
		k := rule + "\x00" + key
		a := res[k]
		if a == nil {
			a = &agg{ok: true}
			res[k] = a
		}
		a.n++
		if !ok && a.ok {
			a.ok, a.why = false, why
		}
	}
	ctxT := e.P.All["context"].Types.Scope().Lookup("Context").Type()
	errT := types.Universe.Lookup("error").Type()
	for _, sk := range sks {
		for _, stub := range []bool{false, true} {
			named := containerNamed(sk, stub)
			tp := sk.TPkg[stub]
			if named == nil || tp == nil {
				continue
			}
			mode := fmt.Sprintf("stub=%v", stub)
			// declared methods of the container type (not promoted ones)
			declared := map[string]*types.Func{}
			for i := 0; i < named.NumMethods(); i++ {
				declared[named.Method(i).Name()] = named.Method(i)
			}
			expected := map[string]bool{}
			for _, ex := range sk.Services {
				if ex.Getter == "" {
					continue
				}
				tk := ex.Shape.TypeForm
				wantT := lookupTypeExpr(sk, stub, ex.Type)
				check := func(name string, inCtx, must bool) {
					expected[name] = true
					key := fmt.Sprintf("getter[type=%s,must=%v,%s]#%s", tk, ex.Must, mode, strings.Replace(name, ex.Getter, "G", 1))
					f, ok := declared[name]
					if !ok {
						note("R13.1", key, false, "method is not generated")
						return
					}
					sig := f.Type().(*types.Signature)
					okSig := sig.Params().Len() == btoi(inCtx)
					if okSig && inCtx {
						okSig = types.Identical(sig.Params().At(0).Type(), ctxT)
					}
					if must {
						okSig = okSig && sig.Results().Len() == 1 && wantT != nil && types.Identical(sig.Results().At(0).Type(), wantT)
					} else {
						okSig = okSig && sig.Results().Len() == 2 && wantT != nil && types.Identical(sig.Results().At(0).Type(), wantT) && types.Identical(sig.Results().At(1).Type(), errT)
					}
					note("R13.1", key, okSig, fmt.Sprintf("signature %s does not match the declared type %s", sig, ex.Type))
				}
				check(ex.Getter, false, false)
				check(ex.Getter+"InContext", true, false)
				if ex.Must {
					check("Must"+ex.Getter, false, true)
					check("Must"+ex.Getter+"InContext", true, true)
				} else {
					for _, n := range []string{"Must" + ex.Getter, "Must" + ex.Getter + "InContext"} {
						_, has := declared[n]
						note("R13.1", fmt.Sprintf("getter[must=false,%s]#no-must-method", mode), !has, "a must-getter is generated although must_getter is false")
					}
				}
			}
			// no other exported methods
			for n := range declared {
				if strings.HasPrefix(n, "_") {
					continue
				}
				note("R13.1", "container["+mode+"]#no-extra-methods", expected[n], "method "+n+" is generated for no declared getter")
			}
			// exported package-level objects: exactly the type and the constructor
			for _, n := range tp.Scope().Names() {
				o := tp.Scope().Lookup(n)
				if !o.Exported() || strings.HasPrefix(n, "Local") || strings.HasPrefix(n, "NewLocal") {
					continue
				}
				note("R13.1", "package["+mode+"]#exported-objects", n == sk.CType || n == sk.CCtor, "unexpected exported object "+n)
			}
			cto := tp.Scope().Lookup(sk.CCtor)
			okC := false
			if f, ok := cto.(*types.Func); ok {
				sig := f.Type().(*types.Signature)
				okC = sig.Params().Len() == 0 && sig.Results().Len() == 1 && types.Identical(sig.Results().At(0).Type(), types.NewPointer(named))
			}
			note("R13.1", "package["+mode+"]#constructor", okC, fmt.Sprintf("func %s() *%s under the configured names", sk.CCtor, sk.CType))
			note("R13.1", "package["+mode+"]#package-name", sk.Files[stub] != nil && sk.Files[stub].Name.Name == sk.Pkg, "package clause uses the configured name")
		}
		// R13.2 pairing (normal mode)
		m := sk.Model[false]
		if m == nil {
			continue
		}
		byName := map[string]wiring.Getter{}
		for _, g := range m.Getters {
			byName[g.Method] = g
		}
		for _, ex := range sk.Services {
			if ex.Getter == "" {
				continue
			}
			g, ok := byName[ex.Getter]
			note("R13.2", "getter#G-calls-Get(own service)", ok && g.Calls == "Get" && g.Service == ex.Name, fmt.Sprintf("G must call c.Get(<its service's name>): calls %s(%q) for service %q", g.Calls, g.Service, ex.Name))
			g, ok = byName[ex.Getter+"InContext"]
			note("R13.2", "getter#GInContext-calls-GetInContext(ctx, own service)", ok && g.Calls == "GetInContext" && g.Service == ex.Name, fmt.Sprintf("GInContext must call c.GetInContext(ctx, <its service's name>): calls %s(%q) for service %q", g.Calls, g.Service, ex.Name))
			if ex.Must {
				g, ok = byName["Must"+ex.Getter]
				note("R13.2", "getter#MustG-calls-G", ok && g.Calls == ex.Getter, "MustG must call c.G(): calls "+g.Calls)
				g, ok = byName["Must"+ex.Getter+"InContext"]
				note("R13.2", "getter#MustGInContext-calls-GInContext", ok && g.Calls == ex.Getter+"InContext", "MustGInContext must call c.GInContext(ctx): calls "+g.Calls)
			}
		}
		getterBodies(sk, note)
	}
	var keys []string
	for k := range res {
		keys = append(keys, k)
	}
	sort.Strings(keys)
	for _, k := range keys {
		a := res[k]
		parts := strings.SplitN(k, "\x00", 2)
		if a.ok {
			r.Hold(parts[0], parts[1], fmt.Sprintf("holds in %d instantiated instances", a.n))
		} else {
			r.Violate(parts[0], parts[1], a.why, nil)
		}
	}
}

func btoi(b bool) int {
	if b {
		return 1
	}
	return 0
}

// lookupTypeExpr type-checks a type expression as written in the valuation inside the skeleton's package.
func lookupTypeExpr(sk *skeleton, stub bool, typ string) types.Type {
	tp := sk.TPkg[stub]
	f := sk.Files[stub]
	if tp == nil || f == nil {
		return nil
	}
	if typ == "" {
		typ = "interface{}"
	}
	// resolve through the file scope so that import aliases are visible
	var scope *types.Scope
	if sk.Info[stub] != nil {
		scope = sk.Info[stub].Scopes[f]
	}
	if scope == nil {
		scope = tp.Scope()
	}
	tv, err := types.Eval(sk.fset, tp, f.End()-1, typ)
	if err != nil {
		return nil
	}
	return tv.Type
}

// getterBodies: the getter converts through copier.Copy(s, &result, true) and MustG panics on error.
func getterBodies(sk *skeleton, note func(rule, key string, ok bool, why string)) {
	f := sk.Files[false]
	info := sk.Info[false]
	if f == nil || info == nil {
		return
	}
	getters := map[string]expSvc{}
	for _, ex := range sk.Services {
		if ex.Getter != "" {
			getters[ex.Getter] = ex
			getters[ex.Getter+"InContext"] = ex
		}
	}
	for _, d := range f.Decls {
		fd, ok := d.(*ast.FuncDecl)
		if !ok || fd.Recv == nil || fd.Body == nil {
			continue
		}
		name := fd.Name.Name
		if _, isG := getters[name]; isG {
			copies, retResult := false, false
			var resObj types.Object
			if fd.Type.Results != nil && len(fd.Type.Results.List) >= 1 && len(fd.Type.Results.List[0].Names) == 1 {
				resObj = info.ObjectOf(fd.Type.Results.List[0].Names[0])
			}
			ast.Inspect(fd.Body, func(n ast.Node) bool {
				call, ok := n.(*ast.CallExpr)
				if !ok {
					return true
				}
				if calleeName(load.Callee(info, call)) == load.RuntimeMod+"/copier.Copy" && len(call.Args) == 3 {
					if u, ok := ast.Unparen(call.Args[1]).(*ast.UnaryExpr); ok && u.Op == token.AND {
						if id, ok := ast.Unparen(u.X).(*ast.Ident); ok && resObj != nil && info.ObjectOf(id) == resObj {
							copies = true
						}
					}
				}
				return true
			})
			retResult = resObj != nil
			note("R13.2", "getter#converts-into-named-result", copies && retResult, name+" must convert the service into its named result with copier.Copy(s, &result, true)")
			continue
		}
		if strings.HasPrefix(name, "Must") {
			if _, isG := getters[strings.TrimPrefix(name, "Must")]; isG {
				panics := false
				ast.Inspect(fd.Body, func(n ast.Node) bool {
					if ifs, ok := n.(*ast.IfStmt); ok {
						if be, ok := ifs.Cond.(*ast.BinaryExpr); ok && be.Op == token.NEQ {
							ast.Inspect(ifs.Body, func(m ast.Node) bool {
								if c, ok := m.(*ast.CallExpr); ok {
									if id, ok := c.Fun.(*ast.Ident); ok && id.Name == "panic" {
										panics = true
									}
								}
								return true
							})
						}
					}
					return true
				})
				note("R13.2", "getter#must-panics-on-error", panics, name+" must panic when the getter returns an error")
			}
		}
	}
}

// stubRules: R17.1–R17.3.
func stubRules(e *Env, sks []*skeleton) {
	r := e.R
	type agg struct {
		ok  bool
		why string
		n   int
	}
	res := map[string]*agg{}
	note := func(rule, key string, ok bool, why string) {
		k := rule + "\x00" + key
		a := res[k]
		if a == nil {
			a = &agg{ok: true}
			res[k] = a
		}
		a.n++
		if !ok && a.ok {
			a.ok, a.why = false, why
		}
	}
	for _, sk := range sks {
		n, s := sk.TPkg[false], sk.TPkg[true]
		fn, fs := sk.Files[false], sk.Files[true]
		if n == nil || s == nil || fn == nil || fs == nil {
			if len(sk.Errs[true]) > 0 {
				note("R17.2", "stub#compiles", false, "the stub does not instantiate/parse: "+sk.Errs[true][0])
			}
			continue
		}
		note("R17.2", "stub#compiles", len(sk.Errs[true]) == 0, "the stub must compile on its own: "+strings.Join(sk.Errs[true], "; "))
		note("R17.1", "stub#package-clause", fn.Name.Name == fs.Name.Name, "package clause differs between modes")
		nn, sn := containerNamed(sk, false), containerNamed(sk, true)
		if nn == nil || sn == nil {
			note("R17.1", "stub#container-type", false, "container type missing in one mode")
			continue
		}
		note("R17.1", "stub#container-type", types.Identical(nn.Underlying(), sn.Underlying()) || structShape(nn) == structShape(sn), "the container struct differs between modes")
		// constructor
		cn, cs := n.Scope().Lookup(sk.CCtor), s.Scope().Lookup(sk.CCtor)
		note("R17.1", "stub#constructor", cn != nil && cs != nil && sigString(cn, n) == sigString(cs, s), fmt.Sprintf("constructor %s: %s vs %s", sk.CCtor, sigString(cn, n), sigString(cs, s)))
		// methods (excluding _helpers)
		nm, sm := methodSigs(nn, n), methodSigs(sn, s)
		for name, sig := range nm {
			ss, ok := sm[name]
			k := methodKind(name, sk)
			note("R17.1", "stub#method["+k+"]", ok && ss == sig, fmt.Sprintf("method %s: normal %q, stub %q", name, sig, ss))
		}
		for name := range sm {
			if _, ok := nm[name]; !ok {
				note("R17.1", "stub#no-extra-method", false, "stub declares "+name+" which the normal output does not")
			}
		}
		// R17.2: user packages only as types; bodies are panic("stub")
		info := sk.Info[true]
		for id, obj := range info.Uses {
			if obj.Pkg() == nil {
				continue
			}
			isUser := false
			for _, u := range userPkgs {
				if obj.Pkg().Path() == u {
					isUser = true
				}
			}
			if obj.Pkg() == s && (strings.HasPrefix(obj.Name(), "Local") || strings.HasPrefix(obj.Name(), "NewLocal")) && obj.Parent() == s.Scope() {
				isUser = true
			}
			if !isUser {
				continue
			}
			_, isType := obj.(*types.TypeName)
			note("R17.2", "stub#user-symbols-only-as-types", isType, fmt.Sprintf("the stub references the user %s %s.%s", objKind(obj), obj.Pkg().Name(), id.Name))
		}
		for _, d := range fs.Decls {
			fd, ok := d.(*ast.FuncDecl)
			if !ok || fd.Body == nil || fd.Name.Name == "init" {
				continue
			}
			okBody := len(fd.Body.List) == 1 && isPanicStub(fd.Body.List[0])
			note("R17.2", "stub#bodies-panic", okBody, "the body of "+fd.Name.Name+" in the stub is not the single statement panic(\"stub\")")
		}
		// R17.3 build constraint
		note("R17.3", "stub#build-constraint", hasConstraint(sk.Src[true], "gontainerstub"), "the stub must start with //go:build gontainerstub before the package clause")
		note("R17.3", "normal#no-stub-constraint", !hasConstraint(sk.Src[false], "gontainerstub"), "the normal output must not carry the stub build constraint")
	}
	var keys []string
	for k := range res {
		keys = append(keys, k)
	}
	sort.Strings(keys)
	for _, k := range keys {
		a := res[k]
		parts := strings.SplitN(k, "\x00", 2)
		if a.ok {
			r.Hold(parts[0], parts[1], fmt.Sprintf("holds in %d instantiated instances", a.n))
		} else {
			r.Violate(parts[0], parts[1], a.why, nil)
		}
	}
}

func methodKind(name string, sk *skeleton) string {
	base := strings.TrimSuffix(strings.TrimPrefix(name, "Must"), "InContext")
	for _, ex := range sk.Services {
		if ex.Getter != "" && ex.Getter == base {
			return fmt.Sprintf("%s,type=%s", strings.Replace(name, ex.Getter, "G", 1), ex.Shape.TypeForm)
		}
	}
	return name
}

// rawPrintRule: every template action that prints a value of static type interface{} (user data:
// Raw values of parameters and arguments) must end in the export function; printed raw, a newline
// or a quote in the data leaves the comment or literal it was meant to stay in.
func rawPrintRule(e *Env, b *skelBuilder, rule string) {
	var keys []string
	for k := range b.rd.Exported {
		keys = append(keys, k)
	}
	sort.Strings(keys)
	for _, k := range keys {
		e.R.Hold(rule, "template "+k, "interface{}-typed user data ("+pathClass(b.rd.Exported[k])+") is printed through export")
	}
	bad := map[string]string{}
	for _, t := range b.rd.Trace {
		if t.Value != nil && t.Value.K == tplabs.KAny {
			bad[fmt.Sprintf("template %s: action %s", t.Tree, t.Node.String())] = t.Value.Origin
		}
	}
	keys = keys[:0]
	for k := range bad {
		keys = append(keys, k)
	}
	sort.Strings(keys)
	for _, k := range keys {
		e.R.Violate(rule, k, "user data ("+pathClass(bad[k])+") is printed into the generated source without export: a newline, quote or comment terminator in it escapes its position (and only in the mode that renders this action)", nil)
	}
}

// pathClass drops indices from an origin path.
func pathClass(p string) string {
	var b strings.Builder
	depth := 0
	for _, c := range p {
		switch {
		case c == '[':
			depth++
			b.WriteString("[*")
		case c == ']':
			depth--
			b.WriteRune(c)
		case depth == 0:
			b.WriteRune(c)
		}
	}
	return b.String()
}

func objKind(o types.Object) string {
	switch o.(type) {
	case *types.Func:
		return "function"
	case *types.Var:
		return "variable"
	case *types.Const:
		return "constant"
	}
	return "object"
}

func structShape(n *types.Named) string {
	st, ok := n.Underlying().(*types.Struct)
	if !ok {
		return "?"
	}
	var s []string
	for i := 0; i < st.NumFields(); i++ {
		s = append(s, fmt.Sprintf("%s:%s:%v", st.Field(i).Name(), st.Field(i).Type(), st.Field(i).Embedded()))
	}
	return strings.Join(s, ";")
}

func qual(self *types.Package) types.Qualifier {
	return func(p *types.Package) string {
		if p == self {
			return ""
		}
		return p.Path()
	}
}

func sigString(o types.Object, self *types.Package) string {
	if o == nil {
		return "<missing>"
	}
	sig, ok := o.Type().(*types.Signature)
	if !ok {
		return "<not a func>"
	}
	return typesOnly(sig, self)
}

// typesOnly prints parameter and result types without names.
func typesOnly(sig *types.Signature, self *types.Package) string {
	var ps, rs []string
	for i := 0; i < sig.Params().Len(); i++ {
		ps = append(ps, types.TypeString(sig.Params().At(i).Type(), qual(self)))
	}
	for i := 0; i < sig.Results().Len(); i++ {
		rs = append(rs, types.TypeString(sig.Results().At(i).Type(), qual(self)))
	}
	return "(" + strings.Join(ps, ", ") + ") (" + strings.Join(rs, ", ") + ")"
}

func methodSigs(n *types.Named, self *types.Package) map[string]string {
	out := map[string]string{}
	for i := 0; i < n.NumMethods(); i++ {
		m := n.Method(i)
		if strings.HasPrefix(m.Name(), "_") {
			continue
		}
		sig := m.Type().(*types.Signature)
		recv := "(T)" // the receiver kind is part of the API: T.G exists only for value receivers, and the method set of T differs
		if rv := sig.Recv(); rv != nil {
			if _, isPtr := types.Unalias(rv.Type()).(*types.Pointer); isPtr {
				recv = "(*T)"
			}
		}
		out[m.Name()] = recv + " " + typesOnly(sig, self)
	}
	return out
}

func isPanicStub(s ast.Stmt) bool {
	es, ok := s.(*ast.ExprStmt)
	if !ok {
		return false
	}
	c, ok := es.X.(*ast.CallExpr)
	if !ok || len(c.Args) != 1 {
		return false
	}
	id, ok := c.Fun.(*ast.Ident)
	if !ok || id.Name != "panic" {
		return false
	}
	bl, ok := c.Args[0].(*ast.BasicLit)
	return ok && bl.Value == `"stub"`
}

// hasConstraint: a //go:build line before the package clause whose expression requires tag.
func hasConstraint(src, tag string) bool {
	for _, line := range strings.Split(src, "\n") {
		t := strings.TrimSpace(line)
		if strings.HasPrefix(t, "package ") {
			return false
		}
		if constraint.IsGoBuild(t) {
			ex, err := constraint.Parse(t)
			if err != nil {
				return false
			}
			with := ex.Eval(func(x string) bool { return x == tag })
			without := ex.Eval(func(x string) bool { return false })
			return with && !without
		}
	}
	return false
}

// effectRules: C20 — the generated code adds no shared mutable state.
func effectRules(e *Env, sks []*skeleton) {
	r := e.R
	type agg struct {
		ok  bool
		why string
		n   int
	}
	res := map[string]*agg{}
	note := func(rule, key string, ok bool, why string) {
		k := rule + "\x00" + key
		a := res[k]
		if a == nil {
			a = &agg{ok: true}
			res[k] = a
		}
		a.n++
		if !ok && a.ok {
			a.ok, a.why = false, why
		}
	}
	for _, sk := range sks {
		for _, stub := range []bool{false, true} {
			f, info := sk.Files[stub], sk.Info[stub]
			if f == nil || info == nil {
				continue
			}
			mode := fmt.Sprintf("stub=%v", stub)
			// no package-level variables
			for _, d := range f.Decls {
				if gd, ok := d.(*ast.GenDecl); ok && gd.Tok == token.VAR {
					for _, sp := range gd.Specs {
						for _, n := range sp.(*ast.ValueSpec).Names {
							note("R20.1", "generated["+mode+"]#no-package-variables", false, "package-level variable "+n.Name+" is shared by every container and every goroutine")
						}
					}
				}
			}
			note("R20.1", "generated["+mode+"]#no-package-variables", true, "")
			// container struct: exactly one field, the embedded runtime container
			if named := containerNamed(sk, stub); named != nil {
				st, _ := named.Underlying().(*types.Struct)
				okS := st != nil && st.NumFields() == 1 && st.Field(0).Embedded() && strings.HasSuffix(st.Field(0).Type().String(), "container.Container")
				note("R20.2", "generated["+mode+"]#struct-only-embeds-runtime", okS, "the container struct has state of its own besides the embedded *container.Container: "+structShape(named))
			}
			// assignments inside functions: only to own locals / named results
			for _, d := range f.Decls {
				fd, ok := d.(*ast.FuncDecl)
				if !ok || fd.Body == nil {
					continue
				}
				kind := "method " + fd.Name.Name
				if fd.Recv == nil {
					kind = "func " + fd.Name.Name
				}
				if strings.Contains(fd.Name.Name, "Svc") {
					kind = "getter"
				}
				checkWrites(info, fd, fd.Body, fd.Type, func(ok bool, why string) {
					note("R20.3", "generated["+mode+"]#writes-only-to-own-locals("+kind+")", ok, why)
				})
			}
		}
	}
	var keys []string
	for k := range res {
		keys = append(keys, k)
	}
	sort.Strings(keys)
	for _, k := range keys {
		a := res[k]
		parts := strings.SplitN(k, "\x00", 2)
		if a.ok {
			r.Hold(parts[0], parts[1], fmt.Sprintf("holds in %d instantiated instances", a.n))
		} else {
			r.Violate(parts[0], parts[1], a.why, nil)
		}
	}
}

// checkWrites walks a function body; every assignment / inc-dec target must be a variable declared in
// the innermost enclosing function (literal) or one of its named results. Function literals are
// checked against their own scope: a write to a captured variable is shared state between the
// goroutines that run the closure. The constructor's one-time initialisation of its own locals is allowed.
func checkWrites(info *types.Info, fd *ast.FuncDecl, body *ast.BlockStmt, ft *ast.FuncType, report func(ok bool, why string)) {
	type fnScope struct {
		from, to token.Pos
	}
	var walk func(n ast.Node, sc fnScope, inLit bool)
	own := func(obj types.Object, sc fnScope) bool {
		return obj != nil && obj.Pos() >= sc.from && obj.Pos() < sc.to
	}
	target := func(e ast.Expr, sc fnScope, inLit bool) {
		switch x := ast.Unparen(e).(type) {
		case *ast.Ident:
			if x.Name == "_" {
				return
			}
			obj := info.ObjectOf(x)
			if v, ok := obj.(*types.Var); ok && !v.IsField() && own(obj, sc) {
				report(true, "")
				return
			}
			report(false, fmt.Sprintf("%s assigns to %s, which is not a local of the function that executes the assignment", fd.Name.Name, x.Name))
		case *ast.IndexExpr, *ast.SelectorExpr, *ast.StarExpr:
			// writes through a local value are fine only if the root is an own local non-pointer variable
			root := x
			var rootExpr ast.Expr = root
			for {
				switch y := ast.Unparen(rootExpr).(type) {
				case *ast.IndexExpr:
					rootExpr = y.X
					continue
				case *ast.SelectorExpr:
					rootExpr = y.X
					continue
				case *ast.StarExpr:
					rootExpr = y.X
					continue
				}
				break
			}
			if id, ok := ast.Unparen(rootExpr).(*ast.Ident); ok {
				obj := info.ObjectOf(id)
				if v, ok := obj.(*types.Var); ok && own(obj, sc) {
					if _, isPtr := v.Type().Underlying().(*types.Pointer); !isPtr {
						if _, isMap := v.Type().Underlying().(*types.Map); !isMap {
							report(true, "")
							return
						}
					}
				}
			}
			report(false, fmt.Sprintf("%s writes through %s (receiver field, captured or shared storage)", fd.Name.Name, types.ExprString(e)))
		}
	}
	walk = func(n ast.Node, sc fnScope, inLit bool) {
		ast.Inspect(n, func(m ast.Node) bool {
			switch x := m.(type) {
			case *ast.FuncLit:
				walk(x.Body, fnScope{x.Pos(), x.End()}, true)
				return false
			case *ast.AssignStmt:
				if x.Tok == token.DEFINE {
					return true
				}
				for _, l := range x.Lhs {
					target(l, sc, inLit)
				}
			case *ast.IncDecStmt:
				target(x.X, sc, inLit)
			case *ast.GoStmt:
				report(false, fd.Name.Name+" starts a goroutine")
			}
			return true
		})
	}
	walk(body, fnScope{fd.Pos(), fd.End()}, false)
}

// lazinessRules: R15.2 — nothing user-supplied is evaluated while the container is constructed.
func lazinessRules(e *Env, sks []*skeleton) {
	r := e.R
	okAll, n := true, 0
	why := ""
	allowedHelpers := map[string]bool{"service": true, "value": true, "tag": true, "provider": true, "newService": true}
	for _, sk := range sks {
		m := sk.Model[false]
		f, info := sk.Files[false], sk.Info[false]
		if m == nil || f == nil {
			continue
		}
		var visit func(n ast.Node)
		visit = func(nd ast.Node) {
			ast.Inspect(nd, func(x ast.Node) bool {
				switch c := x.(type) {
				case *ast.FuncLit:
					return false // evaluated later, by the runtime
				case *ast.CallExpr:
					n++
					ok := false
					switch fun := ast.Unparen(c.Fun).(type) {
					case *ast.Ident:
						if k, isHelper := m.Helpers[info.ObjectOf(fun)]; isHelper && allowedHelpers[k] {
							ok = true
						}
						if tv, isT := info.Types[c.Fun]; isT && tv.IsType() {
							ok = true // conversion such as int(5)
						}
					case *ast.SelectorExpr:
						if sel, isSel := info.Selections[fun]; isSel {
							recv := sel.Recv().String()
							if strings.HasSuffix(recv, "container.Service") || strings.HasSuffix(recv, "container.Container") || strings.HasSuffix(recv, "."+sk.CType) {
								ok = true
							}
						} else if o := info.ObjectOf(fun.Sel); o != nil && o.Pkg() != nil && o.Pkg().Path() == load.RuntimeMod+"/container" && o.Name() == "New" {
							ok = true
						}
					}
					if !ok && okAll {
						okAll = false
						why = "the constructor evaluates " + types.ExprString(c.Fun) + "(…) while the container is being built"
					}
				}
				return true
			})
		}
		visit(m.Ctor.Body)
	}
	if n == 0 {
		r.Undecide("R15.2", "constructor#laziness", "no constructor call expressions analysed")
		return
	}
	if okAll {
		r.Hold("R15.2", "constructor#only-registration-calls-outside-closures", fmt.Sprintf("%d call expressions outside function literals, all of them registration calls of the runtime; user functions, getParam, env helpers and callProvider occur only inside function literals", n))
	} else {
		r.Violate("R15.2", "constructor#only-registration-calls-outside-closures", why, nil)
	}
}
