package rules

import (
	"fmt"
	"go/ast"
	"go/parser"
	"regexp"
	"sort"
	"strconv"
	"strings"

	"gverif/internal/wiring"

	"golang.org/x/tools/go/ssa"
)

// sampleFor: a representative Go text for a hole of a code shape.
func sampleFor(sym string) string {
	switch {
	case sym == "group:params":
		return `1, "a"`
	case strings.HasPrefix(sym, "alias("):
		return "i0_pkg"
	case strings.HasPrefix(sym, "export("), strings.HasPrefix(sym, "quoted("):
		return `"x"`
	case sym == "formatted":
		return "0"
	}
	return "f"
}

// c03Shapes (R03.7): engine F on the token factories. Every path of Create emits, whatever the (valid)
// input, a Go function literal: the shape with representative texts in its holes parses as *ast.FuncLit.
// For the function token, the call handed to callProvider has the function as first argument and the
// user's arguments after it (none when the token has none).
func c03Shapes(e *Env, rule string) {
	r := e.R
	for _, tn := range []string{"FactoryFunction", "FactoryReference", "FactoryString", "FactoryPercentMark"} {
		key := tokenRel + "." + tn + ".Create#emitted-shape"
		fn := e.P.Func(tokenRel, tn+".Create")
		if fn == nil {
			r.Undecide(rule, key, "anchor not found")
			continue
		}
		paths := symShapes(e, fn, "Code")
		if len(paths) == 0 {
			r.Undecide(rule, key, "no code path found")
			continue
		}
		for _, p := range paths {
			k := key + "[" + p.key() + "]"
			if !p.ok {
				r.Undecide(rule, k, "the emitted text could not be followed: "+p.why)
				continue
			}
			src := renderAtoms(p.code, sampleFor)
			x, err := parser.ParseExpr(src)
			_, isLit := x.(*ast.FuncLit)
			if err != nil || !isLit {
				r.Violate(rule, k, fmt.Sprintf("the emitted provider is not a Go function literal for this kind of input (shape %s): %v", shapeString(p.code), err), nil)
				continue
			}
			if tn == "FactoryFunction" {
				nargs := -1
				ast.Inspect(x, func(n ast.Node) bool {
					if c, ok := n.(*ast.CallExpr); ok {
						if id, ok := c.Fun.(*ast.Ident); ok && id.Name == "callProvider" {
							nargs = len(c.Args)
						}
					}
					return true
				})
				want := 1
				if ne, decided := p.assume["group:params"]; !decided || ne {
					want = 3
				}
				r.Check(nargs == want, rule, k, fmt.Sprintf("callProvider receives the function and then exactly the token's arguments (%d arguments for the sample, expected %d; shape %s)", nargs, want, shapeString(p.code)))
				continue
			}
			r.Hold(rule, k, "emits a function literal: "+shapeString(p.code))
		}
	}
}

// c19Fragments (R19.4): the `// GO:` line the checked-in file shows for every parameter that is a single
// function token is what FactoryFunction.Create (as it is now) emits for that token, wrapped by the
// single-token template: translation validation of the compile layer against the generated file.
func c19Fragments(e *Env) {
	r := e.R
	gm, _, ok := e.models()
	if !ok {
		return
	}
	fn := e.P.Func(tokenRel, "FactoryFunction.Create")
	wrap, okW := e.P.ConstString("internal/pkg/consts", "TplDependencyProvider")
	if fn == nil || !okW {
		r.Undecide("R19.4", tokenRel+".FactoryFunction.Create", "anchor not found")
		return
	}
	paths := symShapes(e, fn, "Code")
	builtins := builtinFuncs(e)
	// GO: lines of the parameter comment block
	code, rawOf := map[string]string{}, map[string]string{}
	section, cur := "", ""
	for _, cg := range gm.File.Comments {
		for _, c := range cg.List {
			t := strings.TrimPrefix(c.Text, "//")
			switch {
			case strings.Contains(t, "·PARAMS·"):
				section = "params"
			case strings.Contains(t, "·SERVICES·"):
				section = "services"
			case strings.HasPrefix(t, " #### "):
				cur = strings.TrimPrefix(t, " #### ")
			case section == "params" && strings.HasPrefix(t, " GO:  "):
				code[cur] = strings.TrimPrefix(t, " GO:  ")
			case section == "params" && strings.HasPrefix(t, " Raw: "):
				rawOf[cur] = strings.TrimPrefix(t, " Raw: ")
			}
		}
	}
	reFn := regexp.MustCompile(`^%([A-Za-z0-9_.]+)\((.*)\)%$`)
	n := 0
	for _, p := range gm.Params {
		raw, isStr := unexport(rawOf[p.Name])
		s, _ := raw.(string)
		m := reFn.FindStringSubmatch(s)
		if !isStr || m == nil {
			continue
		}
		goFn, known := builtins[m[1]]
		if !known {
			continue // a user function: its Go name comes from meta.functions (not used by the self config)
		}
		n++
		key := selfRel + "#param:" + p.Name + "#GO-line"
		want := map[string]bool{"group:params": m[2] != "", "field:goImport": false}
		var shape []atom
		found := false
		for _, pa := range paths {
			if !pa.ok {
				continue
			}
			match := true
			for k, v := range want {
				if got, decided := pa.assume[k]; decided && got != v {
					match = false
				}
			}
			if match {
				shape, found = pa.code, true
			}
		}
		if !found {
			r.Undecide("R19.4", key, "no decided path of FactoryFunction.Create for this token")
			continue
		}
		var rx strings.Builder
		rx.WriteString("^")
		parts := strings.SplitN(wrap, "%s", 2)
		rx.WriteString(regexp.QuoteMeta(parts[0]))
		for _, a := range shape {
			switch {
			case a.sym == "":
				rx.WriteString(regexp.QuoteMeta(a.lit))
			case a.sym == "field:goFn":
				rx.WriteString(regexp.QuoteMeta(goFn))
			case a.sym == "group:params":
				rx.WriteString(regexp.QuoteMeta(m[2]))
			case strings.HasPrefix(a.sym, "alias("):
				rx.WriteString(`[A-Za-z0-9_]+`)
			default:
				rx.WriteString(`.+?`)
			}
		}
		if len(parts) == 2 {
			rx.WriteString(regexp.QuoteMeta(parts[1]))
		}
		rx.WriteString("$")
		re, err := regexp.Compile(rx.String())
		if err != nil {
			r.Undecide("R19.4", key, "expected text not computable: "+err.Error())
			continue
		}
		r.Check(re.MatchString(code[p.Name]), "R19.4", key, fmt.Sprintf("the GO: line of the checked-in file is what the token factory emits today for %s (shape %s)", s, shapeString(shape)))
	}
	if n == 0 {
		r.Hold("R19.4", selfRel+"#no-function-parameters", "the self configuration has no single-function-token parameter")
	}
}

var _ = ssa.Value(nil)

// c19AliasScheme (R19.5): every import alias of the checked-in gontainer.go is a name today's
// imports.Alias can produce (membership in the regular language of the expression that builds the name),
// and its last part is the sanitised last path segment. A change of the numbering scheme (decimal,
// upper-case hex, another prefix) renames the aliases of the regenerated file.
func c19AliasScheme(e *Env, gm *wiring.GoModel) {
	r := e.R
	key := importsRel + ".imports.Alias#scheme"
	fn := e.P.Func(importsRel, "imports.Alias")
	if fn == nil || gm == nil || gm.File == nil {
		r.Undecide("R19.5", key, "anchor not found")
		return
	}
	pat := ""
	for _, blk := range fn.Blocks {
		for _, ins := range blk.Instrs {
			if mu, ok := ins.(*ssa.MapUpdate); ok {
				ctx := &strLangCtx{kept: "[A-Za-z0-9]", reads: map[string]bool{}, exact: true}
				pat = ctx.lang(mu.Value, 0)
			}
		}
	}
	if pat == "" {
		r.Undecide("R19.5", key, "the expression that builds the stored name was not found")
		return
	}
	re, err := regexp.Compile(`\A(?:` + pat + `)\z`)
	if err != nil {
		r.Undecide("R19.5", key, "language of the name not computable: "+err.Error())
		return
	}
	n, bad := 0, ""
	for _, imp := range gm.File.Imports {
		if imp.Name == nil || imp.Name.Name == "_" || imp.Name.Name == "." {
			continue
		}
		n++
		if !re.MatchString(imp.Name.Name) && bad == "" {
			bad = imp.Name.Name
		}
	}
	r.Analysed["shipped_import_aliases"] = n
	if n == 0 {
		r.Undecide("R19.5", key, "the checked-in file has no aliased import")
		return
	}
	// the numerals: the n aliases of the file carry exactly the first n numerals of today's numbering
	base, upper := int64(0), false
	for _, uf := range unitFns(fn, 1) {
		allInstrs(uf, func(_ *ssa.Function, ins ssa.Instruction) {
			c, ok := ins.(*ssa.Call)
			if !ok {
				return
			}
			switch callName(&c.Call) {
			case "strconv.FormatInt", "strconv.FormatUint":
				if b, ok := constInt(c.Call.Args[1]); ok {
					base = b
				}
			case "strconv.Itoa":
				base = 10
			case "fmt.Sprintf":
				if f, ok := constString(c.Call.Args[0]); ok {
					vals := varargs(c.Call.Args[1])
					ai := 0
					for i := 0; i+1 < len(f); i++ {
						if f[i] != '%' {
							continue
						}
						i++
						if f[i] == '%' {
							continue
						}
						if ai < len(vals) && isIntegerValue(vals[ai]) {
							switch f[i] {
							case 'd', 'v':
								base = 10
							case 'x':
								base = 16
							case 'X':
								base, upper = 16, true
							case 'o':
								base = 8
							case 'b':
								base = 2
							}
						}
						ai++
					}
				}
			}
		})
	}
	if base >= 2 && base <= 36 {
		var want, got []string
		for k := 0; k < n; k++ {
			w := strconv.FormatInt(int64(k), int(base))
			if upper {
				w = strings.ToUpper(w)
			}
			want = append(want, w)
		}
		num := regexp.MustCompile(`^i([0-9A-Za-z]+)_`)
		for _, imp := range gm.File.Imports {
			if imp.Name == nil {
				continue
			}
			if m := num.FindStringSubmatch(imp.Name.Name); m != nil {
				got = append(got, m[1])
			}
		}
		sort.Strings(want)
		sort.Strings(got)
		r.Check(strings.Join(want, ",") == strings.Join(got, ","), "R19.5", key+"#numerals", fmt.Sprintf("the %d aliases of the checked-in file carry exactly the first %d numerals of today's numbering (base %d): file has [%s], the generator would number [%s]", n, n, base, strings.Join(got, " "), strings.Join(want, " ")), e.P.Pos(fn.Pos()))
	} else {
		r.Undecide("R19.5", key+"#numerals", "the numbering of the aliases (strconv.FormatInt / Itoa / an integer verb) was not found in imports.Alias")
	}
	r.Check(bad == "", "R19.5", key, fmt.Sprintf("all %d import aliases of the checked-in file belong to the language of names imports.Alias builds today (%s); first that does not: %q", n, pat, bad), e.P.Pos(fn.Pos()))
}
