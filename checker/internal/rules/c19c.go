package rules

import (
	"fmt"
	"go/ast"
	"go/parser"
	"regexp"
	"strings"

	"golang.org/x/tools/go/ssa"
)

// sampleFor: a representative Go text for a hole of a code shape.
func sampleFor(sym string) string {
	switch {
	case sym == "group:params":
		return `1, "a"`
	case strings.HasPrefix(sym, "alias("):
		return "i0_pkg"
	case strings.HasPrefix(sym, "export("), strings.HasPrefix(sym, "quoted("):
		return `"x"`
	case sym == "formatted":
		return "0"
	}
	return "f"
}

// c03Shapes (R03.7): engine F on the token factories. Every path of Create emits, whatever the (valid)
// input, a Go function literal: the shape with representative texts in its holes parses as *ast.FuncLit.
// For the function token, the call handed to callProvider has the function as first argument and the
// user's arguments after it (none when the token has none).
func c03Shapes(e *Env, rule string) {
	r := e.R
	for _, tn := range []string{"FactoryFunction", "FactoryReference", "FactoryString", "FactoryPercentMark"} {
		key := tokenRel + "." + tn + ".Create#emitted-shape"
		fn := e.P.Func(tokenRel, tn+".Create")
		if fn == nil {
			r.Undecide(rule, key, "anchor not found")
			continue
		}
		paths := symShapes(e, fn, "Code")
		if len(paths) == 0 {
			r.Undecide(rule, key, "no code path found")
			continue
		}
		for _, p := range paths {
			k := key + "[" + p.key() + "]"
			if !p.ok {
				r.Undecide(rule, k, "the emitted text could not be followed: "+p.why)
				continue
			}
			src := renderAtoms(p.code, sampleFor)
			x, err := parser.ParseExpr(src)
			_, isLit := x.(*ast.FuncLit)
			if err != nil || !isLit {
				r.Violate(rule, k, fmt.Sprintf("the emitted provider is not a Go function literal for this kind of input (shape %s): %v", shapeString(p.code), err), nil)
				continue
			}
			if tn == "FactoryFunction" {
				nargs := -1
				ast.Inspect(x, func(n ast.Node) bool {
					if c, ok := n.(*ast.CallExpr); ok {
						if id, ok := c.Fun.(*ast.Ident); ok && id.Name == "callProvider" {
							nargs = len(c.Args)
						}
					}
					return true
				})
				want := 1
				if ne, decided := p.assume["group:params"]; !decided || ne {
					want = 3
				}
				r.Check(nargs == want, rule, k, fmt.Sprintf("callProvider receives the function and then exactly the token's arguments (%d arguments for the sample, expected %d; shape %s)", nargs, want, shapeString(p.code)))
				continue
			}
			r.Hold(rule, k, "emits a function literal: "+shapeString(p.code))
		}
	}
}

// c19Fragments (R19.4): the `// GO:` line the checked-in file shows for every parameter that is a single
// function token is what FactoryFunction.Create (as it is now) emits for that token, wrapped by the
// single-token template: translation validation of the compile layer against the generated file.
func c19Fragments(e *Env) {
	r := e.R
	gm, _, ok := e.models()
	if !ok {
		return
	}
	fn := e.P.Func(tokenRel, "FactoryFunction.Create")
	wrap, okW := e.P.ConstString("internal/pkg/consts", "TplDependencyProvider")
	if fn == nil || !okW {
		r.Undecide("R19.4", tokenRel+".FactoryFunction.Create", "anchor not found")
		return
	}
	paths := symShapes(e, fn, "Code")
	builtins := builtinFuncs(e)
	// GO: lines of the parameter comment block
	code, rawOf := map[string]string{}, map[string]string{}
	section, cur := "", ""
	for _, cg := range gm.File.Comments {
		for _, c := range cg.List {
			t := strings.TrimPrefix(c.Text, "//")
			switch {
			case strings.Contains(t, "·PARAMS·"):
				section = "params"
			case strings.Contains(t, "·SERVICES·"):
				section = "services"
			case strings.HasPrefix(t, " #### "):
				cur = strings.TrimPrefix(t, " #### ")
			case section == "params" && strings.HasPrefix(t, " GO:  "):
				code[cur] = strings.TrimPrefix(t, " GO:  ")
			case section == "params" && strings.HasPrefix(t, " Raw: "):
				rawOf[cur] = strings.TrimPrefix(t, " Raw: ")
			}
		}
	}
	reFn := regexp.MustCompile(`^%([A-Za-z0-9_.]+)\((.*)\)%$`)
	n := 0
	for _, p := range gm.Params {
		raw, isStr := unexport(rawOf[p.Name])
		s, _ := raw.(string)
		m := reFn.FindStringSubmatch(s)
		if !isStr || m == nil {
			continue
		}
		goFn, known := builtins[m[1]]
		if !known {
			continue // a user function: its Go name comes from meta.functions (not used by the self config)
		}
		n++
		key := selfRel + "#param:" + p.Name + "#GO-line"
		want := map[string]bool{"group:params": m[2] != "", "field:goImport": false}
		var shape []atom
		found := false
		for _, pa := range paths {
			if !pa.ok {
				continue
			}
			match := true
			for k, v := range want {
				if got, decided := pa.assume[k]; decided && got != v {
					match = false
				}
			}
			if match {
				shape, found = pa.code, true
			}
		}
		if !found {
			r.Undecide("R19.4", key, "no decided path of FactoryFunction.Create for this token")
			continue
		}
		var rx strings.Builder
		rx.WriteString("^")
		parts := strings.SplitN(wrap, "%s", 2)
		rx.WriteString(regexp.QuoteMeta(parts[0]))
		for _, a := range shape {
			switch {
			case a.sym == "":
				rx.WriteString(regexp.QuoteMeta(a.lit))
			case a.sym == "field:goFn":
				rx.WriteString(regexp.QuoteMeta(goFn))
			case a.sym == "group:params":
				rx.WriteString(regexp.QuoteMeta(m[2]))
			case strings.HasPrefix(a.sym, "alias("):
				rx.WriteString(`[A-Za-z0-9_]+`)
			default:
				rx.WriteString(`.+?`)
			}
		}
		if len(parts) == 2 {
			rx.WriteString(regexp.QuoteMeta(parts[1]))
		}
		rx.WriteString("$")
		re, err := regexp.Compile(rx.String())
		if err != nil {
			r.Undecide("R19.4", key, "expected text not computable: "+err.Error())
			continue
		}
		r.Check(re.MatchString(code[p.Name]), "R19.4", key, fmt.Sprintf("the GO: line of the checked-in file is what the token factory emits today for %s (shape %s)", s, shapeString(shape)))
	}
	if n == 0 {
		r.Hold("R19.4", selfRel+"#no-function-parameters", "the self configuration has no single-function-token parameter")
	}
}

var _ = ssa.Value(nil)
