package rules

import (
	"bytes"
	"fmt"
	"go/ast"
	"go/parser"
	"go/printer"
	"go/token"
	"go/types"
	"math/rand"
	"os"
	"sort"
	"strings"
	"sync"

	"gverif/internal/load"
	"gverif/internal/tplabs"
	"gverif/internal/wiring"

	"golang.org/x/tools/go/packages"
)

// ---------- fixture user universe (every symbol a configuration may name exists) ----------

const userSrcTpl = `package pkg

type T struct{ F1, F2 interface{} }

func (t *T) SetA(a ...interface{})        {}
func (t *T) WithA(a ...interface{}) *T    { return t }

type I interface{ M() }

func NewT(a ...interface{}) *T            { return &T{} }
func NewTErr(a ...interface{}) (*T, error) { return &T{}, nil }

var V T
var PV = &T{}

func Decorate(a ...interface{}) interface{}        { return nil }
func Fn(a ...interface{}) (interface{}, error)     { return nil, nil }
`

const localSrcTpl = `package %s

type LocalT struct{ F1, F2 interface{} }

func NewLocalT(a ...interface{}) *LocalT { return &LocalT{} }

var LocalV LocalT

func LocalDecorate(a ...interface{}) interface{}    { return nil }
func LocalFn(a ...interface{}) (interface{}, error) { return nil, nil }
`

var userPkgs = []string{"example.com/app/pkg", "example.com/other/pkg"}

type skelImporter struct {
	p    *load.Program
	fset *token.FileSet
	mu   sync.Mutex
	user map[string]*types.Package
}

func (im *skelImporter) Import(path string) (*types.Package, error) {
	if path == "unsafe" {
		return types.Unsafe, nil
	}
	if pk, ok := im.p.All[path]; ok && pk.Types != nil {
		return pk.Types, nil
	}
	im.mu.Lock()
	defer im.mu.Unlock()
	if t, ok := im.user[path]; ok {
		return t, nil
	}
	for _, u := range userPkgs {
		if u == path {
			f, err := parser.ParseFile(im.fset, path+"/pkg.go", userSrcTpl, 0)
			if err != nil {
				return nil, err
			}
			conf := types.Config{Importer: im}
			t, err := conf.Check(path, im.fset, []*ast.File{f}, nil)
			if err != nil {
				return nil, err
			}
			im.user[path] = t
			return t, nil
		}
	}
	return nil, fmt.Errorf("package %q is not part of the fixture universe (runtime, std and user fixtures)", path)
}

// ---------- code fragments, built from the repository's own constants ----------

type frags struct {
	svc, tag, val, prov, concat, getParam, tokProv string
	gontainerVal, gontainerID                      string
	funcBody                                       string // format of the function-token body: (call, fmt alias, message)
	builtins                                       map[string]string
	ok                                             bool
}

func readFrags(e *Env) *frags {
	f := &frags{ok: true}
	get := func(rel, name string) string {
		s, ok := e.P.ConstString(rel, name)
		if !ok {
			e.R.Undecide("T", rel+"."+name, "code-template constant not found")
			f.ok = false
		}
		return s
	}
	c := "internal/pkg/consts"
	f.svc, f.tag, f.val = get(c, "TplDependencyService"), get(c, "TplDependencyTag"), get(c, "TplDependencyValue")
	f.prov, f.concat = get(c, "TplDependencyProvider"), get(c, "TplDependencyConcatenateChunks")
	f.getParam, f.tokProv = get(c, "TplTokenGetParam"), get(c, "TplTokenProvider")
	f.gontainerVal, f.gontainerID = get(c, "SpecialGontainerValue"), get(c, "SpecialGontainerID")
	f.builtins = builtinFuncs(e)
	f.funcBody = funcTokenBodyFormat(e)
	if f.funcBody == "" {
		e.R.Undecide("T", "internal/pkg/token.FactoryFunction.Create#body-format", "the format of the function-token body could not be located (a constant format passed to fmt.Sprintf whose result is wrapped by TplTokenProvider)")
		f.ok = false
	}
	return f
}

// funcTokenBodyFormat finds, in FactoryFunction.Create, the constant format of the value that is
// finally wrapped by fmt.Sprintf(consts.TplTokenProvider, body).
func funcTokenBodyFormat(e *Env) string {
	fd, pk := e.P.Decl("internal/pkg/token", "FactoryFunction.Create")
	if fd == nil {
		return ""
	}
	info := pk.TypesInfo
	tokProv, _ := e.P.ConstString("internal/pkg/consts", "TplTokenProvider")
	var bodyObj types.Object
	ast.Inspect(fd.Body, func(n ast.Node) bool {
		call, ok := n.(*ast.CallExpr)
		if !ok || calleeName(load.Callee(info, call)) != "fmt.Sprintf" || len(call.Args) != 2 {
			return true
		}
		if s, ok := load.StringOf(info, call.Args[0]); ok && s == tokProv {
			if id, ok := ast.Unparen(call.Args[1]).(*ast.Ident); ok {
				bodyObj = info.ObjectOf(id)
			}
		}
		return true
	})
	if bodyObj == nil {
		return ""
	}
	out := ""
	ast.Inspect(fd.Body, func(n ast.Node) bool {
		as, ok := n.(*ast.AssignStmt)
		if !ok || len(as.Lhs) != 1 || len(as.Rhs) != 1 {
			return true
		}
		if id, ok := as.Lhs[0].(*ast.Ident); ok && info.ObjectOf(id) == bodyObj {
			if call, ok := ast.Unparen(as.Rhs[0]).(*ast.CallExpr); ok && calleeName(load.Callee(info, call)) == "fmt.Sprintf" && len(call.Args) == 4 {
				out, _ = load.StringOf(info, call.Args[0])
			}
		}
		return true
	})
	return out
}

func (f *frags) service(name string) string { return fmt.Sprintf(f.svc, name) }
func (f *frags) tagged(name string) string  { return fmt.Sprintf(f.tag, name) }
func (f *frags) value(code string) string   { return fmt.Sprintf(f.val, code) }
func (f *frags) tokParam(p string) string   { return fmt.Sprintf(f.getParam, p) }
func (f *frags) tokString(s string) string {
	q, _ := tplabs.ExportAny(s)
	return fmt.Sprintf(f.tokProv, fmt.Sprintf("return %s, nil", q))
}
func (f *frags) tokPercent() string { return fmt.Sprintf(f.tokProv, `return "%", nil`) }
func (f *frags) tokFunc(al tplabs.Aliaser, goFn, params, raw string) string {
	call := "callProvider(" + goFn
	if params != "" {
		call += ", " + params
	}
	call += ")"
	msg, _ := tplabs.ExportAny("cannot execute " + raw)
	return fmt.Sprintf(f.tokProv, fmt.Sprintf(f.funcBody, call, al.Alias("fmt"), msg))
}
func (f *frags) single(tok string) string { return fmt.Sprintf(f.prov, tok) }
func (f *frags) multi(toks ...string) string {
	return fmt.Sprintf(f.concat, strings.Join(toks, ", "))
}

// ---------- shapes ----------

type callShape struct {
	Immutable bool
	NArgs     int
}

type svcShape struct {
	Todo     bool
	Creation string // ctor | value | type
	NArgs    int
	TypeForm string // iface | ptr | struct | niface | localptr | ptrlit | structlit
	Getter   bool
	Must     bool
	NFields  int
	Calls    []callShape
	NTags    int
	Scope    int
}

func (s svcShape) String() string {
	if s.Todo {
		return "todo"
	}
	var cs []string
	for _, c := range s.Calls {
		k := "call"
		if c.Immutable {
			k = "wither"
		}
		cs = append(cs, fmt.Sprintf("%s/%d", k, c.NArgs))
	}
	return fmt.Sprintf("%s/%s args=%d getter=%v must=%v fields=%d calls=[%s] tags=%d scope#%d", s.Creation, s.TypeForm, s.NArgs, s.Getter, s.Must, s.NFields, strings.Join(cs, " "), s.NTags, s.Scope)
}

type creaT struct {
	c, t string
	n    int
}

func shapeDims(nScopes int) ([]creaT, [][2]bool, []int, [][]callShape, []int, []int) {
	var crea []creaT
	for _, t := range []string{"iface", "ptr", "struct", "niface", "localptr"} {
		for _, n := range []int{0, 1, 3} {
			crea = append(crea, creaT{"ctor", t, n})
		}
	}
	for _, t := range []string{"iface", "ptr", "struct", "structlit", "ptrlit"} {
		crea = append(crea, creaT{"value", t, 0})
	}
	for _, t := range []string{"ptr", "struct", "niface", "iface"} {
		crea = append(crea, creaT{"type", t, 0})
	}
	getters := [][2]bool{{false, false}, {true, false}, {true, true}}
	fields := []int{0, 1, 2}
	calls := [][]callShape{nil, {{false, 1}}, {{true, 0}}, {{false, 2}, {true, 1}}, {{true, 1}, {false, 0}}, {{true, 0}, {true, 2}, {false, 1}}}
	tags := []int{0, 1, 2}
	var scopes []int
	for i := 0; i < nScopes; i++ {
		scopes = append(scopes, i)
	}
	return crea, getters, fields, calls, tags, scopes
}

func allShapes(nScopes int) []svcShape {
	crea, getters, fields, calls, tags, scopes := shapeDims(nScopes)
	var out []svcShape
	for _, c := range crea {
		for _, g := range getters {
			for _, f := range fields {
				for _, cl := range calls {
					for _, t := range tags {
						for _, sc := range scopes {
							out = append(out, svcShape{Creation: c.c, TypeForm: c.t, NArgs: c.n, Getter: g[0], Must: g[1], NFields: f, Calls: cl, NTags: t, Scope: sc})
						}
					}
				}
			}
		}
	}
	return out
}

// pairwiseShapes picks a deterministic subset covering every pair of dimension values.
func pairwiseShapes(nScopes int) []svcShape {
	crea, getters, fields, calls, tags, scopes := shapeDims(nScopes)
	sizes := []int{len(crea), len(getters), len(fields), len(calls), len(tags), len(scopes)}
	type pair struct{ d1, v1, d2, v2 int }
	uncovered := map[pair]bool{}
	for i := 0; i < len(sizes); i++ {
		for j := i + 1; j < len(sizes); j++ {
			for a := 0; a < sizes[i]; a++ {
				for b := 0; b < sizes[j]; b++ {
					uncovered[pair{i, a, j, b}] = true
				}
			}
		}
	}
	rng := rand.New(rand.NewSource(1))
	var picks [][]int
	for len(uncovered) > 0 {
		var best []int
		bestN := -1
		for try := 0; try < 200; try++ {
			c := make([]int, len(sizes))
			for d := range c {
				c[d] = rng.Intn(sizes[d])
			}
			n := 0
			for i := 0; i < len(sizes); i++ {
				for j := i + 1; j < len(sizes); j++ {
					if uncovered[pair{i, c[i], j, c[j]}] {
						n++
					}
				}
			}
			if n > bestN {
				best, bestN = c, n
			}
		}
		if bestN <= 0 {
			// finish the stragglers directly
			for p := range uncovered {
				c := make([]int, len(sizes))
				c[p.d1], c[p.d2] = p.v1, p.v2
				best = c
				break
			}
		}
		for i := 0; i < len(sizes); i++ {
			for j := i + 1; j < len(sizes); j++ {
				delete(uncovered, pair{i, best[i], j, best[j]})
			}
		}
		picks = append(picks, best)
	}
	var out []svcShape
	for _, c := range picks {
		out = append(out, svcShape{Creation: crea[c[0]].c, TypeForm: crea[c[0]].t, NArgs: crea[c[0]].n, Getter: getters[c[1]][0], Must: getters[c[1]][1],
			NFields: fields[c[2]], Calls: calls[c[3]], NTags: tags[c[4]], Scope: scopes[c[5]]})
	}
	return out
}

// ---------- expectations (what the valuation declares) ----------

type expArg struct {
	Code string
	Kind string // expected dependency kind as the wiring parser classifies the generated expression
}
type expCall struct {
	Method    string
	Immutable bool
	Args      []expArg
}
type expSvc struct {
	Shape    svcShape
	Name     string
	Getter   string
	Must     bool
	Type     string
	Ctor     string
	Value    string
	Args     []expArg
	Fields   []struct{ Name, Code string }
	Calls    []expCall
	Tags     []wiring.Tag
	ScopeC   *types.Const
	Todo     bool
	Creation string
}
type expDec struct {
	Tag, Fn string
	Args    []expArg
}
type expParam struct{ Name, Code string }

type skeleton struct {
	ID       string
	Src      map[bool]string // stub -> source
	Services []expSvc
	Decs     []expDec
	Params   []expParam
	Pkg      string
	CType    string
	CCtor    string
	// results of type-checking
	Files map[bool]*ast.File
	Info  map[bool]*types.Info
	TPkg  map[bool]*types.Package
	Errs  map[bool][]string
	Model map[bool]*wiring.GoModel
	fset  *token.FileSet
}

type skelBuilder struct {
	e        *Env
	te       *tplabs.Env
	rd       *tplabs.Renderer
	fr       *frags
	scopes   []*types.Const
	argSeq   int
	marker   int
	imp      *skelImporter
	fset     *token.FileSet
	allArgs  map[string]int
	lastKind string
}

func newSkelBuilder(e *Env) *skelBuilder {
	te := tplabs.NewEnv(e.P)
	for _, p := range te.Problems {
		e.R.Undecide("T", "template-environment", p)
	}
	fset := token.NewFileSet()
	rd := te.NewRenderer()
	rd.KeepTrace = true
	b := &skelBuilder{e: e, te: te, rd: rd, fr: readFrags(e), fset: fset, allArgs: map[string]int{},
		imp: &skelImporter{p: e.P, fset: fset, user: map[string]*types.Package{}}}
	b.scopes = te.ConstsOf("internal/pkg/output", "Scope")
	if len(b.scopes) < 4 {
		e.R.Undecide("T", "internal/pkg/output.Scope", fmt.Sprintf("%d scope constants found, expected at least 4", len(b.scopes)))
	}
	e.R.Analysed["template_files"] = append(append([]string{}, te.Body.Files...), te.Head.Files...)
	e.R.Analysed["template_actions"] = te.Actions
	e.R.Analysed["funcmap_entries"] = len(te.Funcs)
	if len(te.Body.Files)+len(te.Head.Files) < 6 {
		e.R.Undecide("T", "templates", "fewer than the 6 template files confirmed by hand were found")
	}
	return b
}

// nextArg returns the code and raw value of the next argument form (round robin over all forms).
// formKinds: the dependency kind each argument form must be parsed back as (index = form number).
var formKinds = []string{"value", "service", "tag", "value", "value", "value", "value", "value", "container", "param", "string", "string", "concat", "func", "func", "func", "func", "value", "value", "value", "value"}

func (b *skelBuilder) nextArg(al tplabs.Aliaser, svcNames []string) (code string, raw any) {
	f := b.fr
	b.argSeq++
	b.marker++
	u := userPkgs[b.argSeq%2]
	forms := []func() (string, any){
		func() (string, any) { return f.value(fmt.Sprintf("int(%d)", 100000+b.marker)), 100000 + b.marker },
		func() (string, any) {
			return f.service(svcNames[b.argSeq%len(svcNames)]), "@" + svcNames[b.argSeq%len(svcNames)]
		},
		func() (string, any) { return f.tagged("tag-a"), "!tagged tag-a" },
		func() (string, any) { return f.value(al.Alias(u) + ".V"), "!value " + u + ".V" },
		func() (string, any) { return f.value("&" + al.Alias(u) + ".T{}"), "!value &pkg.T{}" },
		func() (string, any) { return f.value(al.Alias(u) + ".T{}"), "!value pkg.T{}" },
		func() (string, any) { return f.value(al.Alias(u) + ".PV.F1"), "!value pkg.PV.F1" },
		func() (string, any) { return f.value("&LocalV"), `!value &".".LocalV` },
		func() (string, any) { return f.value(f.gontainerVal), f.gontainerID },
		func() (string, any) { return f.single(f.tokParam("param-int")), "%param-int%" },
		func() (string, any) {
			s := fmt.Sprintf("marker-%d \"quoted\" \\ \n newline */ //", b.marker)
			return f.single(f.tokString(s)), s
		},
		func() (string, any) { return f.single(f.tokPercent()), "%%" },
		func() (string, any) {
			return f.multi(f.tokString("host:"), f.tokParam("param-str"), f.tokPercent(), f.tokFunc(al, "getEnv", `"HOME"`, `%env("HOME")%`)), `host:%param-str%%%%env("HOME")%`
		},
		func() (string, any) {
			return f.single(f.tokFunc(al, "getEnvInt", `"PORT", 80`, `%envInt("PORT", 80)%`)), `%envInt("PORT", 80)%`
		},
		func() (string, any) {
			return f.single(f.tokFunc(al, "paramTodo", "", `%todo()%`)), `%todo()%`
		},
		func() (string, any) {
			return f.single(f.tokFunc(al, al.Alias(u)+".Fn", `1, "x"`, `%userFn(1, "x")%`)), `%userFn(1, "x")%`
		},
		func() (string, any) { return f.single(f.tokFunc(al, "LocalFn", "", `%localFn()%`)), `%localFn()%` },
		func() (string, any) { return f.value("float64(1.5)"), 1.5 },
		func() (string, any) { return f.value("true"), true },
		func() (string, any) { return f.value("nil"), nil },
		func() (string, any) { return f.value("uint64(18446744073709551615)"), uint64(18446744073709551615) },
	}
	i := b.argSeq % len(forms)
	b.allArgs[fmt.Sprintf("form-%02d", i)]++
	b.lastKind = formKinds[i]
	return forms[i]()
}

func (b *skelBuilder) args(al tplabs.Aliaser, n int, names []string) ([]any, []expArg) {
	var spec []any
	var exp []expArg
	for i := 0; i < n; i++ {
		code, raw := b.nextArg(al, names)
		spec = append(spec, map[string]any{"Code": code, "Raw": raw})
		exp = append(exp, expArg{code, b.lastKind})
	}
	return spec, exp
}

func (b *skelBuilder) typeOf(al tplabs.Aliaser, form string, k int) string {
	u := al.Alias(userPkgs[k%2])
	switch form {
	case "iface":
		return "interface{}"
	case "ptr", "ptrlit":
		return "*" + u + ".T"
	case "struct", "structlit":
		return u + ".T"
	case "niface":
		return u + ".I"
	case "localptr":
		return "*LocalT"
	case "empty":
		return ""
	}
	return "interface{}"
}

// build renders one skeleton (normal and stub) for the given shapes.
func (b *skelBuilder) build(id string, shapes []svcShape, withParams, withDecs bool, meta [3]string) *skeleton {
	sk := &skeleton{ID: id, Src: map[bool]string{}, Pkg: meta[0], CType: meta[1], CCtor: meta[2], fset: b.fset,
		Files: map[bool]*ast.File{}, Info: map[bool]*types.Info{}, TPkg: map[bool]*types.Package{}, Errs: map[bool][]string{}, Model: map[bool]*wiring.GoModel{}}
	for _, stub := range []bool{false, true} {
		al := tplabs.NewCounterAliaser()
		b.argSeq, b.marker = 0, 0
		var names []string
		for k := range shapes {
			names = append(names, fmt.Sprintf("svc-%d", k))
		}
		var svcs []any
		var exps []expSvc
		for k, sh := range shapes {
			name := names[k]
			ex := expSvc{Shape: sh, Name: name, Todo: sh.Todo, Creation: sh.Creation}
			spec := map[string]any{"Name": name}
			if sh.Todo {
				spec["Todo"] = true
				svcs = append(svcs, spec)
				exps = append(exps, ex)
				continue
			}
			u := al.Alias(userPkgs[k%2])
			ex.Type = b.typeOf(al, sh.TypeForm, k)
			spec["Type"] = ex.Type
			switch sh.Creation {
			case "ctor":
				ex.Ctor = u + ".NewT"
				if sh.TypeForm == "localptr" {
					ex.Ctor = "NewLocalT"
				}
				spec["Constructor"] = ex.Ctor
				a, xa := b.args(al, sh.NArgs, names)
				spec["Args"], ex.Args = a, xa
			case "value":
				switch sh.TypeForm {
				case "iface", "struct", "empty":
					ex.Value = u + ".V"
				case "ptr":
					ex.Value = u + ".PV"
				case "structlit":
					ex.Value = u + ".T{}"
				case "ptrlit":
					ex.Value = "&" + u + ".T{}"
				}
				spec["Value"] = ex.Value
			}
			if sh.Getter {
				ex.Getter = fmt.Sprintf("GetSvc%d", k)
				ex.Must = sh.Must
				spec["Getter"], spec["MustGetter"] = ex.Getter, ex.Must
			}
			var fl []any
			for j := 0; j < sh.NFields; j++ {
				code, raw := b.nextArg(al, names)
				fn := fmt.Sprintf("F%d", j+1)
				fl = append(fl, map[string]any{"Name": fn, "Value": map[string]any{"Code": code, "Raw": raw}})
				ex.Fields = append(ex.Fields, struct{ Name, Code string }{fn, code})
			}
			spec["Fields"] = fl
			var cl []any
			for j, c := range sh.Calls {
				m := "SetA"
				if c.Immutable {
					m = "WithA"
				}
				m = fmt.Sprintf("%s%d", m, j)
				a, xa := b.args(al, c.NArgs, names)
				cl = append(cl, map[string]any{"Method": m, "Args": a, "Immutable": c.Immutable})
				ex.Calls = append(ex.Calls, expCall{m, c.Immutable, xa})
			}
			spec["Calls"] = cl
			var tl []any
			for j := 0; j < sh.NTags; j++ {
				t := wiring.Tag{Name: []string{"tag-a", "tag-b"}[j%2], Prio: []int{-5, 100*k + 7}[j%2]}
				tl = append(tl, map[string]any{"Name": t.Name, "Priority": t.Prio})
				ex.Tags = append(ex.Tags, t)
			}
			spec["Tags"] = tl
			if sh.Scope < len(b.scopes) {
				ex.ScopeC = b.scopes[sh.Scope]
				spec["Scope"] = ex.ScopeC
			}
			svcs = append(svcs, spec)
			exps = append(exps, ex)
		}
		var params []any
		var eparams []expParam
		if withParams {
			f := b.fr
			add := func(name, code string, raw any) {
				params = append(params, map[string]any{"Name": name, "Code": code, "Raw": raw})
				eparams = append(eparams, expParam{name, code})
			}
			for i, sc := range tplabs.Scalars() {
				if s, ok := sc.(string); ok {
					add(fmt.Sprintf("param-s%d", i), f.single(f.tokString(s)), s)
					continue
				}
				lit, _ := tplabs.ExportAny(sc)
				add(fmt.Sprintf("param-l%d", i), f.value(lit), sc)
			}
			add("param-int", f.value("int(5)"), 5)
			add("param-str", f.single(f.tokString("str")), "str")
			add("param-ref", f.single(f.tokParam("param-int")), "%param-int%")
			add("param-todo", f.single(f.tokFunc(al, "paramTodo", `"later"`, `%todo("later")%`)), `%todo("later")%`)
			add("param-multi", f.multi(f.tokParam("param-int"), f.tokString(":"), f.tokFunc(al, "getEnv", `"A", "b"`, `%env("A", "b")%`)), `%param-int%:%env("A", "b")%`)
		}
		var decs []any
		var edecs []expDec
		if withDecs {
			for j := 0; j < 3; j++ {
				fn := al.Alias(userPkgs[j%2]) + ".Decorate"
				if j == 1 {
					fn = "LocalDecorate"
				}
				a, xa := b.args(al, j*2%3, names)
				tag := []string{"tag-a", "tag-b", "*"}[j]
				decs = append(decs, map[string]any{"Tag": tag, "Decorator": fn, "Args": a, "Raw": "pkg.Decorate"})
				edecs = append(edecs, expDec{tag, fn, xa})
			}
		}
		out := map[string]any{
			"Meta":       map[string]any{"Pkg": meta[0], "ContainerType": meta[1], "ContainerConstructor": meta[2]},
			"Params":     params,
			"Services":   svcs,
			"Decorators": decs,
		}
		src, err := b.rd.Render(out, al, stub, "skeleton "+id)
		if err != nil {
			sk.Errs[stub] = append(sk.Errs[stub], "instantiation: "+err.Error())
		}
		sk.Src[stub] = src
		if !stub {
			sk.Services, sk.Decs, sk.Params = exps, edecs, eparams
		}
	}
	return sk
}

// check parses and type-checks both modes of the skeleton.
func (b *skelBuilder) check(sk *skeleton) {
	for _, stub := range []bool{false, true} {
		if len(sk.Errs[stub]) > 0 {
			continue
		}
		name := fmt.Sprintf("skeleton/%s/stub=%v/gontainer.go", sk.ID, stub)
		f, err := parser.ParseFile(b.fset, name, sk.Src[stub], parser.ParseComments)
		if err != nil {
			sk.Errs[stub] = append(sk.Errs[stub], "syntax: "+trimErr(err.Error()))
			continue
		}
		lf, err := parser.ParseFile(b.fset, fmt.Sprintf("skeleton/%s/stub=%v/local.go", sk.ID, stub), fmt.Sprintf(localSrcTpl, f.Name.Name), 0)
		if err != nil {
			sk.Errs[stub] = append(sk.Errs[stub], "fixture: "+err.Error())
			continue
		}
		info := &types.Info{Types: map[ast.Expr]types.TypeAndValue{}, Defs: map[*ast.Ident]types.Object{}, Uses: map[*ast.Ident]types.Object{},
			Selections: map[*ast.SelectorExpr]*types.Selection{}, Implicits: map[ast.Node]types.Object{}, Scopes: map[ast.Node]*types.Scope{}}
		var terrs []string
		conf := types.Config{Importer: b.imp, Error: func(err error) {
			msg := err.Error()
			if strings.Contains(msg, "imported and not used") || strings.Contains(msg, "imported as") && strings.Contains(msg, "and not used") {
				return // pruned by the trusted import pass (R01.4 decides that pass is the last transformation)
			}
			if len(terrs) < 5000 {
				terrs = append(terrs, trimErr(msg))
			}
		}}
		tp, _ := conf.Check("example.com/generated/"+f.Name.Name, b.fset, []*ast.File{f, lf}, info)
		sk.Files[stub], sk.Info[stub], sk.TPkg[stub] = f, info, tp
		for _, t := range terrs {
			sk.Errs[stub] = append(sk.Errs[stub], "type: "+t)
		}
		pk := &packages.Package{PkgPath: tp.Path(), Types: tp, TypesInfo: info, Syntax: []*ast.File{f, lf}, Fset: b.fset}
		pos := func(p token.Pos) string { ps := b.fset.Position(p); return fmt.Sprintf("%s:%d", ps.Filename, ps.Line) }
		if m, err := wiring.FromFile(b.fset, pos, pk, f); err == nil {
			sk.Model[stub] = m
		} else if !stub {
			sk.Errs[stub] = append(sk.Errs[stub], "shape: "+err.Error())
		}
	}
}

func trimErr(s string) string {
	if i := strings.Index(s, "gontainer.go:"); i >= 0 {
		// keep line:col but drop the synthetic path
		s = "gontainer.go:" + s[i+len("gontainer.go:"):]
	}
	if len(s) > 300 {
		s = s[:300] + "…"
	}
	return s
}

// lineOf returns the source line an error message points to (for witnesses).
func (sk *skeleton) lineOf(stub bool, msg string) string {
	var line int
	if i := strings.Index(msg, "gontainer.go:"); i >= 0 {
		fmt.Sscanf(msg[i+len("gontainer.go:"):], "%d", &line)
	}
	lines := strings.Split(sk.Src[stub], "\n")
	if line >= 1 && line <= len(lines) {
		return strings.TrimSpace(lines[line-1])
	}
	return ""
}

func canonExpr(fset *token.FileSet, e ast.Expr) string {
	var b bytes.Buffer
	_ = printer.Fprint(&b, fset, e)
	return strings.Join(strings.Fields(b.String()), " ")
}

func canonSrc(code string) string {
	e, err := parser.ParseExpr(code)
	if err != nil {
		return "<<unparsable: " + code + ">>"
	}
	return canonExpr(token.NewFileSet(), e)
}

// skeletons renders and checks the skeleton set of the given tier (in parallel).
func (b *skelBuilder) skeletons(tier string) []*skeleton {
	n := len(b.scopes)
	var shapes []svcShape
	if tier == "thorough" {
		shapes = allShapes(n)
	} else {
		shapes = pairwiseShapes(n)
	}
	shapes = append([]svcShape{{Todo: true},
		// shapes outside input invariant I5 (Type is never empty for a non-todo service): they exist only to
		// instantiate the template branches that are dead under the invariant
		{Creation: "value", TypeForm: "empty"}, {Creation: "ctor", TypeForm: "empty", NArgs: 1}}, shapes...)
	b.e.R.Analysed["service_shapes"] = len(shapes)
	b.e.R.Analysed["service_shape_space"] = len(allShapes(n)) + 1
	var sks []*skeleton
	chunk := 300
	if tier != "thorough" {
		chunk = 1000
	}
	metas := [][3]string{{"main", "Gontainer", "NewGontainer"}, {"di", "container", "Build"}}
	k := 0
	for i := 0; i < len(shapes); i += chunk {
		j := i + chunk
		if j > len(shapes) {
			j = len(shapes)
		}
		sks = append(sks, b.build(fmt.Sprintf("s%03d", k), shapes[i:j], true, true, metas[k%2]))
		k++
	}
	// degenerate outputs: nothing at all; services only; params only
	sks = append(sks, b.build("empty", nil, false, false, metas[0]))
	sks = append(sks, b.build("services-only", shapes[:min(6, len(shapes))], false, false, metas[1]))
	sks = append(sks, b.build("params-only", nil, true, false, metas[0]))
	sks = append(sks, b.build("decorators-only", shapes[:1], false, true, metas[1]))
	var wg sync.WaitGroup
	sem := make(chan struct{}, 16)
	for _, sk := range sks {
		wg.Add(1)
		sem <- struct{}{}
		go func(sk *skeleton) {
			defer wg.Done()
			defer func() { <-sem }()
			defer func() {
				// a generated text the model reader cannot digest is a failed instantiation, not a crash of the checker
				if x := recover(); x != nil {
					if sk.Errs == nil {
						sk.Errs = map[bool][]string{}
					}
					msg := fmt.Sprintf("the instantiated template has a shape the reader of generated code does not understand (%v)", x)
					sk.Errs[false] = append(sk.Errs[false], msg)
					sk.Errs[true] = append(sk.Errs[true], msg)
				}
			}()
			b.check(sk)
		}(sk)
	}
	wg.Wait()
	if d := os.Getenv("GV_DUMP"); d != "" {
		for _, sk := range sks {
			for _, stub := range []bool{false, true} {
				_ = os.WriteFile(fmt.Sprintf("%s/%s-stub-%v.go", d, sk.ID, stub), []byte(sk.Src[stub]), 0o644)
			}
		}
	}
	b.e.R.Analysed["skeleton_files"] = len(sks) * 2
	var forms []string
	for f := range b.allArgs {
		forms = append(forms, f)
	}
	sort.Strings(forms)
	b.e.R.Analysed["argument_forms_instantiated"] = len(forms)
	return sks
}
