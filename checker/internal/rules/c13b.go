package rules

import (
	"fmt"
	"go/token"
	"go/types"
	"gverif/internal/load"

	"golang.org/x/tools/go/ssa"
)

// R13.6 (name-family separation): the container generates G, GInContext, MustG and MustGInContext.
// With pairwise different getters (R01.7) the four families are disjoint exactly when no accepted getter
// starts with the must-prefix or ends with the context-suffix. Decided in the SSA of ValidateServiceGetter:
// a branch on strings.HasPrefix(getter, "Must") (HasSuffix(getter, "InContext")) exists whose true edge
// leads directly — without a further condition — to the block that creates the error, the error reaches
// the function's result, and the branch is reached for every non-nil, non-reserved getter.
func c13Families(e *Env, rule string) {
	r := e.R
	key := inputRel + ".ValidateServiceGetter"
	fn := e.P.Func(inputRel, "ValidateServiceGetter")
	if fn == nil {
		r.Undecide(rule, key, "anchor not found")
		return
	}
	fromGetter := func(v ssa.Value) bool {
		seen := map[ssa.Value]bool{}
		var walk func(v ssa.Value) bool
		walk = func(v ssa.Value) bool {
			if v == nil || seen[v] {
				return false
			}
			seen[v] = true
			switch x := v.(type) {
			case *ssa.UnOp:
				return walk(x.X)
			case *ssa.Field:
				return fieldNameT(x.X.Type(), x.Field) == "Getter"
			case *ssa.FieldAddr:
				return fieldNameT(x.X.Type(), x.Field) == "Getter"
			case *ssa.Phi:
				for _, ed := range x.Edges {
					if !walk(ed) {
						return false
					}
				}
				return len(x.Edges) > 0
			}
			return false
		}
		return walk(v)
	}
	// helpers of the package called directly with the getter: `validateGetterPrefix(*s.Getter)`
	type helperUse struct {
		g    *ssa.Function
		call ssa.CallInstruction
		prm  *ssa.Parameter
	}
	var helpers []helperUse
	for _, c := range callsIn(fn, false) {
		g := c.Common().StaticCallee()
		if g == nil || g.Pkg != fn.Pkg || len(g.Blocks) == 0 {
			continue
		}
		for i, a := range c.Common().Args {
			if fromGetter(a) && i < len(g.Params) {
				helpers = append(helpers, helperUse{g, c, g.Params[i]})
			}
		}
	}
	retTainted := func(f *ssa.Function, v ssa.Value) bool {
		ts := taintFrom(f, v)
		for _, b := range f.Blocks {
			if b == f.Recover {
				continue
			}
			if ret, ok := b.Instrs[len(b.Instrs)-1].(*ssa.Return); ok {
				for _, rv := range ret.Results {
					if ts.has(rv) {
						return true
					}
				}
			}
		}
		return false
	}
	for _, w := range []struct{ callee, lit, what string }{
		{"strings.HasPrefix", "Must", "must-prefix"},
		{"strings.HasSuffix", "InContext", "context-suffix"},
	} {
		k := key + "#" + w.what
		find := func(f *ssa.Function, isGetter func(ssa.Value) bool) *ssa.If {
			var found *ssa.If
			for _, b := range f.Blocks {
				iff, ok := b.Instrs[len(b.Instrs)-1].(*ssa.If)
				if !ok {
					continue
				}
				call, ok := iff.Cond.(*ssa.Call)
				if !ok || callName(call.Common()) != w.callee || len(call.Call.Args) != 2 {
					continue
				}
				if s, ok := constString(call.Call.Args[1]); !ok || s != w.lit {
					continue
				}
				if !isGetter(call.Call.Args[0]) {
					continue
				}
				found = iff
			}
			return found
		}
		host := fn
		var via *helperUse
		found := find(fn, fromGetter)
		if found == nil {
			for i := range helpers {
				h := helpers[i]
				if f := find(h.g, func(v ssa.Value) bool { return v == ssa.Value(h.prm) }); f != nil {
					found, host, via = f, h.g, &helpers[i]
				}
			}
		}
		if found == nil {
			r.Violate(rule, k, fmt.Sprintf("no branch on %s(getter, %q): a getter of that shape is accepted and its generated methods can coincide with another service's", w.callee, w.lit), nil)
			continue
		}
		// the true edge reaches the error construction without a further condition
		body := found.Block().Succs[0]
		var errv ssa.Value
		for _, ins := range body.Instrs {
			if c, ok := ins.(*ssa.Call); ok && isErrorType(c.Type()) {
				errv = c
			}
		}
		if errv == nil {
			r.Violate(rule, k, fmt.Sprintf("the %s test does not lead directly to the rejection: a further condition narrows it, so some getters with the %s are accepted", w.what, w.what), nil, e.P.Pos(found.Cond.Pos()))
			continue
		}
		reaches := retTainted(host, errv)
		if reaches && via != nil {
			// the helper's result must reach the validator's result
			reaches = via.call.Value() != nil && retTainted(fn, via.call.Value())
		}
		if !reaches {
			r.Violate(rule, k, "the rejection error does not reach the validator's result", nil, e.P.Pos(errv.Pos()))
			continue
		}
		okDom, why := true, ""
		if via != nil {
			// inside the helper the test is unconditional; in the validator the helper's call takes the test's place
			if found.Block() != host.Blocks[0] && found.Block().Idom() != nil {
				for d := found.Block().Idom(); d != nil; d = d.Idom() {
					if _, isIf := d.Instrs[len(d.Instrs)-1].(*ssa.If); isIf {
						okDom, why = false, "the helper tests something else first"
					}
				}
			}
			if okDom {
				okDom, why = passesOrEarly(fn, via.call.Block(), fromGetter)
			}
		} else {
			for d := found.Block().Idom(); d != nil; d = d.Idom() {
				iff, ok := d.Instrs[len(d.Instrs)-1].(*ssa.If)
				if !ok {
					continue
				}
				if v, _, isNil := nilTest(iff.Cond); isNil && fromGetter(v) {
					continue
				}
				if isReservedLookup(iff.Cond) {
					continue
				}
				if c, ok := iff.Cond.(*ssa.Call); ok && (callName(c.Common()) == "strings.HasPrefix" || callName(c.Common()) == "strings.HasSuffix") {
					continue
				}
				okDom = false
				why = e.P.Pos(iff.Cond.Pos())
			}
			if okDom {
				okDom, why = passesOrEarly(fn, found.Block(), fromGetter)
			}
		}
		r.Check(okDom, rule, k, fmt.Sprintf("every non-nil, non-reserved getter reaches the %s test, whose true edge creates the error that reaches the result %s", w.what, why), e.P.Pos(found.Cond.Pos()))
	}
}

func fieldNameT(t types.Type, i int) string {
	if p, ok := t.Underlying().(*types.Pointer); ok {
		t = p.Elem()
	}
	if s, ok := t.Underlying().(*types.Struct); ok && i < s.NumFields() {
		return load.Current.BaselineField(t, s.Field(i).Name())
	}
	return ""
}

func isReservedLookup(v ssa.Value) bool {
	switch x := v.(type) {
	case *ssa.Lookup:
		return true
	case *ssa.Extract:
		_, ok := x.Tuple.(*ssa.Lookup)
		return ok
	case *ssa.UnOp:
		if x.Op == token.NOT {
			return isReservedLookup(x.X)
		}
	}
	return false
}

// passesOrEarly: from the entry, avoiding block `must`, the only returns reachable are those guarded by the
// nil test of the getter or the reserved lookup.
func passesOrEarly(fn *ssa.Function, must *ssa.BasicBlock, fromGetter func(ssa.Value) bool) (bool, string) {
	seen := map[*ssa.BasicBlock]bool{}
	var bad string
	var walk func(b *ssa.BasicBlock, excused bool)
	walk = func(b *ssa.BasicBlock, excused bool) {
		if b == must || seen[b] && !excused {
			return
		}
		if !excused {
			seen[b] = true
		}
		last := b.Instrs[len(b.Instrs)-1]
		if _, ok := last.(*ssa.Return); ok && !excused {
			bad = "a return is reachable without passing the test"
			return
		}
		if excused {
			return
		}
		if iff, ok := last.(*ssa.If); ok {
			if v, nonNilOnTrue, isNil := nilTest(iff.Cond); isNil && fromGetter(v) {
				if nonNilOnTrue {
					walk(b.Succs[0], false)
					walk(b.Succs[1], true)
				} else {
					walk(b.Succs[0], true)
					walk(b.Succs[1], false)
				}
				return
			}
			if isReservedLookup(iff.Cond) {
				walk(b.Succs[0], true)
				walk(b.Succs[1], false)
				return
			}
		}
		for _, s := range b.Succs {
			walk(s, false)
		}
	}
	walk(fn.Blocks[0], false)
	return bad == "", bad
}

// c17RawCode (R17.6): the only user text that reaches the generated source unescaped is the argument
// list of a function token (documented: "must be valid Go code"). It is printed into the constructor
// body, which exists in normal mode only, so text that does not parse makes the formatter reject the
// normal output while the stub is accepted. The decision is the same in both modes only if the text is
// parsed before generation: FactoryFunction.Create hands the emitted call to go/parser.ParseExpr and
// returns an error when that fails.
func c17RawCode(e *Env) {
	r := e.R
	key := tokenRel + ".FactoryFunction.Create#arguments-parsed-before-generation"
	fn := e.P.Func(tokenRel, "FactoryFunction.Create")
	if fn == nil {
		r.Undecide("R17.6", key, "anchor not found")
		return
	}
	ok, why := false, "no call of go/parser.ParseExpr on the emitted call text"
	for _, uf := range unitFns(fn, 1) {
		// the raw group
		var raw []ssa.Value
		allInstrs(uf, func(_ *ssa.Function, ins ssa.Instruction) {
			if lk, isLk := ins.(*ssa.Lookup); isLk {
				if k, isK := constString(lk.Index); isK && k == "params" {
					raw = append(raw, lk)
				}
			}
		})
		for _, c := range callsIn(uf, false) {
			name := callName(c.Common())
			if name != "go/parser.ParseExpr" && name != "go/parser.ParseExprFrom" {
				continue
			}
			tainted := false
			for _, rv := range raw {
				ts := taintFrom(uf, rv)
				for _, a := range c.Common().Args {
					if ts.has(a) {
						tainted = true
					}
				}
			}
			if !tainted {
				why = "go/parser.ParseExpr is not applied to text containing the token's argument list"
				continue
			}
			errv := errOf(c)
			if errv == nil {
				why = "the parser's error is discarded"
				continue
			}
			fb, has := failureEdgeBlock(uf, errv)
			if !has {
				why = "no branch on the parser's error"
				continue
			}
			if pathReturnsError(fb) {
				ok = true
			} else {
				why = "the failure path of the parser does not return an error"
			}
		}
	}
	r.Check(ok, "R17.6", key, "the argument list of a function token is parsed as Go before it is printed into the (normal-mode only) constructor body; a parse failure is a compile-step error in both modes ("+why+")", e.P.Pos(fn.Pos()))
}
