package rules

import (
	"fmt"
	"go/ast"
	"go/token"
	"go/types"
	"regexp/syntax"
	"sort"
	"strings"
	"unicode/utf8"

	"gverif/internal/load"
	"gverif/internal/wiring"

	"golang.org/x/tools/go/packages"
	"golang.org/x/tools/go/ssa"
)

type packagesPackage = packages.Package

func rxParseAny(p string) (any, error) { return syntax.Parse(p, syntax.Perl) }

// serviceResultType: the static type of the object a wired service yields before decoration.
func serviceResultType(s *wiring.Service, info *types.Info) types.Type {
	switch s.CtorKind {
	case "func":
		if s.CtorObj == nil {
			return nil
		}
		sig, ok := s.CtorObj.Type().(*types.Signature)
		if !ok || sig.Results().Len() == 0 {
			return nil
		}
		return sig.Results().At(0).Type()
	case "value":
		if s.CtorLit != nil {
			if rs, ok := s.CtorLit.Body.List[0].(*ast.ReturnStmt); ok && len(rs.Results) == 1 {
				return info.TypeOf(rs.Results[0])
			}
		}
	case "type":
		if s.CtorLit != nil && s.CtorLit.Type.Results != nil {
			return info.TypeOf(s.CtorLit.Type.Results.List[0].Type)
		}
	}
	return nil
}

// ---- R12.8 ----

func wiringTypes(e *Env) {
	r := e.R
	gm, _, ok := e.models()
	if !ok {
		return
	}
	info := gm.Pkg.TypesInfo
	ov := buildRunnerOverrides(e)
	payload := map[string]types.Type{}
	if pk := e.P.Pkg("internal/cmd"); pk != nil {
		if o := pk.Types.Scope().Lookup("runnerPayload"); o != nil {
			if st, ok := o.Type().Underlying().(*types.Struct); ok {
				for i := 0; i < st.NumFields(); i++ {
					payload[st.Field(i).Name()] = st.Field(i).Type()
				}
			}
		}
	}
	// decorators by tag
	decOf := map[string]*wiring.Decorator{}
	for i := range gm.Decorators {
		decOf[gm.Decorators[i].Tag] = &gm.Decorators[i]
	}
	finalType := func(s *wiring.Service) (types.Type, string) {
		if s.CtorKind == "todo" {
			if ov != nil {
				if f, ok := ov.services[s.Name]; ok && f != "" {
					return payload[f], "overridden in buildRunner with payload." + f
				}
			}
			return nil, "todo service that buildRunner does not override"
		}
		t := serviceResultType(s, info)
		for _, tg := range s.Tags {
			if d, ok := decOf[tg.Name]; ok && d.FnObj != nil {
				if sig, ok := d.FnObj.Type().(*types.Signature); ok && sig.Results().Len() >= 1 {
					t = sig.Results().At(0).Type()
				}
			}
		}
		return t, ""
	}
	params := map[string]bool{}
	for _, p := range gm.Params {
		params[p.Name] = true
	}
	depType := func(d wiring.Dep) (types.Type, string) {
		switch d.Kind {
		case "service":
			s := gm.Service(d.Name)
			if s == nil {
				return nil, "service " + d.Name + " does not exist"
			}
			return finalType(s)
		case "value":
			return info.TypeOf(d.Expr), ""
		case "container":
			return types.NewPointer(gm.Pkg.Types.Scope().Lookup(gm.TypeName).Type()), ""
		case "param":
			if !params[d.Name] {
				return nil, "parameter " + d.Name + " does not exist"
			}
			if ov != nil {
				if f, ok := ov.params[d.Name]; ok && f != "" {
					return payload[f], ""
				}
			}
			return nil, "parameter " + d.Name + " is todo and buildRunner does not override it with a payload field"
		case "string":
			return types.Typ[types.String], ""
		}
		return nil, "dependency of kind " + d.Kind
	}
	accepts := func(param, dep types.Type) bool {
		if dep == nil || param == nil {
			return false
		}
		if types.AssignableTo(dep, param) {
			return true
		}
		if iface, ok := param.Underlying().(*types.Interface); ok {
			return types.Implements(dep, iface)
		}
		return types.ConvertibleTo(dep, param)
	}
	checkCall := func(key string, sig *types.Signature, skip int, deps []wiring.Dep, pos token.Pos) {
		np := sig.Params().Len() - skip
		if !sig.Variadic() && len(deps) != np || sig.Variadic() && len(deps) < np-1 {
			r.Violate("R12.8", key+"#arity", fmt.Sprintf("the function takes %d parameters (variadic %v) but %d dependencies are wired: the reflective call panics for every input", np, sig.Variadic(), len(deps)), nil, e.P.Pos(pos))
			return
		}
		for i, d := range deps {
			var pt types.Type
			pi := i + skip
			if sig.Variadic() && pi >= sig.Params().Len()-1 {
				pt = sig.Params().At(sig.Params().Len() - 1).Type().(*types.Slice).Elem()
			} else {
				pt = sig.Params().At(pi).Type()
			}
			dt, why := depType(d)
			k := fmt.Sprintf("%s#arg%d(%s %s)", key, i, d.Kind, d.Name)
			if dt == nil {
				r.Violate("R12.8", k, "dependency cannot be resolved: "+why, nil, e.P.Pos(d.Pos))
				continue
			}
			if accepts(pt, dt) {
				r.Hold("R12.8", k, fmt.Sprintf("%s is accepted by parameter type %s", typeStr(dt), typeStr(pt)), e.P.Pos(d.Pos))
			} else {
				r.Violate("R12.8", k, fmt.Sprintf("the wired dependency has type %s, the parameter needs %s: the container panics in buildRunner for every input", typeStr(dt), typeStr(pt)), nil, e.P.Pos(d.Pos))
			}
		}
	}
	for i := range gm.Services {
		s := &gm.Services[i]
		if s.CtorKind != "func" || s.CtorObj == nil {
			continue
		}
		sig, ok := s.CtorObj.Type().(*types.Signature)
		if !ok {
			r.Violate("R12.8", selfRel+"#service:"+s.Name, "the wired constructor is not a function", nil, e.P.Pos(s.Pos))
			continue
		}
		checkCall(selfRel+"#service:"+s.Name, sig, 0, s.Args, s.Pos)
		noErrorResult(e, selfRel+"#service:"+s.Name, sig, s.Pos)
	}
	for i, d := range gm.Decorators {
		key := fmt.Sprintf("%s#decorator[%d]", selfRel, i)
		sig, ok := d.FnObj.Type().(*types.Signature)
		if !ok || sig.Params().Len() < 1 || !strings.HasSuffix(sig.Params().At(0).Type().String(), "container.DecoratorPayload") {
			r.Violate("R12.8", key+"#payload", "the decorator's first parameter is not container.DecoratorPayload", nil, e.P.Pos(d.Pos))
			continue
		}
		checkCall(key, sig, 1, d.Args, d.Pos)
		noErrorResult(e, key, sig, d.Pos)
	}
	// getters: declared type is assignable from the service's final type
	for _, g := range gm.Getters {
		if g.Must || g.InContext {
			continue
		}
		s := gm.Service(g.Service)
		if s == nil {
			r.Violate("R12.8", selfRel+"#getter:"+g.Method, "the getter returns a service that does not exist", nil, e.P.Pos(g.Pos))
			continue
		}
		ft, why := finalType(s)
		if ft == nil {
			r.Violate("R12.8", selfRel+"#getter:"+g.Method, "service type unknown: "+why, nil, e.P.Pos(g.Pos))
			continue
		}
		r.Check(accepts(g.Type, ft), "R12.8", selfRel+"#getter:"+g.Method, fmt.Sprintf("the getter's declared type %s accepts the service's final type %s (copier.Copy would fail otherwise and the Must getter panics)", typeStr(g.Type), typeStr(ft)), e.P.Pos(g.Pos))
	}
	// every todo parameter / service is overridden before the first Must* call
	if ov != nil {
		for _, p := range gm.Params {
			todo := false
			for _, t := range p.Dep.Toks {
				if t.Kind == "func" && t.Name == "paramTodo" {
					todo = true
				}
			}
			if todo {
				r.Check(ov.params[p.Name] != "", "R12.8", "internal/cmd.buildRunner#overrides-param:"+p.Name, "a todo parameter is overridden with a payload field before the runner is requested")
			}
		}
		for i := range gm.Services {
			if gm.Services[i].CtorKind == "todo" {
				r.Check(ov.services[gm.Services[i].Name] != "", "R12.8", "internal/cmd.buildRunner#overrides-service:"+gm.Services[i].Name, "a todo service is overridden before the runner is requested")
			}
		}
		c12OverrideOrder(e)
	}
	ok2, why := wiringAcyclic(e)
	r.Check(ok2, "R12.8", selfRel+"#acyclic", why)
}

func typeStr(t types.Type) string {
	if t == nil {
		return "<unknown>"
	}
	return types.TypeString(t, func(p *types.Package) string { return p.Name() })
}

// c12OverrideOrder: in buildRunner every Override* call precedes the first Must* call.
func c12OverrideOrder(e *Env) {
	fn := e.P.Func("internal/cmd", "buildRunner")
	if fn == nil {
		return
	}
	var firstMust ssa.Instruction
	var overrides []ssa.Instruction
	for _, b := range fn.Blocks {
		for _, ins := range b.Instrs {
			c, ok := ins.(ssa.CallInstruction)
			if !ok {
				continue
			}
			n := callName(c.Common())
			last := n[strings.LastIndex(n, ".")+1:]
			if strings.HasPrefix(last, "MustGet") && firstMust == nil {
				firstMust = ins
			}
			if last == "OverrideParam" || last == "OverrideService" {
				overrides = append(overrides, ins)
			}
		}
	}
	ok := firstMust != nil
	for _, o := range overrides {
		if firstMust != nil && !before(o, firstMust) {
			ok = false
		}
	}
	e.R.Check(ok, "R12.8", "internal/cmd.buildRunner#overrides-before-must", fmt.Sprintf("all %d overrides are installed before the first Must* getter builds services", len(overrides)))
}

// ---- R12.4 ----

func c12Repeat(e *Env) {
	r := e.R
	key := "internal/cmd/runner.Printer.PrintAlignedLn#repeat-count"
	rp := e.P.Pkg("internal/cmd/runner")
	rowC, _ := rp.Types.Scope().Lookup("rowWidth").(*types.Const)
	if rowC == nil {
		r.Undecide("R12.4", key, "rowWidth not found")
		return
	}
	var row int
	fmt.Sscan(rowC.Val().String(), &row)
	// call sites of PrintAlignedLn
	run := e.P.Func("internal/cmd/runner", "StepVerboseSwitchable.Run")
	n := 0
	for _, c := range moduleCalls(e.P) {
		if (c.ins.Common().IsInvoke() && c.ins.Common().Method.Name() == "PrintAlignedLn") || strings.HasSuffix(c.name, ".PrintAlignedLn") {
			n++
			if c.fn != run {
				r.Violate("R12.4", c.fnKey+" -> PrintAlignedLn", "aligned printing of a string that is not a reviewed constant (a long path or name makes the strings.Repeat count negative: panic)", nil, e.P.Pos(c.ins.Pos()))
			}
		}
	}
	// the strings: step names
	gm, _, ok := e.models()
	if !ok {
		return
	}
	maxName, longest := 0, ""
	var tag string
	for _, d := range gm.Decorators {
		if d.FnObj != nil && d.FnObj.Name() == "DecorateStepVerboseSwitchable" {
			tag = d.Tag
		}
	}
	decorated := map[string]bool{}
	for i := range gm.Services {
		s := &gm.Services[i]
		for _, t := range s.Tags {
			if t.Name == tag {
				decorated[s.Name] = true
			}
		}
	}
	for i := range gm.Services {
		s := &gm.Services[i]
		if !decorated[s.Name] {
			continue
		}
		name, ok := stepName(e, gm, s)
		if !ok {
			r.Undecide("R12.4", selfRel+"#service:"+s.Name+"#name", "the step's printed name is not a constant (Name() returns neither a constant nor a field wired to a literal)")
			continue
		}
		if l := utf8.RuneCountInString(name); l > maxName {
			maxName, longest = l, name
		}
	}
	// nesting depth of decorated steps
	var depth func(s *wiring.Service, seen map[string]bool) int
	depth = func(s *wiring.Service, seen map[string]bool) int {
		if s == nil || seen[s.Name] {
			return 0
		}
		seen[s.Name] = true
		d := 0
		for _, a := range s.Args {
			if a.Kind == "service" {
				if x := depth(gm.Service(a.Name), seen); x > d {
					d = x
				}
			}
		}
		delete(seen, s.Name)
		if decorated[s.Name] {
			d++
		}
		return d
	}
	maxDepth := depth(gm.Service("runner"), map[string]bool{})
	indent := 2
	// marks and suffix: string constants used in StepVerboseSwitchable.Run
	maxRight, suffix := 0, 0
	if run != nil {
		for _, b := range run.Blocks {
			for _, ins := range b.Instrs {
				if bo, ok := ins.(*ssa.BinOp); ok && bo.Op == token.ADD {
					if s, ok := constString(bo.Y); ok && utf8.RuneCountInString(s) > suffix {
						suffix = utf8.RuneCountInString(s)
					}
				}
			}
		}
		for _, c := range callsIn(run, true) {
			if c.Common().IsInvoke() && c.Common().Method.Name() == "PrintAlignedLn" && len(c.Common().Args) == 2 {
				for _, v := range varargs(c.Common().Args[1]) {
					if s, ok := constString(v); ok {
						if l := utf8.RuneCountInString(s); l > maxRight {
							maxRight = l
						}
					}
					break // only extra[0] counts towards the width
				}
			}
		}
		for _, c := range callsIn(run, true) {
			if c.Common().IsInvoke() && c.Common().Method.Name() == "Indent" {
				if s, ok := constString(c.Common().Args[0]); ok {
					indent = utf8.RuneCountInString(s)
				}
			}
		}
	}
	need := maxName + suffix + maxRight + indent*max(0, maxDepth-1)
	r.Analysed["aligned_print"] = map[string]any{"rowWidth": row, "longest_step_name": longest, "suffix": suffix, "right": maxRight, "nesting": maxDepth, "indent": indent, "needed": need, "call_sites": n}
	r.Check(need <= row && n >= 3, "R12.4", key, fmt.Sprintf("longest line = step name %q (%d) + \" END\" (%d) + mark (%d) + indentation (%d) = %d ≤ rowWidth %d, so the Repeat count is never negative", longest, maxName, suffix, maxRight, indent*max(0, maxDepth-1), need, row))
}

// stepName: what StepVerboseSwitchable.name() yields for the wired step.
func stepName(e *Env, gm *wiring.GoModel, s *wiring.Service) (string, bool) {
	t := serviceResultType(s, gm.Pkg.TypesInfo)
	if t == nil {
		return "", false
	}
	n := namedOf(t)
	if n == nil {
		return "", false
	}
	rel := e.P.Rel(n.Obj().Pkg().Path())
	fd, pk := e.P.Decl(rel, n.Obj().Name()+".Name")
	if fd == nil {
		// fmt.Sprintf("%T") path: "runner.X" trimmed
		return n.Obj().Name(), true
	}
	if len(fd.Body.List) != 1 {
		return "", false
	}
	rs, ok := fd.Body.List[0].(*ast.ReturnStmt)
	if !ok || len(rs.Results) != 1 {
		return "", false
	}
	if v, ok := load.StringOf(pk.TypesInfo, rs.Results[0]); ok {
		return v, true
	}
	// return s.field — the field is set by the constructor from a parameter that the wiring fills with a literal
	se, ok := ast.Unparen(rs.Results[0]).(*ast.SelectorExpr)
	if !ok {
		return "", false
	}
	field := se.Sel.Name
	if s.CtorObj == nil {
		return "", false
	}
	cfn := e.P.Func(rel, s.CtorObj.Name())
	if cfn == nil {
		return "", false
	}
	for _, b := range cfn.Blocks {
		for _, ins := range b.Instrs {
			if st, ok := ins.(*ssa.Store); ok {
				if fa, ok := st.Addr.(*ssa.FieldAddr); ok && fieldName(fa) == field {
					if p, ok := st.Val.(*ssa.Parameter); ok {
						for i, q := range cfn.Params {
							if q == p && i < len(s.Args) && s.Args[i].Kind == "string" {
								return s.Args[i].Name, true
							}
						}
					}
				}
			}
		}
	}
	return "", false
}

// ---- R12.7 ----

func c12Unmarshalers(e *Env) {
	r := e.R
	pk := e.P.Pkg(inputRel)
	for _, f := range pk.Syntax {
		for _, d := range f.Decls {
			fd, ok := d.(*ast.FuncDecl)
			if !ok || fd.Name.Name != "UnmarshalYAML" || fd.Recv == nil {
				continue
			}
			name := recvNameOf(fd) + ".UnmarshalYAML"
			fn := e.P.Func(inputRel, name)
			key := inputRel + "." + name
			if fn == nil {
				r.Undecide("R12.7", key, "SSA not found")
				continue
			}
			unchecked, asserts := 0, 0
			var okVals []ssa.Value
			for _, b := range fn.Blocks {
				for _, ins := range b.Instrs {
					if ta, ok := ins.(*ssa.TypeAssert); ok {
						asserts++
						if !ta.CommaOk {
							unchecked++
						} else {
							for _, ref := range *ta.Referrers() {
								if ex, ok := ref.(*ssa.Extract); ok && ex.Index == 1 {
									okVals = append(okVals, ex)
								}
							}
						}
					}
					if lk, ok := ins.(*ssa.Lookup); ok && lk.CommaOk {
						for _, ref := range *lk.Referrers() {
							if ex, ok := ref.(*ssa.Extract); ok && ex.Index == 1 {
								okVals = append(okVals, ex)
							}
						}
					}
				}
			}
			// a nil return is only reachable with at least one successful assertion / lookup (or a delegated unmarshal without assertions)
			okNil := true
			for _, b := range fn.Blocks {
				for _, ins := range b.Instrs {
					ret, ok := ins.(*ssa.Return)
					if !ok || !isNilConst(ret.Results[0]) {
						continue
					}
					if len(okVals) == 0 {
						continue
					}
					behind := false
					for _, ov := range okVals {
						if blockBehindTrue(fn, ov, b) {
							behind = true
						}
					}
					if !behind {
						okNil = false
					}
				}
			}
			r.Check(unchecked == 0 && okNil, "R12.7", key, fmt.Sprintf("%d assertions, %d unchecked; success is returned only behind a successful assertion or lookup", asserts, unchecked))
		}
	}
}

var _ = sort.Strings

// noErrorResult: buildRunner fetches its objects with the Must* getters, which panic on any error; a
// constructor or decorator of the tool's own wiring that can return an error turns a user mistake (a flag
// value it dislikes) into a Go panic with a stack trace and exit status 2.
func noErrorResult(e *Env, key string, sig *types.Signature, pos token.Pos) {
	res := sig.Results()
	if res.Len() > 0 && isErrorType(res.At(res.Len()-1).Type()) {
		e.R.Violate("R12.8", key+"#cannot-fail", "the wired function returns an error: the Must* getters of buildRunner turn it into a panic instead of a reported error", nil, e.P.Pos(pos))
		return
	}
	e.R.Hold("R12.8", key+"#cannot-fail", "the wired function has no error result", e.P.Pos(pos))
}
