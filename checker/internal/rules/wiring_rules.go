package rules

import (
	"fmt"
	"go/ast"
	"go/types"
	"golang.org/x/tools/go/ssa"
	"strings"

	"gverif/internal/load"
	"gverif/internal/wiring"
)

// overrides reads buildRunner: container parameter / service name -> payload field it is overridden with.
type overrides struct {
	params   map[string]string
	services map[string]string
}

func buildRunnerOverrides(e *Env) *overrides {
	if o := buildRunnerOverridesSSA(e); o != nil {
		return o
	}
	return buildRunnerOverridesAST(e)
}

// buildRunnerOverridesSSA reads, on the SSA form of buildRunner, which payload field every overridden
// container parameter / service receives. Local closures and helpers of the package that wrap the
// OverrideParam / NewService+SetValue idioms are expanded at their call sites (parameters bound to the
// actual arguments), so the result does not depend on how the calls are factored.
func buildRunnerOverridesSSA(e *Env) *overrides {
	fn := e.P.Func("internal/cmd", "buildRunner")
	if fn == nil {
		return nil
	}
	o := &overrides{params: map[string]string{}, services: map[string]string{}}
	type envT map[*ssa.Parameter]ssa.Value
	var resolve func(v ssa.Value, env envT, d int) ssa.Value
	resolve = func(v ssa.Value, env envT, d int) ssa.Value {
		for i := 0; i < 8 && v != nil; i++ {
			switch x := v.(type) {
			case *ssa.Parameter:
				if a, ok := env[x]; ok {
					v = a
					continue
				}
				return v
			case *ssa.MakeInterface:
				v = x.X
			case *ssa.ChangeInterface:
				v = x.X
			case *ssa.ChangeType:
				v = x.X
			default:
				return v
			}
		}
		return v
	}
	payloadField := func(v ssa.Value) string {
		switch x := v.(type) {
		case *ssa.UnOp:
			if fa, ok := x.X.(*ssa.FieldAddr); ok && strings.HasSuffix(strings.TrimPrefix(fa.X.Type().String(), "*"), "runnerPayload") {
				return fieldName(fa)
			}
		case *ssa.Field:
			if strings.HasSuffix(x.X.Type().String(), "runnerPayload") {
				return fieldNameT(x.X.Type(), x.Field)
			}
		}
		return ""
	}
	calleeOf := func(c ssa.CallInstruction) *ssa.Function {
		if g := c.Common().StaticCallee(); g != nil {
			return g
		}
		switch f := c.Common().Value.(type) {
		case *ssa.MakeClosure:
			g, _ := f.Fn.(*ssa.Function)
			return g
		case *ssa.UnOp:
			// a closure held in a local
			if al, ok := f.X.(*ssa.Alloc); ok {
				for _, ref := range *al.Referrers() {
					if st, ok := ref.(*ssa.Store); ok && st.Addr == al {
						if mc, ok := st.Val.(*ssa.MakeClosure); ok {
							g, _ := mc.Fn.(*ssa.Function)
							return g
						}
					}
				}
			}
		}
		return nil
	}
	// the payload field a service value holds: NewService() + SetValue(<field>), possibly inside a helper
	var svcField func(v ssa.Value, f *ssa.Function, env envT, d int) string
	svcField = func(v ssa.Value, f *ssa.Function, env envT, d int) string {
		if d > 2 {
			return ""
		}
		v = resolve(v, env, 0)
		for _, c := range callsIn(f, false) {
			if c.Common().IsInvoke() && c.Common().Method.Name() == "SetValue" && c.Common().Value == v && len(c.Common().Args) == 1 {
				return payloadField(resolve(c.Common().Args[0], env, 0))
			}
			// (*Service).SetValue(&svc, x) on the local the service value is loaded from
			if g := c.Common().StaticCallee(); g != nil && g.Name() == "SetValue" && g.Signature.Recv() != nil && len(c.Common().Args) == 2 {
				recv := c.Common().Args[0]
				same := recv == v
				if ld, ok := v.(*ssa.UnOp); ok && ld.X == recv {
					same = true
				}
				if same {
					return payloadField(resolve(c.Common().Args[1], env, 0))
				}
			}
		}
		if call, ok := v.(*ssa.Call); ok {
			if g := calleeOf(call); g != nil && g.Pkg == fn.Pkg && len(g.Blocks) > 0 {
				env2 := envT{}
				for i, p := range g.Params {
					if i < len(call.Call.Args) {
						env2[p] = resolve(call.Call.Args[i], env, 0)
					}
				}
				for _, b := range g.Blocks {
					if ret, ok := b.Instrs[len(b.Instrs)-1].(*ssa.Return); ok && len(ret.Results) == 1 {
						if fld := svcField(ret.Results[0], g, env2, d+1); fld != "" {
							return fld
						}
					}
				}
			}
		}
		return ""
	}
	var expand func(f *ssa.Function, env envT, d int)
	expand = func(f *ssa.Function, env envT, d int) {
		if d > 2 {
			return
		}
		for _, c := range callsIn(f, false) {
			m := ""
			if c.Common().IsInvoke() {
				m = c.Common().Method.Name()
			} else if g := c.Common().StaticCallee(); g != nil && g.Signature.Recv() != nil {
				m = g.Name()
			}
			args := c.Common().Args
			if !c.Common().IsInvoke() && m != "" {
				args = args[1:] // receiver
			}
			switch m {
			case "OverrideParam":
				if len(args) == 2 {
					name, _ := constString(resolve(args[0], env, 0))
					fld := ""
					if dv, ok := resolve(args[1], env, 0).(*ssa.Call); ok && callName(&dv.Call) == load.RuntimeMod+"/container.NewDependencyValue" && len(dv.Call.Args) == 1 {
						fld = payloadField(resolve(dv.Call.Args[0], env, 0))
					}
					if name != "" {
						o.params[name] = fld
					}
				}
				continue
			case "OverrideService":
				if len(args) == 2 {
					name, _ := constString(resolve(args[0], env, 0))
					if name != "" {
						o.services[name] = svcField(args[1], f, env, 0)
					}
				}
				continue
			}
			// a local closure or a helper of the package: expand at this call site
			if g := calleeOf(c); g != nil && g != f && len(g.Blocks) > 0 && (g.Parent() != nil || g.Pkg == fn.Pkg) {
				env2 := envT{}
				for i, p := range g.Params {
					if i < len(c.Common().Args) {
						env2[p] = resolve(c.Common().Args[i], env, 0)
					}
				}
				expand(g, env2, d+1)
			}
		}
	}
	expand(fn, envT{}, 0)
	if len(o.params) == 0 {
		return nil
	}
	return o
}

func buildRunnerOverridesAST(e *Env) *overrides {
	fd, pk := e.P.Decl("internal/cmd", "buildRunner")
	if fd == nil {
		return nil
	}
	info := pk.TypesInfo
	o := &overrides{params: map[string]string{}, services: map[string]string{}}
	payloadField := func(x ast.Expr) string {
		if se, ok := ast.Unparen(x).(*ast.SelectorExpr); ok {
			if id, ok := ast.Unparen(se.X).(*ast.Ident); ok {
				if v, ok := info.ObjectOf(id).(*types.Var); ok && strings.HasSuffix(v.Type().String(), "runnerPayload") {
					return se.Sel.Name
				}
			}
		}
		return ""
	}
	// ws.SetValue(p.writer): variable -> field
	setValue := map[types.Object]string{}
	ast.Inspect(fd.Body, func(n ast.Node) bool {
		call, ok := n.(*ast.CallExpr)
		if !ok {
			return true
		}
		se, ok := ast.Unparen(call.Fun).(*ast.SelectorExpr)
		if !ok {
			return true
		}
		switch se.Sel.Name {
		case "SetValue":
			if id, ok := ast.Unparen(se.X).(*ast.Ident); ok && len(call.Args) == 1 {
				setValue[info.ObjectOf(id)] = payloadField(call.Args[0])
			}
		case "OverrideParam":
			if len(call.Args) == 2 {
				name, _ := load.StringOf(info, call.Args[0])
				if dv, ok := ast.Unparen(call.Args[1]).(*ast.CallExpr); ok && len(dv.Args) == 1 &&
					calleeName(load.Callee(info, dv)) == load.RuntimeMod+"/container.NewDependencyValue" {
					o.params[name] = payloadField(dv.Args[0])
				} else {
					o.params[name] = ""
				}
			}
		case "OverrideService":
			if len(call.Args) == 2 {
				name, _ := load.StringOf(info, call.Args[0])
				if id, ok := ast.Unparen(call.Args[1]).(*ast.Ident); ok {
					o.services[name] = setValue[info.ObjectOf(id)]
				}
			}
		}
		return true
	})
	return o
}

// currentGM: the wiring model of the run (set by Env.models), so that rules can name services by role.
var currentGM *wiring.GoModel

func depIs(d wiring.Dep, kind, name string) bool {
	if kind == "service" && currentGM != nil {
		name = currentGM.RoleID(name)
	}
	return d.Kind == kind && d.Name == name
}

func ctorIs(e *Env, s *wiring.Service, rel, name string) bool {
	return s != nil && s.CtorKind == "func" && s.CtorObj != nil && s.CtorObj.Name() == name && objPkgPath(s.CtorObj) == e.P.ModPath+"/"+rel
}

var wiringC10 func(e *Env)

func init() {
	wiringC10 = func(e *Env) {
		r := e.R
		gm, _, ok := e.models()
		if !ok {
			return
		}
		k := selfRel + "#service:"
		run := gm.Service("runner")
		if !ctorIs(e, run, "internal/cmd/runner", "NewRunner") {
			r.Violate("R10.3", k+"runner", "the runner service is not built by runner.NewRunner", nil)
			return
		}
		n := 0
		for _, a := range run.Args {
			if depIs(a, "service", "stepCodeGenerator") {
				n++
			}
		}
		last := len(run.Args) > 0 && depIs(run.Args[len(run.Args)-1], "service", "stepCodeGenerator")
		r.Check(last && n == 1, "R10.3", k+"runner#code-generator-last", fmt.Sprintf("the code generator is the last runner step and occurs once (occurrences %d, last %v): the file is written only after every other step succeeded", n, last), e.P.Pos(run.Pos))
		cg := gm.Service("stepCodeGenerator")
		okCG := ctorIs(e, cg, "internal/cmd/runner", "NewStepCodeGenerator") && len(cg.Args) == 3 &&
			depIs(cg.Args[0], "service", "printer") && depIs(cg.Args[1], "service", "templateBuilder") && depIs(cg.Args[2], "param", "outputFile")
		r.Check(okCG, "R10.1", k+"stepCodeGenerator", "NewStepCodeGenerator(@printer, @templateBuilder, %outputFile%)")
		ov := buildRunnerOverrides(e)
		if ov == nil {
			r.Undecide("R10.1", "internal/cmd.buildRunner", "anchor not found")
			return
		}
		r.Check(ov.params["outputFile"] == "outputFile", "R10.1", "internal/cmd.buildRunner#param:outputFile", "the outputFile parameter is the -o flag's payload field")
		r.Check(ov.params["inputPatterns"] == "inputPatterns", "R10.9", "internal/cmd.buildRunner#param:inputPatterns", "the read step receives the -i patterns exactly as given (same elements, order and repetitions): the double-match rule depends on seeing every pattern")
		// the flag
		if fd, pk := e.P.Decl("internal/cmd", "NewBuildCmd"); fd != nil {
			okFlag := false
			var v types.Object
			ast.Inspect(fd.Body, func(n ast.Node) bool {
				if call, ok := n.(*ast.CallExpr); ok && strings.HasPrefix(calleeName(load.Callee(pk.TypesInfo, call)), "github.com/spf13/pflag.(FlagSet).StringVar") && len(call.Args) >= 2 {
					if s, ok := load.StringOf(pk.TypesInfo, call.Args[1]); ok && s == "output" {
						if u, ok := ast.Unparen(call.Args[0]).(*ast.UnaryExpr); ok {
							if id, ok := ast.Unparen(u.X).(*ast.Ident); ok {
								v = pk.TypesInfo.ObjectOf(id)
							}
						}
					}
				}
				return true
			})
			ast.Inspect(fd.Body, func(n ast.Node) bool {
				if kv, ok := n.(*ast.KeyValueExpr); ok {
					if id, ok := kv.Key.(*ast.Ident); ok && id.Name == "outputFile" {
						if vid, ok := ast.Unparen(kv.Value).(*ast.Ident); ok && v != nil && pk.TypesInfo.ObjectOf(vid) == v {
							okFlag = true
						}
					}
				}
				return true
			})
			r.Check(okFlag, "R10.1", "internal/cmd.NewBuildCmd#output-flag", "runnerPayload.outputFile is the -o flag variable")
		}
		// R10.7: one printer, writing to the overridden writer service
		pr := gm.Service("printer")
		okP := ctorIs(e, pr, "internal/cmd/runner", "NewPrinter") && len(pr.Args) == 1 && depIs(pr.Args[0], "service", "writer")
		r.Check(okP, "R10.7", k+"printer", "the printer writes to the `writer` service")
		w := gm.Service("writer")
		r.Check(w != nil && w.CtorKind == "todo" && ov.services["writer"] == "writer", "R10.7", k+"writer", "`writer` is a placeholder that buildRunner overrides with payload.writer (the quiet-switched writer)")
		// every service that takes a printer takes this one
		for i := range gm.Services {
			s := &gm.Services[i]
			if s.CtorObj == nil {
				continue
			}
			sig, ok := s.CtorObj.Type().(*types.Signature)
			if !ok {
				continue
			}
			for j := 0; j < sig.Params().Len() && j < len(s.Args); j++ {
				if strings.HasSuffix(sig.Params().At(j).Type().String(), "runner.printer") || strings.HasSuffix(sig.Params().At(j).Type().String(), "runner.indenter") {
					r.Check(depIs(s.Args[j], "service", "printer"), "R10.7", k+s.Name+"#printer-arg", "a step's printer is the shared `printer` service", e.P.Pos(s.Args[j].Pos))
				}
			}
		}
		for i, d := range gm.Decorators {
			for _, a := range d.Args {
				r.Check(depIs(a, "service", "printer"), "R10.7", fmt.Sprintf("%s#decorator[%d]#printer-arg", selfRel, i), "the verbose decorator prints through the shared `printer` service")
			}
		}
	}
}

// patternsPassThrough: shared with C09 — the inputPatterns parameter is the payload field itself.
func patternsPassThrough(e *Env, rule string) {
	ov := buildRunnerOverrides(e)
	if ov == nil {
		e.R.Undecide(rule, "internal/cmd.buildRunner", "anchor not found")
		return
	}
	e.R.Check(ov.params["inputPatterns"] == "inputPatterns", rule, "internal/cmd.buildRunner#param:inputPatterns", "the read step receives the -i patterns exactly as given (same elements, order and repetitions)")
}

// compileStepsUseFullChain: the service and the decorator compile steps both receive the full argument
// chain (role argResolver) — an argument form that works for services works for decorators.
func compileStepsUseFullChain(e *Env, rule string) {
	gm, _, ok := e.models()
	if !ok {
		return
	}
	for _, st := range []struct{ role, ctor string }{{"stepCompileServices", "NewStepCompileServices"}, {"stepCompileDecorators", "NewStepCompileDecorators"}} {
		s := gm.Service(st.role)
		okS := ctorIs(e, s, compilerRel, st.ctor)
		n := 0
		if okS {
			for _, a := range s.Args {
				if a.Kind != "service" {
					continue
				}
				if dep := gm.Service(a.Name); ctorIs(e, dep, resolverRel, "NewArgResolver") {
					n++
					if !depIs(a, "service", "argResolver") {
						okS = false
					}
				}
			}
		}
		e.R.Check(okS && n == 1, rule, selfRel+"#service:"+st.role+"#arg-resolver", fmt.Sprintf("%s compiles arguments with the full argument chain @argResolver (chains injected: %d)", st.role, n))
	}
}
