package rules

import (
	"fmt"
	"go/ast"
	"go/token"
	"go/types"
	"sort"
	"strings"

	"gverif/internal/load"
	"gverif/internal/rx"

	"golang.org/x/tools/go/ssa"
)

func init() { Register("C14", C14) }

const importsRel = "internal/pkg/imports"

func C14(e *Env) {
	r := e.R
	e.analysedBase()
	yamlKeysRule(e, "R11.12", "imports", "functions", "meta")
	e.R.Rule("R11.12", "key table (shared with C11): meta.imports and meta.functions are recognised under their documented spelling", 3)
	r.Rule("R14.1", "whole-segment match: decorateImport looks the FIRST path segment of the reference (strings.Cut / Split at \"/\") up in the alias table — one lookup, no loop, no prefix test — and returns the reference itself, the alias target, or target + \"/\" + remainder", 4)
	r.Rule("R14.2", "no choice depends on map iteration order: package imports has no order-sensitive map range (engine M)", 1)
	r.Rule("R14.3", "sanitise-then-alias: every import reference handed to Alias or RegisterPrefixAlias is a constant or went through syntax.SanitizeImport (quotes stripped, \".\" → current package), also through constructor parameters, struct fields and interface calls", 8)
	r.Rule("R14.4", "one local name per package: Alias looks the decorated path up before creating a name, stores the new name under that same path, and the name contains a counter that is incremented with every new entry", 4)
	r.Rule("R14.5", "the local name is a Go identifier: the format is a constant of the shape i<hex>_<rest> and every rune the sanitiser leaves in place is a letter or digit (decided on the replacement class for all runes)", 2)
	r.Rule("R14.6", "the import block lists the table: Imports() returns every entry (sorted by path, engine M), the head template prints alias and path of each, and the import pass that prunes unused ones is the formatter's last step (R01.4)", 3)
	r.Rule("R14.7", "imports the templates and token factories request for themselves (fmt, errors, context, os, reflect, strconv, the runtime packages) must not be rewritten by the user's alias table", 1)
	r.Rule("R14.8", "each capture group of a reference grammar (ptr, import, name) reaches the compiled expression on every path: a group is dropped only under a test that it is empty", 5)

	c14Decorate(e)
	mrs := MapRanges(e.P)
	okM := true
	for _, m := range mrs {
		if strings.HasPrefix(m.Key, importsRel+".") {
			if m.Sensitive {
				okM = false
				r.Violate("R14.2", m.Key, "order-sensitive map range in the alias table: "+m.Why, nil, m.Pos)
			} else {
				r.Hold("R14.2", m.Key, "order-insensitive", m.Pos)
			}
		}
	}
	if okM {
		r.Hold("R14.2", importsRel+"#no-order-sensitive-range", "no order-sensitive range over a map in the alias table")
	}
	c14Sanitise(e, "R14.3")
	c14Alias(e)
	c14Identifier(e)
	c14ImportBlock(e)
	c14TemplateImports(e)
	c14Groups(e)
	c14Guards(e)
	r.Rule("R14.9", "an import part is handed to Alias only behind a test that this very (sanitised) value is non-empty: the current package (\".\" → \"\") never reaches the alias table", 5)
	statelessRule(e, "R14.3s", "internal/pkg/token", "internal/pkg/syntax", compilerRel, "internal/pkg/resolver")
	r.Rule("R14.3s", "reference compilers keep no state between references (shared with R02.6): a qualified name written back into a factory would be qualified twice on its next use", 1)
	mergeLiteralRule(e, "mergeMeta", "Meta")
	r.Rule("R09.1", "the alias tables of several files are united key-wise with the later file winning (shared with C09)", 5)
	r.Rule("R09.1c", "behaviour classes of the merge combinators (shared with C09)", 1)
	formatGate(e, "R01.4")
	r.Rule("R01.4", "every import entry that ends up unused is pruned: the formatter's result is exactly the output of imports.Process with pruning enabled, on every path (shared with C01)", 4)
	aliasTableReadyRule(e, "R14.2b")
	r.Rule("R14.2b", "the user's alias table is registered before the first local name is requested", 1)
	r.NotCovered = append(r.NotCovered,
		"which package a symbol finally comes from in the compiled output (needs the user's module)",
		"first-use numbering of aliases")
}

// ---- R14.1 ----

func c14Decorate(e *Env) {
	r := e.R
	fd, pk := e.P.Decl(importsRel, "imports.decorateImport")
	key := importsRel + ".imports.decorateImport"
	if fd == nil {
		r.Undecide("R14.1", key, "anchor not found")
		return
	}
	info := pk.TypesInfo
	ps := paramObjs(info, fd)
	if len(ps) != 1 {
		r.Undecide("R14.1", key, "unexpected signature")
		return
	}
	imp := ps[0]
	// no loops
	loops := 0
	ast.Inspect(fd.Body, func(n ast.Node) bool {
		switch n.(type) {
		case *ast.ForStmt, *ast.RangeStmt:
			loops++
		}
		return true
	})
	r.Check(loops == 0, "R14.1", key+"#single-substitution", fmt.Sprintf("one alias substitution at most: no loop in decorateImport (found %d): a reference is resolved by one table lookup, not by trying or chaining aliases", loops), e.P.Pos(fd.Pos()))
	// first, rest, hasRest := strings.Cut(imp, "/")   |   parts := strings.SplitN(imp, "/", 2)
	var first, rest types.Object
	ast.Inspect(fd.Body, func(n ast.Node) bool {
		as, ok := n.(*ast.AssignStmt)
		if !ok || len(as.Rhs) != 1 {
			return true
		}
		call, ok := ast.Unparen(as.Rhs[0]).(*ast.CallExpr)
		if !ok || calleeName(load.Callee(info, call)) != "strings.Cut" || len(call.Args) != 2 {
			return true
		}
		id, ok := ast.Unparen(call.Args[0]).(*ast.Ident)
		sep, ok2 := load.StringOf(info, call.Args[1])
		if ok && ok2 && info.ObjectOf(id) == imp && sep == "/" && len(as.Lhs) >= 2 {
			if l, ok := as.Lhs[0].(*ast.Ident); ok {
				first = info.ObjectOf(l)
			}
			if l, ok := as.Lhs[1].(*ast.Ident); ok {
				rest = info.ObjectOf(l)
			}
		}
		return true
	})
	if first == nil {
		r.Undecide("R14.1", key+"#first-segment", "the first path segment is not taken with strings.Cut(reference, \"/\") (unrecognised idiom)", e.P.Pos(fd.Pos()))
		return
	}
	r.Hold("R14.1", key+"#first-segment", "first, rest := strings.Cut(reference, \"/\")")
	// exactly one lookup in the prefix table, keyed by first
	var pathObj types.Object
	lookups, okKey := 0, true
	ast.Inspect(fd.Body, func(n ast.Node) bool {
		ix, ok := n.(*ast.IndexExpr)
		if !ok {
			return true
		}
		if se, ok := ast.Unparen(ix.X).(*ast.SelectorExpr); ok && isMapType(info.TypeOf(se)) {
			lookups++
			if id, ok := ast.Unparen(ix.Index).(*ast.Ident); !ok || info.ObjectOf(id) != first {
				okKey = false
			}
		}
		return true
	})
	ast.Inspect(fd.Body, func(n ast.Node) bool {
		switch x := n.(type) {
		case *ast.AssignStmt:
			if len(x.Rhs) == 1 {
				if _, ok := ast.Unparen(x.Rhs[0]).(*ast.IndexExpr); ok && len(x.Lhs) >= 1 {
					if l, ok := x.Lhs[0].(*ast.Ident); ok {
						pathObj = info.ObjectOf(l)
					}
				}
			}
		}
		return true
	})
	r.Check(lookups == 1 && okKey, "R14.1", key+"#lookup-by-first-segment", fmt.Sprintf("the alias table is indexed once, by the whole first segment (lookups %d, keyed by first segment: %v)", lookups, okKey))
	// no string surgery with the alias inside the reference
	bad := ""
	ast.Inspect(fd.Body, func(n ast.Node) bool {
		call, ok := n.(*ast.CallExpr)
		if !ok {
			return true
		}
		name := calleeName(load.Callee(info, call))
		switch name {
		case "strings.HasPrefix", "strings.Index", "strings.Replace", "strings.ReplaceAll", "strings.TrimPrefix", "strings.Contains", "strings.HasSuffix", "strings.LastIndex":
			bad = name
		}
		return true
	})
	r.Check(bad == "", "R14.1", key+"#no-prefix-or-substring-surgery", "no prefix / substring operation relates the alias and the reference ("+bad+" would match or rewrite parts of segments)")
	// returns
	okRet := true
	nret := 0
	ast.Inspect(fd.Body, func(n ast.Node) bool {
		rs, ok := n.(*ast.ReturnStmt)
		if !ok || len(rs.Results) != 1 {
			return true
		}
		nret++
		switch x := ast.Unparen(rs.Results[0]).(type) {
		case *ast.Ident:
			o := info.ObjectOf(x)
			if o != imp && o != pathObj {
				okRet = false
			}
		case *ast.BinaryExpr:
			// path + "/" + rest
			in, ok := ast.Unparen(x.X).(*ast.BinaryExpr)
			if !ok || x.Op != token.ADD {
				okRet = false
				break
			}
			a, ok1 := ast.Unparen(in.X).(*ast.Ident)
			sep, ok2 := load.StringOf(info, in.Y)
			b, ok3 := ast.Unparen(x.Y).(*ast.Ident)
			if !(ok1 && ok2 && ok3 && info.ObjectOf(a) == pathObj && sep == "/" && info.ObjectOf(b) == rest) {
				okRet = false
			}
		default:
			okRet = false
		}
		return true
	})
	r.Check(okRet && nret >= 2, "R14.1", key+"#results", "the result is the reference itself, the alias target, or target + \"/\" + remainder")
}

// ---- R14.3 ----

// sanitised decides whether a string value is a constant or the result of SanitizeImport on every path.
type sanCtx struct {
	e       *Env
	byName  map[string][]ssa.CallInstruction // method / function name -> call sites in the module
	visited map[ssa.Value]bool
}

func newSanCtx(e *Env) *sanCtx {
	s := &sanCtx{e: e, byName: map[string][]ssa.CallInstruction{}, visited: map[ssa.Value]bool{}}
	for _, fn := range e.P.Funcs() {
		for _, b := range fn.Blocks {
			for _, ins := range b.Instrs {
				c, ok := ins.(ssa.CallInstruction)
				if !ok {
					continue
				}
				if c.Common().IsInvoke() {
					s.byName[c.Common().Method.Name()] = append(s.byName[c.Common().Method.Name()], c)
				} else if f := c.Common().StaticCallee(); f != nil {
					s.byName[f.Name()] = append(s.byName[f.Name()], c)
				}
			}
		}
	}
	return s
}

func (s *sanCtx) ok(v ssa.Value, depth int) (bool, string) {
	if depth > 10 {
		return false, "depth limit"
	}
	if s.visited[v] {
		return true, ""
	}
	s.visited[v] = true
	defer delete(s.visited, v)
	switch x := v.(type) {
	case *ssa.Const:
		return true, ""
	case *ssa.Call:
		n := callName(&x.Call)
		if n == s.e.P.ModPath+"/internal/pkg/syntax.SanitizeImport" {
			return true, ""
		}
		return false, "result of " + shortName(s.e.P.ModPath, n)
	case *ssa.Phi:
		for _, ed := range x.Edges {
			if ok, why := s.ok(ed, depth+1); !ok {
				return false, why
			}
		}
		return true, ""
	case *ssa.BinOp:
		// a concatenation of program constants is a program constant (never user input)
		if x.Op == token.ADD && s.constOrigin(x.X, 0) && s.constOrigin(x.Y, 0) {
			return true, ""
		}
	case *ssa.UnOp:
		if x.Op == token.MUL {
			if fa, ok := x.X.(*ssa.FieldAddr); ok {
				return s.field(fa, depth)
			}
			if s.constOrigin(x, 0) {
				return true, ""
			}
			if al, ok := x.X.(*ssa.Alloc); ok {
				for _, ref := range *al.Referrers() {
					if st, ok := ref.(*ssa.Store); ok && st.Addr == al {
						if ok, why := s.ok(st.Val, depth+1); !ok {
							return false, why
						}
					}
				}
				return true, ""
			}
		}
	case *ssa.Parameter:
		return s.param(x, depth)
	case *ssa.FreeVar:
		fn := x.Parent()
		for i, fv := range fn.FreeVars {
			if fv != x || fn.Parent() == nil {
				continue
			}
			okAll, why := true, ""
			allInstrs(rootFn(fn), func(_ *ssa.Function, ins ssa.Instruction) {
				if mc, isMc := ins.(*ssa.MakeClosure); isMc && mc.Fn == ssa.Value(fn) && i < len(mc.Bindings) {
					if ok, w := s.ok(mc.Bindings[i], depth+1); !ok {
						okAll, why = false, w
					}
				}
			})
			return okAll, why
		}
	}
	return false, "value of unknown origin (" + describeVal(v) + ")"
}

// constOrigin: v is built from program constants only — a constant, a concatenation of such values, a
// variable (possibly captured by a function literal) whose every store is such a value, or the parameter
// of a local function literal that is only ever called with such values.
func (s *sanCtx) constOrigin(v ssa.Value, depth int) bool {
	if depth > 8 {
		return false
	}
	switch x := v.(type) {
	case *ssa.Const:
		return true
	case *ssa.BinOp:
		return x.Op == token.ADD && s.constOrigin(x.X, depth+1) && s.constOrigin(x.Y, depth+1)
	case *ssa.UnOp:
		if x.Op != token.MUL {
			return false
		}
		root := rootFn(x.Parent())
		cell := cellOf(x.X, freeVarBindings(root))
		al, ok := cell.(*ssa.Alloc)
		if !ok {
			return false
		}
		n := 0
		for _, ref := range *al.Referrers() {
			if st, ok := ref.(*ssa.Store); ok && st.Addr == al {
				n++
				if !s.constOrigin(st.Val, depth+1) {
					return false
				}
			}
		}
		return n > 0
	case *ssa.Parameter:
		lit := x.Parent()
		if lit.Parent() == nil {
			return false
		}
		idx := -1
		for i, q := range lit.Params {
			if q == x {
				idx = i
			}
		}
		// every use of the literal is a call (directly, or through the one local it is bound to)
		root := rootFn(lit)
		calls, escapes := 0, false
		var closures []ssa.Value
		allInstrs(root, func(_ *ssa.Function, ins ssa.Instruction) {
			if mc, ok := ins.(*ssa.MakeClosure); ok && mc.Fn == ssa.Value(lit) {
				closures = append(closures, mc)
			}
		})
		if len(lit.FreeVars) == 0 {
			closures = append(closures, lit)
		}
		okAll := true
		var follow func(val ssa.Value, d int)
		follow = func(val ssa.Value, d int) {
			if d > 4 || val.Referrers() == nil {
				if val.Referrers() == nil {
					// a bare *ssa.Function has no referrers list: find its calls
					allInstrs(root, func(_ *ssa.Function, ins ssa.Instruction) {
						if c, ok := ins.(*ssa.Call); ok && c.Call.Value == val {
							calls++
							if idx >= len(c.Call.Args) || !s.constOrigin(c.Call.Args[idx], depth+1) {
								okAll = false
							}
						}
					})
				}
				return
			}
			for _, ref := range *val.Referrers() {
				switch y := ref.(type) {
				case *ssa.Call:
					if y.Call.Value == val {
						calls++
						if idx >= len(y.Call.Args) || !s.constOrigin(y.Call.Args[idx], depth+1) {
							okAll = false
						}
					} else {
						escapes = true
					}
				case *ssa.Store:
					if y.Val == val {
						if al, ok := y.Addr.(*ssa.Alloc); ok {
							for _, r2 := range *al.Referrers() {
								if ld, ok := r2.(*ssa.UnOp); ok && ld.Op == token.MUL {
									follow(ld, d+1)
								}
							}
							continue
						}
					}
					escapes = true
				case *ssa.DebugRef:
				default:
					escapes = true
				}
			}
		}
		for _, c := range closures {
			follow(c, 0)
		}
		return okAll && !escapes && calls > 0
	}
	return false
}

// field: every store into that field (anywhere in the module) is sanitised.
func (s *sanCtx) field(fa *ssa.FieldAddr, depth int) (bool, string) {
	name := fieldName(fa)
	base := namedOf(fa.X.Type())
	n := 0
	for _, fn := range s.e.P.Funcs() {
		for _, b := range fn.Blocks {
			for _, ins := range b.Instrs {
				st, ok := ins.(*ssa.Store)
				if !ok {
					continue
				}
				f2, ok := st.Addr.(*ssa.FieldAddr)
				if !ok || fieldName(f2) != name || namedOf(f2.X.Type()) != base {
					continue
				}
				n++
				if ok, why := s.ok(st.Val, depth+1); !ok {
					return false, "field " + name + " ← " + why
				}
			}
		}
	}
	if n == 0 {
		return false, "field " + name + " is never assigned"
	}
	return true, ""
}

// param: every call site (static by function name, interface by method name) passes a sanitised value.
func (s *sanCtx) param(p *ssa.Parameter, depth int) (bool, string) {
	fn := p.Parent()
	idx := -1
	for i, q := range fn.Params {
		if q == p {
			idx = i
		}
	}
	if fn.Parent() != nil {
		// parameter of a function literal: who calls it? maps.Iterate over a map: keys/values of user data
		return false, "parameter " + p.Name() + " of a callback receives raw configuration data"
	}
	recv := 0
	if fn.Signature.Recv() != nil {
		recv = 1
	}
	sites := s.byName[fn.Name()]
	if len(sites) == 0 {
		return false, "parameter " + p.Name() + " of " + fn.Name() + " has no call site in the module"
	}
	for _, c := range sites {
		args := c.Common().Args
		ai := idx
		if c.Common().IsInvoke() {
			ai = idx - recv
		}
		if ai < 0 || ai >= len(args) {
			continue
		}
		if ok, why := s.ok(args[ai], depth+1); !ok {
			return false, fmt.Sprintf("%s(%s) ← %s", fn.Name(), p.Name(), why)
		}
	}
	return true, ""
}

func c14Sanitise(e *Env, rule string) {
	r := e.R
	sc := newSanCtx(e)
	n := 0
	counts := map[string]int{}
	for _, fn := range e.P.Funcs() {
		if fn.Pkg != nil && fn.Pkg.Pkg.Path() == e.P.ModPath+"/"+importsRel {
			continue // the table's own internals
		}
		if isGeneratedFn(e.P, rootFn(fn)) {
			continue
		}
		for _, b := range fn.Blocks {
			for _, ins := range b.Instrs {
				c, ok := ins.(ssa.CallInstruction)
				if !ok {
					continue
				}
				m := ""
				if c.Common().IsInvoke() {
					m = c.Common().Method.Name()
				} else if f := c.Common().StaticCallee(); f != nil && f.Signature.Recv() != nil {
					m = f.Name()
				}
				argIdx := -1
				switch m {
				case "Alias":
					argIdx = 0
				case "RegisterPrefixAlias":
					argIdx = 1
				default:
					continue
				}
				args := c.Common().Args
				if !c.Common().IsInvoke() {
					argIdx++ // receiver is args[0] for static method calls
				}
				if argIdx >= len(args) {
					continue
				}
				// the template FuncMap's importAlias receives constants written in the templates (R14.7)
				fk := e.P.FuncKey(fn)
				n++
				counts[fk+" -> "+m]++
				key := fmt.Sprintf("%s -> %s #%d", fk, m, counts[fk+" -> "+m])
				if strings.HasPrefix(fk, "internal/pkg/template.createDefaultFunctions$") {
					if _, isParam := args[argIdx].(*ssa.Parameter); isParam {
						r.Hold(rule, key, "argument is a literal written in a template (the templates' own imports; see R14.7)", e.P.Pos(c.Pos()))
						continue
					}
				}
				if ok, why := sc.ok(args[argIdx], 0); ok {
					r.Hold(rule, key, "constant or sanitised on every path", e.P.Pos(c.Pos()))
				} else {
					r.Violate(rule, key, "an import reference reaches the alias table without SanitizeImport ("+why+"): a value the grammar admits in quoted form keeps its quotes and yields an invalid import", nil, e.P.Pos(c.Pos()))
				}
			}
		}
	}
	r.Analysed["alias_call_sites"] = n
}

func init() {
	c11Sanitise = func(e *Env) {
		e.R.Rule("R11.7", "accepted ⇒ consumable: an import reference the grammar admits (also in its quoted form) is normalised by SanitizeImport before the alias table consumes it (shared with R14.3)", 8)
		c14Sanitise(e, "R11.7")
	}
}

// ---- R14.4 ----

func c14Alias(e *Env) {
	r := e.R
	key := importsRel + ".imports.Alias"
	fn := e.P.Func(importsRel, "imports.Alias")
	if fn == nil {
		r.Undecide("R14.4", key, "anchor not found")
		return
	}
	// decorated := decorateImport(param)
	dec := findCalls(fn, e.P.ModPath+"/"+importsRel+".(imports).decorateImport", false)
	if len(dec) != 1 {
		r.Violate("R14.4", key+"#decorate", fmt.Sprintf("%d calls of decorateImport, expected 1", len(dec)), nil)
		return
	}
	dv := dec[0].Value()
	var lk *ssa.Lookup
	var mu *ssa.MapUpdate
	for _, b := range fn.Blocks {
		for _, ins := range b.Instrs {
			switch x := ins.(type) {
			case *ssa.Lookup:
				if x.CommaOk && x.Index == dv {
					lk = x
				}
			case *ssa.MapUpdate:
				mu = x
			}
		}
	}
	r.Check(lk != nil, "R14.4", key+"#lookup-before-create", "the decorated path is looked up first (same path → same name)")
	r.Check(mu != nil && mu.Key == dv, "R14.4", key+"#stored-under-decorated-path", "a new name is stored under the same decorated path it will be looked up by")
	if mu == nil {
		return
	}
	// the stored name derives from the counter, and the counter is incremented in the same block
	usesCounter := false
	var walk func(v ssa.Value, d int)
	walk = func(v ssa.Value, d int) {
		if d > 10 || v == nil {
			return
		}
		switch x := v.(type) {
		case *ssa.Call:
			for _, a := range x.Call.Args {
				walk(a, d+1)
			}
		case *ssa.Slice:
			walk(x.X, d+1)
		case *ssa.Alloc:
			for _, ref := range *x.Referrers() {
				if ia, ok := ref.(*ssa.IndexAddr); ok {
					for _, r2 := range *ia.Referrers() {
						if st, ok := r2.(*ssa.Store); ok {
							walk(st.Val, d+1)
						}
					}
				}
			}
		case *ssa.MakeInterface:
			walk(x.X, d+1)
		case *ssa.BinOp:
			walk(x.X, d+1)
			walk(x.Y, d+1)
		case *ssa.UnOp:
			if fa, ok := x.X.(*ssa.FieldAddr); ok && fieldName(fa) == "counter" {
				usesCounter = true
			}
		}
	}
	walk(mu.Value, 0)
	r.Check(usesCounter, "R14.4", key+"#name-contains-counter", "the new name is built from the counter (different paths → different names even with equal last segments)")
	inc := false
	for _, ins := range mu.Block().Instrs {
		if st, ok := ins.(*ssa.Store); ok {
			if fa, ok := st.Addr.(*ssa.FieldAddr); ok && fieldName(fa) == "counter" {
				if bo, ok := st.Val.(*ssa.BinOp); ok && bo.Op == token.ADD {
					if k, ok := constInt(bo.Y); ok && k == 1 {
						inc = true
					}
				}
			}
		}
	}
	r.Check(inc, "R14.4", key+"#counter-incremented-with-entry", "the counter is incremented in the same block that stores the new entry")
	// the returned value is the stored name or the found one
	okRet := true
	for _, b := range fn.Blocks {
		for _, ins := range b.Instrs {
			if ret, ok := ins.(*ssa.Return); ok {
				v := ret.Results[0]
				if v != mu.Value {
					if ex, ok := v.(*ssa.Extract); !ok || lk == nil || ex.Tuple != ssa.Value(lk) {
						okRet = false
					}
				}
			}
		}
	}
	r.Check(okRet, "R14.4", key+"#returns-table-entry", "Alias returns exactly the name that is in the table")
}

// ---- R14.5 ----

func c14Identifier(e *Env) {
	r := e.R
	key := importsRel + ".imports.Alias#identifier"
	// the sanitiser class
	var cls *RegexVar
	for _, v := range regexVars(e) {
		if v.Key == importsRel+".regexNoAlphaNum" {
			vv := v
			cls = &vv
		}
	}
	if cls == nil {
		r.Undecide("R14.5", key, "the sanitiser's replacement class was not found")
		return
	}
	anyChar := rx.MustParse(`(?s).`, true)
	un, err := rx.Parse(`\A(?:(?:`+cls.Pattern+`)|[A-Za-z0-9])\z`, false)
	if err != nil {
		r.Undecide("R14.5", key, err.Error())
		return
	}
	w, bad, _ := rx.NotIncluded(anyChar, un)
	if bad {
		r.Violate("R14.5", key+"#class", fmt.Sprintf("the sanitiser leaves the rune %q in place although it is neither letter nor digit: the generated local name is not an identifier", w), nil, e.P.Pos(cls.Pos))
	} else {
		r.Hold("R14.5", key+"#class", "every rune that is not replaced by _ is a letter or a digit", e.P.Pos(cls.Pos))
	}
	// the language of the stored name, computed from the expression that builds it
	okFmt := false
	detail := "the stored name was not found"
	if fn := e.P.Func(importsRel, "imports.Alias"); fn != nil {
		for _, blk := range fn.Blocks {
			for _, ins := range blk.Instrs {
				mu, isMU := ins.(*ssa.MapUpdate)
				if !isMU {
					continue
				}
				ctx := &strLangCtx{kept: "[A-Za-z0-9]", reads: map[string]bool{}, exact: true}
				if bad {
					ctx.kept = ""
				}
				pat := ctx.lang(mu.Value, 0)
				l, err := rx.Parse(pat, true)
				if err != nil {
					detail = "language of the name not computable: " + err.Error()
					continue
				}
				w, notIncl, _ := rx.NotIncluded(l, rx.MustParse(`[A-Za-z_][A-Za-z0-9_]*`, true))
				detail = fmt.Sprintf("language of the name: %s", pat)
				if notIncl {
					detail += fmt.Sprintf("; not an identifier: %q", w)
				}
				okFmt = !notIncl && ctx.reads["counter"]
			}
		}
	}
	r.Check(okFmt, "R14.5", key+"#format", "every name the table can hold is a Go identifier and contains the counter ("+detail+")")
}

// ---- R14.6 ----

func c14ImportBlock(e *Env) {
	r := e.R
	key := importsRel + ".imports.Imports"
	fn := e.P.Func(importsRel, "imports.Imports")
	if fn == nil {
		r.Undecide("R14.6", key, "anchor not found")
		return
	}
	// the table is walked completely — by a range over the map or over maps.Keys(map) — with no conditional
	// other than the iteration itself; Path is the key and Alias the value stored under that key
	isTable := func(v ssa.Value) bool {
		ld, ok := v.(*ssa.UnOp)
		if !ok {
			return false
		}
		fa, ok := ld.X.(*ssa.FieldAddr)
		if !ok {
			return false
		}
		_, isMap := ld.Type().Underlying().(*types.Map)
		return isMap && fieldName(fa) == "imports"
	}
	keys := map[ssa.Value]bool{} // values that are a key of the table in the current iteration
	vals := map[ssa.Value]bool{} // values that are the value stored under that key
	loopConds := map[ssa.Value]bool{}
	walks := 0
	for _, b := range fn.Blocks {
		for _, ins := range b.Instrs {
			switch x := ins.(type) {
			case *ssa.Range:
				if isTable(x.X) {
					walks++
					for _, ref := range *x.Referrers() {
						if nx, ok := ref.(*ssa.Next); ok {
							for _, r2 := range *nx.Referrers() {
								if ex, ok := r2.(*ssa.Extract); ok {
									switch ex.Index {
									case 0:
										loopConds[ex] = true
									case 1:
										keys[ex] = true
									case 2:
										vals[ex] = true
									}
								}
							}
						}
					}
				}
			case *ssa.Call:
				callee := x.Call.StaticCallee()
				if callee == nil || len(x.Call.Args) != 1 || !isTable(x.Call.Args[0]) {
					continue
				}
				nm := callee.Name()
				if o := callee.Origin(); o != nil {
					nm = o.Name()
				}
				if nm != "Keys" || !e.P.InModule(callee) {
					continue
				}
				walks++
				// elements of the key slice
				for _, ref := range *x.Referrers() {
					switch y := ref.(type) {
					case *ssa.IndexAddr:
						for _, r2 := range *y.Referrers() {
							if ld, ok := r2.(*ssa.UnOp); ok {
								keys[ld] = true
							}
						}
					case *ssa.Call:
						if bi, ok := y.Call.Value.(*ssa.Builtin); ok && bi.Name() == "len" {
							for _, r2 := range *y.Referrers() {
								if bo, ok := r2.(*ssa.BinOp); ok && bo.Op == token.LSS {
									loopConds[bo] = true
								}
							}
						}
					}
				}
			}
		}
	}
	for _, b := range fn.Blocks {
		for _, ins := range b.Instrs {
			if lk, ok := ins.(*ssa.Lookup); ok && isTable(lk.X) && keys[lk.Index] && !lk.CommaOk {
				vals[lk] = true
			}
		}
	}
	conds := 0
	for _, b := range fn.Blocks {
		if iff, ok := b.Instrs[len(b.Instrs)-1].(*ssa.If); ok && !loopConds[iff.Cond] {
			conds++
		}
	}
	r.Check(walks == 1 && conds == 0, "R14.6", key+"#every-entry", fmt.Sprintf("every table entry is returned (%d walks over the table, %d extra conditions)", walks, conds))
	var fields []string
	for _, b := range fn.Blocks {
		for _, ins := range b.Instrs {
			if st, ok := ins.(*ssa.Store); ok {
				if fa, ok := st.Addr.(*ssa.FieldAddr); ok && (fieldName(fa) == "Path" || fieldName(fa) == "Alias") {
					switch {
					case keys[st.Val]:
						fields = append(fields, fieldName(fa)+"←key")
					case vals[st.Val]:
						fields = append(fields, fieldName(fa)+"←value")
					default:
						fields = append(fields, fieldName(fa)+"←?")
					}
				}
			}
		}
	}
	sort.Strings(fields)
	r.Check(strings.Join(fields, ",") == "Alias←value,Path←key", "R14.6", key+"#fields", fmt.Sprintf("Import.Path is the table key (the path) and Import.Alias its value (found %v)", fields))
	// head template: prints alias and path for each import
	te := newSkelBuilder(e)
	if te.te.Head != nil {
		src := ""
		for _, t := range te.te.Head.Trees {
			if t.Root != nil {
				src += t.Root.String()
			}
		}
		ok := strings.Contains(src, ".ImportCollection.Imports") && strings.Contains(src, ".Alias") && strings.Contains(src, ".Path")
		r.Check(ok, "R14.6", "template head.go.tpl#import-block", "the head template ranges over the import collection and prints alias and path")
	}
}

// ---- R14.7 ----

func c14TemplateImports(e *Env) {
	r := e.R
	// Alias applies the user's prefix table unconditionally
	fn := e.P.Func(importsRel, "imports.Alias")
	if fn == nil {
		return
	}
	dec := findCalls(fn, e.P.ModPath+"/"+importsRel+".(imports).decorateImport", false)
	uncond := len(dec) == 1 && dec[0].Block() == fn.Blocks[0]
	// is there any guard: a validator that rejects aliases equal to the first segment of a template-internal import?
	internal := map[string]bool{}
	te := newSkelBuilder(e)
	for _, m := range te.te.Funcs {
		if m.Kind == "aliasConst" {
			internal[strings.SplitN(m.Path, "/", 2)[0]] = true
		}
	}
	for _, set := range []struct{ trees map[string]string }{} {
		_ = set
	}
	for _, s := range []string{"fmt", "errors", "context", "os", "reflect", "strconv"} {
		internal[s] = true
	}
	var names []string
	for k := range internal {
		names = append(names, k)
	}
	sort.Strings(names)
	key := "internal/pkg/template.createDefaultFunctions#template-imports-use-user-prefix-table"
	if uncond && !aliasReservation(e) {
		r.Violate("R14.7", key, fmt.Sprintf("the templates' own imports (%s) are resolved through the same Alias that applies the user's alias table, and no validator reserves these names: an alias named fmt rewrites the generated file's import of fmt", strings.Join(names, ", ")), nil)
	} else {
		r.Hold("R14.7", key, "template-internal imports are protected from the user's alias table")
	}
}

// aliasReservation: does ValidateMetaImports reject alias names (a set / map lookup guarding an error)?
func aliasReservation(e *Env) bool {
	fn := e.P.Func(inputRel, "ValidateMetaImports")
	if fn == nil {
		return false
	}
	for _, s := range errorSites([]*ssa.Function{fn}) {
		for d := s.call.Block(); d != nil; d = d.Idom() {
			id := d.Idom()
			if id == nil {
				break
			}
			if iff, ok := id.Instrs[len(id.Instrs)-1].(*ssa.If); ok {
				// a map lookup or a switch over constants on the alias
				var hasLookup func(v ssa.Value, dd int) bool
				hasLookup = func(v ssa.Value, dd int) bool {
					if dd > 5 {
						return false
					}
					switch x := v.(type) {
					case *ssa.Lookup:
						return true
					case *ssa.Extract:
						return hasLookup(x.Tuple, dd+1)
					case *ssa.UnOp:
						return hasLookup(x.X, dd+1)
					}
					return false
				}
				if hasLookup(iff.Cond, 0) {
					return true
				}
			}
		}
	}
	return false
}

// ---- R14.8: capture groups reach the compiled expression ----

func c14Groups(e *Env) {
	r := e.R
	type spec struct {
		rel, fn string
		groups  []string
	}
	for _, s := range []spec{
		{compilerRel, "StepCompileServices.serviceType", []string{"ptr", "import", "type"}},
		{compilerRel, "StepCompileServices.serviceConstructor", []string{"import", "fn"}},
		{compilerRel, "StepCompileDecorators.processDecorator", []string{"import", "fn"}},
		{"internal/pkg/syntax", "CompileServiceValue", []string{"ptr", "import", "value", "ptr2", "import2", "struct2"}},
		{compilerRel, "StepCompileMeta.handleFunctions", []string{"import", "fn"}},
	} {
		fn := e.P.Func(s.rel, s.fn)
		key := s.rel + "." + s.fn
		if fn == nil {
			r.Undecide("R14.8", key, "anchor not found")
			continue
		}
		// which constant keys are looked up, and does each looked-up value reach a return / call argument
		// without being conditioned on anything but its own emptiness?
		used := map[string]bool{}
		// the function and the helpers of its package it calls directly (an extracted `qualifiedName(raw)`)
		for _, uf := range unitFns(fn, 1) {
			allInstrs(uf, func(_ *ssa.Function, ins ssa.Instruction) {
				if lk, ok := ins.(*ssa.Lookup); ok {
					if k, ok := constString(lk.Index); ok {
						for _, ref := range *lk.Referrers() {
							switch u := ref.(type) {
							case *ssa.BinOp:
								if u.Op == token.ADD {
									used[k] = true
								}
							case *ssa.DebugRef:
							default:
								used[k] = true
							}
						}
					}
				}
			})
		}
		allInstrs(fn, func(_ *ssa.Function, ins ssa.Instruction) {
			if lk, ok := ins.(*ssa.Lookup); ok {
				if k, ok := constString(lk.Index); ok {
					// the value must have a use other than a comparison
					for _, ref := range *lk.Referrers() {
						switch u := ref.(type) {
						case *ssa.BinOp:
							if u.Op == token.ADD {
								used[k] = true
							}
						case *ssa.DebugRef:
						default:
							used[k] = true
						}
					}
				}
			}
		})
		for _, g := range s.groups {
			r.Check(used[g], "R14.8", key+"#group:"+g, fmt.Sprintf("capture group %q of the reference is consumed by the compiler (not only tested)", g))
		}
		// every non-error return derives from all non-optional groups: approximate by requiring that no return
		// is reachable without passing a use of the 'ptr' group when the function reads it
		if used["ptr"] {
			okPtr := true
			var ptrVals []ssa.Value
			allInstrs(fn, func(_ *ssa.Function, ins ssa.Instruction) {
				if lk, ok := ins.(*ssa.Lookup); ok {
					if k, ok := constString(lk.Index); ok && (k == "ptr" || k == "ptr2") {
						ptrVals = append(ptrVals, lk)
					}
				}
			})
			ts := taintFrom(fn, ptrVals...)
			for _, b := range fn.Blocks {
				for _, ins := range b.Instrs {
					if ret, ok := ins.(*ssa.Return); ok {
						v := ret.Results[0]
						if _, isConst := v.(*ssa.Const); isConst {
							continue // the fixed "interface{}" / "" results for an absent attribute
						}
						if !ts.has(v) {
							okPtr = false
						}
					}
				}
			}
			r.Check(okPtr, "R14.8", key+"#ptr-on-every-path", "the pointer/address marker of the reference is part of the result on every path that compiles a reference (not only when an import part is present)")
		}
	}
}

var _ = types.Universe

// c14Guards: R14.9.
func c14Guards(e *Env) {
	r := e.R
	counts := map[string]int{}
	for _, fn := range e.P.Funcs() {
		if fn.Pkg == nil || isGeneratedFn(e.P, rootFn(fn)) {
			continue
		}
		rel := e.P.Rel(fn.Pkg.Pkg.Path())
		if rel != compilerRel && rel != "internal/pkg/syntax" && rel != "internal/pkg/token" && rel != "internal/pkg/resolver" {
			continue
		}
		for _, b := range fn.Blocks {
			for _, ins := range b.Instrs {
				c, ok := ins.(ssa.CallInstruction)
				if !ok || !c.Common().IsInvoke() || c.Common().Method.Name() != "Alias" {
					continue
				}
				arg := c.Common().Args[0]
				if _, isConst := arg.(*ssa.Const); isConst {
					continue
				}
				fk := e.P.FuncKey(fn)
				counts[fk]++
				key := fmt.Sprintf("%s -> Alias #%d", fk, counts[fk])
				r.Check(nonEmptyGuard(fn, arg, c), "R14.9", key, "the aliased import is tested non-empty (the same value, after sanitising) on the path to the call", e.P.Pos(c.Pos()))
			}
		}
	}
}

func sameStringSource(a, b ssa.Value) bool {
	if a == b {
		return true
	}
	la, ok1 := a.(*ssa.UnOp)
	lb, ok2 := b.(*ssa.UnOp)
	if ok1 && ok2 {
		fa, ok3 := la.X.(*ssa.FieldAddr)
		fb, ok4 := lb.X.(*ssa.FieldAddr)
		if ok3 && ok4 && fa.Field == fb.Field && fa.X == fb.X {
			return true
		}
	}
	return false
}

func nonEmptyGuard(fn *ssa.Function, v ssa.Value, at ssa.Instruction) bool {
	for _, b := range fn.Blocks {
		iff, ok := b.Instrs[len(b.Instrs)-1].(*ssa.If)
		if !ok {
			continue
		}
		bo, ok := iff.Cond.(*ssa.BinOp)
		if !ok || (bo.Op != token.NEQ && bo.Op != token.EQL) {
			continue
		}
		if s, ok := constString(bo.Y); !ok || s != "" {
			continue
		}
		if !sameStringSource(bo.X, v) {
			continue
		}
		if edgeDominates(b, bo.Op == token.NEQ, at) {
			return true
		}
	}
	return false
}
