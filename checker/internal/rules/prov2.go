package rules

import (
	"fmt"
	"go/token"
	"go/types"
	"sort"
	"strings"

	"golang.org/x/tools/go/ssa"
)

// SSA form of R02.3 (field provenance): for every store into field K of a value of the output type built in
// the function (composite literal or field-by-field), the stored value is computed from the field(s) of
// the source type the table names, and from no other field of it. Source values are recognised by their
// type, so the rule does not depend on variable names, on locals, or on how the literal is written.

var provSrcType = map[string][2]string{ // spec function -> (rel, type) of the source
	"StepCompileServices.processService":     {inputRel, "Service"},
	"StepCompileServices.serviceCalls":       {inputRel, "Call"},
	"StepCompileServices.serviceTags":        {inputRel, "Tag"},
	"StepCompileDecorators.processDecorator": {inputRel, "Decorator"},
	"StepCompileParams.Process":              {resolverRel, "ParamExpr"},
}

func fieldProvenanceSSA(e *Env, rule string, sp provSpec) bool {
	r := e.R
	key := sp.rel + "." + sp.fn
	fn := e.P.Func(sp.rel, sp.fn)
	st, okT := provSrcType[sp.fn]
	ot := outputType(e, sp.outType)
	if fn == nil || !okT || ot == nil {
		return false
	}
	isSrc := func(t types.Type) bool {
		if p, ok := t.Underlying().(*types.Pointer); ok {
			t = p.Elem()
		}
		return isNamed(t, e.P.ModPath+"/"+st[0], st[1])
	}
	var reads func(v ssa.Value, out map[string]bool, seen map[ssa.Value]bool, depth int)
	reads = func(v ssa.Value, out map[string]bool, seen map[ssa.Value]bool, depth int) {
		if v == nil || seen[v] || depth > 14 {
			return
		}
		seen[v] = true
		switch x := v.(type) {
		case *ssa.Field:
			if isSrc(x.X.Type()) {
				out[fieldNameT(x.X.Type(), x.Field)] = true
				return
			}
			reads(x.X, out, seen, depth+1)
		case *ssa.FieldAddr:
			if isSrc(x.X.Type()) {
				out[fieldName(x)] = true
				return
			}
			reads(x.X, out, seen, depth+1)
		case *ssa.UnOp:
			if al, ok := x.X.(*ssa.Alloc); ok && x.Op == token.MUL {
				for _, ref := range *al.Referrers() {
					if s, ok := ref.(*ssa.Store); ok && s.Addr == al {
						reads(s.Val, out, seen, depth+1)
					}
				}
				return
			}
			reads(x.X, out, seen, depth+1)
		case *ssa.Call:
			for _, a := range x.Call.Args {
				reads(a, out, seen, depth+1)
			}
			if x.Call.IsInvoke() {
				reads(x.Call.Value, out, seen, depth+1)
			}
		case *ssa.Phi:
			for _, ed := range x.Edges {
				reads(ed, out, seen, depth+1)
			}
		case *ssa.Extract:
			reads(x.Tuple, out, seen, depth+1)
		case *ssa.MakeInterface:
			reads(x.X, out, seen, depth+1)
		case *ssa.ChangeType:
			reads(x.X, out, seen, depth+1)
		case *ssa.Convert:
			reads(x.X, out, seen, depth+1)
		case *ssa.Slice:
			reads(x.X, out, seen, depth+1)
		case *ssa.BinOp:
			reads(x.X, out, seen, depth+1)
			reads(x.Y, out, seen, depth+1)
		case *ssa.IndexAddr:
			reads(x.X, out, seen, depth+1)
		case *ssa.Index:
			reads(x.X, out, seen, depth+1)
		case *ssa.Lookup:
			reads(x.X, out, seen, depth+1)
		case *ssa.Alloc:
			for _, ref := range *x.Referrers() {
				if s, ok := ref.(*ssa.Store); ok && s.Addr == x {
					reads(s.Val, out, seen, depth+1)
				}
			}
		case *ssa.FreeVar:
			// captured variable: the binding in the parent
			for i, fv := range x.Parent().FreeVars {
				if fv != x || x.Parent().Parent() == nil {
					continue
				}
				allInstrs(rootFn(x.Parent()), func(_ *ssa.Function, ins ssa.Instruction) {
					if mc, ok := ins.(*ssa.MakeClosure); ok && mc.Fn == ssa.Value(x.Parent()) && i < len(mc.Bindings) {
						reads(mc.Bindings[i], out, seen, depth+1)
					}
				})
			}
		}
	}
	// stores into fields of values of the output type, in the function and its literals (and direct helpers)
	stored := map[string]map[string]bool{}
	nstores := 0
	for _, f := range unitFns(fn, 1) {
		allInstrs(f, func(_ *ssa.Function, ins ssa.Instruction) {
			s, ok := ins.(*ssa.Store)
			if !ok {
				return
			}
			fa, ok := s.Addr.(*ssa.FieldAddr)
			if !ok {
				return
			}
			bt := fa.X.Type()
			if p, ok := bt.Underlying().(*types.Pointer); ok {
				bt = p.Elem()
			}
			if !types.Identical(bt, ot) {
				return
			}
			nstores++
			k := fieldName(fa)
			if stored[k] == nil {
				stored[k] = map[string]bool{}
			}
			reads(s.Val, stored[k], map[ssa.Value]bool{}, 0)
		})
	}
	if nstores == 0 {
		return false
	}
	stt := ot.Underlying().(*types.Struct)
	for i := 0; i < stt.NumFields(); i++ {
		f := stt.Field(i).Name()
		want, listed := sp.expected[f]
		fkey := key + "#" + sp.outType + "." + f
		got, has := stored[f]
		if !listed {
			if has {
				r.Undecide(rule, fkey, "a field of the output model without a documented source: extend the provenance table")
			}
			continue
		}
		if !has {
			r.Violate(rule, fkey, "the field is not set: the declared attribute is dropped", nil)
			continue
		}
		if want == "*" {
			r.Hold(rule, fkey, "derived by its own rule (R13.4)")
			continue
		}
		var gs []string
		for k := range got {
			gs = append(gs, k)
		}
		sort.Strings(gs)
		r.Check(strings.Join(gs, ",") == want, rule, fkey, fmt.Sprintf("output %s.%s is computed from the declared %q and nothing else of the source (reads %v)", sp.outType, f, want, gs))
	}
	return true
}
