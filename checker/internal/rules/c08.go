package rules

import (
	"fmt"
	"go/ast"
	"go/types"
	"golang.org/x/tools/go/ssa"
	"strings"

	"gverif/internal/load"

	"golang.org/x/tools/go/packages"
)

func init() { Register("C08", C08) }

// nondeterminism sources that must not be called from generator code
var nondetCalls = map[string]string{
	"time.Now": "clock", "time.Since": "clock", "time.Until": "clock",
	"os.Getenv": "environment", "os.LookupEnv": "environment", "os.Environ": "environment", "os.ExpandEnv": "environment",
	"os.Getwd": "working directory", "path/filepath.Abs": "working directory",
	"os.Hostname": "host", "os.Getpid": "process", "os.Getppid": "process", "os.TempDir": "environment",
	"os.UserHomeDir": "environment", "os.UserCacheDir": "environment", "os.UserConfigDir": "environment",
	"os.Executable": "process", "os.MkdirTemp": "random name", "os.CreateTemp": "random name",
	"runtime.NumGoroutine": "scheduler", "runtime.NumCPU": "host", "runtime.GOMAXPROCS": "host",
	"reflect.(Value).MapKeys": "map order", "reflect.(Value).MapRange": "map order",
	"sync.(Map).Range": "map order",
	"maps.Keys":        "map order (iterator)", "maps.Values": "map order (iterator)", "maps.All": "map order (iterator)",
	"golang.org/x/exp/maps.Keys": "map order", "golang.org/x/exp/maps.Values": "map order",
}

func NondetSites(p *load.Program) (sites []string, calls int) {
	p.EachFuncDecl(func(pk *packages.Package, rel string, fd *ast.FuncDecl) {
		if fd.Body == nil {
			return
		}
		if f := load.FileOf(pk, fd); f != nil && ast.IsGenerated(f) {
			return // checked-in generated container: its env helpers are generated code, decided by C19/C20
		}
		key := load.DeclKey(rel, fd)
		ast.Inspect(fd.Body, func(n ast.Node) bool {
			switch x := n.(type) {
			case *ast.GoStmt:
				sites = append(sites, key+": go statement @"+p.Pos(x.Pos()))
			case *ast.SelectStmt:
				sites = append(sites, key+": select statement @"+p.Pos(x.Pos()))
			case *ast.CallExpr:
				calls++
				o := load.Callee(pk.TypesInfo, x)
				name := calleeName(o)
				if why, bad := nondetCalls[name]; bad {
					sites = append(sites, fmt.Sprintf("%s: call of %s (%s) @%s", key, name, why, p.Pos(x.Pos())))
				}
				if strings.HasPrefix(name, "math/rand.") || strings.HasPrefix(name, "math/rand/v2.") || strings.HasPrefix(name, "crypto/rand.") {
					sites = append(sites, fmt.Sprintf("%s: call of %s (randomness) @%s", key, name, p.Pos(x.Pos())))
				}
				// %p in a constant format string
				for _, a := range x.Args {
					if s, ok := load.StringOf(pk.TypesInfo, a); ok && strings.Contains(s, "%p") && strings.HasPrefix(name, "fmt.") {
						sites = append(sites, fmt.Sprintf("%s: pointer formatting %%p @%s", key, p.Pos(x.Pos())))
					}
				}
			}
			return true
		})
	})
	return
}

func C08(e *Env) {
	r := e.R
	e.analysedBase()
	r.Rule("R08.1", "every range over a map in module code has an order-insensitive body (map store keyed by the range key, integer accumulation, delete, or collecting the key into a slice that is totally sorted on that key before any other use); anything else lets hash-map iteration order reach the output or the diagnostics", 1)
	r.Rule("R08.1-control", "positive control: the lint must report the order-sensitive map range of fixtures/ctl", 1)
	r.Rule("R08.2", "no non-test function of the module reads the clock, randomness, the environment, the working directory, process/host facts or map order through reflection, starts a goroutine or selects", 1)
	r.Rule("R08.3", "every YAML mapping position of input.Input decodes into a Go map or a struct (no yaml.Node / MapSlice / ordered pair list anywhere in the input types, custom unmarshalers decode into interface{}, []interface{} or string), so key order inside a mapping is erased by the decoder's target types", 5)

	// R08.1
	mrs := MapRanges(e.P)
	for _, m := range mrs {
		if m.Sensitive {
			r.Violate("R08.1", m.Key, "order-sensitive range over a map: "+m.Why, nil, m.Pos)
		} else {
			r.Hold("R08.1", m.Key, "order-insensitive", m.Pos)
		}
	}
	r.Analysed["map_ranges"] = len(mrs)
	if ctl := e.Control("ctl", false); ctl != nil {
		hit := 0
		for _, m := range MapRanges(ctl) {
			if m.Sensitive {
				hit++
			}
		}
		if hit >= 2 {
			r.Hold("R08.1-control", "fixtures/ctl", fmt.Sprintf("%d seeded order-sensitive ranges reported", hit))
		} else {
			r.Undecide("R08.1-control", "fixtures/ctl", "the seeded order-sensitive map ranges were not reported: the lint is blind")
		}
		s, _ := NondetSites(ctl)
		if len(s) >= 2 {
			r.Hold("R08.1-control", "fixtures/ctl#nondet", fmt.Sprintf("%d seeded nondeterminism sources reported", len(s)))
		} else {
			r.Undecide("R08.1-control", "fixtures/ctl#nondet", "the seeded nondeterminism sources were not reported")
		}
	}

	// R08.2
	sites, calls := NondetSites(e.P)
	r.Analysed["call_sites_scanned"] = calls
	for _, s := range sites {
		r.Violate("R08.2", strings.SplitN(s, " @", 2)[0], "nondeterminism source in generator code", nil, strings.SplitN(s+" @", " @", 3)[1])
	}
	if len(sites) == 0 {
		r.Hold("R08.2", "module", fmt.Sprintf("%d call sites scanned, none resolves to a nondeterminism source; no go/select statement", calls))
	}

	// R08.3
	c08KeyOrder(e)
	// the generated file must not depend on what was at the -o path before
	r.Rule("R10.1", "the output is written by exactly one os.WriteFile (create-or-truncate, whole content): the generated file is a function of the inputs, not of a previous file at the -o path (shared with C10)", 1)
	nw := 0
	var wHelper08 *ssa.Function
	if gen := e.P.Func("internal/cmd/runner", "StepCodeGenerator.Run"); gen != nil {
		_, _, _, wHelper08, _ = writeSite(gen)
	}
	for _, c := range moduleCalls(e.P) {
		if fileMutators[c.name] {
			key := c.fnKey + " -> " + c.name
			inGen := c.fnKey == "(*internal/cmd/runner.StepCodeGenerator).Run" || (wHelper08 != nil && c.fn == wHelper08)
			if c.name == "os.WriteFile" && inGen {
				nw++
				r.Hold("R10.1", key, "the one file write", e.P.Pos(c.ins.Pos()))
			} else {
				r.Undecide("R10.1", key, "file mutation through an API whose truncation semantics are not reviewed (a file opened without O_TRUNC keeps the tail of a longer previous output)", e.P.Pos(c.ins.Pos()))
			}
		}
	}
	if nw != 1 {
		r.Violate("R10.1", "internal/cmd/runner.StepCodeGenerator.Run#writes", fmt.Sprintf("%d os.WriteFile calls in the code generator, expected exactly 1", nw), nil)
	}

	// the import pass may only *remove*: an identifier the templates leave unresolved is looked up by
	// x/tools/imports in the files around the working directory, so the output depends on where the tool runs
	if b := newSkelBuilder(e); b.fr.ok && b.te.DataType != nil {
		n, bad := 0, map[string]string{}
		for _, sk := range b.skeletons(e.Tier) {
			for _, stub := range []bool{false, true} {
				f, info := sk.Files[stub], sk.Info[stub]
				if f == nil || info == nil {
					continue
				}
				ast.Inspect(f, func(nd ast.Node) bool {
					sel, ok := nd.(*ast.SelectorExpr)
					if !ok {
						return true
					}
					id, ok := sel.X.(*ast.Ident)
					if !ok {
						return true
					}
					n++
					if info.Uses[id] == nil && info.Defs[id] == nil {
						bad[id.Name] = fmt.Sprintf("%s.%s", id.Name, sel.Sel.Name)
					}
					return true
				})
			}
		}
		r.Analysed["qualified_identifiers_in_skeletons"] = n
		if n == 0 {
			r.Undecide("R08.4", "templates#qualifiers-resolved", "no instantiated template could be inspected")
		}
		for name, ex := range bad {
			r.Violate("R08.4", "templates#unresolved-qualifier["+name+"]", "the generated text uses "+ex+" but the head template does not import "+name+" (importAlias): x/tools/imports will guess the package from the Go files near the working directory, so the same input gives different files in different places", nil)
		}
		if len(bad) == 0 && n > 0 {
			r.Hold("R08.4", "templates#qualifiers-resolved", fmt.Sprintf("%d qualified identifiers in the instantiated templates (both modes): every qualifier is a package the file imports itself or a declared object", n))
		}
	}
	r.Rule("R08.4", "the import pass only removes: every package qualifier in the instantiated templates resolves before imports.Process runs (the templates import what they use through importAlias), so the pass never adds an import — an added import is resolved from the Go files around the working directory, i.e. from the environment", 1)
	r.NotCovered = append(r.NotCovered,
		"byte identity of repeated runs as such (no execution)",
		"colouring decisions of github.com/fatih/color (terminal / NO_COLOR), outside the module",
		"determinism of go/format, x/tools/imports and yaml.v3 (trusted)")
}

func c08KeyOrder(e *Env) {
	r := e.R
	in := e.P.Pkg("internal/pkg/input")
	if in == nil {
		r.Undecide("R08.3", "internal/pkg/input", "package not found")
		return
	}
	root := in.Types.Scope().Lookup("Input")
	if root == nil {
		r.Undecide("R08.3", "input.Input", "type not found")
		return
	}
	seen := map[types.Type]bool{}
	var walk func(t types.Type, path string)
	walk = func(t types.Type, path string) {
		if seen[t] {
			return
		}
		seen[t] = true
		if n, ok := t.(*types.Named); ok {
			if pk := n.Obj().Pkg(); pk != nil && strings.HasPrefix(pk.Path(), "gopkg.in/yaml") {
				r.Violate("R08.3", path, "order-preserving YAML type "+n.String()+" in the input model", nil)
				return
			}
		}
		switch u := t.Underlying().(type) {
		case *types.Struct:
			for i := 0; i < u.NumFields(); i++ {
				f := u.Field(i)
				walk(f.Type(), path+"."+f.Name())
			}
			if _, ok := t.(*types.Named); ok {
				r.Hold("R08.3", path, "struct: field order is fixed by the type, not by the document")
			}
		case *types.Map:
			r.Hold("R08.3", path, "Go map: key order of the YAML mapping is not retained")
			walk(u.Elem(), path+"[*]")
		case *types.Slice:
			// a slice of 2-field key/value structs would retain mapping order
			walk(u.Elem(), path+"[*]")
		case *types.Pointer:
			walk(u.Elem(), path)
		}
	}
	walk(root.Type(), "Input")
	// custom unmarshalers: the variable handed to unmarshal() must be interface{}, []interface{}, string
	n := 0
	for _, f := range in.Syntax {
		for _, d := range f.Decls {
			fd, ok := d.(*ast.FuncDecl)
			if !ok || fd.Name.Name != "UnmarshalYAML" || fd.Body == nil {
				continue
			}
			key := load.DeclKey("internal/pkg/input", fd)
			// yaml.v3's other interface: UnmarshalYAML(*yaml.Node) keeps order
			for _, prm := range fd.Type.Params.List {
				if t := in.TypesInfo.TypeOf(prm.Type); t != nil && strings.Contains(t.String(), "yaml") {
					r.Violate("R08.3", key, "unmarshaler receives an order-preserving node: "+t.String(), nil, e.P.Pos(fd.Pos()))
				}
			}
			ast.Inspect(fd.Body, func(nd ast.Node) bool {
				call, ok := nd.(*ast.CallExpr)
				if !ok || len(call.Args) != 1 {
					return true
				}
				id, ok := ast.Unparen(call.Fun).(*ast.Ident)
				if !ok {
					return true
				}
				if _, isParam := in.TypesInfo.ObjectOf(id).(*types.Var); !isParam {
					return true
				}
				if _, isSig := in.TypesInfo.TypeOf(id).Underlying().(*types.Signature); !isSig {
					return true
				}
				t := in.TypesInfo.TypeOf(call.Args[0])
				n++
				okT := false
				if pt, ok := t.(*types.Pointer); ok {
					switch u := pt.Elem().Underlying().(type) {
					case *types.Interface:
						okT = u.Empty()
					case *types.Basic:
						okT = true
					case *types.Slice:
						if iu, ok := u.Elem().Underlying().(*types.Interface); ok && iu.Empty() {
							okT = true
						}
						if _, ok := u.Elem().Underlying().(*types.Basic); ok {
							okT = true
						}
					case *types.Map:
						okT = true
					}
				}
				if okT {
					r.Hold("R08.3", key+"#decode", "decodes into "+t.String(), e.P.Pos(call.Pos()))
				} else {
					r.Violate("R08.3", key+"#decode", "custom unmarshaler decodes into "+t.String()+", which may retain mapping order", nil, e.P.Pos(call.Pos()))
				}
				return true
			})
		}
	}
	r.Analysed["custom_unmarshalers_decode_sites"] = n
}
