package rules

import (
	"go/token"
	"go/types"
	"gverif/internal/load"
	"sort"
	"strings"

	"golang.org/x/tools/go/ssa"
)

// strLang computes a regular over-approximation of the strings an SSA string value can take, for the
// constructors the generator uses to build names: constants, concatenation, fmt.Sprintf with a constant
// format and %s/%d/%x/%v verbs, strconv.FormatInt/Itoa of a non-negative counter, and
// (*regexp.Regexp).ReplaceAllString with a constant replacement (given `kept`, the language of the runes
// the pattern leaves in place). Anything else is the universal language. `reads` collects the struct
// fields whose value flows into the string.
type strLangCtx struct {
	subst map[*ssa.Parameter]ssa.Value // parameters of an inlined helper -> the caller's arguments
	kept  string                       // regex class of runes a ReplaceAllString keeps
	reads map[string]bool
	exact bool // false as soon as an unknown constructor was over-approximated by .*
}

func (c *strLangCtx) lang(v ssa.Value, depth int) string {
	if depth > 12 || v == nil {
		c.exact = false
		return `(?s:.*)`
	}
	switch x := v.(type) {
	case *ssa.Parameter:
		if a, ok := c.subst[x]; ok {
			return c.lang(a, depth+1)
		}
	case *ssa.Const:
		if s, ok := constString(x); ok {
			return rxQuote(s)
		}
	case *ssa.BinOp:
		if x.Op == token.ADD {
			return c.lang(x.X, depth+1) + c.lang(x.Y, depth+1)
		}
	case *ssa.MakeInterface:
		return c.lang(x.X, depth+1)
	case *ssa.ChangeType:
		return c.lang(x.X, depth+1)
	case *ssa.UnOp:
		if fa, ok := x.X.(*ssa.FieldAddr); ok {
			c.reads[fieldName(fa)] = true
		}
	case *ssa.Phi:
		var alts []string
		for _, ed := range x.Edges {
			alts = append(alts, c.lang(ed, depth+1))
		}
		sort.Strings(alts)
		return "(?:" + strings.Join(alts, "|") + ")"
	case *ssa.Call:
		name := callName(x.Common())
		args := x.Call.Args
		if strings.HasPrefix(name, "strings.(Builder).String") && len(args) == 1 {
			// the text written into the builder so far, in program order (straight-line use)
			var parts []string
			type w struct {
				pos  token.Pos
				lang string
			}
			var ws []w
			okB := true
			if refs := args[0].Referrers(); refs != nil {
				for _, ref := range *refs {
					wc, isCall := ref.(*ssa.Call)
					if !isCall || wc == x {
						continue
					}
					wn := callName(&wc.Call)
					switch {
					case wn == "strings.(Builder).WriteString" && len(wc.Call.Args) == 2 && wc.Block() == x.Block():
						ws = append(ws, w{wc.Pos(), c.lang(wc.Call.Args[1], depth+1)})
					case wn == "strings.(Builder).WriteByte" || wn == "strings.(Builder).WriteRune":
						if k, isK := wc.Call.Args[1].(*ssa.Const); isK && wc.Block() == x.Block() {
							ws = append(ws, w{wc.Pos(), rxQuote(string(rune(k.Int64())))})
						} else {
							okB = false
						}
					case wn == "strings.(Builder).Grow" || wn == "strings.(Builder).Len":
					default:
						okB = false
					}
				}
			}
			if okB {
				sort.Slice(ws, func(i, j int) bool { return ws[i].pos < ws[j].pos })
				for _, e := range ws {
					parts = append(parts, e.lang)
				}
				return strings.Join(parts, "")
			}
		}
		switch {
		case name == "strconv.FormatInt" && len(args) == 2:
			c.lang(args[0], depth+1) // records the fields read
			if b, ok := constInt(args[1]); ok {
				switch {
				case b <= 10:
					return `[0-9]+`
				case b <= 16:
					return `[0-9a-f]+`
				default:
					return `[0-9a-z]+`
				}
			}
		case name == "strconv.Itoa" && len(args) == 1:
			c.lang(args[0], depth+1)
			return `[0-9]+`
		case name == "fmt.Sprintf" && len(args) == 2:
			f, ok := constString(args[0])
			if !ok {
				break
			}
			var vals []ssa.Value
			if sl, ok := args[1].(*ssa.Slice); ok {
				if al, ok := sl.X.(*ssa.Alloc); ok {
					byIdx := map[int64]ssa.Value{}
					for _, ref := range *al.Referrers() {
						if ia, ok := ref.(*ssa.IndexAddr); ok {
							k, _ := constInt(ia.Index)
							for _, r2 := range *ia.Referrers() {
								if st, ok := r2.(*ssa.Store); ok {
									byIdx[k] = st.Val
								}
							}
						}
					}
					for i := int64(0); i < int64(len(byIdx)); i++ {
						vals = append(vals, byIdx[i])
					}
				}
			}
			var b strings.Builder
			ai := 0
			for i := 0; i < len(f); i++ {
				if f[i] != '%' || i+1 >= len(f) {
					b.WriteString(rxQuote(string(f[i])))
					continue
				}
				i++
				switch f[i] {
				case '%':
					b.WriteString("%")
				case 'd', 'x', 'X', 'o', 'b':
					if ai < len(vals) && isIntegerValue(vals[ai]) {
						ex := c.exact
						c.lang(vals[ai], depth+1) // records the fields read
						c.exact = ex
						b.WriteString(map[byte]string{'d': `[0-9]+`, 'x': `[0-9a-f]+`, 'X': `[0-9A-F]+`, 'o': `[0-7]+`, 'b': `[01]+`}[f[i]])
					} else if ai < len(vals) && (f[i] == 'd' || f[i] == 'x') {
						b.WriteString("(?:" + c.lang(vals[ai], depth+1) + ")")
					} else {
						c.exact = false
						b.WriteString(`(?s:.*)`)
					}
					ai++
				case 's', 'v':
					if ai < len(vals) && isIntegerValue(vals[ai]) {
						ex := c.exact
						c.lang(vals[ai], depth+1)
						c.exact = ex
						b.WriteString(`[0-9]+`)
					} else if ai < len(vals) {
						b.WriteString("(?:" + c.lang(vals[ai], depth+1) + ")")
					} else {
						c.exact = false
						b.WriteString(`(?s:.*)`)
					}
					ai++
				default:
					c.exact = false
					b.WriteString(`(?s:.*)`)
					ai++
				}
			}
			return b.String()
		case x.Call.StaticCallee() != nil && load.Current != nil && load.Current.InModule(x.Call.StaticCallee()) && isStringType(x.Type()):
			// a helper of the module that builds the string: its single returned expression, with the
			// parameters replaced by the arguments
			g := x.Call.StaticCallee()
			var rets []ssa.Value
			for _, b := range g.Blocks {
				if ret, ok := b.Instrs[len(b.Instrs)-1].(*ssa.Return); ok && b != g.Recover && len(ret.Results) == 1 {
					rets = append(rets, ret.Results[0])
				}
			}
			if len(rets) == 1 && len(g.Params) == len(args) {
				if c.subst == nil {
					c.subst = map[*ssa.Parameter]ssa.Value{}
				}
				for i, p := range g.Params {
					c.subst[p] = args[i]
				}
				return c.lang(rets[0], depth+1)
			}
		case strings.HasSuffix(name, "Regexp).ReplaceAllString") && strings.HasPrefix(name, "regexp.") && len(args) == 3 && c.kept != "":
			if repl, ok := constString(args[2]); ok && !strings.Contains(repl, "$") {
				c.lang(args[1], depth+1)
				return "(?:" + c.kept + "|" + rxQuote(repl) + ")*"
			}
		}
	}
	c.exact = false
	return `(?s:.*)`
}

// isIntegerValue: v (possibly boxed into an interface) has an integer type; like strconv.FormatInt above,
// the value is taken to be a non-negative counter.
func isIntegerValue(v ssa.Value) bool {
	if mi, ok := v.(*ssa.MakeInterface); ok {
		v = mi.X
	}
	b, ok := v.Type().Underlying().(*types.Basic)
	return ok && b.Info()&types.IsInteger != 0
}
