package rules

import (
	"fmt"
	"go/ast"
	"go/token"
	"go/types"
	"sort"
	"strings"

	"gverif/internal/load"

	"golang.org/x/tools/go/callgraph"
	"golang.org/x/tools/go/ssa"
)

func init() { Register("C12", C12) }

type panicSite struct {
	fn   *ssa.Function
	ins  ssa.Instruction
	kind string // panic | must-call | assert | index | slice | div | repeat | nil-map | deref
	desc string
}

func C12(e *Env) {
	r := e.R
	e.analysedBase()
	r.Rule("R12.1", "panic-site audit: every panic-capable construct of module code (explicit panic, Must* call, unchecked type assertion, index/slice expression, integer division, strings.Repeat, dereference of a nullable configuration pointer) is enumerated and discharged by a local rule: constant pattern that compiles; assertion under the strategy's own Supports; index equal to the range index of a slice of the same length; constant index under a len guard; library contract; paired Indent/EndIndent; MustExport of a primitive; nil test on the same pointer", 40)
	r.Rule("R12.2", "no unbounded recursion: the only cycles of the module's call graph go through Step.Run of an injected step (composite steps), whose nesting is bounded because the wiring of gontainer.go is acyclic", 1)
	r.Rule("R12.3", "every loop is a range over a finite value or a counted loop whose bound is not changed in the body", 1)
	r.Rule("R12.4", "strings.Repeat count ≥ 0: every string that can reach PrintAlignedLn is a constant (step names from Name() methods and wiring literals, marks, \" END\"), and the longest one plus the deepest indentation fits rowWidth", 1)
	r.Rule("R12.6", "validation is the first compile step, so later steps only see values their regular expressions matched", 1)
	r.Rule("R12.7", "every custom unmarshaler returns an error on each failed assertion (no unchecked assertion on decoded YAML)", 4)
	r.Rule("R12.8", "the wiring itself cannot fail: in gontainer.go every constructor accepts the static types of its declared dependencies (after decoration), every referenced service/parameter exists, there is no dependency cycle, and every todo parameter/service is overridden in buildRunner before the first Must* call", 40)

	sites := enumeratePanicSites(e)
	r.Analysed["panic_capable_sites"] = len(sites)
	byKind := map[string]int{}
	counts := map[string]int{}
	for _, s := range sites {
		byKind[s.kind]++
		fk := e.P.FuncKey(s.fn)
		counts[fk+"|"+s.kind+"|"+s.desc]++
		key := fmt.Sprintf("%s: %s %s #%d", fk, s.kind, s.desc, counts[fk+"|"+s.kind+"|"+s.desc])
		why, ok := discharge(e, s)
		if ok {
			r.Hold("R12.1", key, why, e.P.Pos(s.ins.Pos()))
		} else {
			r.Undecide("R12.1", key, "panic-capable construct that no discharge rule covers: "+why, e.P.Pos(s.ins.Pos()))
		}
	}
	r.Analysed["panic_sites_by_kind"] = byKind
	// positive control for the zero-expected kind deref-lookup
	r.Rule("R12.1-control", "positive control: the unguarded dereference of a map-read pointer in fixtures/ctl is enumerated and not discharged; the guarded forms are discharged", 1)
	if ctl := e.Control("ctl", true); ctl != nil {
		bad, good := 0, 0
		for _, s := range enumeratePanicSitesIn(e, ctl) {
			if s.kind != "deref-lookup" {
				continue
			}
			if _, ok := dischargeDerefLookup(e, s); ok {
				good++
			} else if s.fn.Name() == "LookupDeref" {
				bad++
			} else {
				bad = -100
			}
		}
		if bad == 1 && good == 2 {
			r.Hold("R12.1-control", "fixtures/ctl#LookupDeref", "1 unguarded site reported, 2 guarded sites discharged")
		} else {
			r.Undecide("R12.1-control", "fixtures/ctl#LookupDeref", fmt.Sprintf("control not reproduced (unguarded %d, guarded %d): the rule is blind or over-eager", bad, good))
		}
	}
	ruleE(e, "R10.4")
	r.Rule("R10.4", "no error is dropped (shared with C10): a value returned next to a discarded error may be nil, and using it panics (`fi, _ := os.Stat(p); fi.IsDir()`)", 50)
	c12Recursion(e)
	c12Loops(e)
	c12Repeat(e)
	c12Unmarshalers(e)
	gm, _, ok := e.models()
	if ok {
		c := gm.Service("compiler")
		r.Check(c != nil && len(c.Args) > 0 && depIs(c.Args[0], "service", "stepValidateInput"), "R12.6", selfRel+"#compiler-first-step", "stepValidateInput is the first argument of compiler.New")
		stepLoopRule(e, "R12.6", compilerRel, "Compiler.Compile", "Process")
	}
	wiringTypes(e)
	sharedWriteRules(e)
	c10RunE(e)
	r.Rule("R10.6", "error list (shared with C10)", 1)
	r.Rule("R10.2", "output-file contract on every path (shared with C10): the file is written only after a successful build, and a nil return only after a successful write", 2)
	r.Rule("R10.1", "the written path is the -o path (shared with C10)", 1)
	c10Exit(e, moduleCalls(e.P))
	r.Rule("R10.5", "exit status is 0 or 1: os.Exit(1) only in main behind a failed Execute; no other process exit (shared with C10)", 1)
	r.Rule("R10.7", "cobra prints nothing by itself (shared with C10)", 2)
	r.NotCovered = append(r.NotCovered,
		"panics, hangs and resource use inside third-party code (yaml.v3, go/format, x/tools/imports, cobra, the runtime library's cycle enumeration on graphs with very many cycles)",
		"stack depth for deeply nested YAML; memory for very large inputs",
		"a failing report writer (Printer.Println panics on a write error: outside the property's quantifier, recorded as an assumption)")
	r.Assumptions = append(r.Assumptions, "the report writer (stdout or io.Discard) does not fail; Printer.Println turns a write error into a panic")
}

func enumeratePanicSites(e *Env) []panicSite { return enumeratePanicSitesIn(e, e.P) }

func enumeratePanicSitesIn(e *Env, prog *load.Program) []panicSite {
	var out []panicSite
	for _, fn := range prog.Funcs() {
		if isGeneratedFn(prog, rootFn(fn)) {
			continue
		}
		for _, b := range fn.Blocks {
			for _, ins := range b.Instrs {
				switch x := ins.(type) {
				case *ssa.Panic:
					out = append(out, panicSite{fn, ins, "panic", "explicit"})
				case ssa.CallInstruction:
					n := callName(x.Common())
					last := n
					if i := strings.LastIndex(n, "."); i >= 0 {
						last = n[i+1:]
					}
					if strings.HasPrefix(last, "Must") {
						out = append(out, panicSite{fn, ins, "must-call", shortName(prog.ModPath, n)})
					}
					if n == "strings.Repeat" {
						out = append(out, panicSite{fn, ins, "repeat", "strings.Repeat"})
					}
				case *ssa.TypeAssert:
					if !x.CommaOk {
						out = append(out, panicSite{fn, ins, "assert", "to " + x.AssertedType.String()})
					}
				case *ssa.IndexAddr:
					out = append(out, panicSite{fn, ins, "index", describeVal(x.X)})
				case *ssa.Index:
					out = append(out, panicSite{fn, ins, "index", describeVal(x.X)})
				case *ssa.Slice:
					if x.Low != nil || x.High != nil {
						// full-slice of a fresh array (varargs) has neither
						out = append(out, panicSite{fn, ins, "slice", describeVal(x.X)})
					}
				case *ssa.BinOp:
					if (x.Op == token.QUO || x.Op == token.REM) && isInteger(x.X.Type()) {
						if _, isC := x.Y.(*ssa.Const); !isC {
							out = append(out, panicSite{fn, ins, "div", "non-constant divisor"})
						}
					}
				case *ssa.UnOp:
					if x.Op == token.MUL {
						if p, ok := x.X.Type().Underlying().(*types.Pointer); ok {
							switch p.Elem().Underlying().(type) {
							case *types.Basic:
								if nullableSource(x.X) {
									out = append(out, panicSite{fn, ins, "deref", describeVal(x.X)})
								}
							default:
								if fromMapLookup(x.X) != nil {
									out = append(out, panicSite{fn, ins, "deref-lookup", describeVal(x.X)})
								}
							}
						}
					}
				case *ssa.FieldAddr:
					// a pointer read from a map is nil when the key is absent
					if fromMapLookup(x.X) != nil {
						out = append(out, panicSite{fn, ins, "deref-lookup", describeVal(x.X)})
					}
				}
			}
		}
	}
	sort.SliceStable(out, func(i, j int) bool {
		a, b := out[i], out[j]
		if a.fn.String() != b.fn.String() {
			return a.fn.String() < b.fn.String()
		}
		return a.ins.Pos() < b.ins.Pos()
	})
	return out
}

// nullableSource: a pointer loaded from a struct field or received as a parameter (may be nil),
// as opposed to the address of a local or of a field (never nil).
func nullableSource(v ssa.Value) bool {
	switch x := v.(type) {
	case *ssa.UnOp:
		if x.Op == token.MUL {
			switch x.X.(type) {
			case *ssa.FieldAddr, *ssa.IndexAddr:
				return true
			case *ssa.Alloc:
				// spilled variable holding a pointer: look at what was stored
				for _, ref := range *x.X.(*ssa.Alloc).Referrers() {
					if st, ok := ref.(*ssa.Store); ok && st.Addr == x.X && nullableSource(st.Val) {
						return true
					}
				}
			}
		}
	case *ssa.Parameter:
		// a pointer receiver is non-nil by the method-call contract (the decoder passes the address of a field)
		if fn := x.Parent(); fn != nil && fn.Signature.Recv() != nil && len(fn.Params) > 0 && fn.Params[0] == x {
			return false
		}
		return true
	case *ssa.Field:
		return true
	case *ssa.Phi:
		for _, ed := range x.Edges {
			if nullableSource(ed) {
				return true
			}
		}
	case *ssa.Extract, *ssa.Lookup:
		return true
	}
	return false
}

// ---- discharge rules ----

func discharge(e *Env, s panicSite) (string, bool) {
	switch s.kind {
	case "panic":
		return dischargePanic(e, s)
	case "must-call":
		return dischargeMust(e, s)
	case "assert":
		return dischargeAssert(e, s)
	case "index":
		return dischargeIndex(e, s)
	case "slice":
		return dischargeSlice(e, s)
	case "div":
		return "integer division by a value that is not shown to be non-zero", false
	case "repeat":
		return "count decided by R12.4", true
	case "deref":
		return dischargeDeref(e, s)
	case "deref-lookup":
		return dischargeDerefLookup(e, s)
	}
	return "unknown kind", false
}

func dischargePanic(e *Env, s panicSite) (string, bool) {
	fk := e.P.FuncKey(s.fn)
	switch fk {
	case "(*internal/cmd/runner.Printer).Println":
		// (i) reachable only for a failing report writer
		p := s.ins.(*ssa.Panic)
		for _, b := range s.fn.Blocks {
			if iff, ok := b.Instrs[len(b.Instrs)-1].(*ssa.If); ok {
				if v, nn, ok := nilTest(iff.Cond); ok {
					if _, isErr := v.(*ssa.Extract); isErr && edgeDominates(b, nn, p) {
						return "(i) raised only when the report writer's Write returns an error (assumption: the report writer does not fail)", true
					}
				}
			}
		}
		return "panic that is not guarded by the writer's error", false
	}
	return "explicit panic outside the reviewed site (Printer.Println on a failing writer)", false
}

func dischargeMust(e *Env, s panicSite) (string, bool) {
	c := s.ins.(ssa.CallInstruction)
	n := callName(c.Common())
	switch {
	case n == "regexp.MustCompile" || strings.HasSuffix(n, "/regex.MustCompileAz"):
		// (a) package-level initialiser of a constant pattern that the checker's regexp/syntax accepts
		arg := c.Common().Args[0]
		if pat, ok := constString(arg); ok {
			if _, err := syntaxParse(pat); err != nil {
				return "constant pattern does not compile: " + err.Error(), false
			}
			if s.fn.Name() == "init" || s.fn.Synthetic != "" {
				return "(a) constant pattern that compiles, evaluated once at package initialisation", true
			}
			return "(a) constant pattern that compiles", true
		}
		if strings.HasSuffix(e.P.FuncKey(s.fn), "regex.MustCompileAz") {
			// the wrapper itself: its callers pass constants (checked at each caller)
			return "(a) wrapper: every caller passes a constant pattern (each caller is a site of its own)", true
		}
		return "pattern is not a constant", false
	case strings.HasSuffix(n, "exporter.MustExport"):
		// (h) argument is a string, or dominated by IsPrimitive through the strategy's Supports
		arg := c.Common().Args[0]
		v := unwrap(arg)
		if isStringType(v.Type()) {
			return "(h) MustExport of a string", true
		}
		if p, ok := v.(*ssa.Parameter); ok {
			if why, ok := guardedBySupports(e, s.fn, p, "IsPrimitive"); ok {
				return "(h) " + why, true
			}
		}
		return "MustExport of a value that is not shown to be a primitive", false
	case strings.Contains(n, "internal/gontainer.(gontainer).MustGet"):
		return "decided by R12.8 (wiring type-check: the getter cannot fail)", true
	}
	return "call of a Must* function without a discharge rule", false
}

func syntaxParse(p string) (any, error) {
	return rxParseAny(p)
}

// guardedBySupports: fn is a strategy method (ResolveArg/Create) of a type whose Supports method
// establishes `what` for its argument, and every caller invokes fn under Supports(arg) == true on the same value.
func guardedBySupports(e *Env, fn *ssa.Function, p *ssa.Parameter, what string) (string, bool) {
	if fn.Signature.Recv() == nil {
		return "", false
	}
	recvT := namedOf(fn.Signature.Recv().Type())
	if recvT == nil {
		return "", false
	}
	rel := e.P.Rel(fn.Pkg.Pkg.Path())
	sup := e.P.Func(rel, recvT.Obj().Name()+".Supports")
	if sup == nil {
		return "", false
	}
	// every `return true`-capable path of Supports establishes the fact
	est := false
	switch what {
	case "IsPrimitive":
		for _, c := range callsIn(sup, false) {
			if strings.HasSuffix(callName(c.Common()), "/types.IsPrimitive") {
				est = true
			}
		}
	case "string":
		for _, b := range sup.Blocks {
			for _, ins := range b.Instrs {
				if ta, ok := ins.(*ssa.TypeAssert); ok && ta.CommaOk && isStringType(ta.AssertedType) {
					est = supportsTrueOnlyAfter(sup, ta)
				}
			}
		}
		// Supports is `return pred(x, …)` with pred a predicate of the package that asserts the string itself
		if !est && len(sup.Blocks) == 1 {
			if ret, ok := sup.Blocks[0].Instrs[len(sup.Blocks[0].Instrs)-1].(*ssa.Return); ok && len(ret.Results) == 1 {
				if c, ok := ret.Results[0].(*ssa.Call); ok {
					if h := c.Call.StaticCallee(); h != nil && h.Pkg == sup.Pkg && len(h.Blocks) > 0 {
						for i, a := range c.Call.Args {
							if len(sup.Params) == 0 || a != ssa.Value(sup.Params[len(sup.Params)-1]) || i >= len(h.Params) {
								continue
							}
							for _, hb := range h.Blocks {
								for _, ins := range hb.Instrs {
									if ta, ok := ins.(*ssa.TypeAssert); ok && ta.CommaOk && isStringType(ta.AssertedType) && ta.X == ssa.Value(h.Params[i]) {
										est = supportsTrueOnlyAfter(h, ta)
									}
								}
							}
						}
					}
				}
			}
		}
	}
	if !est {
		return "", false
	}
	// callers: invocations through the interface type the wiring injects this strategy as
	ifaces := injectedAs(e, recvT)
	if len(ifaces) == 0 {
		return "", false
	}
	callers := 0
	for _, f := range e.P.Funcs() {
		for _, c := range callsIn(f, false) {
			if !c.Common().IsInvoke() || c.Common().Method.Name() != fn.Name() {
				continue
			}
			match := false
			for _, it := range ifaces {
				if types.Identical(c.Common().Value.Type(), it) {
					match = true
				}
			}
			if !match {
				continue
			}
			callers++
			if !handledAfterSupports(f, c) {
				return "", false
			}
		}
	}
	if callers == 0 {
		return "", false
	}
	return fmt.Sprintf("reached only through %s.Supports(x) == true on the same value, and Supports establishes %s", recvT.Obj().Name(), what), true
}

// supportsTrueOnlyAfter: every return of a non-false value in Supports is dominated by the ok edge of the assertion.
func supportsTrueOnlyAfter(sup *ssa.Function, ta *ssa.TypeAssert) bool {
	var okv ssa.Value
	for _, ref := range *ta.Referrers() {
		if ex, ok := ref.(*ssa.Extract); ok && ex.Index == 1 {
			okv = ex
		}
	}
	if okv == nil {
		return false
	}
	for _, b := range sup.Blocks {
		for _, ins := range b.Instrs {
			ret, ok := ins.(*ssa.Return)
			if !ok {
				continue
			}
			v := ret.Results[0]
			if c, ok := v.(*ssa.Const); ok && c.Value != nil && c.Value.String() == "false" {
				continue
			}
			// v may be true only if ok was true: v is `ok && …` (phi with false on the !ok edge), ok itself, or dominated by the ok edge
			if v == okv {
				continue
			}
			if phi, ok := v.(*ssa.Phi); ok {
				good := true
				for i, ed := range phi.Edges {
					if c, ok := ed.(*ssa.Const); ok && c.Value != nil && c.Value.String() == "false" {
						continue
					}
					pred := phi.Block().Preds[i]
					if !blockBehindTrue(sup, okv, pred) {
						good = false
					}
				}
				if good {
					continue
				}
			}
			if blockBehindTrue(sup, okv, b) {
				continue
			}
			return false
		}
	}
	return true
}

func blockBehindTrue(fn *ssa.Function, cond ssa.Value, b *ssa.BasicBlock) bool {
	for _, blk := range fn.Blocks {
		iff, ok := blk.Instrs[len(blk.Instrs)-1].(*ssa.If)
		if !ok {
			continue
		}
		c := iff.Cond
		neg := false
		if u, ok := c.(*ssa.UnOp); ok && u.Op == token.NOT {
			c, neg = u.X, true
		}
		if c != cond {
			continue
		}
		s := blk.Succs[0]
		if neg {
			s = blk.Succs[1]
		}
		if len(s.Preds) == 1 && (s == b || s.Dominates(b)) {
			return true
		}
	}
	return false
}

func dischargeAssert(e *Env, s panicSite) (string, bool) {
	ta := s.ins.(*ssa.TypeAssert)
	fk := e.P.FuncKey(s.fn)
	// (b) strategy assertion to string under Supports
	if p, ok := ta.X.(*ssa.Parameter); ok && isStringType(ta.AssertedType) {
		if why, ok := guardedBySupports(e, s.fn, p, "string"); ok {
			return "(b) " + why, true
		}
	}
	// (c) decorated-service assertion: every service carrying the decorator's tag is built by a constructor whose result implements Step
	if fk == "internal/cmd/runner.DecorateStepVerboseSwitchable" {
		if why, ok := decoratedImplementStep(e); ok {
			return "(c) " + why, true
		} else {
			return why, false
		}
	}
	// assertion on the MakeClosure / known concrete value
	if mi, ok := ta.X.(*ssa.MakeInterface); ok && types.AssignableTo(mi.X.Type(), ta.AssertedType) {
		return "asserted value has that static type", true
	}
	// value of a type switch case or a prior comma-ok test of the same value to the same type
	for _, b := range s.fn.Blocks {
		for _, ins := range b.Instrs {
			if t2, ok := ins.(*ssa.TypeAssert); ok && t2.CommaOk && t2.X == ta.X && types.Identical(t2.AssertedType, ta.AssertedType) {
				for _, ref := range *t2.Referrers() {
					if ex, ok := ref.(*ssa.Extract); ok && ex.Index == 1 && blockBehindTrue(s.fn, ex, ta.Block()) {
						return "preceded by a successful comma-ok assertion of the same value", true
					}
				}
			}
		}
	}
	return "unchecked type assertion", false
}

func decoratedImplementStep(e *Env) (string, bool) {
	gm, _, ok := e.models()
	if !ok {
		return "wiring model unavailable", false
	}
	rp := e.P.Pkg("internal/cmd/runner")
	stepObj := rp.Types.Scope().Lookup("Step")
	if stepObj == nil {
		return "runner.Step not found", false
	}
	iface := stepObj.Type().Underlying().(*types.Interface)
	n := 0
	for _, d := range gm.Decorators {
		if d.FnObj == nil || d.FnObj.Name() != "DecorateStepVerboseSwitchable" {
			continue
		}
		for i := range gm.Services {
			s := &gm.Services[i]
			tagged := false
			for _, t := range s.Tags {
				if t.Name == d.Tag || d.Tag == "*" {
					tagged = true
				}
			}
			if !tagged {
				continue
			}
			n++
			t := serviceResultType(s, gm.Pkg.TypesInfo)
			if t == nil || !(types.Implements(t, iface) || types.Implements(types.NewPointer(t), iface)) {
				return fmt.Sprintf("service %q carries tag %q but its value (%v) does not implement runner.Step: the decorator's assertion panics for every input", s.Name, d.Tag, t), false
			}
		}
	}
	if n == 0 {
		return "no service carries the decorator's tag", false
	}
	return fmt.Sprintf("all %d services tagged for the decorator are built by constructors whose result implements runner.Step", n), true
}

func dischargeIndex(e *Env, s panicSite) (string, bool) {
	var x, idx ssa.Value
	switch i := s.ins.(type) {
	case *ssa.IndexAddr:
		x, idx = i.X, i.Index
	case *ssa.Index:
		x, idx = i.X, i.Index
	}
	// arrays created for varargs / composite literals with constant index
	if p, ok := x.Type().Underlying().(*types.Pointer); ok {
		if arr, ok := p.Elem().Underlying().(*types.Array); ok {
			if k, ok := constInt(idx); ok && k >= 0 && k < arr.Len() {
				return "constant index into a fixed-size array", true
			}
		}
	}
	// (d) range index of the same slice, or of a slice of provably equal length
	if src, ok := rangeIndexOf(idx); ok {
		if src == x || sameLoad(src, x) {
			return "(d) index is the range index of the indexed slice", true
		}
		if equalLength(x, src) {
			return "(d) index is the range index of a slice of provably equal length (make(T, len(src)))", true
		}
		if _, isLookupRes := x.(*ssa.Call); isLookupRes {
			// match[i] with i ranging over SubexpNames(): (f)
		}
	}
	// (d') counted loop: i starts at a non-negative constant, is only ever incremented, and the access lies
	// behind the true edge of `i < len(x)` (x the indexed value, or a local it was copied to/from)
	if why, ok := countedLoopIndex(s.fn, x, idx, s.ins); ok {
		return why, true
	}
	// (e) constant index dominated by a len comparison that implies it
	if k, ok := constInt(idx); ok {
		if lenGuard(s.fn, x, k, s.ins) {
			return fmt.Sprintf("(e) constant index %d behind a length test that implies it", k), true
		}
	}
	// (f) library contracts
	fk := e.P.FuncKey(s.fn)
	if fk == "(*internal/pkg/imports.imports).Alias" {
		if c, ok := x.(*ssa.Call); ok && callName(&c.Call) == "strings.Split" {
			if sep, ok := constString(c.Call.Args[1]); ok && sep != "" {
				if bo, ok := idx.(*ssa.BinOp); ok && bo.Op == token.SUB {
					return "(f) parts[len(parts)-1] of strings.Split with a non-empty separator (at least one element)", true
				}
			}
		}
	}
	if fk == "internal/pkg/regex.Match" {
		if c, ok := x.(*ssa.Call); ok && callName(&c.Call) == "regexp.(Regexp).FindStringSubmatch" {
			if src, ok := rangeIndexOf(idx); ok {
				if sc, ok := src.(*ssa.Call); ok && callName(&sc.Call) == "regexp.(Regexp).SubexpNames" {
					return "(f) submatch index ranges over SubexpNames() after MatchString succeeded (same length by contract)", true
				}
			}
		}
	}
	// (j) indices handed to a sort.Slice comparison callback
	if s.fn.Parent() != nil && len(s.fn.Params) == 2 {
		if p, ok := idx.(*ssa.Parameter); ok && (p == s.fn.Params[0] || p == s.fn.Params[1]) {
			if passedToSort(s.fn) {
				return "(j) index handed out by sort.Slice for the slice being sorted", true
			}
		}
	}
	// string / rune slice index with len guard on the same value
	if bo, ok := idx.(*ssa.BinOp); ok && bo.Op == token.SUB {
		if k, ok := constInt(bo.Y); ok {
			if lc, ok := bo.X.(*ssa.Call); ok {
				if bi, ok := lc.Call.Value.(*ssa.Builtin); ok && bi.Name() == "len" && (lc.Call.Args[0] == x || sameLoad(lc.Call.Args[0], x)) {
					if lenGuard(s.fn, x, k-1, s.ins) || lenGuard(s.fn, x, k, s.ins) {
						return fmt.Sprintf("(e) x[len(x)-%d] behind a length test", k), true
					}
				}
			}
		}
	}
	return "index that is not shown to be in range", false
}

// countedLoopIndex: idx is a phi of a non-negative constant and idx+c (c > 0), and ins is dominated by the
// true edge of `idx < len(x')` where x' is the same slice/string as x (same value, same load, or — for a
// slice local captured once — the same cell).
func countedLoopIndex(fn *ssa.Function, x, idx ssa.Value, ins ssa.Instruction) (string, bool) {
	phi, ok := idx.(*ssa.Phi)
	if !ok || len(phi.Edges) != 2 {
		return "", false
	}
	init, step := false, false
	for _, ed := range phi.Edges {
		if k, isK := constInt(ed); isK && k >= 0 {
			init = true
			continue
		}
		if bo, isB := ed.(*ssa.BinOp); isB && bo.Op == token.ADD && bo.X == ssa.Value(phi) {
			if k, isK := constInt(bo.Y); isK && k > 0 {
				step = true
			}
		}
	}
	if !init || !step {
		return "", false
	}
	sameSeq := func(a, b ssa.Value) bool {
		if a == b || sameLoad(a, b) {
			return true
		}
		// both are loads of the same local cell
		la, ok1 := a.(*ssa.UnOp)
		lb, ok2 := b.(*ssa.UnOp)
		return ok1 && ok2 && la.X == lb.X
	}
	for _, b := range fn.Blocks {
		iff, isIf := b.Instrs[len(b.Instrs)-1].(*ssa.If)
		if !isIf {
			continue
		}
		bo, isB := iff.Cond.(*ssa.BinOp)
		if !isB || bo.Op != token.LSS || bo.X != ssa.Value(phi) {
			continue
		}
		lc, isC := bo.Y.(*ssa.Call)
		if !isC {
			continue
		}
		if bi, isBi := lc.Call.Value.(*ssa.Builtin); !isBi || bi.Name() != "len" || !(sameSeq(lc.Call.Args[0], x) || equalLength(x, lc.Call.Args[0])) {
			continue
		}
		if edgeDominates(b, true, ins) {
			return "(d') counted loop index behind i < len(x)", true
		}
	}
	return "", false
}

func passedToSort(fn *ssa.Function) bool {
	par := fn.Parent()
	for _, c := range callsIn(par, false) {
		n := callName(c.Common())
		if n == "sort.Slice" || n == "sort.SliceStable" {
			if mc, ok := c.Common().Args[1].(*ssa.MakeClosure); ok && mc.Fn == ssa.Value(fn) {
				return true
			}
		}
	}
	return false
}

// rangeIndexOf: idx is the index variable of a range loop (phi #rangeindex + 1 pattern); returns the ranged value.
func rangeIndexOf(idx ssa.Value) (ssa.Value, bool) {
	bo, ok := idx.(*ssa.BinOp)
	if !ok || bo.Op != token.ADD {
		return nil, false
	}
	phi, ok := bo.X.(*ssa.Phi)
	if !ok || phi.Comment != "rangeindex" {
		return nil, false
	}
	// the loop condition: idx < len(src)
	for _, ref := range *bo.Referrers() {
		cmp, ok := ref.(*ssa.BinOp)
		if !ok || cmp.Op != token.LSS || cmp.X != ssa.Value(bo) {
			continue
		}
		if lc, ok := cmp.Y.(*ssa.Call); ok {
			if bi, ok := lc.Call.Value.(*ssa.Builtin); ok && bi.Name() == "len" {
				return lc.Call.Args[0], true
			}
		}
	}
	return nil, false
}

func sameLoad(a, b ssa.Value) bool {
	la, ok1 := a.(*ssa.UnOp)
	lb, ok2 := b.(*ssa.UnOp)
	if !ok1 || !ok2 {
		return false
	}
	fa, ok1 := la.X.(*ssa.FieldAddr)
	fb, ok2 := lb.X.(*ssa.FieldAddr)
	if ok1 && ok2 {
		return fa.Field == fb.Field && (fa.X == fb.X || sameLoad(fa.X, fb.X))
	}
	return la.X == lb.X
}

// equalLength: x was created by make(T, len(src)) (possibly under a len(src) > 0 guard, via a phi with nil).
func equalLength(x, src ssa.Value) bool {
	switch v := x.(type) {
	case *ssa.MakeSlice:
		if lc, ok := v.Len.(*ssa.Call); ok {
			if bi, ok := lc.Call.Value.(*ssa.Builtin); ok && bi.Name() == "len" {
				return lc.Call.Args[0] == src || sameLoad(lc.Call.Args[0], src)
			}
		}
	case *ssa.Phi:
		okAll := false
		for _, ed := range v.Edges {
			if isNilConst(ed) {
				// the nil edge must be taken only when len(src) == 0 (then the loop body does not run)
				if !nilEdgeOnlyWhenEmpty(v, src) {
					return false
				}
				continue
			}
			if !equalLength(ed, src) {
				return false
			}
			okAll = true
		}
		return okAll
	case *ssa.UnOp:
		// loaded from a field/cell that was stored a make(T, len(src))
		if fa, ok := v.X.(*ssa.FieldAddr); ok {
			for _, ref := range *fa.X.Referrers() {
				if f2, ok := ref.(*ssa.FieldAddr); ok && f2.Field == fa.Field {
					for _, r2 := range *f2.Referrers() {
						if st, ok := r2.(*ssa.Store); ok && st.Addr == f2 && equalLength(st.Val, src) {
							return true
						}
					}
				}
			}
		}
		if al, ok := v.X.(*ssa.Alloc); ok {
			for _, ref := range *al.Referrers() {
				if st, ok := ref.(*ssa.Store); ok && st.Addr == al && equalLength(st.Val, src) {
					return true
				}
			}
		}
	case *ssa.ChangeType:
		return equalLength(v.X, src)
	}
	return false
}

// nilEdgeOnlyWhenEmpty: every nil edge of phi comes from a branch outcome that implies len(src) == 0.
func nilEdgeOnlyWhenEmpty(phi *ssa.Phi, src ssa.Value) bool {
	pb := phi.Block()
	for i, ed := range phi.Edges {
		if !isNilConst(ed) {
			continue
		}
		pred := pb.Preds[i]
		ok := false
		for _, ib := range pb.Parent().Blocks {
			iff, isIf := ib.Instrs[len(ib.Instrs)-1].(*ssa.If)
			if !isIf {
				continue
			}
			for e, succ := range ib.Succs {
				onTrue := e == 0
				if !edgeImpliesEmpty(iff.Cond, onTrue, src) {
					continue
				}
				// the edge leads straight into the phi block from ib, or into a region that dominates pred
				if (succ == pb && pred == ib) || (len(succ.Preds) == 1 && succ.Dominates(pred)) {
					ok = true
				}
			}
		}
		if !ok {
			return false
		}
	}
	return true
}

// edgeImpliesEmpty: on this outcome of cond, len(x) == 0.
func edgeImpliesEmpty(cond ssa.Value, onTrue bool, x ssa.Value) bool {
	if v, trueMeansNonNil, ok := nilTest(cond); ok && (v == x || sameLoad(v, x)) {
		return trueMeansNonNil != onTrue
	}
	bo, ok := cond.(*ssa.BinOp)
	if !ok {
		return false
	}
	isLen := func(v ssa.Value) bool {
		lc, ok := v.(*ssa.Call)
		if !ok {
			return false
		}
		bi, ok := lc.Call.Value.(*ssa.Builtin)
		return ok && bi.Name() == "len" && (lc.Call.Args[0] == x || sameLoad(lc.Call.Args[0], x))
	}
	op, l, r := bo.Op, bo.X, bo.Y
	if !isLen(l) && isLen(r) { // k OP len(x)  ->  len(x) OP' k
		l, r = r, l
		switch op {
		case token.LSS:
			op = token.GTR
		case token.LEQ:
			op = token.GEQ
		case token.GTR:
			op = token.LSS
		case token.GEQ:
			op = token.LEQ
		}
	}
	if !isLen(l) {
		return false
	}
	k, ok := constInt(r)
	if !ok {
		return false
	}
	if !onTrue {
		switch op {
		case token.LSS:
			op = token.GEQ
		case token.LEQ:
			op = token.GTR
		case token.GTR:
			op = token.LEQ
		case token.GEQ:
			op = token.LSS
		case token.EQL:
			op = token.NEQ
		case token.NEQ:
			op = token.EQL
		}
	}
	switch op {
	case token.EQL:
		return k == 0
	case token.LEQ:
		return k == 0
	case token.LSS:
		return k == 1
	}
	return false
}

// lenGuard: the instruction is reachable only when len(x) > k was established.
func lenGuard(fn *ssa.Function, x ssa.Value, k int64, at ssa.Instruction) bool {
	for _, b := range fn.Blocks {
		iff, ok := b.Instrs[len(b.Instrs)-1].(*ssa.If)
		if !ok {
			continue
		}
		if edgeImpliesLen(iff.Cond, true, x, k) && edgeDominates(b, true, at) {
			return true
		}
		if edgeImpliesLen(iff.Cond, false, x, k) && edgeDominates(b, false, at) {
			return true
		}
	}
	// short-circuit chains (a || b → return): the instruction is dominated by the join of the false edges
	for _, b := range fn.Blocks {
		iff, ok := b.Instrs[len(b.Instrs)-1].(*ssa.If)
		if !ok {
			continue
		}
		if edgeImpliesLen(iff.Cond, false, x, k) && b.Succs[1].Dominates(at.Block()) && onlyThroughFalse(b, at.Block()) {
			return true
		}
	}
	return false
}

func onlyThroughFalse(b *ssa.BasicBlock, target *ssa.BasicBlock) bool {
	// every path into target's dominator chain from b goes through the false successor
	s := b.Succs[1]
	return s == target || s.Dominates(target)
}

// edgeImpliesLen: does cond being `edge` imply len(x) > k ?
func edgeImpliesLen(cond ssa.Value, edge bool, x ssa.Value, k int64) bool {
	bo, ok := cond.(*ssa.BinOp)
	if !ok {
		return false
	}
	// the left operand is len(x) or len(x) - d (e.g. `last := len(x) - 1; if last >= 1`)
	left := bo.X
	shift := int64(0)
	if sub, isSub := left.(*ssa.BinOp); isSub && sub.Op == token.SUB {
		if d, isK := constInt(sub.Y); isK {
			left, shift = sub.X, d
		}
	}
	lc, ok := left.(*ssa.Call)
	if !ok {
		return false
	}
	bi, ok := lc.Call.Value.(*ssa.Builtin)
	if !ok || bi.Name() != "len" || !(lc.Call.Args[0] == x || sameLoad(lc.Call.Args[0], x)) {
		return false
	}
	c, ok := constInt(bo.Y)
	if !ok {
		return false
	}
	c += shift
	// normalise to "len OP c" true on `edge`
	op := bo.Op
	if !edge {
		switch op {
		case token.LSS:
			op = token.GEQ
		case token.LEQ:
			op = token.GTR
		case token.GTR:
			op = token.LEQ
		case token.GEQ:
			op = token.LSS
		case token.EQL:
			op = token.NEQ
		case token.NEQ:
			op = token.EQL
		}
	}
	switch op {
	case token.GTR:
		return c >= k
	case token.GEQ:
		return c > k
	case token.EQL:
		return c > k
	case token.NEQ:
		return c == 0 && k == 0
	}
	return false
}

func dischargeSlice(e *Env, s panicSite) (string, bool) {
	sl := s.ins.(*ssa.Slice)
	fk := e.P.FuncKey(s.fn)
	if sl.Low == nil && sl.High != nil {
		if k, ok := constInt(sl.High); ok && k == 0 {
			return "x[:0] is always in range (make(T, 0))", true
		}
	}
	// (e') x[strings.Index/LastIndex(x, sep)+1:] with a non-empty constant sep: the index is in [-1, len(x)-len(sep)],
	// so the bound is in [0, len(x)]
	if sl.High == nil && sl.Low != nil {
		if bo, ok := sl.Low.(*ssa.BinOp); ok && bo.Op == token.ADD {
			if k, ok := constInt(bo.Y); ok && k >= 1 {
				if c, ok := bo.X.(*ssa.Call); ok {
					n := callName(c.Common())
					if (n == "strings.LastIndex" || n == "strings.Index") && len(c.Call.Args) == 2 && (c.Call.Args[0] == sl.X || sameLoad(c.Call.Args[0], sl.X)) {
						if sep, ok := constString(c.Call.Args[1]); ok && int64(len(sep)) >= k {
							return fmt.Sprintf("(e') x[strings.%s(x, %q)+%d:]: the bound lies in [0, len(x)]", n[8:], sep, k), true
						}
					}
				}
			}
		}
	}
	lo := int64(0)
	if sl.Low != nil {
		k, ok := constInt(sl.Low)
		if !ok {
			return "non-constant lower bound", false
		}
		lo = k
	}
	// x[c:] behind len(x) > c-1 ; x[c:len(x)-d]
	if sl.High == nil {
		if lo == 0 || lenGuard(s.fn, sl.X, lo-1, s.ins) {
			return fmt.Sprintf("(e) x[%d:] behind a length test", lo), true
		}
		return "slice lower bound not shown to be within length", false
	}
	if bo, ok := sl.High.(*ssa.BinOp); ok && bo.Op == token.SUB {
		if d, ok := constInt(bo.Y); ok {
			if lc, ok := bo.X.(*ssa.Call); ok {
				if bi, ok := lc.Call.Value.(*ssa.Builtin); ok && bi.Name() == "len" && (lc.Call.Args[0] == sl.X || sameLoad(lc.Call.Args[0], sl.X)) {
					// need len >= lo + d
					if fk == "(*internal/cmd/runner.Printer).EndIndent" {
						if lo != 0 || d != 1 {
							return fmt.Sprintf("EndIndent removes %d entries from position %d: the pairing argument needs exactly one pop per push", d, lo), false
						}
						if why, ok := indentPushesOne(e); !ok {
							return why, false
						}
						if why, ok := pairedIndent(e); ok {
							return "(g) " + why, true
						} else {
							return why, false
						}
					}
					if lenGuard(s.fn, sl.X, lo+d-1, s.ins) {
						return fmt.Sprintf("(e) x[%d:len(x)-%d] behind a length test that implies len(x) >= %d", lo, d, lo+d), true
					}
				}
			}
		}
	}
	if k, ok := constInt(sl.High); ok {
		if lenGuard(s.fn, sl.X, k-1, s.ins) {
			return "(e) constant bounds behind a length test", true
		}
	}
	return "slice bounds not shown to be in range", false
}

// indentPushesOne: Printer.Indent puts append(<the indents field>, <one element>) into that field,
// directly or through a setter of the package that stores its parameter there.
func indentPushesOne(e *Env) (string, bool) {
	fn := e.P.Func("internal/cmd/runner", "Printer.Indent")
	if fn == nil {
		return "Printer.Indent not found", false
	}
	storesParamIntoIndents := func(g *ssa.Function, pi int) bool {
		if g == nil || pi >= len(g.Params) {
			return false
		}
		for _, b := range g.Blocks {
			for _, ins := range b.Instrs {
				if st, ok := ins.(*ssa.Store); ok && st.Val == ssa.Value(g.Params[pi]) {
					if fa, ok := st.Addr.(*ssa.FieldAddr); ok && fieldName(fa) == "indents" && len(g.Blocks) == 1 {
						return true
					}
				}
			}
		}
		return false
	}
	if len(fn.Blocks) != 1 {
		return "Printer.Indent is conditional", false
	}
	for _, ins := range fn.Blocks[0].Instrs {
		ap, ok := ins.(*ssa.Call)
		if !ok {
			continue
		}
		if bi, isB := ap.Call.Value.(*ssa.Builtin); !isB || bi.Name() != "append" || len(ap.Call.Args) != 2 {
			continue
		}
		if !derivesFromField(ap.Call.Args[0], "indents", 0) || len(varargs(ap.Call.Args[1])) != 1 {
			continue
		}
		for _, ref := range *ap.Referrers() {
			switch x := ref.(type) {
			case *ssa.Store:
				if fa, ok := x.Addr.(*ssa.FieldAddr); ok && fieldName(fa) == "indents" && x.Val == ssa.Value(ap) {
					return "", true
				}
			case ssa.CallInstruction:
				g := x.Common().StaticCallee()
				for i, a := range x.Common().Args {
					if a == ssa.Value(ap) && g != nil && e.P.InModule(g) && storesParamIntoIndents(g, i) {
						return "", true
					}
				}
			}
		}
	}
	return "Printer.Indent does not push exactly one entry (indents = append(indents, s)) unconditionally: EndIndent would slice below zero", false
}

// pairedIndent: every call of EndIndent is the deferred partner of an Indent in the same function.
func pairedIndent(e *Env) (string, bool) {
	n := 0
	for _, fn := range e.P.Funcs() {
		for _, b := range fn.Blocks {
			for _, ins := range b.Instrs {
				c, ok := ins.(ssa.CallInstruction)
				if !ok || !c.Common().IsInvoke() || c.Common().Method.Name() != "EndIndent" {
					continue
				}
				n++
				if _, isDefer := ins.(*ssa.Defer); !isDefer {
					return "EndIndent is called outside a defer in " + e.P.FuncKey(fn), false
				}
				// an Indent on the same receiver earlier in the same block
				okPair := false
				for _, in2 := range b.Instrs {
					if in2 == ins {
						break
					}
					if c2, ok := in2.(ssa.CallInstruction); ok && c2.Common().IsInvoke() && c2.Common().Method.Name() == "Indent" && sameLoad(c2.Common().Value, c.Common().Value) {
						okPair = true
					}
				}
				if !okPair {
					return "EndIndent without a preceding Indent on the same indenter in " + e.P.FuncKey(fn), false
				}
			}
		}
	}
	if n == 0 {
		return "no call of EndIndent", false
	}
	return fmt.Sprintf("all %d calls of EndIndent are deferred right after an Indent on the same indenter", n), true
}

// fromMapLookup: the map lookup a pointer value was read from (directly, or as the value part of a
// comma-ok lookup), nil otherwise.
func fromMapLookup(v ssa.Value) *ssa.Lookup {
	switch x := v.(type) {
	case *ssa.Lookup:
		if _, isMap := x.X.Type().Underlying().(*types.Map); isMap {
			if _, isPtr := x.Type().Underlying().(*types.Pointer); isPtr {
				return x
			}
		}
	case *ssa.Extract:
		if l, ok := x.Tuple.(*ssa.Lookup); ok && x.Index == 0 {
			if _, isMap := l.X.Type().Underlying().(*types.Map); isMap {
				if _, isPtr := x.Type().Underlying().(*types.Pointer); isPtr {
					return l
				}
			}
		}
	}
	return nil
}

// dischargeDerefLookup: the dereference lies behind a nil test of the pointer or behind the true edge of
// the lookup's own ok result.
func dischargeDerefLookup(e *Env, s panicSite) (string, bool) {
	var ptr ssa.Value
	switch x := s.ins.(type) {
	case *ssa.FieldAddr:
		ptr = x.X
	case *ssa.UnOp:
		ptr = x.X
	}
	lk := fromMapLookup(ptr)
	for _, b := range s.fn.Blocks {
		iff, ok := b.Instrs[len(b.Instrs)-1].(*ssa.If)
		if !ok {
			continue
		}
		for _, edge := range []bool{true, false} {
			if guardsNonNil(iff.Cond, edge, ptr) && edgeDominatesOrJoin(b, edge, s.ins) {
				return "(k) behind a nil test of the same pointer", true
			}
		}
		if ex, ok := iff.Cond.(*ssa.Extract); ok && ex.Index == 1 && ex.Tuple == ssa.Value(lk) && edgeDominatesOrJoin(b, true, s.ins) {
			return "(k') behind the ok result of the same lookup", true
		}
	}
	return "dereference of a pointer read from a map: nil when the key is absent (a reference to something the configuration does not define)", false
}

func dischargeDeref(e *Env, s panicSite) (string, bool) {
	u := s.ins.(*ssa.UnOp)
	ptr := u.X
	// (k) dominated by a nil test of the same pointer (same value or the same field loaded again)
	for _, b := range s.fn.Blocks {
		iff, ok := b.Instrs[len(b.Instrs)-1].(*ssa.If)
		if !ok {
			continue
		}
		if guardsNonNil(iff.Cond, true, ptr) && edgeDominatesOrJoin(b, true, u) {
			return "(k) behind a nil test of the same pointer", true
		}
		if guardsNonNil(iff.Cond, false, ptr) && edgeDominatesOrJoin(b, false, u) {
			return "(k) behind a nil test of the same pointer", true
		}
	}
	// address of a local (never nil)
	if _, ok := ptr.(*ssa.Alloc); ok {
		return "address of a local", true
	}
	// inside a closure: the closure is created (deferred) only behind a nil test of the same field in the parent
	if par := s.fn.Parent(); par != nil {
		if ld, ok := ptr.(*ssa.UnOp); ok {
			if fa, ok := ld.X.(*ssa.FieldAddr); ok {
				if fv, ok := fa.X.(*ssa.FreeVar); ok {
					for i, f := range s.fn.FreeVars {
						if f != fv {
							continue
						}
						for _, b := range par.Blocks {
							for _, ins := range b.Instrs {
								mc, ok := ins.(*ssa.MakeClosure)
								if !ok || mc.Fn != ssa.Value(s.fn) || i >= len(mc.Bindings) {
									continue
								}
								bound := mc.Bindings[i]
								for _, b2 := range par.Blocks {
									iff, ok := b2.Instrs[len(b2.Instrs)-1].(*ssa.If)
									if !ok {
										continue
									}
									v, nonNilOnTrue, ok := nilTest(iff.Cond)
									if !ok {
										continue
									}
									if l2, ok := v.(*ssa.UnOp); ok {
										if fa2, ok := l2.X.(*ssa.FieldAddr); ok && fa2.Field == fa.Field && fa2.X == bound && edgeDominatesOrJoin(b2, nonNilOnTrue, mc) {
											return "(k) the closure is created only behind a nil test of the same field", true
										}
									}
								}
							}
						}
					}
				}
			}
		}
	}
	return "dereference of a pointer that may be nil (configuration attribute not set)", false
}

// edgeDominatesOrJoin: like edgeDominates, but also accepts `if p == nil || … { return }` chains,
// where the code after the chain is reached only through the p != nil edge.
func edgeDominatesOrJoin(b *ssa.BasicBlock, onTrue bool, ins ssa.Instruction) bool {
	if edgeDominates(b, onTrue, ins) {
		return true
	}
	// the other edge must lead to a return (exit) without reaching ins
	other := b.Succs[0]
	taken := b.Succs[1]
	if onTrue {
		other, taken = b.Succs[1], b.Succs[0]
	}
	if reach(other, true)[ins.Block()] {
		return false
	}
	return taken == ins.Block() || reach(taken, true)[ins.Block()]
}

// guardsNonNil: cond on `edge` implies ptr != nil.
func guardsNonNil(cond ssa.Value, edge bool, ptr ssa.Value) bool {
	if edge && predicateGuardsField(cond, ptr) {
		return true
	}
	v, nonNilOnTrue, ok := nilTest(cond)
	if !ok {
		return false
	}
	if !(v == ptr || sameLoad(v, ptr)) {
		return false
	}
	return nonNilOnTrue == edge
}

// predicateGuardsField: cond is a call p(x) of a module predicate that can only return true when
// x.F != nil, and ptr is the field F of that same x.
func predicateGuardsField(cond ssa.Value, ptr ssa.Value) bool {
	call, ok := cond.(*ssa.Call)
	if !ok {
		return false
	}
	g := call.Call.StaticCallee()
	if g == nil || len(g.Blocks) == 0 || load.Current == nil || !load.Current.InModule(g) {
		return false
	}
	// the field of ptr and its holder
	var holder ssa.Value
	field := ""
	switch x := ptr.(type) {
	case *ssa.UnOp:
		if fa, ok := x.X.(*ssa.FieldAddr); ok && x.Op == token.MUL {
			holder, field = fa.X, fieldName(fa)
		}
	case *ssa.Field:
		holder, field = x.X, fieldNameT(x.X.Type(), x.Field)
	}
	if holder == nil || field == "" {
		return false
	}
	for i, a := range call.Call.Args {
		same := a == holder
		if ld, ok := a.(*ssa.UnOp); ok && ld.Op == token.MUL && ld.X == holder {
			same = true
		}
		if !same || i >= len(g.Params) {
			continue
		}
		if trueImpliesFieldNonNil(g, g.Params[i], field) {
			return true
		}
	}
	return false
}

// trueImpliesFieldNonNil: every way for g to return true passes the non-nil edge of a test `prm.F != nil`.
func trueImpliesFieldNonNil(g *ssa.Function, prm *ssa.Parameter, field string) bool {
	isFieldOfParam := func(v ssa.Value) bool {
		switch x := v.(type) {
		case *ssa.Field:
			return x.X == ssa.Value(prm) && fieldNameT(x.X.Type(), x.Field) == field
		case *ssa.UnOp:
			if fa, ok := x.X.(*ssa.FieldAddr); ok && fieldName(fa) == field {
				// the parameter spilled to a local, or a pointer parameter
				if fa.X == ssa.Value(prm) {
					return true
				}
				if al, ok := fa.X.(*ssa.Alloc); ok {
					for _, ref := range *al.Referrers() {
						if st, ok := ref.(*ssa.Store); ok && st.Addr == al && st.Val == ssa.Value(prm) {
							return true
						}
					}
				}
			}
		}
		return false
	}
	// blocks that are only reachable through the non-nil edge
	nonNilRegion := func(b *ssa.BasicBlock) bool {
		for _, blk := range g.Blocks {
			iff, ok := blk.Instrs[len(blk.Instrs)-1].(*ssa.If)
			if !ok {
				continue
			}
			v, nonNilOnTrue, ok := nilTest(iff.Cond)
			if !ok || !isFieldOfParam(v) {
				continue
			}
			su := blk.Succs[1]
			if nonNilOnTrue {
				su = blk.Succs[0]
			}
			if len(su.Preds) == 1 && (su == b || su.Dominates(b)) {
				return true
			}
		}
		return false
	}
	var mayBeTrue func(v ssa.Value, at *ssa.BasicBlock, depth int) bool // true = "may be true outside the non-nil region"
	mayBeTrue = func(v ssa.Value, at *ssa.BasicBlock, depth int) bool {
		if depth > 6 {
			return true
		}
		if nonNilRegion(at) {
			return false
		}
		switch x := v.(type) {
		case *ssa.Const:
			return x.Value != nil && x.Value.String() == "true"
		case *ssa.BinOp:
			if w, nonNilOnTrue, ok := nilTest(x); ok && isFieldOfParam(w) {
				return !nonNilOnTrue // `F == nil` is true exactly when nil
			}
			return true
		case *ssa.Phi:
			for i, ed := range x.Edges {
				if mayBeTrue(ed, x.Block().Preds[i], depth+1) {
					return true
				}
			}
			return false
		}
		return true
	}
	n := 0
	for _, b := range g.Blocks {
		if b == g.Recover {
			continue
		}
		ret, ok := b.Instrs[len(b.Instrs)-1].(*ssa.Return)
		if !ok || len(ret.Results) != 1 {
			continue
		}
		n++
		if mayBeTrue(ret.Results[0], b, 0) {
			return false
		}
	}
	return n > 0
}

// ---- R12.2 ----

func c12Recursion(e *Env) {
	r := e.R
	// VTA: a call of a function value is resolved through the values that can reach it (a wrapper closure
	// `func(s) { …; return v(s) }` calls what was passed as v, not every function of that signature)
	cg := e.vtaGraph()
	// SCCs restricted to module functions
	index := 0
	idx := map[*callgraph.Node]int{}
	low := map[*callgraph.Node]int{}
	on := map[*callgraph.Node]bool{}
	var stack []*callgraph.Node
	var sccs [][]*callgraph.Node
	inMod := func(n *callgraph.Node) bool {
		return n.Func != nil && e.P.InModule(n.Func) && !isGeneratedFn(e.P, rootFn(n.Func))
	}
	var strong func(v *callgraph.Node)
	strong = func(v *callgraph.Node) {
		idx[v], low[v] = index, index
		index++
		stack = append(stack, v)
		on[v] = true
		for _, ed := range v.Out {
			w := ed.Callee
			if !inMod(w) {
				continue
			}
			if _, seen := idx[w]; !seen {
				strong(w)
				if low[w] < low[v] {
					low[v] = low[w]
				}
			} else if on[w] && idx[w] < low[v] {
				low[v] = idx[w]
			}
		}
		if low[v] == idx[v] {
			var comp []*callgraph.Node
			for {
				w := stack[len(stack)-1]
				stack = stack[:len(stack)-1]
				on[w] = false
				comp = append(comp, w)
				if w == v {
					break
				}
			}
			selfLoop := false
			for _, ed := range v.Out {
				if ed.Callee == v {
					selfLoop = true
				}
			}
			if len(comp) > 1 || selfLoop {
				sccs = append(sccs, comp)
			}
		}
	}
	var nodes []*callgraph.Node
	for _, n := range cg.Nodes {
		if inMod(n) {
			nodes = append(nodes, n)
		}
	}
	sort.Slice(nodes, func(i, j int) bool { return nodes[i].Func.String() < nodes[j].Func.String() })
	for _, n := range nodes {
		if _, seen := idx[n]; !seen {
			strong(n)
		}
	}
	r.Analysed["call_graph_cycles"] = len(sccs)
	for _, comp := range sccs {
		var names []string
		in := map[*callgraph.Node]bool{}
		for _, n := range comp {
			names = append(names, e.P.FuncKey(n.Func))
			in[n] = true
		}
		sort.Strings(names)
		key := "cycle{" + strings.Join(names, ", ") + "}"
		// allowed: every edge inside the component is an interface call of Step.Run on an injected field
		ok := true
		for _, n := range comp {
			for _, ed := range n.Out {
				if !in[ed.Callee] || ed.Site == nil {
					continue
				}
				c := ed.Site.Common()
				if rootFn(ed.Callee.Func) == rootFn(n.Func) && ed.Callee.Func != n.Func {
					continue // a function calling its own function literal
				}
				if !(c.IsInvoke() && c.Method.Name() == "Run") {
					ok = false
				}
			}
		}
		if ok {
			acyc, why := wiringAcyclic(e)
			r.Check(acyc, "R12.2", key, "composite steps call Step.Run of injected steps (CHA cannot tell a composite from its children); nesting is bounded by the wiring: "+why)
		} else {
			r.Violate("R12.2", key, "recursion in module code that is not the composite-step pattern: termination is not decided", nil)
		}
	}
	if len(sccs) == 0 {
		r.Hold("R12.2", "module#no-recursion", "the module's call graph (CHA) has no cycle")
	}
}

// wiringAcyclic: the service dependency graph of gontainer.go has no cycle.
func wiringAcyclic(e *Env) (bool, string) {
	gm, _, ok := e.models()
	if !ok {
		return false, "wiring model unavailable"
	}
	adj := map[string][]string{}
	tagged := map[string][]string{}
	for _, s := range gm.Services {
		for _, t := range s.Tags {
			tagged[t.Name] = append(tagged[t.Name], s.Name)
		}
	}
	var decDeps = map[string][]string{}
	for _, d := range gm.Decorators {
		for _, a := range d.Args {
			if a.Kind == "service" {
				decDeps[d.Tag] = append(decDeps[d.Tag], a.Name)
			}
		}
	}
	for _, s := range gm.Services {
		add := func(d wiringDep) {
			switch d.Kind {
			case "service":
				adj[s.Name] = append(adj[s.Name], d.Name)
			case "tag":
				adj[s.Name] = append(adj[s.Name], tagged[d.Name]...)
			}
		}
		for _, a := range s.Args {
			add(wiringDep{a.Kind, a.Name})
		}
		for _, c := range s.Calls {
			for _, a := range c.Args {
				add(wiringDep{a.Kind, a.Name})
			}
		}
		for _, f := range s.Fields {
			add(wiringDep{f.Val.Kind, f.Val.Name})
		}
		for _, t := range s.Tags {
			adj[s.Name] = append(adj[s.Name], decDeps[t.Name]...)
		}
	}
	state := map[string]int{}
	var cyc string
	var dfs func(n string, path []string) bool
	dfs = func(n string, path []string) bool {
		state[n] = 1
		for _, m := range adj[n] {
			if state[m] == 1 {
				cyc = strings.Join(append(path, n, m), " -> ")
				return true
			}
			if state[m] == 0 && dfs(m, append(path, n)) {
				return true
			}
		}
		state[n] = 2
		return false
	}
	var names []string
	for n := range adj {
		names = append(names, n)
	}
	sort.Strings(names)
	for _, n := range names {
		if state[n] == 0 && dfs(n, nil) {
			return false, "dependency cycle in gontainer.go: " + cyc
		}
	}
	return true, fmt.Sprintf("the dependency graph of the %d wired services is acyclic", len(gm.Services))
}

type wiringDep struct{ Kind, Name string }

// ---- R12.3 ----

func c12Loops(e *Env) {
	r := e.R
	total, bad := 0, 0
	e.P.EachFuncDecl(func(pk *packagesPackage, rel string, fd *ast.FuncDecl) {
		if fd.Body == nil {
			return
		}
		if f := load.FileOf(pk, fd); f != nil && ast.IsGenerated(f) {
			return
		}
		ast.Inspect(fd.Body, func(n ast.Node) bool {
			switch x := n.(type) {
			case *ast.RangeStmt:
				total++
				if _, isChan := pk.TypesInfo.TypeOf(x.X).Underlying().(*types.Chan); isChan {
					bad++
					r.Violate("R12.3", load.DeclKey(rel, fd)+"#range-over-channel", "range over a channel may block forever", nil, e.P.Pos(x.Pos()))
				}
			case *ast.ForStmt:
				total++
				ok := x.Cond != nil && x.Post != nil
				if ok {
					// the bound (right operand of the condition) is not assigned in the body
					if be, isB := x.Cond.(*ast.BinaryExpr); isB {
						ast.Inspect(x.Body, func(m ast.Node) bool {
							if as, isA := m.(*ast.AssignStmt); isA {
								for _, l := range as.Lhs {
									if types.ExprString(l) == types.ExprString(be.Y) || types.ExprString(l) == types.ExprString(be.X) {
										ok = false
									}
								}
							}
							return true
						})
					} else {
						ok = false
					}
				}
				if !ok {
					bad++
					r.Violate("R12.3", load.DeclKey(rel, fd)+"#unbounded-for", "a for loop without a fixed bound: termination is not decided", nil, e.P.Pos(x.Pos()))
				}
			case *ast.GoStmt, *ast.SelectStmt:
				bad++
				r.Violate("R12.3", load.DeclKey(rel, fd)+"#concurrency", "goroutine / select in the generator: blocking is possible", nil, e.P.Pos(x.Pos()))
			}
			return true
		})
	})
	r.Analysed["loops"] = total
	if bad == 0 {
		r.Hold("R12.3", "module#loops", fmt.Sprintf("%d loops: ranges over finite values and counted loops with a fixed bound; no goroutine, select or channel", total))
	}
}

// injectedAs: the interface types through which the self-hosted wiring hands a value of the named
// type to its consumers (the parameter types at the positions where the service is injected).
func injectedAs(e *Env, t *types.Named) []types.Type {
	gm, _, ok := e.models()
	if !ok {
		return nil
	}
	// services producing t
	prod := map[string]bool{}
	for i := range gm.Services {
		s := &gm.Services[i]
		if rt := serviceResultType(s, gm.Pkg.TypesInfo); rt != nil && namedOf(rt) == t {
			prod[s.Name] = true
		}
		// !value T{} arguments of that type are injected directly
	}
	var out []types.Type
	add := func(pt types.Type) {
		for _, o := range out {
			if types.Identical(o, pt) {
				return
			}
		}
		out = append(out, pt)
	}
	for i := range gm.Services {
		s := &gm.Services[i]
		if s.CtorObj == nil {
			continue
		}
		sig, ok := s.CtorObj.Type().(*types.Signature)
		if !ok {
			continue
		}
		for j, a := range s.Args {
			hit := a.Kind == "service" && prod[a.Name]
			if a.Kind == "value" && a.Obj != nil {
				if tn, ok := a.Obj.(*types.TypeName); ok && namedOf(tn.Type()) == t {
					hit = true
				}
			}
			if !hit {
				continue
			}
			var pt types.Type
			if sig.Variadic() && j >= sig.Params().Len()-1 {
				pt = sig.Params().At(sig.Params().Len() - 1).Type().(*types.Slice).Elem()
			} else if j < sig.Params().Len() {
				pt = sig.Params().At(j).Type()
			}
			if pt != nil {
				if _, isI := pt.Underlying().(*types.Interface); isI {
					add(pt)
				}
			}
		}
	}
	return out
}
