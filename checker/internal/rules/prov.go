package rules

import (
	"fmt"
	"go/ast"
	"go/parser"
	"go/token"
	"go/types"
	"sort"
	"strconv"
	"strings"

	"gverif/internal/load"
)

// R02.3 (field provenance of the compiler's output literals): in the function that builds an
// output.* value from an input.* value, field K of the result is computed from field(s) of the
// same name of the source (through helper calls and locals of that function), and from nothing else
// of the source. Decided on the typed AST: the set of source fields an expression reads.

type provSpec struct {
	rel, fn  string
	outType  string            // output type name
	src      string            // name of the source variable or parameter
	expected map[string]string // output field -> comma-separated source fields ("" = none, "*" = anything)
}

var provSpecs = []provSpec{
	{compilerRel, "StepCompileServices.processService", "Service", "svc", map[string]string{
		"Name": "", "Getter": "*", "MustGetter": "*", "Type": "Type", "Value": "Value", "Constructor": "Constructor",
		"Args": "Args", "Calls": "Calls", "Fields": "Fields", "Tags": "Tags", "Todo": ""}},
	{compilerRel, "StepCompileServices.serviceCalls", "Call", "call", map[string]string{"Method": "Method", "Args": "Args", "Immutable": "Immutable"}},
	{compilerRel, "StepCompileServices.serviceTags", "Tag", "t", map[string]string{"Name": "Name", "Priority": "Priority"}},
	{compilerRel, "StepCompileDecorators.processDecorator", "Decorator", "d", map[string]string{"Tag": "Tag", "Decorator": "Decorator", "Args": "Args", "Raw": "Decorator"}},
	{compilerRel, "StepCompileParams.Process", "Param", "expr", map[string]string{"Name": "", "Code": "Code", "Raw": "Raw", "DependsOn": "DependsOnParams"}},
}

// readsOf: the fields of variable src that expression e reads, following locals defined in fd.
func readsOf(info *types.Info, fd *ast.FuncDecl, src types.Object, e ast.Expr, depth int, seen map[types.Object]bool) map[string]bool {
	out := map[string]bool{}
	if depth > 6 {
		return out
	}
	ast.Inspect(e, func(n ast.Node) bool {
		switch x := n.(type) {
		case *ast.SelectorExpr:
			if id, ok := ast.Unparen(x.X).(*ast.Ident); ok && info.ObjectOf(id) == src {
				out[x.Sel.Name] = true
				return false
			}
		case *ast.Ident:
			o := info.ObjectOf(x)
			if o == src {
				out["*whole*"] = true
				return true
			}
			v, ok := o.(*types.Var)
			if !ok || v.IsField() || seen[o] || v.Pos() < fd.Pos() || v.Pos() > fd.End() {
				return true
			}
			seen[o] = true
			// definitions of the local inside fd
			ast.Inspect(fd.Body, func(m ast.Node) bool {
				switch as := m.(type) {
				case *ast.AssignStmt:
					for i, l := range as.Lhs {
						if lid, ok := l.(*ast.Ident); ok && info.ObjectOf(lid) == o {
							rhs := as.Rhs[0]
							if len(as.Rhs) == len(as.Lhs) {
								rhs = as.Rhs[i]
							}
							for k := range readsOf(info, fd, src, rhs, depth+1, seen) {
								out[k] = true
							}
						}
					}
				case *ast.RangeStmt:
					for _, l := range []ast.Expr{as.Key, as.Value} {
						if lid, ok := l.(*ast.Ident); ok && info.ObjectOf(lid) == o {
							for k := range readsOf(info, fd, src, as.X, depth+1, seen) {
								out[k] = true
							}
						}
					}
				}
				return true
			})
		}
		return true
	})
	return out
}

func fieldProvenance(e *Env, rule string) {
	r := e.R
	for _, sp := range provSpecs {
		if sp.expected == nil {
			continue
		}
		if fieldProvenanceSSA(e, rule, sp) {
			continue
		}
		fd, pk := e.P.Decl(sp.rel, sp.fn)
		key := sp.rel + "." + sp.fn
		if fd == nil {
			r.Undecide(rule, key, "anchor not found")
			continue
		}
		info := pk.TypesInfo
		// the source object: a parameter or a local named sp.src
		var src types.Object
		ast.Inspect(fd, func(n ast.Node) bool {
			if id, ok := n.(*ast.Ident); ok && id.Name == sp.src && src == nil {
				if o := info.Defs[id]; o != nil {
					src = o
				}
			}
			return true
		})
		if src == nil {
			r.Undecide(rule, key, "the source value (variable "+sp.src+") was not found")
			continue
		}
		ot := outputType(e, sp.outType)
		var lits []*ast.CompositeLit
		ast.Inspect(fd.Body, func(n ast.Node) bool {
			if cl, ok := n.(*ast.CompositeLit); ok && ot != nil && types.Identical(info.TypeOf(cl), ot) {
				lits = append(lits, cl)
			}
			return true
		})
		if len(lits) == 0 {
			r.Undecide(rule, key, "no composite literal of output."+sp.outType+" (field-by-field construction is outside the recognised idiom)")
			continue
		}
		lit := lits[len(lits)-1] // the full one (an early, partial literal — e.g. the todo branch — is decided by R15.1)
		st := ot.Underlying().(*types.Struct)
		set := map[string]ast.Expr{}
		for _, el := range lit.Elts {
			if kv, ok := el.(*ast.KeyValueExpr); ok {
				set[kv.Key.(*ast.Ident).Name] = kv.Value
			}
		}
		for i := 0; i < st.NumFields(); i++ {
			f := st.Field(i).Name()
			want, listed := sp.expected[f]
			fkey := key + "#" + sp.outType + "." + f
			v, has := set[f]
			if !listed {
				if has {
					r.Undecide(rule, fkey, "a field of the output model without a documented source: extend the provenance table")
				}
				continue // e.g. Scope: assigned later by processScopes (R05.1)
			}
			if !has {
				r.Violate(rule, fkey, "the field is not set: the declared attribute is dropped", nil, e.P.Pos(lit.Pos()))
				continue
			}
			if want == "*" {
				r.Hold(rule, fkey, "derived by its own rule (R13.4)")
				continue
			}
			got := readsOf(info, fd, src, v, 0, map[types.Object]bool{})
			var gs []string
			for k := range got {
				gs = append(gs, k)
			}
			sort.Strings(gs)
			r.Check(strings.Join(gs, ",") == want, rule, fkey, fmt.Sprintf("output %s.%s is computed from the declared %q and nothing else of the source (reads %v)", sp.outType, f, want, gs), e.P.Pos(v.Pos()))
		}
	}
	// StepCompileParams: the entry is named by the iterated key, and the resolved expression is that of the iterated value
	key := compilerRel + ".StepCompileParams.Process"
	fd, pk := e.P.Decl(compilerRel, "StepCompileParams.Process")
	if fd == nil {
		r.Undecide(rule, key, "anchor not found")
		return
	}
	info := pk.TypesInfo
	var cb *ast.FuncLit
	ast.Inspect(fd.Body, func(n ast.Node) bool {
		if call, ok := n.(*ast.CallExpr); ok && calleeName(load.Callee(info, call)) == "github.com/gontainer/gontainer/internal/pkg/maps.Iterate" && len(call.Args) == 2 {
			if fl, ok := call.Args[1].(*ast.FuncLit); ok {
				cb = fl
			}
		}
		return true
	})
	if cb == nil || len(cb.Type.Params.List) != 2 || len(cb.Type.Params.List[0].Names) != 1 || len(cb.Type.Params.List[1].Names) != 1 {
		r.Undecide(rule, key, "the parameters are not compiled in a maps.Iterate callback of (key, value)")
		return
	}
	kObj, vObj := info.Defs[cb.Type.Params.List[0].Names[0]], info.Defs[cb.Type.Params.List[1].Names[0]]
	okRes := false
	ast.Inspect(cb.Body, func(n ast.Node) bool {
		if call, ok := n.(*ast.CallExpr); ok {
			if f := load.Callee(info, call); f != nil && f.Name() == "ResolveParam" && len(call.Args) == 1 {
				if id, ok := call.Args[0].(*ast.Ident); ok && info.ObjectOf(id) == vObj {
					okRes = true
				}
			}
		}
		return true
	})
	r.Check(okRes, rule, key+"#resolves-own-value", "the expression of parameter k is resolved from the value declared for k")
	ot := outputType(e, "Param")
	n, good := 0, 0
	ast.Inspect(cb.Body, func(m ast.Node) bool {
		if cl, ok := m.(*ast.CompositeLit); ok && ot != nil && types.Identical(info.TypeOf(cl), ot) {
			for _, el := range cl.Elts {
				if kv, ok := el.(*ast.KeyValueExpr); ok && kv.Key.(*ast.Ident).Name == "Name" {
					n++
					if id, ok := kv.Value.(*ast.Ident); ok && info.ObjectOf(id) == kObj {
						good++
					}
				}
			}
		}
		return true
	})
	r.Check(n > 0 && n == good, rule, key+"#named-by-key", fmt.Sprintf("every compiled parameter entry is named by the iterated key (%d of %d literals)", good, n))
}

// percentToken: R03.6 — the %% token's generated provider returns the delimiter itself.
func percentToken(e *Env, rule string) {
	r := e.R
	key := tokenRel + ".FactoryPercentMark.Create"
	fd, pk := e.P.Decl(tokenRel, "FactoryPercentMark.Create")
	if fd == nil {
		r.Undecide(rule, key, "anchor not found")
		return
	}
	delim, _ := e.P.ConstString(tokenRel, "Delimiter")
	ok := false
	got := ""
	ast.Inspect(fd.Body, func(n ast.Node) bool {
		call, isCall := n.(*ast.CallExpr)
		if !isCall || calleeName(load.Callee(pk.TypesInfo, call)) != "fmt.Sprintf" || len(call.Args) != 2 {
			return true
		}
		body, isC := load.StringOf(pk.TypesInfo, call.Args[1])
		if !isC {
			return true
		}
		// parse the body as the statement list of a function and read the returned literal
		f, err := parser.ParseFile(token.NewFileSet(), "x.go", "package p\nfunc f() (interface{}, error) { "+body+" }", 0)
		if err != nil {
			return true
		}
		ast.Inspect(f, func(m ast.Node) bool {
			if rs, isR := m.(*ast.ReturnStmt); isR && len(rs.Results) == 2 {
				if bl, isB := rs.Results[0].(*ast.BasicLit); isB && bl.Kind == token.STRING {
					if s, err := strconv.Unquote(bl.Value); err == nil {
						got = s
						if id, isId := rs.Results[1].(*ast.Ident); isId && id.Name == "nil" && s == delim {
							ok = true
						}
					}
				}
			}
			return true
		})
		return true
	})
	r.Check(ok, rule, key+"#returns-delimiter", fmt.Sprintf("the provider generated for %s%s returns the single delimiter %q (it returns %q)", delim, delim, delim, got))
	// and its Supports accepts exactly the doubled delimiter
	c := supportsClass(e, "FactoryPercentMark")
	r.Check(c.kind == "exact" && c.arg == delim+delim, rule, tokenRel+".FactoryPercentMark.Supports", fmt.Sprintf("accepts exactly %q", delim+delim))
}
