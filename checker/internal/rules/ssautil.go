package rules

import (
	"go/constant"
	"go/token"
	"go/types"
	"strings"

	"golang.org/x/tools/go/ssa"
)

// ---- generic SSA helpers ----

// staticName returns "pkgpath.Name" / "pkgpath.(Recv).Name" of a call's static
// callee, or "invoke:(Iface).Method" for an interface call, or "" for a dynamic call.
func callName(c *ssa.CallCommon) string {
	if c.IsInvoke() {
		recv := c.Value.Type()
		n := namedOf(recv)
		if n != nil {
			return "invoke:" + objPkgPath(n.Obj()) + ".(" + n.Obj().Name() + ")." + c.Method.Name()
		}
		return "invoke:(" + recv.String() + ")." + c.Method.Name()
	}
	if fn := c.StaticCallee(); fn != nil {
		if o := fn.Object(); o != nil {
			return calleeName(o)
		}
		if fn.Origin() != nil && fn.Origin().Object() != nil {
			return calleeName(fn.Origin().Object())
		}
		return fn.String()
	}
	if b, ok := c.Value.(*ssa.Builtin); ok {
		return "builtin." + b.Name()
	}
	return ""
}

// allInstrs visits every instruction of fn and, recursively, of its anonymous functions.
func allInstrs(fn *ssa.Function, f func(owner *ssa.Function, ins ssa.Instruction)) {
	for _, b := range fn.Blocks {
		for _, ins := range b.Instrs {
			f(fn, ins)
		}
	}
	for _, a := range fn.AnonFuncs {
		allInstrs(a, f)
	}
}

func callsIn(fn *ssa.Function, withAnon bool) []ssa.CallInstruction {
	var out []ssa.CallInstruction
	visit := func(_ *ssa.Function, ins ssa.Instruction) {
		if c, ok := ins.(ssa.CallInstruction); ok {
			out = append(out, c)
		}
	}
	if withAnon {
		allInstrs(fn, visit)
	} else {
		for _, b := range fn.Blocks {
			for _, ins := range b.Instrs {
				visit(fn, ins)
			}
		}
	}
	return out
}

func isErrorType(t types.Type) bool {
	return t != nil && types.Identical(t, types.Universe.Lookup("error").Type())
}

func isErrorSlice(t types.Type) bool {
	if s, ok := t.Underlying().(*types.Slice); ok {
		return isErrorType(s.Elem())
	}
	return false
}

func isNilConst(v ssa.Value) bool {
	c, ok := v.(*ssa.Const)
	return ok && c.Value == nil
}

func constInt(v ssa.Value) (int64, bool) {
	c, ok := v.(*ssa.Const)
	if !ok || c.Value == nil || c.Value.Kind() != constant.Int {
		return 0, false
	}
	return c.Int64(), true
}

func constString(v ssa.Value) (string, bool) {
	c, ok := v.(*ssa.Const)
	if !ok || c.Value == nil || c.Value.Kind() != constant.String {
		return "", false
	}
	return constant.StringVal(c.Value), true
}

// reach returns the set of blocks reachable from b (including b when self is true).
func reach(b *ssa.BasicBlock, self bool) map[*ssa.BasicBlock]bool {
	seen := map[*ssa.BasicBlock]bool{}
	var st []*ssa.BasicBlock
	if self {
		st = append(st, b)
	} else {
		st = append(st, b.Succs...)
	}
	for len(st) > 0 {
		x := st[len(st)-1]
		st = st[:len(st)-1]
		if seen[x] {
			continue
		}
		seen[x] = true
		st = append(st, x.Succs...)
	}
	return seen
}

// instrIndex returns the index of ins in its block.
func instrIndex(ins ssa.Instruction) int {
	for i, x := range ins.Block().Instrs {
		if x == ins {
			return i
		}
	}
	return -1
}

// before reports whether a executes before b on every path that reaches b
// (a dominates b; same block: a earlier).
func before(a, b ssa.Instruction) bool {
	if a.Block() == b.Block() {
		return instrIndex(a) < instrIndex(b)
	}
	return a.Block().Dominates(b.Block())
}

// reachableFrom reports whether instruction b can execute after a.
func reachableFrom(a, b ssa.Instruction) bool {
	if a.Block() == b.Block() && instrIndex(a) < instrIndex(b) {
		return true
	}
	return reach(a.Block(), false)[b.Block()]
}

// edgeDominates: is ins only reachable through the (true/false) edge of the If ending block ifb?
func edgeDominates(ifb *ssa.BasicBlock, onTrue bool, ins ssa.Instruction) bool {
	if _, ok := ifb.Instrs[len(ifb.Instrs)-1].(*ssa.If); !ok {
		return false
	}
	s := ifb.Succs[1]
	if onTrue {
		s = ifb.Succs[0]
	}
	if len(s.Preds) != 1 {
		return false
	}
	return s.Dominates(ins.Block())
}

// unwrap strips conversions that keep the value (ChangeType, MakeInterface, ChangeInterface).
func unwrap(v ssa.Value) ssa.Value {
	for {
		switch x := v.(type) {
		case *ssa.ChangeType:
			v = x.X
		case *ssa.MakeInterface:
			v = x.X
		case *ssa.ChangeInterface:
			v = x.X
		case *ssa.Convert:
			v = x.X
		default:
			return v
		}
	}
}

// nilTest recognises `x != nil` / `x == nil`; returns the tested value and whether the
// TRUE edge means non-nil.
func nilTest(cond ssa.Value) (v ssa.Value, trueMeansNonNil bool, ok bool) {
	b, isb := cond.(*ssa.BinOp)
	if !isb || (b.Op != token.NEQ && b.Op != token.EQL) {
		return nil, false, false
	}
	switch {
	case isNilConst(b.Y):
		v = b.X
	case isNilConst(b.X):
		v = b.Y
	default:
		return nil, false, false
	}
	return v, b.Op == token.NEQ, true
}

// taint computes, flow-insensitively over fn and its closures, every value and memory
// cell that a source value may flow into (copies, phis, interface conversions, stores
// and loads through allocs/free variables/fields of local cells, calls that take it as an
// argument and return something, append, slices).
type taintSet struct {
	vals  map[ssa.Value]bool
	cells map[ssa.Value]bool // Alloc / FreeVar / Global addresses holding tainted data
}

func rootFn(fn *ssa.Function) *ssa.Function {
	for fn.Parent() != nil {
		fn = fn.Parent()
	}
	return fn
}

// cellOf maps an address value to the cell it denotes (alloc, free variable -> bound value, global).
func cellOf(addr ssa.Value, bind map[*ssa.FreeVar]ssa.Value) ssa.Value {
	for i := 0; i < 20; i++ {
		switch x := addr.(type) {
		case *ssa.FieldAddr:
			addr = x.X
		case *ssa.IndexAddr:
			addr = x.X
		case *ssa.FreeVar:
			if b, ok := bind[x]; ok {
				addr = b
				continue
			}
			return x
		case *ssa.UnOp:
			if x.Op == token.MUL { // pointer loaded from a cell: treat the holder as the cell
				addr = x.X
				continue
			}
			return x
		case *ssa.Slice:
			addr = x.X
		case *ssa.Phi:
			return x
		default:
			return addr
		}
	}
	return addr
}

func freeVarBindings(root *ssa.Function) map[*ssa.FreeVar]ssa.Value {
	bind := map[*ssa.FreeVar]ssa.Value{}
	allInstrs(root, func(_ *ssa.Function, ins ssa.Instruction) {
		if mc, ok := ins.(*ssa.MakeClosure); ok {
			cf := mc.Fn.(*ssa.Function)
			for i, fv := range cf.FreeVars {
				if i < len(mc.Bindings) {
					bind[fv] = mc.Bindings[i]
				}
			}
		}
	})
	return bind
}

func taintFrom(root *ssa.Function, sources ...ssa.Value) *taintSet {
	ts := &taintSet{vals: map[ssa.Value]bool{}, cells: map[ssa.Value]bool{}}
	bind := freeVarBindings(root)
	for _, s := range sources {
		ts.vals[s] = true
	}
	changed := true
	mark := func(v ssa.Value) {
		if v != nil && !ts.vals[v] {
			ts.vals[v] = true
			changed = true
		}
	}
	markCell := func(a ssa.Value) {
		c := cellOf(a, bind)
		if !ts.cells[c] {
			ts.cells[c] = true
			changed = true
		}
		// a slice or map value carries its elements: a tainted element taints the value
		switch c.Type().Underlying().(type) {
		case *types.Slice, *types.Map:
			if !ts.vals[c] {
				ts.vals[c] = true
				changed = true
			}
		}
	}
	// calls of the function literals of root (immediately invoked or through a local): a tainted result of
	// the literal taints the value of the call
	litCalls := map[*ssa.Function][]ssa.Value{}
	allInstrs(root, func(_ *ssa.Function, ins ssa.Instruction) {
		c, ok := ins.(*ssa.Call)
		if !ok || c.Call.IsInvoke() {
			return
		}
		switch f := c.Call.Value.(type) {
		case *ssa.MakeClosure:
			if lit, ok := f.Fn.(*ssa.Function); ok {
				litCalls[lit] = append(litCalls[lit], c)
			}
		case *ssa.Function:
			if f.Parent() != nil {
				litCalls[f] = append(litCalls[f], c)
			}
		}
	})
	for changed {
		changed = false
		allInstrs(root, func(_ *ssa.Function, ins ssa.Instruction) {
			switch x := ins.(type) {
			case *ssa.Return:
				if x.Parent() != root {
					for _, res := range x.Results {
						if ts.vals[res] {
							for _, cv := range litCalls[x.Parent()] {
								mark(cv)
							}
						}
					}
				}
			case *ssa.Store:
				if ts.vals[x.Val] {
					markCell(x.Addr)
				}
			case *ssa.UnOp:
				if x.Op == token.MUL && ts.cells[cellOf(x.X, bind)] {
					mark(x)
				}
				if x.Op == token.MUL {
					// element / field of a tainted slice or struct value
					switch a := x.X.(type) {
					case *ssa.IndexAddr:
						if ts.vals[a.X] {
							mark(x)
						}
					case *ssa.FieldAddr:
						if ts.vals[a.X] {
							mark(x)
						}
					}
				}
				if x.Op != token.MUL && ts.vals[x.X] {
					mark(x)
				}
			case *ssa.Phi:
				for _, e := range x.Edges {
					if ts.vals[e] {
						mark(x)
					}
				}
			case *ssa.MakeInterface:
				if ts.vals[x.X] {
					mark(x)
				}
			case *ssa.ChangeInterface:
				if ts.vals[x.X] {
					mark(x)
				}
			case *ssa.ChangeType:
				if ts.vals[x.X] {
					mark(x)
				}
			case *ssa.Convert:
				if ts.vals[x.X] {
					mark(x)
				}
			case *ssa.TypeAssert:
				if ts.vals[x.X] {
					mark(x)
				}
			case *ssa.Extract:
				if ts.vals[x.Tuple] {
					mark(x)
				}
			case *ssa.Slice:
				if ts.vals[x.X] || ts.cells[cellOf(x.X, bind)] {
					mark(x)
				}
			case *ssa.Field:
				if ts.vals[x.X] {
					mark(x)
				}
			case *ssa.Index:
				if ts.vals[x.X] {
					mark(x)
				}
			case *ssa.Lookup:
				if ts.vals[x.X] {
					mark(x)
				}
			case *ssa.BinOp:
				if x.Op == token.ADD && (ts.vals[x.X] || ts.vals[x.Y]) {
					mark(x)
				}
			case *ssa.MapUpdate:
				if ts.vals[x.Value] {
					mark(x.Map)
				}
			case *ssa.Call:
				// in-memory writers: b.WriteString(x) puts x into b, b.String() reads it back
				if cn := callName(&x.Call); (strings.HasPrefix(cn, "strings.(Builder).") || strings.HasPrefix(cn, "bytes.(Buffer).")) && len(x.Call.Args) >= 1 {
					recv := x.Call.Args[0]
					if strings.Contains(cn, ").Write") {
						for _, a := range x.Call.Args[1:] {
							if ts.vals[a] {
								markCell(recv)
							}
						}
					} else if ts.cells[cellOf(recv, bind)] {
						mark(x)
					}
				}
				any := false
				for _, a := range x.Call.Args {
					if ts.vals[a] {
						any = true
					}
				}
				if x.Call.IsInvoke() && ts.vals[x.Call.Value] {
					any = true
				}
				if any {
					mark(x)
				}
			case *ssa.Defer:
				// deferred closures see the cells; nothing to do
			}
		})
	}
	return ts
}

func (ts *taintSet) has(v ssa.Value) bool { return ts.vals[v] }

// shortFn strips the module path from an ssa function name.
func shortName(mod, s string) string {
	s = strings.ReplaceAll(s, mod+"/", "")
	return strings.ReplaceAll(s, mod, ".")
}

// unitFns: fn together with the functions of its own package it calls statically (transitively, bounded):
// the unit a maintainer can split a function into without changing behaviour. Rules that look for
// constructs "in function F" look in the unit, so that extracting a helper does not hide them.
func unitFns(fn *ssa.Function, depth int) []*ssa.Function {
	seen := map[*ssa.Function]bool{}
	var out []*ssa.Function
	var add func(f *ssa.Function, d int)
	add = func(f *ssa.Function, d int) {
		if f == nil || seen[f] || len(f.Blocks) == 0 {
			return
		}
		seen[f] = true
		out = append(out, f)
		if d >= depth {
			return
		}
		for _, c := range callsIn(f, true) {
			g := c.Common().StaticCallee()
			if g == nil || g.Pkg == nil || g.Pkg != rootFn(fn).Pkg {
				continue
			}
			add(g, d+1)
		}
	}
	add(fn, 0)
	return out
}

func unitBlocks(fn *ssa.Function, depth int) []*ssa.BasicBlock {
	var out []*ssa.BasicBlock
	for _, f := range unitFns(fn, depth) {
		out = append(out, f.Blocks...)
	}
	return out
}
