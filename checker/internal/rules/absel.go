package rules

import (
	"fmt"
	"go/token"
	"go/types"

	"golang.org/x/tools/go/ssa"
)

// Abstract evaluation of a small selector function on its SSA form. Operands are abstracted to
// {nil, empty, non-empty}; the evaluator follows the branches whose conditions are decided by that
// (nil tests, length tests, one-line predicates and helpers of the module, which are evaluated the same
// way) and reports which operand the returned value holds: "a", "b", "nil" or "?" (not decided).
// It is independent of how the function is written (early returns, a `src` local, inlined helpers).

type absVal struct {
	kind string // "ref" (pointer/slice/map with provenance), "bool", "int", "unknown"
	prov string // for ref: "a", "b", "nil"
	st   absState
	b    bool
	pos  bool // for int: > 0
}

var absUnknown = absVal{kind: "unknown"}

func absEval(fn *ssa.Function, args []absVal, depth int) absVal {
	return absEvalSeeded(fn, args, depth, nil, "")
}

// absEvalSeeded: like absEval; seed (when set) gives abstract values to instructions before they are
// interpreted (used to abstract `a.K` / `b.K` of struct operands), and resultField (when set) makes the
// result the value stored into that field of the returned struct instead of the returned value itself.
func absEvalSeeded(fn *ssa.Function, args []absVal, depth int, seed func(ssa.Value) (absVal, bool), resultField string) absVal {
	if depth > 4 || len(fn.Blocks) == 0 || len(args) != len(fn.Params) {
		return absUnknown
	}
	env := map[ssa.Value]absVal{}
	cells := map[ssa.Value]absVal{}
	for i, p := range fn.Params {
		env[p] = args[i]
	}
	var val func(v ssa.Value) absVal
	val = func(v ssa.Value) absVal {
		if a, ok := env[v]; ok {
			return a
		}
		switch x := v.(type) {
		case *ssa.Const:
			if x.IsNil() {
				return absVal{kind: "ref", prov: "nil", st: stNil}
			}
			if b, ok := x.Type().Underlying().(*types.Basic); ok {
				switch {
				case b.Info()&types.IsBoolean != 0 && x.Value != nil:
					return absVal{kind: "bool", b: x.Value.String() == "true"}
				case b.Info()&types.IsInteger != 0:
					return absVal{kind: "int", pos: x.Int64() > 0}
				}
			}
		case *ssa.Alloc:
			if c, ok := cells[x]; ok {
				// the address of a local holding (a copy of) something: the pointer is fresh, its content has provenance
				if c.kind == "ref" {
					return absVal{kind: "ref", prov: c.prov, st: stFull}
				}
			}
		}
		return absUnknown
	}
	cur := fn.Blocks[0]
	var prev *ssa.BasicBlock
	for steps := 0; steps < 64; steps++ {
		for _, ins := range cur.Instrs {
			if seed != nil {
				if v, isV := ins.(ssa.Value); isV {
					if a, ok := seed(v); ok {
						env[v] = a
						continue
					}
				}
			}
			switch x := ins.(type) {
			case *ssa.Phi:
				for i, p := range cur.Preds {
					if p == prev {
						env[x] = val(x.Edges[i])
					}
				}
			case *ssa.Alloc:
				// content set by stores
			case *ssa.Store:
				cells[x.Addr] = val(x.Val)
			case *ssa.UnOp:
				switch x.Op {
				case token.NOT:
					if a := val(x.X); a.kind == "bool" {
						env[x] = absVal{kind: "bool", b: !a.b}
					}
				case token.MUL:
					if c, ok := cells[x.X]; ok {
						env[x] = c
					} else if a := val(x.X); a.kind == "ref" && a.st != stNil {
						env[x] = absVal{kind: "ref", prov: a.prov, st: stFull} // the pointee of operand a/b
					}
				}
			case *ssa.ChangeType:
				env[x] = val(x.X)
			case *ssa.MakeInterface:
				env[x] = val(x.X)
			case *ssa.Convert:
				env[x] = val(x.X)
			case *ssa.BinOp:
				l, r := val(x.X), val(x.Y)
				switch {
				case (x.Op == token.EQL || x.Op == token.NEQ) && l.kind == "ref" && r.kind == "ref" && (l.prov == "nil" || r.prov == "nil"):
					other := l
					if l.prov == "nil" && isNilConst(x.X) {
						other = r
					}
					isNil := other.st == stNil
					env[x] = absVal{kind: "bool", b: isNil == (x.Op == token.EQL)}
				case l.kind == "int" && r.kind == "int":
					// comparisons of a length with the constants 0 and 1
					if k, ok := constInt(x.Y); ok {
						var res, known bool
						switch {
						case x.Op == token.GTR && k == 0, x.Op == token.GEQ && k == 1, x.Op == token.NEQ && k == 0:
							res, known = l.pos, true
						case x.Op == token.EQL && k == 0, x.Op == token.LSS && k == 1, x.Op == token.LEQ && k == 0:
							res, known = !l.pos, true
						}
						if known {
							env[x] = absVal{kind: "bool", b: res}
						}
					}
				}
			case *ssa.Call:
				if bi, ok := x.Call.Value.(*ssa.Builtin); ok {
					if bi.Name() == "len" && len(x.Call.Args) == 1 {
						if a := val(x.Call.Args[0]); a.kind == "ref" {
							env[x] = absVal{kind: "int", pos: a.st == stFull}
						}
					}
					continue
				}
				callee := x.Call.StaticCallee()
				if callee == nil {
					continue
				}
				name := callee.Name()
				if o := callee.Origin(); o != nil {
					name = o.Name()
				}
				if (name == "Copy" || name == "Clone") && len(x.Call.Args) == 1 {
					env[x] = val(x.Call.Args[0]) // a copy holds its operand's elements
					continue
				}
				if len(callee.Blocks) > 0 {
					var as []absVal
					for _, a := range x.Call.Args {
						as = append(as, val(a))
					}
					env[x] = absEval(callee, as, depth+1)
				}
			}
		}
		switch t := cur.Instrs[len(cur.Instrs)-1].(type) {
		case *ssa.Return:
			if resultField != "" {
				for addr, v := range cells {
					if fa, ok := addr.(*ssa.FieldAddr); ok && fieldName(fa) == resultField {
						return v
					}
				}
				return absUnknown
			}
			if len(t.Results) != 1 {
				return absUnknown
			}
			return val(t.Results[0])
		case *ssa.If:
			c := val(t.Cond)
			if c.kind != "bool" {
				return absUnknown
			}
			prev = cur
			if c.b {
				cur = cur.Succs[0]
			} else {
				cur = cur.Succs[1]
			}
		case *ssa.Jump:
			prev, cur = cur, cur.Succs[0]
		default:
			return absUnknown
		}
	}
	return absUnknown
}

// ssaSelect: provenance of the result of a two-operand selector for the given operand states.
func ssaSelect(fn *ssa.Function, sa, sb absState) string {
	if fn == nil || len(fn.Params) != 2 {
		return "?"
	}
	r := absEval(fn, []absVal{{kind: "ref", prov: "a", st: sa}, {kind: "ref", prov: "b", st: sb}}, 0)
	if r.kind != "ref" {
		return "?"
	}
	return r.prov
}

// ---- struct merges on SSA ----

// fieldOfParam: v reads field `name` of parameter p (directly, or through the parameter's local spill).
func fieldOfParam(v ssa.Value, p *ssa.Parameter, name string) bool {
	switch x := v.(type) {
	case *ssa.Field:
		return x.X == ssa.Value(p) && fieldNameT(x.X.Type(), x.Field) == name
	case *ssa.UnOp:
		if x.Op != token.MUL {
			return false
		}
		fa, ok := x.X.(*ssa.FieldAddr)
		if !ok || fieldName(fa) != name {
			return false
		}
		if fa.X == ssa.Value(p) {
			return true
		}
		if al, ok := fa.X.(*ssa.Alloc); ok {
			for _, ref := range *al.Referrers() {
				if st, ok := ref.(*ssa.Store); ok && st.Addr == al && st.Val == ssa.Value(p) {
					return true
				}
			}
		}
	}
	return false
}

// appendOfCopy: v is append(Copy(x), y...) — returns x, y.
func appendOfCopy(v ssa.Value) (x, y ssa.Value, ok bool) {
	c, isCall := v.(*ssa.Call)
	if !isCall {
		return nil, nil, false
	}
	bi, isB := c.Call.Value.(*ssa.Builtin)
	if !isB || bi.Name() != "append" || len(c.Call.Args) != 2 {
		return nil, nil, false
	}
	inner, isCall := c.Call.Args[0].(*ssa.Call)
	if !isCall || len(inner.Call.Args) != 1 {
		return nil, nil, false
	}
	callee := inner.Call.StaticCallee()
	if callee == nil {
		return nil, nil, false
	}
	name := callee.Name()
	if o := callee.Origin(); o != nil {
		name = o.Name()
	}
	if name != "Copy" && name != "Clone" {
		return nil, nil, false
	}
	return inner.Call.Args[0], c.Call.Args[1], true
}

// mergeExprClass classifies the value stored into a field of the merged struct: the behaviour class of
// the combinator and the two operands it is applied to.
func mergeExprClass(e *Env, v ssa.Value, depth int) (class string, a, b ssa.Value) {
	if depth > 3 {
		return "unknown", nil, nil
	}
	if x, y, ok := appendOfCopy(v); ok {
		return "append", x, y
	}
	c, ok := v.(*ssa.Call)
	if !ok {
		return "unknown", nil, nil
	}
	g := c.Call.StaticCallee()
	if g == nil || len(c.Call.Args) != 2 || !e.P.InModule(g) {
		return "unknown", nil, nil
	}
	name := g.Name()
	if o := g.Origin(); o != nil {
		name = o.Name()
	}
	// a thin helper whose body is itself a classifiable expression over its two parameters (concat, mergeDecorators)
	if len(g.Blocks) == 1 && len(g.Params) == 2 {
		if ret, isRet := g.Blocks[0].Instrs[len(g.Blocks[0].Instrs)-1].(*ssa.Return); isRet && len(ret.Results) == 1 {
			if cls, ia, ib := mergeExprClass(e, ret.Results[0], depth+1); cls != "unknown" && ia == ssa.Value(g.Params[0]) && ib == ssa.Value(g.Params[1]) {
				return cls, c.Call.Args[0], c.Call.Args[1]
			}
		}
	}
	return combinatorClass(e, name), c.Call.Args[0], c.Call.Args[1]
}

// mergeStructSSA decides R09.1 for one struct merge on its SSA form: every field of the result is stored
// once, as class(first.K, second.K) with the documented class. decided=false when the function does not
// build its result in a local of the struct type (then the AST rule is used).
func mergeStructSSA(e *Env, fname, tname string, st *types.Struct, pkPath string) (decided bool) {
	r := e.R
	key := inputRel + "." + fname
	fn := e.P.Func(inputRel, fname)
	if fn == nil || len(fn.Params) != 2 {
		return false
	}
	var cell *ssa.Alloc
	nret := 0
	for _, b := range fn.Blocks {
		ret, ok := b.Instrs[len(b.Instrs)-1].(*ssa.Return)
		if !ok || b == fn.Recover {
			continue
		}
		nret++
		if len(ret.Results) == 1 {
			if ld, ok := ret.Results[0].(*ssa.UnOp); ok && ld.Op == token.MUL {
				cell, _ = ld.X.(*ssa.Alloc)
			}
		}
	}
	if nret != 1 || cell == nil {
		return false
	}
	stores := map[string][]ssa.Value{}
	for _, ref := range *cell.Referrers() {
		fa, ok := ref.(*ssa.FieldAddr)
		if !ok {
			continue
		}
		for _, r2 := range *fa.Referrers() {
			if s, ok := r2.(*ssa.Store); ok && s.Addr == ssa.Value(fa) {
				stores[fieldName(fa)] = append(stores[fieldName(fa)], s.Val)
			}
		}
	}
	if len(stores) == 0 {
		return false
	}
	for i := 0; i < st.NumFields(); i++ {
		f := st.Field(i)
		fkey := key + "#" + tname + "." + f.Name()
		vs := stores[f.Name()]
		if len(vs) == 0 {
			r.Violate("R09.1", fkey, "field is not set in the merged value: it is silently dropped whenever two files are merged", nil)
			continue
		}
		if len(vs) > 1 {
			r.Undecide("R09.1", fkey, "the field of the merged value is assigned more than once")
			continue
		}
		want := ""
		switch u := f.Type().Underlying().(type) {
		case *types.Pointer:
			want = "later-non-nil-wins"
		case *types.Map:
			if isNamed(u.Elem(), pkPath, "Service") {
				want = "per-key-service-merge"
			} else {
				want = "key-wise-union-later-wins"
			}
		case *types.Struct:
			want = "struct-merge:" + namedOf(f.Type()).Obj().Name()
		case *types.Slice:
			switch sliceMergeRule[tname+"."+f.Name()] {
			case "replace-if-non-empty":
				want = "later-non-empty-replaces"
			case "append":
				want = "append"
			default:
				r.Undecide("R09.1", fkey, "slice field without a documented merge rule")
				continue
			}
		default:
			r.Undecide("R09.1", fkey, "field of a type class without a documented merge rule: "+f.Type().String())
			continue
		}
		got, a, b := mergeExprClass(e, vs[0], 0)
		if got == "unknown" && (want == "later-non-nil-wins" || want == "later-non-empty-replaces") {
			// the selection is written inline (`args := a.Args; if len(b.Args) > 0 { args = b.Args }`): evaluate the
			// merge function abstractly with a.K / b.K as the operands
			cases := ptrCases
			if want == "later-non-empty-replaces" {
				cases = sliceCases
			}
			allOK := true
			for _, c := range cases {
				res := absEvalSeeded(fn, []absVal{{kind: "unknown"}, {kind: "unknown"}}, 0, func(v ssa.Value) (absVal, bool) {
					if fieldOfParam(v, fn.Params[0], f.Name()) {
						return absVal{kind: "ref", prov: "a", st: c.sa}, true
					}
					if fieldOfParam(v, fn.Params[1], f.Name()) {
						return absVal{kind: "ref", prov: "b", st: c.sb}, true
					}
					return absVal{}, false
				}, f.Name())
				okC := false
				for _, w := range c.want {
					if res.kind == "ref" && res.prov == w {
						okC = true
					}
				}
				if !okC {
					allOK = false
				}
			}
			if allOK {
				r.Hold("R09.1", fkey, "inline selection with the documented behaviour "+want+" (abstract evaluation over the operand states)", e.P.Pos(vs[0].Pos()))
				continue
			}
		}
		if got == "unknown" {
			r.Undecide("R09.1", fkey, "the value of the merged field could not be shown to have the documented behaviour class "+want+" (see its R09.1c obligations)", e.P.Pos(vs[0].Pos()))
			continue
		}
		okArgs := a != nil && b != nil && fieldOfParam(a, fn.Params[0], f.Name()) && fieldOfParam(b, fn.Params[1], f.Name())
		doc := "documented class %q applied to (first.%s, second.%s); found combinator of class %q"
		if want == "append" {
			doc = "documented rule %q: earlier elements followed by later elements of (first.%s, second.%s); found class %q"
		}
		r.Check(got == want && okArgs, "R09.1", fkey, fmt.Sprintf(doc, want, f.Name(), f.Name(), got), e.P.Pos(vs[0].Pos()))
	}
	return true
}

// mergeMapSSA: the result map receives all entries of the first operand and then all entries of the second
// (so the later file wins per key). Recognised bulk copies: `for k, v := range X { r[k] = v }` and
// maps.Copy(r, X). decided=false when the function is written another way (the AST rule decides then).
func mergeMapSSA(e *Env, name string) (decided, ok bool) {
	fn := e.P.Func(inputRel, name)
	if fn == nil || len(fn.Params) != 2 {
		return false, false
	}
	operand := func(v ssa.Value) string {
		for i := 0; i < 4; i++ {
			switch x := v.(type) {
			case *ssa.Parameter:
				if x == fn.Params[0] {
					return "a"
				}
				if x == fn.Params[1] {
					return "b"
				}
				return ""
			case *ssa.ChangeType:
				v = x.X
			case *ssa.UnOp:
				if al, isAl := x.X.(*ssa.Alloc); isAl && x.Op == token.MUL {
					var only ssa.Value
					n := 0
					for _, ref := range *al.Referrers() {
						if st, isSt := ref.(*ssa.Store); isSt && st.Addr == al {
							n++
							only = st.Val
						}
					}
					if n != 1 {
						return ""
					}
					v = only
				} else {
					return ""
				}
			default:
				return ""
			}
		}
		return ""
	}
	type ev struct {
		op  string
		pos token.Pos
	}
	var evs []ev
	var result ssa.Value
	other := false
	for _, b := range fn.Blocks {
		for _, ins := range b.Instrs {
			switch x := ins.(type) {
			case *ssa.MakeMap:
				result = x
			case *ssa.MapUpdate:
				// r[k] = v with (k, v) the key/value of a range over an operand
				kx, ok1 := x.Key.(*ssa.Extract)
				vx, ok2 := x.Value.(*ssa.Extract)
				if ok1 && ok2 && kx.Tuple == vx.Tuple && kx.Index == 1 && vx.Index == 2 {
					if nx, isNext := kx.Tuple.(*ssa.Next); isNext {
						if rg, isR := nx.Iter.(*ssa.Range); isR {
							if op := operand(rg.X); op != "" {
								evs = append(evs, ev{op, x.Pos()})
								continue
							}
						}
					}
				}
				other = true
			case *ssa.Call:
				if callName(&x.Call) == "maps.Copy" && len(x.Call.Args) == 2 {
					if op := operand(x.Call.Args[1]); op != "" {
						evs = append(evs, ev{op, x.Pos()})
					} else {
						other = true
					}
					continue
				}
				g := x.Call.StaticCallee()
				if g == nil {
					continue
				}
				gname := g.Name()
				if o := g.Origin(); o != nil {
					gname = o.Name()
				}
				// copy helper of the package: h(dst, src) { for k, v := range src { dst[k] = v } }
				body := g
				if g.Origin() != nil {
					body = g.Origin() // an instantiation may be a thin wrapper: read the generic body
				}
				if e.P.InModule(g) && len(x.Call.Args) == 2 && isCopyAllHelper(body) {
					if op := operand(x.Call.Args[1]); op != "" {
						evs = append(evs, ev{op, x.Pos()})
					} else {
						other = true
					}
					continue
				}
				// maps.Iterate(X, func(k, v) { r[k] = v })
				if gname == "Iterate" && len(x.Call.Args) == 2 {
					var cb *ssa.Function
					switch f := x.Call.Args[1].(type) {
					case *ssa.MakeClosure:
						cb, _ = f.Fn.(*ssa.Function)
					case *ssa.Function:
						cb = f
					}
					// the callback may be a local closure value loaded from a variable
					if ld, isLd := x.Call.Args[1].(*ssa.UnOp); isLd && cb == nil {
						if al, isAl := ld.X.(*ssa.Alloc); isAl {
							for _, ref := range *al.Referrers() {
								if st, isSt := ref.(*ssa.Store); isSt && st.Addr == al {
									if mc, isMc := st.Val.(*ssa.MakeClosure); isMc {
										cb, _ = mc.Fn.(*ssa.Function)
									}
								}
							}
						}
					}
					if cb != nil && len(cb.Params) == 2 {
						stores := 0
						for _, cbb := range cb.Blocks {
							for _, ci := range cbb.Instrs {
								if mu, isMu := ci.(*ssa.MapUpdate); isMu && mu.Key == ssa.Value(cb.Params[0]) && mu.Value == ssa.Value(cb.Params[1]) {
									stores++
								}
							}
						}
						if op := operand(x.Call.Args[0]); op != "" && stores == 1 && len(cb.Blocks) == 1 {
							evs = append(evs, ev{op, x.Pos()})
							continue
						}
					}
				}
			}
		}
	}
	// stores inside an Iterate callback were counted through the callback: ignore them as "other"
	if len(evs) < 2 || result == nil {
		return false, false
	}
	_ = other
	// position order: every copy of the first operand precedes every copy of the second, and both occur
	lastA, firstB := token.NoPos, token.NoPos
	for _, v := range evs {
		if v.op == "a" && v.pos > lastA {
			lastA = v.pos
		}
		if v.op == "b" && (firstB == token.NoPos || v.pos < firstB) {
			firstB = v.pos
		}
	}
	good := lastA != token.NoPos && firstB != token.NoPos && lastA < firstB
	// the copies are unconditional apart from the both-nil shortcut: no If other than nil tests and range conditions
	for _, b := range fn.Blocks {
		if iff, isIf := b.Instrs[len(b.Instrs)-1].(*ssa.If); isIf {
			if ex, isEx := iff.Cond.(*ssa.Extract); isEx {
				if _, isNext := ex.Tuple.(*ssa.Next); isNext {
					continue
				}
			}
			if _, _, isNil := nilTest(iff.Cond); isNil {
				continue
			}
			if c, isCall := iff.Cond.(*ssa.Call); isCall {
				if g := c.Call.StaticCallee(); g != nil && len(g.Blocks) == 1 {
					continue // one-line predicate (isNilMap)
				}
			}
			good = false
		}
	}
	key := inputRel + "." + name
	return true, e.R.Check(good, "R09.1c", key+"#later-wins", "mappings are united key-wise with later values winning: every entry of the first operand is copied into the result before the entries of the second", e.P.Pos(fn.Pos()))
}

// isCopyAllHelper: h(dst, src) whose body is exactly `for k, v := range src { dst[k] = v }`.
func isCopyAllHelper(h *ssa.Function) bool {
	if len(h.Params) != 2 {
		return false
	}
	n := 0
	for _, b := range h.Blocks {
		for _, ins := range b.Instrs {
			mu, ok := ins.(*ssa.MapUpdate)
			if !ok {
				continue
			}
			n++
			kx, ok1 := mu.Key.(*ssa.Extract)
			vx, ok2 := mu.Value.(*ssa.Extract)
			if !ok1 || !ok2 || kx.Tuple != vx.Tuple || kx.Index != 1 || vx.Index != 2 || mu.Map != ssa.Value(h.Params[0]) {
				return false
			}
			nx, isNext := kx.Tuple.(*ssa.Next)
			if !isNext {
				return false
			}
			rg, isR := nx.Iter.(*ssa.Range)
			if !isR || rg.X != ssa.Value(h.Params[1]) {
				return false
			}
		}
		if iff, ok := b.Instrs[len(b.Instrs)-1].(*ssa.If); ok {
			if ex, isEx := iff.Cond.(*ssa.Extract); !isEx {
				return false
			} else if _, isNext := ex.Tuple.(*ssa.Next); !isNext {
				return false
			}
		}
	}
	return n == 1
}
