package rules

import (
	"fmt"
	"go/ast"
	"go/types"
	"sort"
	"strings"

	"gverif/internal/load"

	"golang.org/x/tools/go/ssa"
)

// Rule E: errors are never dropped. For every call in module code that yields an
// error (or []error), the value must flow to an error result of the enclosing
// top-level function when that function has one; otherwise it must at least be used.

type ErrSite struct {
	Key    string // enclosing function + callee + ordinal
	Pos    string
	Callee string
	Fn     string
	Status string // "flows", "used", "dropped", "no-flow"
}

// reviewed exceptions: (enclosing top-level function, callee) -> reason
var errDropAllowed = map[string]string{
	// package-wide (any function of package internal/cmd, so that the printing may live in a helper of RunE)
	"internal/cmd.*|github.com/fatih/color.(Color).Fprint":                       "best-effort printing of the error list to the report writer; the command's exit status is already decided by the returned error",
	"internal/cmd.*|github.com/fatih/color.(Color).Fprintln":                     "best-effort printing of the error list to the report writer",
	"internal/cmd.NewBuildCmd|github.com/spf13/pflag.(FlagSet).MarkHidden":       "flag registration",
	"internal/cmd.NewBuildCmd|github.com/spf13/cobra.(Command).MarkFlagRequired": "fails only for an unknown flag name, which is a literal registered two lines above",
}

func ErrSites(p *load.Program) []ErrSite {
	var out []ErrSite
	roots := map[*ssa.Function]bool{}
	for _, fn := range p.Funcs() {
		roots[rootFn(fn)] = true
	}
	var rl []*ssa.Function
	for fn := range roots {
		rl = append(rl, fn)
	}
	sort.Slice(rl, func(i, j int) bool { return rl[i].String() < rl[j].String() })
	for _, root := range rl {
		if isGeneratedFn(p, root) {
			continue
		}
		out = append(out, errSitesOf(p, root)...)
	}
	return out
}

func isGeneratedFn(p *load.Program, fn *ssa.Function) bool {
	syn := fn.Syntax()
	if syn == nil {
		return false
	}
	for _, pk := range p.Roots {
		if f := load.FileOf(pk, syn); f != nil {
			return ast.IsGenerated(f)
		}
	}
	return false
}

func errSitesOf(p *load.Program, root *ssa.Function) []ErrSite {
	var out []ErrSite
	// does any function of this family return error / []error ?
	type call struct {
		owner *ssa.Function
		ins   ssa.CallInstruction
	}
	var calls []call
	allInstrs(root, func(owner *ssa.Function, ins ssa.Instruction) {
		if c, ok := ins.(ssa.CallInstruction); ok {
			calls = append(calls, call{owner, c})
		}
	})
	rootKey := p.FuncKey(root)
	counts := map[string]int{}
	for _, c := range calls {
		sig := c.ins.Common().Signature()
		if sig == nil {
			continue
		}
		res := sig.Results()
		var idx []int
		for i := 0; i < res.Len(); i++ {
			if isErrorType(res.At(i).Type()) || isErrorSlice(res.At(i).Type()) {
				idx = append(idx, i)
			}
		}
		if len(idx) == 0 {
			continue
		}
		name := callName(c.ins.Common())
		if name == "" {
			name = "dynamic:" + c.ins.Common().Value.Name()
			if fv := dynName(c.ins.Common().Value); fv != "" {
				name = "dynamic:" + fv
			}
		}
		if strings.HasPrefix(name, "builtin.") || name == load.RuntimeMod+"/grouperror.Collection" {
			continue // Collection only decomposes an error that is tracked on its own
		}
		if strings.HasPrefix(name, "strings.(Builder).Write") || strings.HasPrefix(name, "bytes.(Buffer).Write") {
			continue // documented: "the returned error is always nil" — in-memory writers cannot fail
		}
		counts[name]++
		site := ErrSite{Fn: rootKey, Callee: name, Pos: p.Pos(c.ins.Pos()),
			Key: fmt.Sprintf("%s -> %s #%d", rootKey, shortName(p.ModPath, name), counts[name])}
		val := c.ins.Value()
		if val == nil { // go / defer statement: result discarded
			if _, isDefer := c.ins.(*ssa.Defer); isDefer {
				site.Status = "dropped"
				out = append(out, site)
			}
			continue
		}
		var srcs []ssa.Value
		if res.Len() == 1 {
			srcs = append(srcs, val)
		} else {
			for _, ref := range *val.Referrers() {
				if ex, ok := ref.(*ssa.Extract); ok {
					for _, i := range idx {
						if ex.Index == i {
							srcs = append(srcs, ex)
						}
					}
				}
			}
		}
		used := false
		for _, s := range srcs {
			for _, ref := range *s.Referrers() {
				if _, dbg := ref.(*ssa.DebugRef); !dbg {
					used = true
				}
			}
		}
		if len(srcs) == 0 || !used {
			site.Status = "dropped"
			out = append(out, site)
			continue
		}
		// flow to a return of the owner function or any enclosing function
		ts := taintFrom(root, srcs...)
		flows := false
		hasErrResult := false
		for f := c.owner; f != nil; f = f.Parent() {
			rs := f.Signature.Results()
			for i := 0; i < rs.Len(); i++ {
				if isErrorType(rs.At(i).Type()) || isErrorSlice(rs.At(i).Type()) {
					hasErrResult = true
				}
			}
			for _, b := range f.Blocks {
				for _, ins := range b.Instrs {
					if ret, ok := ins.(*ssa.Return); ok {
						for _, rv := range ret.Results {
							if ts.has(rv) {
								flows = true
							}
						}
					}
				}
			}
			if f.Parent() == nil {
				break
			}
		}
		switch {
		case flows:
			site.Status = "flows"
		case hasErrResult:
			site.Status = "no-flow"
		default:
			site.Status = "used"
		}
		out = append(out, site)
	}
	return out
}

func dynName(v ssa.Value) string {
	switch x := v.(type) {
	case *ssa.Parameter:
		return "param " + x.Name()
	case *ssa.UnOp:
		if fa, ok := x.X.(*ssa.FieldAddr); ok {
			if st, ok := fa.X.Type().Underlying().(*types.Pointer); ok {
				if s, ok := st.Elem().Underlying().(*types.Struct); ok {
					return "field " + s.Field(fa.Field).Name()
				}
			}
		}
	case *ssa.Field:
		if s, ok := x.X.Type().Underlying().(*types.Struct); ok {
			return "field " + s.Field(x.Field).Name()
		}
	case *ssa.Phi, *ssa.Extract, *ssa.Next:
		return "range element"
	}
	return ""
}

// ruleE records one obligation per error-yielding call site.
func ruleE(e *Env, rule string) {
	sites := ErrSites(e.P)
	n := 0
	for _, s := range sites {
		n++
		root := strings.SplitN(s.Fn, "$", 2)[0]
		switch s.Status {
		case "flows":
			e.R.Hold(rule, s.Key, "error value flows into the returned error", s.Pos)
		case "used":
			e.R.Hold(rule, s.Key, "enclosing function has no error result; value is used (checked, wrapped or escalated)", s.Pos)
		case "dropped", "no-flow":
			why, ok := errDropAllowed[root+"|"+s.Callee]
			if !ok {
				if i := strings.LastIndex(root, "."); i >= 0 && !strings.Contains(root[:i], "(") {
					why, ok = errDropAllowed[root[:i]+".*|"+s.Callee]
				}
			}
			if ok && s.Status == "dropped" {
				e.R.Hold(rule, s.Key, "reviewed exception: "+why, s.Pos)
				continue
			}
			msg := "error result is discarded"
			if s.Status == "no-flow" {
				msg = "error result never reaches an error result of the enclosing function (it is tested or stored but then lost)"
			}
			e.R.Violate(rule, s.Key, msg, nil, s.Pos)
		}
	}
	e.R.Analysed["error_yielding_call_sites"] = n
	nilErrorUse(e, rule)
}

// nilErrorUse: contradiction rule on error tests. On the edge of `err != nil` / `err == nil` where err is
// known to be nil, err is neither returned as the function's error (next to zero results) nor handed to a
// wrapper: `if err == nil { return nil, wrap(err) }` reports success for the failing case and fails (with a
// nil error and no value) for the succeeding one — an inverted error test.
func nilErrorUse(e *Env, rule string) {
	n, bad := 0, 0
	for _, fn := range e.P.Funcs() {
		if isGeneratedFn(e.P, rootFn(fn)) {
			continue
		}
		for _, b := range fn.Blocks {
			iff, ok := b.Instrs[len(b.Instrs)-1].(*ssa.If)
			if !ok {
				continue
			}
			v, nonNilOnTrue, ok := nilTest(iff.Cond)
			if !ok || !isErrorType(v.Type()) {
				continue
			}
			if _, isCall := rootOfError(v).(*ssa.Call); !isCall {
				continue
			}
			n++
			nilSucc := b.Succs[0]
			if nonNilOnTrue {
				nilSucc = b.Succs[1]
			}
			if len(nilSucc.Preds) != 1 {
				continue
			}
			for _, d := range fn.Blocks {
				if !nilSucc.Dominates(d) {
					continue
				}
				for _, ins := range d.Instrs {
					use := ""
					switch x := ins.(type) {
					case *ssa.Return:
						if len(x.Results) >= 2 && x.Results[len(x.Results)-1] == v {
							zero := true
							for _, rv := range x.Results[:len(x.Results)-1] {
								if k, isK := rv.(*ssa.Const); !isK || !(k.Value == nil || k.IsNil()) {
									zero = false
								}
							}
							if zero {
								use = "returned next to zero results"
							}
						}
					case ssa.CallInstruction:
						name := callName(x.Common())
						if strings.Contains(name, "grouperror.Prefix") || name == "fmt.Errorf" || strings.HasPrefix(name, "errors.") {
							for _, a := range x.Common().Args {
								if a == v {
									use = "wrapped by " + name
								}
								for _, va := range varargs(a) {
									if unwrap(va) == v {
										use = "wrapped by " + name
									}
								}
							}
						}
					}
					if use != "" {
						bad++
						e.R.Violate(rule, e.P.FuncKey(fn)+"#nil-error-"+strings.Fields(use)[0], "on this edge the error is known to be nil, yet it is "+use+": the error test is inverted (the failing case continues, the succeeding one returns no value and no error)", nil, e.P.Pos(ins.Pos()))
					}
				}
			}
		}
	}
	if bad == 0 {
		e.R.Hold(rule, "module#error-tests-not-inverted", fmt.Sprintf("%d tests of an error returned by a call: on the nil edge the error is never wrapped or returned as the failure", n))
	}
}

// rootOfError: the call (or other value) an error value comes from, through Extract.
func rootOfError(v ssa.Value) ssa.Value {
	if ex, ok := v.(*ssa.Extract); ok {
		return ex.Tuple
	}
	return v
}
