package rules

import (
	"go/token"
	"go/types"
	"sort"
	"strings"

	"gverif/internal/load"

	"golang.org/x/tools/go/ssa"
)

// Engine A (demand-driven form): the access paths a value may denote, rooted at a parameter
// of an entry function, e.g. Output.Services[*].Calls[*].Args[*].DependsOnParams[*].
// Collections built by append carry element paths; "[*]" stands for any index / range element.

type apath struct {
	p     *load.Program
	entry map[*ssa.Parameter]string // root names of entry parameters
	memo  map[ssa.Value]map[string]bool
	busy  map[ssa.Value]bool
	sites map[*ssa.Function][]ssa.CallInstruction
	limit int
}

const elemMark = "\x01elem" // suffix of a path that denotes "a collection whose elements are <path>"

func newApath(p *load.Program) *apath {
	a := &apath{p: p, entry: map[*ssa.Parameter]string{}, memo: map[ssa.Value]map[string]bool{}, busy: map[ssa.Value]bool{}, sites: map[*ssa.Function][]ssa.CallInstruction{}}
	for _, fn := range p.Funcs() {
		for _, b := range fn.Blocks {
			for _, ins := range b.Instrs {
				if c, ok := ins.(ssa.CallInstruction); ok {
					if callee := c.Common().StaticCallee(); callee != nil {
						a.sites[callee] = append(a.sites[callee], c)
					}
				}
			}
		}
	}
	return a
}

func (a *apath) root(fn *ssa.Function, idx int, name string) {
	if fn != nil && idx < len(fn.Params) {
		a.entry[fn.Params[idx]] = name
		a.memo = map[ssa.Value]map[string]bool{} // results computed before the root was known are stale
	}
}

func union(dst map[string]bool, src map[string]bool) {
	for k := range src {
		dst[k] = true
	}
}

func mapPaths(src map[string]bool, f func(string) string) map[string]bool {
	out := map[string]bool{}
	for k := range src {
		out[f(k)] = true
	}
	return out
}

// elemOf: the element path of a collection / indexed value path.
func elemOf(p string) string {
	if strings.HasSuffix(p, elemMark) {
		return strings.TrimSuffix(p, elemMark)
	}
	return p + "[*]"
}

func (a *apath) of(v ssa.Value) map[string]bool {
	if m, ok := a.memo[v]; ok {
		return m
	}
	if a.busy[v] {
		return map[string]bool{}
	}
	a.busy[v] = true
	defer delete(a.busy, v)
	out := map[string]bool{}
	switch x := v.(type) {
	case *ssa.Parameter:
		if n, ok := a.entry[x]; ok {
			out[n] = true
			break
		}
		// a helper's parameter: union over its static call sites
		fn := x.Parent()
		idx := -1
		for i, p := range fn.Params {
			if p == x {
				idx = i
			}
		}
		for _, c := range a.sites[fn] {
			args := c.Common().Args
			if idx >= 0 && idx < len(args) {
				union(out, a.of(args[idx]))
			}
		}
	case *ssa.FreeVar:
		fn := x.Parent()
		for i, fv := range fn.FreeVars {
			if fv != x || fn.Parent() == nil {
				continue
			}
			allInstrs(rootFn(fn), func(_ *ssa.Function, ins ssa.Instruction) {
				if mc, ok := ins.(*ssa.MakeClosure); ok && mc.Fn == ssa.Value(fn) && i < len(mc.Bindings) {
					union(out, a.of(mc.Bindings[i]))
				}
			})
		}
	case *ssa.FieldAddr:
		name := fieldName(x)
		union(out, mapPaths(a.of(x.X), func(p string) string { return p + "." + name }))
	case *ssa.Field:
		name := "?"
		if s, ok := x.X.Type().Underlying().(*types.Struct); ok {
			name = s.Field(x.Field).Name()
		}
		union(out, mapPaths(a.of(x.X), func(p string) string { return p + "." + name }))
	case *ssa.IndexAddr:
		union(out, mapPaths(a.of(x.X), elemOf))
	case *ssa.Index:
		union(out, mapPaths(a.of(x.X), elemOf))
	case *ssa.Lookup:
		union(out, mapPaths(a.of(x.X), elemOf))
	case *ssa.UnOp:
		if x.Op == token.MUL {
			if al, ok := x.X.(*ssa.Alloc); ok {
				union(out, a.cell(al))
			} else {
				union(out, a.of(x.X))
			}
		} else {
			union(out, a.of(x.X))
		}
	case *ssa.Alloc:
		union(out, a.cell(x))
	case *ssa.MakeSlice:
		// elements stored one by one: tags[i] = t.Name
		for _, ref := range *x.Referrers() {
			if ia, ok := ref.(*ssa.IndexAddr); ok {
				for _, r2 := range *ia.Referrers() {
					if st, ok := r2.(*ssa.Store); ok && st.Addr == ia {
						union(out, mapPaths(a.of(st.Val), func(p string) string { return p + elemMark }))
					}
				}
			}
		}
	case *ssa.Slice:
		union(out, a.of(x.X))
	case *ssa.Phi:
		for _, ed := range x.Edges {
			union(out, a.of(ed))
		}
	case *ssa.ChangeType:
		union(out, a.of(x.X))
	case *ssa.Convert:
		union(out, a.of(x.X))
	case *ssa.MakeInterface:
		union(out, a.of(x.X))
	case *ssa.Extract:
		// range over a map/slice via Next: (ok, key, value)
		if nx, ok := x.Tuple.(*ssa.Next); ok {
			if rg, ok := nx.Iter.(*ssa.Range); ok {
				switch x.Index {
				case 1:
					union(out, mapPaths(a.of(rg.X), func(p string) string { return p + "(key)" }))
				case 2:
					union(out, mapPaths(a.of(rg.X), elemOf))
				}
			}
		} else if c, ok := x.Tuple.(*ssa.Call); ok {
			union(out, a.callResult(c, x.Index))
		} else if lk, ok := x.Tuple.(*ssa.Lookup); ok && x.Index == 0 {
			union(out, a.of(lk))
		}
	case *ssa.Call:
		union(out, a.callResult(x, 0))
	}
	a.memo[v] = out
	return out
}

// cell: what a local variable may hold (union of everything stored into it or its elements).
func (a *apath) cell(al *ssa.Alloc) map[string]bool {
	out := map[string]bool{}
	for _, ref := range *al.Referrers() {
		switch r := ref.(type) {
		case *ssa.Store:
			if r.Addr == al {
				union(out, a.of(r.Val))
			}
		case *ssa.IndexAddr:
			// array literal behind a varargs slice: elements stored individually
			for _, r2 := range *r.Referrers() {
				if st, ok := r2.(*ssa.Store); ok && st.Addr == r {
					union(out, mapPaths(a.of(st.Val), func(p string) string { return p + elemMark }))
				}
			}
		}
	}
	return out
}

func (a *apath) callResult(c *ssa.Call, idx int) map[string]bool {
	out := map[string]bool{}
	if b, ok := c.Call.Value.(*ssa.Builtin); ok {
		if b.Name() == "append" {
			for _, arg := range c.Call.Args {
				union(out, a.of(arg))
			}
		}
		return out
	}
	callee := c.Call.StaticCallee()
	if callee == nil || len(callee.Blocks) == 0 || !a.p.InModule(callee) {
		// opaque call: the result derives from its arguments (e.g. maps.Keys of a generic instance)
		if callee != nil && callee.Origin() != nil && callee.Origin().Name() == "Keys" && len(c.Call.Args) == 1 {
			union(out, mapPaths(a.of(c.Call.Args[0]), func(p string) string { return p + "(key)" + elemMark }))
		}
		return out
	}
	// module callee: paths of its returned values (its parameters resolve through call sites, which include this one)
	for _, b := range callee.Blocks {
		for _, ins := range b.Instrs {
			if ret, ok := ins.(*ssa.Return); ok && idx < len(ret.Results) {
				union(out, a.of(ret.Results[idx]))
			}
		}
	}
	return out
}

func sortedPaths(m map[string]bool) []string {
	var s []string
	for k := range m {
		s = append(s, strings.ReplaceAll(k, elemMark, "[*]"))
	}
	sort.Strings(s)
	return s
}

// typePaths enumerates, from the type graph, every path from root type to a field with one of
// the given names (slices and maps add [*]); the required set of the coverage rules.
func typePaths(t types.Type, rootName string, leafNames map[string]bool) []string {
	var out []string
	var walk func(t types.Type, path string, depth int)
	walk = func(t types.Type, path string, depth int) {
		if depth > 8 {
			return
		}
		switch u := t.Underlying().(type) {
		case *types.Struct:
			for i := 0; i < u.NumFields(); i++ {
				f := u.Field(i)
				p := path + "." + f.Name()
				if leafNames[f.Name()] {
					out = append(out, p+"[*]")
					continue
				}
				walk(f.Type(), p, depth+1)
			}
		case *types.Slice:
			walk(u.Elem(), path+"[*]", depth+1)
		case *types.Map:
			walk(u.Elem(), path+"[*]", depth+1)
		case *types.Pointer:
			walk(u.Elem(), path, depth+1)
		}
	}
	walk(t, rootName, 0)
	sort.Strings(out)
	return out
}
