package rules

import (
	"go/types"

	"golang.org/x/tools/go/ssa"
)

func init() {
	Register("C02", C02)
	Register("C04", C04)
}

const compilerRel = "internal/pkg/compiler"

func C02(e *Env) {
	r := e.R
	e.analysedBase()
	yamlKeysRule(e, "R11.12", "constructor", "value", "type", "arguments", "calls", "fields", "services")
	e.R.Rule("R11.12", "key table (shared with C11): constructor, value, type, arguments, calls and fields are recognised under their documented spelling", 7)
	r.Rule("R02.4", "order preservation in the compiler: arguments, calls, tags and decorators are written at the index of (or appended in the order of) the element they were computed from; loops are ascending ranges; fields go through the key-sorted maps.Iterate", 8)
	r.Rule("R02.5", "emission: for every instantiated service shape the generated block has exactly one SetConstructor whose first argument is the declared creation method followed by the declared arguments in order (or the value / type-only / todo function literal), one SetField per field, one AppendCall / AppendWither per call with withers exactly where declared, in order, constructor before fields before calls, and c.OverrideService(name, s) last; rootGontainer is assigned before the first service; one OverrideParam per parameter", 12)
	r.Rule("R02.6", "resolvers, token factories and compile steps are stateless: no method of the resolver, token, syntax and compiler packages writes through its receiver (the reviewed exception is StrategyFactory.Prepend), so the code generated for an argument depends on that argument only", 1)
	r.Rule("R02.7", "every argument of every position is compiled: loops over arguments, calls, fields and decorators have no early exit", 6)

	b := newSkelBuilder(e)
	if b.fr.ok && b.te.DataType != nil {
		sks := b.skeletons(e.Tier)
		emissionRules(e, sks, map[string]bool{"R02.5": true})
	}
	orderRule(e, "R02.4", compilerRel, "resolveArgs", "StepCompileServices.serviceCalls", "StepCompileServices.serviceTags", "StepCompileDecorators.Process", "StepCompileServices.processScopes")
	orderRule(e, "R02.4", outputRel, "Service.AllArgs")
	c02FieldsSorted(e)
	statelessRule(e, "R02.6", "internal/pkg/resolver", "internal/pkg/token", "internal/pkg/syntax", compilerRel)
	loopExitRule(e, "R02.7", compilerRel, "an element after the exit is never compiled", "resolveArgs", "StepCompileServices.serviceCalls", "StepCompileServices.serviceTags", "StepCompileServices.serviceFields", "StepCompileDecorators.Process", "StepCompileServices.Process", "StepCompileParams.Process")
	sortSites(e, "R02.4s")
	r.Rule("R02.4s", "nothing in module code reorders a slice except the three reviewed sort sites (sorted map keys, imports by path, matched files)", 1)
	c15Todo(e)
	r.Rule("R15.1", "a todo service is compiled to name+flag only, on the todo flag alone (shared with C15): a todo service that is silently compiled as a regular one builds something the configuration did not declare", 1)
	c02ResolverChain(e, "R02.1")
	r.Rule("R02.1", "argument-resolver chain: each strategy's accepted class is read from its Supports; the catch-all (pattern) is last, the others are pairwise disjoint and all documented forms are wired, so every argument form is compiled by the resolver the documentation names", 8)
	c06Recorded(e)
	c06Copies(e)
	r.Rule("R06.4", "what a resolver emits is what it records, and the resolver's result is copied field by field into output.Arg (shared with C06)", 8)
	c03Sanitise(e)
	r.Rule("R03.1", "argument payloads reach the generated code quoted, exported or as grammar-checked groups (shared with C03): non-string literals keep their value and type through exporter.MustExport", 14)
	c03ParamRules(e, "R03.4")
	r.Rule("R03.4", "parameters are resolved by the primitive chain, so a parameter string that looks like $gontainer or !value is injected as that string (shared with C03)", 4)
	freshRule(e, "R09.5", 1, "internal/cmd/runner")
	mergeUnconditionalRule(e, "R09.2b")
	r.Rule("R09.5", "the decode target is fresh per file, so a service of an earlier file is not merged with itself and its calls are not applied twice (shared with C09)", 1)
	r.Rule("R09.2b", "every decoded file is merged (shared with C09)", 1)
	compileStepsUseFullChain(e, "R02.1")
	fieldProvenance(e, "R02.3")
	r.Rule("R02.3", "field provenance: in processService, serviceCalls, serviceTags and processDecorator every field of the output value is computed from the same-named declared attribute (through the function's own helpers and locals) and reads no other attribute; no field is left unset", 18)
	c14Groups(e)
	c14Guards(e)
	r.Rule("R14.8", "`!value expr` injects the Go expression as written: every capture group of the value / type / constructor grammars (pointer or address marker, import, name, selector chain, {}) is copied into the compiled expression on every path (shared with C14)", 5)
	r.Rule("R14.9", "the current package never reaches the alias table (shared with C14)", 5)
	c02ConstUsage(e, "R02.2")
	r.Rule("R02.2", "constant usage: every resolver / token factory formats its code with the code-template constant of its own kind only (service, tag, value, provider, concatenation, getParam, token provider), each constant calls the constructor-local helper of that kind, and (R02.5) the generated expression is parsed back as a dependency of that kind, i.e. the helper is bound to the matching runtime constructor", 17)
	c02More(e)
	r.NotCovered = append(r.NotCovered,
		"what the runtime library does with the registered constructor, fields and calls (objects observed at run time)",
		"evaluation of !value expressions and of parameter patterns at run time",
		"constructor failures surfacing from Get")
}

var c02More = func(e *Env) {}

// c02FieldsSorted: serviceFields iterates through maps.Iterate (key-sorted).
func c02FieldsSorted(e *Env) {
	fn := e.P.Func(compilerRel, "StepCompileServices.serviceFields")
	key := compilerRel + ".StepCompileServices.serviceFields#sorted-iteration"
	if fn == nil {
		e.R.Undecide("R02.4", key, "anchor not found")
		return
	}
	n, rawRange := 0, false
	mapsPkg := e.P.ModPath + "/internal/pkg/maps"
	allInstrs(fn, func(_ *ssa.Function, ins ssa.Instruction) {
		switch x := ins.(type) {
		case ssa.CallInstruction:
			if f := x.Common().StaticCallee(); f != nil && f.Origin() != nil && f.Origin().Pkg != nil && f.Origin().Pkg.Pkg.Path() == mapsPkg && (f.Origin().Name() == "Iterate" || f.Origin().Name() == "Keys") {
				if len(x.Common().Args) > 0 {
					if _, isP := x.Common().Args[0].(*ssa.Parameter); isP {
						n++
					}
				}
			}
		case *ssa.Range:
			if _, isMap := x.X.Type().Underlying().(*types.Map); isMap {
				rawRange = true
			}
		}
	})
	e.R.Check(n >= 1 && !rawRange, "R02.4", key, "fields are visited through the sorted keys of package maps (maps.Iterate or a range over maps.Keys of the fields parameter) and never by a raw map range")
}

func C04(e *Env) {
	r := e.R
	e.analysedBase()
	yamlKeysRule(e, "R11.12", "tags", "decorators", "tag", "decorator", "arguments")
	e.R.Rule("R11.12", "key table (shared with C11): tags and decorators are recognised under their documented spelling", 5)
	r.Rule("R04.3", "one s.Tag(name, priority) per declared tag, name first, priority second, unchanged (for every instantiated shape, also for value and type-only services)", 3)
	r.Rule("R04.4", "one c.AddDecorator(tag, fn, args…) per declared decorator, in declaration order, after all services, with the declared arguments in order", 1)
	r.Rule("R02.4", "decorators and tags keep their declaration order through the compiler (index-preserving stores, append in order), and nothing sorts them", 4)
	r.Rule("R09.1", "across files tags and decorators are appended earlier-then-later (merge wiring, shared with C09)", 16)
	r.Rule("R09.1c", "behaviour classes of the merge combinators (shared with C09)", 4)
	r.Rule("R04.5", "input.Tag.UnmarshalYAML keeps name and priority as written (scalar form: priority 0; mapping form: keys name / priority, typed assertions)", 3)

	b := newSkelBuilder(e)
	if b.fr.ok && b.te.DataType != nil {
		sks := b.skeletons(e.Tier)
		emissionRules(e, sks, map[string]bool{"R04.3": true, "R04.4": true})
	}
	orderRule(e, "R02.4", compilerRel, "StepCompileServices.serviceTags", "StepCompileDecorators.Process", "resolveArgs")
	sortSites(e, "R02.4")
	mergeLiteralRule(e, "Merge", "Input")
	mergeLiteralRule(e, "mergeService", "Service")
	loopExitRule(e, "R02.4", compilerRel, "a later tag / decorator is dropped", "StepCompileServices.serviceTags", "StepCompileDecorators.Process")
	c04Tag(e)
	fieldProvenance(e, "R02.3")
	r.Rule("R02.3", "tag name/priority and decorator tag/function/arguments are computed from the same-named declared attributes (field provenance, shared with C02)", 18)
	c04More(e)
	statelessRule(e, "R02.6", "internal/pkg/resolver", "internal/pkg/token", "internal/pkg/syntax", compilerRel)
	r.Rule("R02.6", "resolvers keep no state from one argument to the next (shared with C02): a decorator argument is compiled from its own value, not from an earlier same-looking one", 2)
	freshRule(e, "R09.5", 1, "internal/cmd/runner")
	mergeUnconditionalRule(e, "R09.2b")
	r.Rule("R09.5", "the decode target is fresh per file (shared with C09)", 1)
	r.Rule("R09.2b", "every decoded file is merged — a file that holds only decorators is not skipped (shared with C09)", 1)
	compileStepsUseFullChain(e, "R02.1")
	r.Rule("R02.1", "the decorator step compiles its arguments with the full argument chain (so !tagged works in decorator arguments) (shared with C02)", 2)
	r.NotCovered = append(r.NotCovered,
		"the run-time order of tagged services (priority descending, then name) and the moment decorators are applied are the runtime library's behaviour",
		"the payload handed to a decorator at run time")
}

var c04More = func(e *Env) {}
