package rules

import (
	"fmt"
	"go/token"
	"go/types"
	"strings"

	"golang.org/x/tools/go/ssa"
)

// R10.9 — failure paths of reading the configuration: a file is merged only when it was read and
// parsed; "found" becomes true only then; no pattern, no processed file and a file matched twice
// are errors.
func c10ReadConfig(e *Env, rule string) {
	r := e.R
	key := "internal/cmd/runner.StepReadConfig.Run"
	run := e.P.Func("internal/cmd/runner", "StepReadConfig.Run")
	if run == nil {
		r.Undecide(rule, key, "anchor not found")
		return
	}
	mergeName := e.P.ModPath + "/internal/pkg/input.Merge"
	var cl *ssa.Function
	var merge ssa.CallInstruction
	allInstrs(run, func(owner *ssa.Function, ins ssa.Instruction) {
		if c, ok := ins.(ssa.CallInstruction); ok && callName(c.Common()) == mergeName {
			cl, merge = owner, c
		}
	})
	if merge == nil {
		r.Violate(rule, key+"#merge", "no call of input.Merge", nil)
		return
	}
	read := findCalls(cl, "os.ReadFile", false)
	parse := findCalls(cl, "gopkg.in/yaml.v3.Unmarshal", false)
	okRead := len(read) == 1 && errOf(read[0]) != nil && (successEdge(cl, errOf(read[0]), merge) || dominatedBySuccessChain(cl, errOf(read[0]), merge))
	okParse := len(parse) == 1 && errOf(parse[0]) != nil && (successEdge(cl, errOf(parse[0]), merge) || dominatedBySuccessChain(cl, errOf(parse[0]), merge))
	r.Check(okRead, rule, key+"#merge-after-read", "a file is merged only on the success edge of os.ReadFile (an unreadable input is an error, not an empty configuration)", e.P.Pos(merge.Pos()))
	r.Check(okParse, rule, key+"#merge-after-parse", "a file is merged only on the success edge of yaml.Unmarshal (an unparsable input is an error)", e.P.Pos(merge.Pos()))
	// the parsed bytes are the bytes read, and the decoded value is what is merged (R09.2 decides the operand order)
	if len(read) == 1 && len(parse) == 1 {
		r.Check(parse[0].Common().Args[0] == extractOf(read[0], 0), rule, key+"#parses-what-was-read", "yaml.Unmarshal receives the bytes returned by os.ReadFile for that file")
		if prm := read[0].Common().Args[0]; prm != nil {
			// the file name is the range variable of the sorted file list (a free variable of the closure or a parameter)
			_, isFV := prm.(*ssa.FreeVar)
			_, isLd := prm.(*ssa.UnOp)
			_, isP := prm.(*ssa.Parameter)
			r.Check(isFV || isLd || isP, rule, key+"#reads-the-listed-file", "the file that is read is the one taken from the file list")
		}
	}
	// found = true only after the merge
	bind := freeVarBindings(run)
	trueStores, okFound := 0, true
	var foundCell ssa.Value
	allInstrs(run, func(owner *ssa.Function, ins ssa.Instruction) {
		st, ok := ins.(*ssa.Store)
		if !ok {
			return
		}
		c, ok := st.Val.(*ssa.Const)
		if !ok || c.Value == nil || c.Value.String() != "true" {
			return
		}
		cell := cellOf(st.Addr, bind)
		al, isAl := cell.(*ssa.Alloc)
		if !isAl || al.Comment != "found" {
			return
		}
		foundCell = cell
		trueStores++
		if owner != cl || !reachableFrom(merge, st) || !merge.Block().Dominates(st.Block()) {
			okFound = false
		}
	})
	r.Check(trueStores >= 1 && okFound, rule, key+"#found-only-after-merge", fmt.Sprintf("the 'some file was processed' flag is set only after a successful merge (%d stores)", trueStores))
	// error sites of Run itself
	guards := map[string]bool{}
	// Run itself and the helpers of its package it calls directly (an extracted loop keeps its guards)
	siteFns := []*ssa.Function{run}
	for _, c := range callsIn(run, true) {
		if g := c.Common().StaticCallee(); g != nil && g.Pkg == run.Pkg && g != run && len(g.Blocks) > 0 {
			if v := c.Value(); v != nil && v.Referrers() != nil && len(*v.Referrers()) > 0 {
				siteFns = append(siteFns, g)
			}
		}
	}
	for _, s := range errorSites(siteFns) {
		for d := s.call.Block(); d != nil; d = d.Idom() {
			id := d.Idom()
			if id == nil {
				break
			}
			iff, ok := id.Instrs[len(id.Instrs)-1].(*ssa.If)
			if !ok || len(d.Preds) != 1 {
				continue
			}
			edge := d == id.Succs[0]
			for _, a := range fieldAtoms(iff.Cond, edge) {
				guards[a] = true
			}
			// !found
			cond := iff.Cond
			neg := false
			if u, ok := cond.(*ssa.UnOp); ok && u.Op == token.NOT {
				cond, neg = u.X, true
			}
			if ld, ok := cond.(*ssa.UnOp); ok && ld.Op == token.MUL && foundCell != nil && cellOf(ld.X, bind) == foundCell {
				if edge == neg {
					guards["!found"] = true
				}
			}
			// len(p) > 1 on a value looked up in the bookkeeping map
			if bo, ok := iff.Cond.(*ssa.BinOp); ok {
				if k, ok := constInt(bo.Y); ok {
					if (bo.Op == token.GTR && k == 1 && edge) || (bo.Op == token.LEQ && k == 1 && !edge) ||
						(bo.Op == token.GEQ && k == 2 && edge) || (bo.Op == token.LSS && k == 2 && !edge) {
						guards["matches>1"] = true
					}
				}
			}
		}
	}
	r.Check(guards["len(patterns)==0"], rule, key+"#no-pattern-is-error", "no -i pattern is an error")
	r.Check(guards["!found"], rule, key+"#nothing-processed-is-error", "if no file was processed the step fails ('could not process any files')")
	r.Check(guards["matches>1"], rule, key+"#double-match-is-error", "a file matched by more than one pattern is an error")
	// the bookkeeping behind that test: every merged file is recorded under its path with the pattern that
	// matched it (m[f] = append(m[f], p)), in the straight-line region of the merge
	okBook := false
	var mergeCall ssa.Instruction
	allInstrs(run, func(_ *ssa.Function, ins ssa.Instruction) {
		if c, ok := ins.(ssa.CallInstruction); ok && strings.HasSuffix(callName(c.Common()), "/internal/pkg/input.Merge") {
			mergeCall = ins
		}
	})
	allInstrs(run, func(f *ssa.Function, ins ssa.Instruction) {
		mu, ok := ins.(*ssa.MapUpdate)
		if !ok {
			return
		}
		mt, ok := mu.Map.Type().Underlying().(*types.Map)
		if !ok {
			return
		}
		if _, isSl := mt.Elem().Underlying().(*types.Slice); !isSl {
			return
		}
		ap, ok := mu.Value.(*ssa.Call)
		if !ok {
			return
		}
		if bi, isB := ap.Call.Value.(*ssa.Builtin); !isB || bi.Name() != "append" || len(ap.Call.Args) != 2 {
			return
		}
		lk, ok := ap.Call.Args[0].(*ssa.Lookup)
		if !ok || !(lk.Index == mu.Key || sameLoad(lk.Index, mu.Key)) || !(lk.X == mu.Map || sameLoad(lk.X, mu.Map)) {
			return
		}
		if mergeCall != nil && mergeCall.Parent() == f && (mergeCall.Block().Dominates(mu.Block()) || mu.Block().Dominates(mergeCall.Block())) {
			okBook = true
		}
	})
	r.Check(okBook, rule, key+"#double-match-bookkeeping", "every merged file is recorded with the pattern that matched it (m[file] = append(m[file], pattern) next to the merge): without the record a file matched by two patterns is merged twice and never reported")
}

// dominatedBySuccessChain: the instruction is not reachable from the failure edge of the error test.
func dominatedBySuccessChain(fn *ssa.Function, errv ssa.Value, ins ssa.Instruction) bool {
	fb, ok := failureEdgeBlock(fn, errv)
	if !ok {
		return false
	}
	return !reach(fb, true)[ins.Block()]
}
