package rules

import (
	"fmt"
	"go/ast"
	"go/token"
	"go/types"
	"sort"
	"strings"

	"gverif/internal/load"
	"gverif/internal/rx"
	"gverif/internal/wiring"

	"golang.org/x/tools/go/ssa"
)

func init() { Register("C03", C03) }

const tokenRel = "internal/pkg/token"
const resolverRel = "internal/pkg/resolver"

func C03(e *Env) {
	r := e.R
	e.analysedBase()
	yamlKeysRule(e, "R11.12", "parameters", "arguments", "fields")
	e.R.Rule("R11.12", "key table (shared with C11): parameters (and the argument positions) are recognised under their documented spelling", 3)
	r.Rule("R03.1", "sanitisation: user data reaches generated source only quoted (%+q / %q), exported (exporter.MustExport, template export) or as a capture group of a grammar that admits no whitespace, quote or backslash; the one reviewed raw position is the argument list of a function token (documented: it must be valid Go); interface{}-typed Raw values are printed by the templates through export only", 14)
	r.Rule("R03.2", "token-factory order: each factory's accepted language is read from its Supports (exact %%, %…% with a reference name, %…% with fn(args), any %…%, anything); in the wired order no factory is shadowed by an earlier one that contains its language; the catch-all is last; registered functions are prepended, so they precede the unexpected-function factory", 6)
	r.Rule("R03.3", "single vs multi: Tokens.GoCode returns an error for no token, the provider of the token's own code for exactly one token (type preserved), and the concatenating provider over all token codes in order otherwise", 4)
	r.Rule("R03.4", "the reference a token emits is the reference it records; the tokenizer keeps chunk order (token i comes from chunk i); parameters are compiled in key order; parameters cannot depend on services or tags", 6)
	r.Rule("R03.5", "built-ins: env, envInt, todo are registered before the configuration is read and bound to generated helpers with the documented behaviour (os.LookupEnv; default when absent; strconv.Atoi; errors naming the variable; concatenation casts every chunk with exporter.CastToString in order; providers are called through caller.CallProvider)", 10)
	r.Rule("R02.1", "argument-resolver chain: each strategy's accepted class is read from its Supports (non-string primitive, string with a prefix, the container keyword, any string); the catch-all is last, the others are pairwise disjoint (so their order is irrelevant); the parameter resolver chain is non-string primitive then pattern", 8)

	c03Sanitise(e)
	b := newSkelBuilder(e)
	var sks []*skeleton
	if b.fr.ok && b.te.DataType != nil {
		sks = b.skeletons(e.Tier)
		rawPrintRule(e, b, "R03.1")
		c03Helpers(e, sks)
		skelTypeRulesQuiet(e, sks, "R03.5t")
		r.Rule("R03.5t", "the instantiated helper calls type-check: concatenateChunks returns (string, error) as the concatenation template assumes, getParam/callProvider/env helpers have the signatures the token codes use (subset of R01.2: errors in helper or token code only)", 1)
	}
	c03FactoryOrder(e)
	c02ConstUsage(e, "R02.2")
	r.Rule("R02.2", "each token factory and Tokens.GoCode use the code template of their own kind (shared with C02): a reference becomes getParam, several chunks become concatenateChunks", 17)
	var tv []RegexVar
	for _, v := range regexVars(e) {
		if v.Rel == tokenRel || v.Rel == resolverRel {
			tv = append(tv, v)
		}
	}
	c11LanguagesOf(e, tv)
	r.Rule("R11.2", "the token and argument grammars (reference name, fn(args), @service, !tagged, !value and the three prefixes) accept exactly the documented language for all strings, as compiled and as used (shared with C11): an unknown function, a malformed token or trailing text after a call is rejected at build time", 8)
	c03GoCode(e)
	c03Shapes(e, "R03.7")
	r.Rule("R03.7", "engine F: on every path (arguments present or not, import present or not) each token factory emits a Go function literal, and the function token calls callProvider(<fn>, <the token's arguments>)", 5)
	percentToken(e, "R03.6")
	r.Rule("R03.6", "%% is the literal %: the doubled-delimiter factory accepts exactly the doubled delimiter and generates a provider that returns the single delimiter", 2)
	c06Recorded(e)
	r.Rule("R06.4", "emitted reference = recorded reference; dependencies are the union over all tokens (shared with C06)", 6)
	orderRule(e, "R03.4", tokenRel, "Tokenizer.Tokenize", "Tokens.GoCode")
	loopExitRule(e, "R03.4", tokenRel, "a later chunk is dropped from the pattern", "Tokenizer.Tokenize", "Tokens.GoCode")
	c03ParamRules(e, "R03.4")
	c15Builtins(e)
	r.Rule("R15.3", "built-in function table and its helpers (shared with C15)", 4)
	c02ResolverChain(e, "R02.1")
	c03ToExpr(e)
	statelessRule(e, "R02.6", "internal/pkg/resolver", "internal/pkg/token", "internal/pkg/syntax", compilerRel)
	r.Rule("R02.6", "resolvers, tokenizer and factories keep no state from one value to the next (no store, map update or synchronised-container write through a receiver): a cache keyed by the printed value would give `8080` and \"8080\" the same code (shared with C02)", 2)
	isPrimitiveRule(e, "R11.9")
	r.Rule("R11.9", "every YAML scalar kind (all integer widths incl. uint64, floats, bool, string, null) is a primitive: types.IsPrimitive lists exactly these kinds (shared with C11)", 1)
	r.NotCovered = append(r.NotCovered,
		"the chunker as a string algorithm (pairing of %, UTF-8 handling) beyond the structural facts decided here",
		"run-time results and error texts of env/envInt/todo; the string casts of exporter.CastToString",
		"that a doubled %% evaluates to % at run time (the emitted provider returns the literal \"%\": decided; its evaluation is the runtime's)")
}

// skelTypeRulesQuiet reports only type errors that mention helper or token machinery.
func skelTypeRulesQuiet(e *Env, sks []*skeleton, rule string) {
	bad := 0
	for _, sk := range sks {
		for _, er := range sk.Errs[false] {
			line := sk.lineOf(false, er)
			if strings.Contains(line, "concatenateChunks") || strings.Contains(line, "callProvider") || strings.Contains(line, "getParam") || strings.Contains(line, "getEnv") || strings.Contains(line, "paramTodo") || strings.Contains(line, "CastToString") || strings.Contains(line, "CallProvider") {
				bad++
				e.R.Violate(rule, "generated-code: "+classifyTypeError(er, line), "helper or token code does not type-check: "+er, nil)
			}
		}
	}
	if bad == 0 {
		e.R.Hold(rule, "generated-code#helpers-and-tokens", "no type error in helper or token code of any instantiated skeleton")
	}
}

// ---- R03.1: Sprintf verb / argument discipline in the code producers ----

var rawAllowed = map[string]string{
	"(*internal/pkg/token.FactoryFunction).Create|group:params": "documented: the text between the parentheses of a function token must be valid Go and is copied as it is",
}

func c03Sanitise(e *Env) {
	r := e.R
	n := 0
	counts := map[string]int{}
	for _, fn := range e.P.Funcs() {
		if fn.Pkg == nil {
			continue
		}
		rel := e.P.Rel(fn.Pkg.Pkg.Path())
		if rel != tokenRel && rel != resolverRel && rel != "internal/pkg/syntax" && rel != compilerRel {
			continue
		}
		fk := e.P.FuncKey(fn)
		for _, b := range fn.Blocks {
			for _, ins := range b.Instrs {
				c, ok := ins.(*ssa.Call)
				if !ok || callName(&c.Call) != "fmt.Sprintf" {
					continue
				}
				if !flowsToCode(c) {
					continue // diagnostics, not generated code
				}
				format, okf := formatOf(e, c.Call.Args[0])
				counts[fk]++
				base := fmt.Sprintf("%s -> Sprintf #%d", fk, counts[fk])
				if !okf {
					r.Undecide("R03.1", base, "the format of a code-producing Sprintf is not a constant (or a field with a single constant store)", e.P.Pos(c.Pos()))
					continue
				}
				verbs := parseVerbs(format)
				args := varargs(c.Call.Args[len(c.Call.Args)-1])
				if len(verbs) != len(args) {
					r.Undecide("R03.1", base, fmt.Sprintf("format %q has %d verbs but %d arguments were identified", format, len(verbs), len(args)), e.P.Pos(c.Pos()))
					continue
				}
				for i, vb := range verbs {
					n++
					key := fmt.Sprintf("%s verb%d(%s)", base, i, vb)
					if vb == "%+q" || vb == "%q" {
						r.Hold("R03.1", key, "quoted: the generated literal denotes the original string for every input", e.P.Pos(c.Pos()))
						continue
					}
					kind, detail := argKind(e, args[i], 0)
					switch kind {
					case "code", "const", "safe-group", "int":
						r.Hold("R03.1", key, detail, e.P.Pos(c.Pos()))
					case "group":
						if why, ok := rawAllowed[fk+"|group:"+detail]; ok {
							r.Hold("R03.1", key, "reviewed raw position: "+why, e.P.Pos(c.Pos()))
						} else {
							r.Violate("R03.1", key, fmt.Sprintf("capture group %q is copied into generated code through %s although its language admits quotes, whitespace or arbitrary text", detail, vb), nil, e.P.Pos(c.Pos()))
						}
					default:
						r.Violate("R03.1", key, fmt.Sprintf("user text (%s) is copied into generated code through %s without quoting or export", detail, vb), nil, e.P.Pos(c.Pos()))
					}
				}
			}
		}
	}
	r.Analysed["sprintf_verbs_in_code_producers"] = n
}

// flowsToCode: the Sprintf result ends in a field named Code / a returned code string (not an error).
func flowsToCode(c *ssa.Call) bool {
	seen := map[ssa.Value]bool{}
	var walk func(v ssa.Value, d int) bool
	walk = func(v ssa.Value, d int) bool {
		if d > 8 || seen[v] {
			return false
		}
		seen[v] = true
		refs := v.Referrers()
		if refs == nil {
			return false
		}
		for _, ref := range *refs {
			switch x := ref.(type) {
			case *ssa.Store:
				if fa, ok := x.Addr.(*ssa.FieldAddr); ok {
					n := fieldName(fa)
					if n == "Code" || n == "Decorator" || n == "Type" || n == "Value" || n == "Constructor" {
						return true
					}
				}
				if ia, ok := x.Addr.(*ssa.IndexAddr); ok {
					if al, ok := ia.X.(*ssa.Alloc); ok {
						for _, r2 := range *al.Referrers() {
							if sl, ok := r2.(*ssa.Slice); ok && walk(sl, d+1) {
								return true
							}
						}
					}
				}
				if al, ok := x.Addr.(*ssa.Alloc); ok {
					for _, r2 := range *al.Referrers() {
						if ld, ok := r2.(*ssa.UnOp); ok && walk(ld, d+1) {
							return true
						}
					}
				}
			case *ssa.Return:
				if isStringType(v.Type()) {
					return true
				}
			case *ssa.Call:
				n := callName(&x.Call)
				if n == "fmt.Errorf" || n == "errors.New" || strings.Contains(n, "grouperror") || strings.Contains(n, "MustExport") {
					continue
				}
				if walk(x, d+1) {
					return true
				}
			case *ssa.BinOp:
				if walk(x, d+1) {
					return true
				}
			case *ssa.Phi:
				if walk(x, d+1) {
					return true
				}
			case *ssa.MakeInterface:
				if walk(x, d+1) {
					return true
				}
			}
		}
		return false
	}
	return walk(c, 0)
}

// formatOf: constant value, or a struct field whose every store in the module is one constant.
func formatOf(e *Env, v ssa.Value) (string, bool) {
	if s, ok := constString(v); ok {
		return s, true
	}
	if ld, ok := v.(*ssa.UnOp); ok {
		if fa, ok := ld.X.(*ssa.FieldAddr); ok {
			return singleConstStore(e, fa)
		}
	}
	if f, ok := v.(*ssa.Field); ok {
		if st, ok := f.X.Type().Underlying().(*types.Struct); ok {
			name := st.Field(f.Field).Name()
			base := namedOf(f.X.Type())
			return constFieldStores(e, base, name)
		}
	}
	return "", false
}

func singleConstStore(e *Env, fa *ssa.FieldAddr) (string, bool) {
	return constFieldStores(e, namedOf(fa.X.Type()), fieldName(fa))
}

func constFieldStores(e *Env, base *types.Named, name string) (string, bool) {
	val, n := "", 0
	for _, fn := range e.P.Funcs() {
		for _, b := range fn.Blocks {
			for _, ins := range b.Instrs {
				st, ok := ins.(*ssa.Store)
				if !ok {
					continue
				}
				f2, ok := st.Addr.(*ssa.FieldAddr)
				if !ok || fieldName(f2) != name || namedOf(f2.X.Type()) != base {
					continue
				}
				s, ok := constString(st.Val)
				if !ok {
					return "", false
				}
				if n > 0 && s != val {
					return "", false
				}
				val = s
				n++
			}
		}
	}
	return val, n > 0
}

func parseVerbs(f string) []string {
	var out []string
	for i := 0; i < len(f); i++ {
		if f[i] != '%' {
			continue
		}
		j := i + 1
		for j < len(f) && strings.ContainsRune("+-# 0123456789.", rune(f[j])) {
			j++
		}
		if j >= len(f) {
			break
		}
		if f[j] == '%' {
			i = j
			continue
		}
		out = append(out, f[i:j+1])
		i = j
	}
	return out
}

// varargs returns the values stored into the []any handed to Sprintf.
func varargs(v ssa.Value) []ssa.Value {
	sl, ok := v.(*ssa.Slice)
	if !ok {
		return nil
	}
	al, ok := sl.X.(*ssa.Alloc)
	if !ok {
		return nil
	}
	type pair struct {
		idx int64
		v   ssa.Value
	}
	var ps []pair
	for _, ref := range *al.Referrers() {
		ia, ok := ref.(*ssa.IndexAddr)
		if !ok {
			continue
		}
		k, _ := constInt(ia.Index)
		for _, r2 := range *ia.Referrers() {
			if st, ok := r2.(*ssa.Store); ok {
				ps = append(ps, pair{k, st.Val})
			}
		}
	}
	sort.Slice(ps, func(i, j int) bool { return ps[i].idx < ps[j].idx })
	var out []ssa.Value
	for _, p := range ps {
		out = append(out, p.v)
	}
	return out
}

// argKind classifies a Sprintf argument of a code producer.
func argKind(e *Env, v ssa.Value, d int) (string, string) {
	if d > 10 {
		return "raw", "depth limit"
	}
	switch x := v.(type) {
	case *ssa.MakeInterface:
		return argKind(e, x.X, d+1)
	case *ssa.ChangeType:
		return argKind(e, x.X, d+1)
	case *ssa.Const:
		return "const", "constant"
	case *ssa.Call:
		n := callName(&x.Call)
		switch {
		case strings.HasSuffix(n, ".Alias") || strings.HasSuffix(n, ").Alias"):
			return "code", "import alias (an identifier: R14.5)"
		case strings.HasSuffix(n, "exporter.MustExport"):
			return "code", "exported Go literal"
		case n == "fmt.Sprintf" || n == "strings.Join":
			return "code", "code assembled by another checked producer"
		case strings.HasSuffix(n, "syntax.CompileServiceValue"):
			return "code", "compiled value expression"
		case strings.HasSuffix(n, "strconv.FormatInt") || strings.HasSuffix(n, "strconv.Itoa"):
			return "int", "number"
		case (n == "strings.(Builder).String" || n == "bytes.(Buffer).String") && len(x.Call.Args) == 1:
			// the text is what was written into the builder: as good as the worst thing written
			worst, det := "code", "text assembled in a builder from checked parts"
			if refs := x.Call.Args[0].Referrers(); refs != nil {
				for _, ref := range *refs {
					if wc, ok := ref.(*ssa.Call); ok && strings.Contains(callName(&wc.Call), ").WriteString") && len(wc.Call.Args) == 2 {
						k, dd := argKind(e, wc.Call.Args[1], d+1)
						if k == "raw" || k == "group" {
							worst, det = k, dd
						}
					}
				}
			}
			return worst, det
		}
		return "raw", "result of " + shortName(e.P.ModPath, n)
	case *ssa.BinOp:
		if x.Op == token.ADD {
			k1, d1 := argKind(e, x.X, d+1)
			k2, d2 := argKind(e, x.Y, d+1)
			if k1 != "raw" && k1 != "group" && k2 != "raw" && k2 != "group" {
				return "code", d1 + " + " + d2
			}
			if k1 == "raw" || k1 == "group" {
				return k1, d1
			}
			return k2, d2
		}
	case *ssa.Phi:
		worst, det := "code", "every incoming value is code"
		for _, ed := range x.Edges {
			k, dd := argKind(e, ed, d+1)
			if k == "raw" || k == "group" {
				worst, det = k, dd
			}
		}
		return worst, det
	case *ssa.Lookup:
		if key, ok := constString(x.Index); ok {
			if safeGroup(e, x, key) {
				return "safe-group", "capture group " + key + " of a grammar without whitespace, quotes or backslashes (R11.3)"
			}
			return "group", key
		}
	case *ssa.UnOp:
		if x.Op == token.MUL {
			switch a := x.X.(type) {
			case *ssa.FieldAddr:
				n := fieldName(a)
				if n == "Code" || n == "goFn" || n == "value" {
					return "code", "field " + n + " (code / wired constant)"
				}
				return "raw", "field " + n
			case *ssa.IndexAddr:
				return argKind(e, a.X, d+1)
			case *ssa.Alloc:
				worst, det := "code", "local"
				for _, ref := range *a.Referrers() {
					if st, ok := ref.(*ssa.Store); ok && st.Addr == a {
						k, dd := argKind(e, st.Val, d+1)
						if k == "raw" || k == "group" {
							worst, det = k, dd
						}
					}
				}
				return worst, det
			}
		}
	case *ssa.Field:
		if st, ok := x.X.Type().Underlying().(*types.Struct); ok {
			n := st.Field(x.Field).Name()
			if n == "Code" || n == "goFn" || n == "value" {
				return "code", "field " + n
			}
			return "raw", "field " + n
		}
	case *ssa.Extract:
		if c, ok := x.Tuple.(*ssa.Call); ok {
			return "raw", "result of " + shortName(e.P.ModPath, callName(&c.Call))
		}
	case *ssa.Parameter:
		return "raw", "parameter " + x.Name()
	}
	return "raw", describeVal(v)
}

// safeGroup: the looked-up map is the result of regex.Match on an anchored grammar whose language
// passes the clean lemma (checked by R11.3 for every such grammar except the reviewed exceptions).
func safeGroup(e *Env, lk *ssa.Lookup, key string) bool {
	ex, ok := lk.X.(*ssa.Extract)
	if !ok {
		return false
	}
	c, ok := ex.Tuple.(*ssa.Call)
	if !ok || !strings.HasSuffix(callName(&c.Call), "/regex.Match") {
		return false
	}
	ld, ok := c.Call.Args[0].(*ssa.UnOp)
	if !ok {
		return false
	}
	g, ok := ld.X.(*ssa.Global)
	if !ok {
		return false
	}
	rel := e.P.Rel(g.Pkg.Pkg.Path())
	for _, v := range regexVars(e) {
		if v.Key != rel+"."+g.Name() || !v.Az {
			continue
		}
		sub, err := rx.Group(v.Inner, key)
		if err != nil {
			return false
		}
		l, err := rx.Parse(sub, true)
		if err != nil {
			return false
		}
		bad := rx.MustParse("(?s).*[\\s\\\\'`;,(){}].*", true)
		_, has, _ := rx.Search(l, bad, rx.Full, rx.Full, func(a, b bool) bool { return a && b })
		return !has
	}
	return false
}

// ---- R03.2 ----

type supClass struct {
	kind  string // exact | wrapped | wrapped-any | any | unknown
	arg   string // the exact string / regex variable
	extra bool   // an additional restriction (e.g. function name equality)
}

// supportsClass reads the accepted language of a token factory from its Supports method.
func supportsClass(e *Env, typeName string) supClass {
	fd, pk := e.P.Decl(tokenRel, typeName+".Supports")
	if fd == nil || fd.Body == nil {
		return supClass{kind: "unknown"}
	}
	info := pk.TypesInfo
	usesToExpr, regexVar, exact, eqField := false, "", "", false
	retTrue := false
	ast.Inspect(fd.Body, func(n ast.Node) bool {
		switch x := n.(type) {
		case *ast.CallExpr:
			name := calleeName(load.Callee(info, x))
			if name == e.P.ModPath+"/"+tokenRel+".toExpr" {
				usesToExpr = true
			}
			if name == "regexp.(Regexp).MatchString" {
				if se, ok := ast.Unparen(x.Fun).(*ast.SelectorExpr); ok {
					if id, ok := ast.Unparen(se.X).(*ast.Ident); ok {
						regexVar = id.Name
					}
				}
			}
			if strings.HasSuffix(name, "/regex.Match") && len(x.Args) == 2 {
				if id, ok := ast.Unparen(x.Args[0]).(*ast.Ident); ok {
					regexVar = id.Name
				}
			}
		case *ast.BinaryExpr:
			if x.Op == token.EQL {
				if s, ok := load.StringOf(info, x.Y); ok {
					exact = s
				} else if s, ok := load.StringOf(info, x.X); ok {
					exact = s
				} else {
					eqField = true
				}
			}
		case *ast.ReturnStmt:
			if len(x.Results) == 1 {
				if tv, ok := info.Types[x.Results[0]]; ok && tv.Value != nil && tv.Value.String() == "true" {
					retTrue = true
				}
			}
		}
		return true
	})
	switch {
	case !usesToExpr && exact != "" && regexVar == "":
		return supClass{kind: "exact", arg: exact}
	case usesToExpr && regexVar != "":
		return supClass{kind: "wrapped", arg: regexVar, extra: eqField}
	case usesToExpr:
		return supClass{kind: "wrapped-any"}
	case retTrue && len(fd.Body.List) == 1:
		return supClass{kind: "any"}
	}
	return supClass{kind: "unknown"}
}

// contains: does class a contain class b (every string b accepts, a accepts)?
func (a supClass) contains(b supClass, e *Env) (bool, bool) {
	switch a.kind {
	case "any":
		return true, true
	case "wrapped-any":
		switch b.kind {
		case "wrapped", "wrapped-any":
			return true, true
		case "exact":
			// %…% wrapper: first and last rune are the delimiter and length >= 2
			return len([]rune(b.arg)) >= 2 && strings.HasPrefix(b.arg, "%") && strings.HasSuffix(b.arg, "%"), true
		}
		return false, true
	case "wrapped":
		if b.kind == "wrapped" {
			if a.arg == b.arg {
				return !a.extra || b.extra, true
			}
			// disjoint or not: decided by the automata
			la, lb := regexLang(e, tokenRel, a.arg), regexLang(e, tokenRel, b.arg)
			if la == nil || lb == nil {
				return false, false
			}
			_, notIncl, _ := rx.NotIncluded(lb, la)
			return !notIncl, true
		}
		if b.kind == "exact" {
			inner := strings.TrimSuffix(strings.TrimPrefix(b.arg, "%"), "%")
			la := regexLang(e, tokenRel, a.arg)
			if la == nil {
				return false, false
			}
			_, in, _ := rx.Search(la, rx.MustParse(rxQuote(inner), true), rx.Full, rx.Full, func(x, y bool) bool { return x && y })
			return in && len(b.arg) >= 2, true
		}
		return false, true
	case "exact":
		return b.kind == "exact" && a.arg == b.arg, true
	}
	return false, false
}

func regexLang(e *Env, rel, name string) *rx.Lang {
	for _, v := range regexVars(e) {
		if v.Key == rel+"."+name {
			l, _, err := compiledLang(v)
			if err == nil {
				return l
			}
		}
	}
	return nil
}

func c03FactoryOrder(e *Env) {
	r := e.R
	gm, _, ok := e.models()
	if !ok {
		return
	}
	sf := gm.Service("tokenStrategyFactory")
	if !ctorIs(e, sf, tokenRel, "NewStrategyFactory") {
		r.Violate("R03.2", selfRel+"#service:tokenStrategyFactory", "the token strategy factory is not built by token.NewStrategyFactory", nil)
		return
	}
	type fac struct {
		name string
		cls  supClass
	}
	var fs []fac
	for i, a := range sf.Args {
		name := ""
		if a.Kind == "value" && a.Form == "T{}" && a.Obj != nil {
			name = a.Obj.Name()
		}
		if name == "" {
			r.Undecide("R03.2", fmt.Sprintf("%s#service:tokenStrategyFactory.arguments[%d]", selfRel, i), "factory is not a T{} value of package token")
			continue
		}
		c := supportsClass(e, name)
		if c.kind == "unknown" {
			r.Undecide("R03.2", tokenRel+"."+name+".Supports", "the accepted language could not be read from Supports (unrecognised idiom)")
		}
		fs = append(fs, fac{name, c})
	}
	r.Analysed["token_factories_wired"] = len(fs)
	for j := range fs {
		key := fmt.Sprintf("%s#tokenStrategyFactory[%d]=%s", selfRel, j, fs[j].name)
		shadow := ""
		for i := 0; i < j; i++ {
			c, known := fs[i].cls.contains(fs[j].cls, e)
			if !known {
				r.Undecide("R03.2", key, "containment against "+fs[i].name+" is undecided")
				continue
			}
			if c {
				shadow = fs[i].name
			}
		}
		if shadow != "" {
			r.Violate("R03.2", key, fmt.Sprintf("shadowed: %s comes earlier and accepts every string %s accepts, so %s is never used", shadow, fs[j].name, fs[j].name), nil, e.P.Pos(sf.Args[j].Pos))
		} else {
			r.Hold("R03.2", key, fmt.Sprintf("class %s(%s): not shadowed by an earlier factory", fs[j].cls.kind, fs[j].cls.arg), e.P.Pos(sf.Args[j].Pos))
		}
	}
	if len(fs) > 0 {
		r.Check(fs[len(fs)-1].cls.kind == "any", "R03.2", selfRel+"#tokenStrategyFactory#catch-all-last", "the last factory accepts everything (plain text)")
	}
	// a registered function factory must not be shadowed either: functions are prepended
	reg := e.P.Func(tokenRel, "FuncRegisterer.RegisterFunc")
	okPre := false
	if reg != nil {
		for _, c := range callsIn(reg, false) {
			if c.Common().IsInvoke() && c.Common().Method.Name() == "Prepend" {
				okPre = true
			}
		}
	}
	r.Check(okPre, "R03.2", tokenRel+".FuncRegisterer.RegisterFunc#prepends", "a registered function is added through Prepend")
	// Prepend puts the new strategy first: the slice stored back is [<the parameter>, <the old elements>…],
	// however it is assembled (append([]T{s}, old...), or make + append + append)
	if pf := e.P.Func(tokenRel, "StrategyFactory.Prepend"); pf != nil {
		type part struct {
			spread bool
			v      ssa.Value
		}
		var seqOf func(v ssa.Value, d int) ([]part, bool)
		arrayElems := func(sl *ssa.Slice) ([]part, bool) {
			al, ok := sl.X.(*ssa.Alloc)
			if !ok {
				return nil, false
			}
			byIdx := map[int64]ssa.Value{}
			for _, ref := range *al.Referrers() {
				if ia, ok := ref.(*ssa.IndexAddr); ok {
					k, _ := constInt(ia.Index)
					for _, r2 := range *ia.Referrers() {
						if st, ok := r2.(*ssa.Store); ok {
							byIdx[k] = st.Val
						}
					}
				}
			}
			var out []part
			for i := int64(0); i < int64(len(byIdx)); i++ {
				out = append(out, part{false, byIdx[i]})
			}
			return out, true
		}
		seqOf = func(v ssa.Value, d int) ([]part, bool) {
			if d > 6 {
				return nil, false
			}
			switch x := v.(type) {
			case *ssa.MakeSlice:
				if k, ok := constInt(x.Len); ok && k == 0 {
					return nil, true
				}
			case *ssa.Const:
				if x.IsNil() {
					return nil, true
				}
			case *ssa.Slice:
				return arrayElems(x)
			case *ssa.Call:
				if bi, ok := x.Call.Value.(*ssa.Builtin); ok && bi.Name() == "append" && len(x.Call.Args) == 2 {
					head, ok := seqOf(x.Call.Args[0], d+1)
					if !ok {
						return nil, false
					}
					if sl, isSl := x.Call.Args[1].(*ssa.Slice); isSl {
						if el, ok := arrayElems(sl); ok {
							return append(head, el...), true
						}
					}
					return append(head, part{true, x.Call.Args[1]}), true
				}
			}
			return nil, false
		}
		okFirst := false
		for _, b := range pf.Blocks {
			for _, ins := range b.Instrs {
				st, ok := ins.(*ssa.Store)
				if !ok {
					continue
				}
				fa, ok := st.Addr.(*ssa.FieldAddr)
				if !ok || fieldName(fa) != "strategies" {
					continue
				}
				if parts, ok := seqOf(st.Val, 0); ok && len(parts) == 2 {
					_, isParam := parts[0].v.(*ssa.Parameter)
					old := parts[1].spread && derivesFromField(parts[1].v, "strategies", 0)
					okFirst = isParam && !parts[0].spread && old
				}
			}
		}
		r.Check(okFirst, "R03.2", tokenRel+".StrategyFactory.Prepend#first", "Prepend places the new factory before all existing ones (so %fn(…)% reaches it before the unexpected-function factory)")
	}
	// Create picks the first supporting strategy in slice order
	stepFirstMatch(e, "R03.2", tokenRel, "StrategyFactory.Create", "Create")
	fr := gm.Service("fnRegisterer")
	r.Check(ctorIs(e, fr, tokenRel, "NewFuncRegisterer") && len(fr.Args) == 2 && depIs(fr.Args[0], "service", "tokenStrategyFactory"), "R03.2", selfRel+"#service:fnRegisterer", "functions are registered on the same strategy factory the tokenizer uses")
	tk := gm.Service("tokenizer")
	r.Check(ctorIs(e, tk, tokenRel, "NewTokenizer") && len(tk.Args) == 2 && depIs(tk.Args[1], "service", "tokenStrategyFactory"), "R03.2", selfRel+"#service:tokenizer", "the tokenizer creates tokens through that factory")
}

// stepFirstMatch: a loop over strategies that returns the result of the first one whose Supports is true.
func stepFirstMatch(e *Env, rule, rel, name, method string) {
	fn := e.P.Func(rel, name)
	key := rel + "." + name + "#first-supporting-strategy"
	if fn == nil {
		e.R.Undecide(rule, key, "anchor not found")
		return
	}
	cr := findInvokes(fn, method, false)
	ok := len(cr) == 1 && handledAfterSupports(fn, cr[0])
	if ok {
		// the strategies are tried in slice order and the first supporting one decides: one Supports call in the
		// unit, inside a loop that walks the slice upwards; once a strategy was asked to handle the value the
		// loop is not re-entered (a failing strategy does not hand the value on to a later, laxer one)
		var sup []ssa.CallInstruction
		for _, f := range unitFns(fn, 1) {
			sup = append(sup, findInvokes(f, "Supports", false)...)
		}
		ok = len(sup) == 1
		if ok && sup[0].Parent() == fn && reach(cr[0].Block(), false)[sup[0].Block()] {
			ok = false
		}
	}
	e.R.Check(ok, rule, key, "the first strategy (in slice order) whose Supports accepts the value handles it, and it handles exactly the value Supports saw")
}

// ---- R03.3 ----

func c03GoCode(e *Env) {
	r := e.R
	key := tokenRel + ".Tokens.GoCode"
	fn := e.P.Func(tokenRel, "Tokens.GoCode")
	if fn == nil {
		r.Undecide("R03.3", key, "anchor not found")
		return
	}
	prov, _ := e.P.ConstString("internal/pkg/consts", "TplDependencyProvider")
	conc, _ := e.P.ConstString("internal/pkg/consts", "TplDependencyConcatenateChunks")
	lenTests := map[int64]*ssa.BasicBlock{}
	for _, b := range fn.Blocks {
		iff, ok := b.Instrs[len(b.Instrs)-1].(*ssa.If)
		if !ok {
			continue
		}
		bo, ok := iff.Cond.(*ssa.BinOp)
		if !ok || bo.Op != token.EQL {
			if ok {
				if _, isLen := bo.X.(*ssa.Call); isLen && bo.Op != token.LSS {
					r.Violate("R03.3", key+"#length-tests", fmt.Sprintf("the token count is tested with %s instead of equality: some multi-token patterns take the single-token path (or the reverse)", bo.Op), nil, e.P.Pos(bo.Pos()))
				}
			}
			continue
		}
		if c, ok := bo.X.(*ssa.Call); ok {
			if bi, ok := c.Call.Value.(*ssa.Builtin); ok && bi.Name() == "len" {
				if k, ok := constInt(bo.Y); ok {
					lenTests[k] = b
				}
			}
		}
	}
	r.Check(lenTests[0] != nil && lenTests[1] != nil && len(lenTests) == 2, "R03.3", key+"#length-tests", "the cases are len == 0 (error), len == 1 (single token) and the rest (concatenation)")
	var single, multi *ssa.Call
	for _, c := range callsIn(fn, false) {
		call, ok := c.(*ssa.Call)
		if !ok || callName(&call.Call) != "fmt.Sprintf" {
			continue
		}
		f, _ := constString(call.Call.Args[0])
		switch f {
		case prov:
			single = call
		case conc:
			multi = call
		}
	}
	if single == nil || multi == nil {
		r.Violate("R03.3", key+"#templates", "the single-token and the concatenation code templates are not both used", nil)
		return
	}
	if b1 := lenTests[1]; b1 != nil {
		r.Check(edgeDominates(b1, true, single), "R03.3", key+"#single", "exactly one token: its own provider code is used, so the value keeps its type", e.P.Pos(single.Pos()))
		r.Check(edgeDominates(b1, false, multi), "R03.3", key+"#multi", "more than one token: the concatenating provider is used", e.P.Pos(multi.Pos()))
	}
	// single uses tkns[0].Code
	args := varargs(single.Call.Args[1])
	okS := false
	if len(args) == 1 {
		if ld, ok := unwrap(args[0]).(*ssa.UnOp); ok {
			if fa, ok := ld.X.(*ssa.FieldAddr); ok && fieldName(fa) == "Code" {
				if ia, ok := fa.X.(*ssa.IndexAddr); ok {
					if k, ok := constInt(ia.Index); ok && k == 0 {
						okS = true
					}
				}
			}
		}
	}
	r.Check(okS, "R03.3", key+"#single-uses-token-code", "the single token's Code is wrapped")
	// multi joins all codes in order with ", "
	margs := varargs(multi.Call.Args[1])
	okM := false
	if len(margs) == 1 {
		if j, ok := unwrap(margs[0]).(*ssa.Call); ok && callName(&j.Call) == "strings.Join" {
			if sep, ok := constString(j.Call.Args[1]); ok && sep == ", " {
				okM = true
			}
		}
	}
	r.Check(okM, "R03.3", key+"#multi-joins-all", "all token codes are joined by \", \" (one closure per chunk)")
	// error for zero tokens
	okE := false
	if b0 := lenTests[0]; b0 != nil {
		for _, s := range errorSites([]*ssa.Function{fn}) {
			if edgeDominates(b0, true, s.call) {
				okE = true
			}
		}
	}
	r.Check(okE, "R03.3", key+"#empty-is-error", "no token is an error")
}

func c03ParamRules(e *Env, rule string) {
	r := e.R
	fn := e.P.Func(resolverRel, "ParamResolver.ResolveParam")
	key := resolverRel + ".ParamResolver.ResolveParam"
	if fn == nil {
		r.Undecide(rule, key, "anchor not found")
		return
	}
	got := map[string]bool{}
	for _, s := range errorSites([]*ssa.Function{fn}) {
		for d := s.call.Block(); d != nil; d = d.Idom() {
			id := d.Idom()
			if id == nil {
				break
			}
			if iff, ok := id.Instrs[len(id.Instrs)-1].(*ssa.If); ok && len(d.Preds) == 1 {
				for _, a := range fieldAtoms(iff.Cond, d == id.Succs[0]) {
					got[a] = true
				}
			}
		}
	}
	for a := range helperLenAtoms(fn) {
		got[a] = true
	}
	r.Check(got["len(DependsOnServices)>0"] && got["len(DependsOnTags)>0"], rule, key+"#no-service-or-tag-in-params", fmt.Sprintf("a parameter that references a service or a tag is rejected (guards %v)", keysOf(got)))
	// StepCompileParams iterates in key order
	pf := e.P.Func(compilerRel, "StepCompileParams.Process")
	okIt := false
	if pf != nil {
		for _, c := range callsIn(pf, false) {
			if f := c.Common().StaticCallee(); f != nil && f.Origin() != nil && f.Origin().Name() == "Iterate" {
				okIt = true
			}
		}
	}
	r.Check(okIt, rule, compilerRel+".StepCompileParams.Process#key-order", "parameters are compiled in key order (maps.Iterate)")
	// paramResolver wiring
	gm, _, ok := e.models()
	if ok {
		pr := gm.Service("paramResolver")
		r.Check(ctorIs(e, pr, resolverRel, "NewParamResolver") && len(pr.Args) == 1 && depIs(pr.Args[0], "service", "primitiveArgResolver"), rule, selfRel+"#service:paramResolver", "parameters are resolved by the primitive chain (no @service / !tagged / !value / $gontainer forms)")
		sp := gm.Service("stepCompileParams")
		r.Check(ctorIs(e, sp, compilerRel, "NewStepCompileParams") && len(sp.Args) == 1 && depIs(sp.Args[0], "service", "paramResolver"), rule, selfRel+"#service:stepCompileParams", "the parameter step uses the parameter resolver")
	}
}

// helperLenAtoms: error sites that live in a helper of the same package called from fn, guarded there by
// `len(<parameter>) > 0`; the atom is reported for the field the call site passes for that parameter
// (`errIfAny("service", a.DependsOnServices)`), provided the helper's result is used at the call site.
func helperLenAtoms(fn *ssa.Function) map[string]bool {
	out := map[string]bool{}
	fieldOfArg := func(v ssa.Value) string {
		switch x := v.(type) {
		case *ssa.UnOp:
			if fa, ok := x.X.(*ssa.FieldAddr); ok {
				return fieldName(fa)
			}
		case *ssa.Field:
			if st, ok := x.X.Type().Underlying().(*types.Struct); ok {
				return st.Field(x.Field).Name()
			}
		}
		return ""
	}
	for _, c := range callsIn(fn, true) {
		g := c.Common().StaticCallee()
		if g == nil || g.Pkg == nil || g.Pkg != fn.Pkg || len(g.Blocks) == 0 {
			continue
		}
		if v := c.Value(); v == nil || v.Referrers() == nil || len(*v.Referrers()) == 0 {
			continue
		}
		for _, s := range errorSites([]*ssa.Function{g}) {
			for d := s.call.Block(); d != nil; d = d.Idom() {
				id := d.Idom()
				if id == nil {
					break
				}
				iff, ok := id.Instrs[len(id.Instrs)-1].(*ssa.If)
				if !ok || len(d.Preds) != 1 {
					continue
				}
				bo, ok := iff.Cond.(*ssa.BinOp)
				if !ok {
					continue
				}
				k, isK := constInt(bo.Y)
				lc, isLen := bo.X.(*ssa.Call)
				if !isK || k != 0 || !isLen {
					continue
				}
				if bi, ok := lc.Call.Value.(*ssa.Builtin); !ok || bi.Name() != "len" {
					continue
				}
				prm, ok := lc.Call.Args[0].(*ssa.Parameter)
				if !ok {
					continue
				}
				onTrue := d == id.Succs[0]
				nonEmpty := (bo.Op == token.GTR && onTrue) || (bo.Op == token.NEQ && onTrue) || (bo.Op == token.EQL && !onTrue) || (bo.Op == token.LEQ && !onTrue)
				if !nonEmpty {
					continue
				}
				for i, gp := range g.Params {
					if gp == prm && i < len(c.Common().Args) {
						if f := fieldOfArg(c.Common().Args[i]); f != "" {
							out["len("+f+")>0"] = true
						}
					}
				}
			}
		}
	}
	return out
}

// ---- R02.1 ----

type argClass struct {
	kind string // nonstring | prefix | exact | string-any | unknown
	arg  string
}

func resolverClass(e *Env, typeName string) argClass {
	fd, pk := e.P.Decl(resolverRel, typeName+".Supports")
	if fd == nil || fd.Body == nil {
		return argClass{kind: "unknown"}
	}
	info := pk.TypesInfo
	asserts, negAssert, prim, regexVar, eqField := false, false, false, "", ""
	ast.Inspect(fd.Body, func(n ast.Node) bool {
		switch x := n.(type) {
		case *ast.TypeAssertExpr:
			if t := info.TypeOf(x.Type); t != nil && isStringType(t) {
				asserts = true
			}
		case *ast.CallExpr:
			name := calleeName(load.Callee(info, x))
			if strings.HasSuffix(name, "/types.IsPrimitive") {
				prim = true
			}
			if name == "regexp.(Regexp).MatchString" {
				if se, ok := ast.Unparen(x.Fun).(*ast.SelectorExpr); ok {
					if id, ok := ast.Unparen(se.X).(*ast.Ident); ok {
						regexVar = id.Name
					}
				}
			}
		case *ast.BinaryExpr:
			if x.Op == token.EQL {
				if se, ok := ast.Unparen(x.X).(*ast.SelectorExpr); ok {
					eqField = se.Sel.Name
				}
				if se, ok := ast.Unparen(x.Y).(*ast.SelectorExpr); ok {
					eqField = se.Sel.Name
				}
			}
		case *ast.UnaryExpr:
			if x.Op == token.NOT {
				if id, ok := ast.Unparen(x.X).(*ast.Ident); ok && id.Name == "ok" {
					negAssert = true
				}
			}
		}
		return true
	})
	// `return isStringWithPrefix(v, someRegex)`: a shared predicate of the package that asserts the string and
	// matches the regular expression it is given
	if !asserts && len(fd.Body.List) == 1 {
		if rs, ok := fd.Body.List[0].(*ast.ReturnStmt); ok && len(rs.Results) == 1 {
			if call, ok := ast.Unparen(rs.Results[0]).(*ast.CallExpr); ok && len(call.Args) == 2 {
				if callee, ok := load.Callee(info, call).(*types.Func); ok && callee.Pkg() == pk.Types {
					if hd, _ := e.P.DeclOf(callee); hd != nil && hd.Body != nil && len(hd.Type.Params.List) >= 1 {
						hAssert, hMatchParam := false, false
						var reParam types.Object
						i := 0
						for _, f := range hd.Type.Params.List {
							for _, n := range f.Names {
								if i == 1 {
									reParam = info.ObjectOf(n)
								}
								i++
							}
						}
						ast.Inspect(hd.Body, func(n ast.Node) bool {
							switch x := n.(type) {
							case *ast.TypeAssertExpr:
								if t := info.TypeOf(x.Type); t != nil && isStringType(t) {
									hAssert = true
								}
							case *ast.CallExpr:
								if calleeName(load.Callee(info, x)) == "regexp.(Regexp).MatchString" {
									if se, ok := ast.Unparen(x.Fun).(*ast.SelectorExpr); ok {
										if id, ok := ast.Unparen(se.X).(*ast.Ident); ok && info.ObjectOf(id) == reParam {
											hMatchParam = true
										}
									}
								}
							}
							return true
						})
						if id, ok := ast.Unparen(call.Args[1]).(*ast.Ident); ok && hAssert && hMatchParam {
							return argClass{kind: "prefix", arg: id.Name}
						}
					}
				}
			}
		}
	}
	switch {
	case asserts && prim && negAssert:
		return argClass{kind: "nonstring"}
	case asserts && regexVar != "":
		return argClass{kind: "prefix", arg: regexVar}
	case asserts && eqField != "":
		return argClass{kind: "exact", arg: eqField}
	case asserts && !prim && regexVar == "" && eqField == "":
		return argClass{kind: "string-any"}
	}
	return argClass{kind: "unknown"}
}

func c02ResolverChain(e *Env, rule string) {
	r := e.R
	gm, _, ok := e.models()
	if !ok {
		return
	}
	special, _ := e.P.ConstString("internal/pkg/consts", "SpecialGontainerID")
	for _, chain := range []string{"argResolver", "primitiveArgResolver"} {
		s := gm.Service(chain)
		if !ctorIs(e, s, resolverRel, "NewArgResolver") {
			r.Violate(rule, selfRel+"#service:"+chain, "not built by resolver.NewArgResolver", nil)
			continue
		}
		type st struct {
			svc string
			cls argClass
		}
		var ss []st
		for i, a := range s.Args {
			if a.Kind != "service" {
				r.Undecide(rule, fmt.Sprintf("%s#service:%s.arguments[%d]", selfRel, chain, i), "strategy is not a service reference")
				continue
			}
			dep := gm.Service(a.Name)
			tn := ""
			if dep != nil && dep.CtorObj != nil {
				if sig, ok := dep.CtorObj.Type().(*types.Signature); ok && sig.Results().Len() >= 1 {
					if n := namedOf(sig.Results().At(0).Type()); n != nil {
						tn = n.Obj().Name()
					}
				}
			}
			c := resolverClass(e, tn)
			if c.kind == "unknown" {
				r.Undecide(rule, resolverRel+"."+tn+".Supports", "the accepted class could not be read from Supports (unrecognised idiom)")
			}
			if c.kind == "exact" {
				// the field's wired value
				c.arg = wiredConst(e, dep, 0)
			}
			ss = append(ss, st{a.Name, c})
		}
		for j := range ss {
			key := fmt.Sprintf("%s#%s[%d]=%s", selfRel, chain, j, ss[j].svc)
			bad := ""
			for i := 0; i < j; i++ {
				a, b := ss[i].cls, ss[j].cls
				switch {
				case a.kind == "string-any" && (b.kind == "prefix" || b.kind == "exact" || b.kind == "string-any"):
					bad = ss[i].svc + " accepts every string and comes earlier"
				case a.kind == "prefix" && b.kind == "exact":
					if l := regexLang(e, resolverRel, a.arg); l != nil {
						if _, in, _ := rx.Search(l, rx.MustParse(rxQuote(b.arg), true), rx.Prefix, rx.Full, func(x, y bool) bool { return x && y }); in {
							bad = ss[i].svc + " claims the keyword " + b.arg
						}
					}
				case a.kind == "prefix" && b.kind == "prefix":
					la, lb := regexLang(e, resolverRel, a.arg), regexLang(e, resolverRel, b.arg)
					if la != nil && lb != nil {
						if w, both, _ := rx.Search(la, lb, rx.Prefix, rx.Prefix, func(x, y bool) bool { return x && y }); both {
							bad = fmt.Sprintf("%s and %s both claim %q", ss[i].svc, ss[j].svc, w)
						}
					}
				}
			}
			if bad != "" {
				r.Violate(rule, key, "order-sensitive or shadowed strategy: "+bad, nil, e.P.Pos(s.Args[j].Pos))
			} else {
				r.Hold(rule, key, fmt.Sprintf("class %s(%s): disjoint from every earlier strategy", ss[j].cls.kind, ss[j].cls.arg), e.P.Pos(s.Args[j].Pos))
			}
		}
		if len(ss) > 0 {
			r.Check(ss[len(ss)-1].cls.kind == "string-any", rule, selfRel+"#"+chain+"#catch-all-last", "the last strategy takes every remaining string (the pattern resolver)")
		}
		if chain == "argResolver" {
			kinds := map[string]int{}
			for _, x := range ss {
				kinds[x.cls.kind]++
			}
			r.Check(kinds["nonstring"] == 1 && kinds["prefix"] == 3 && kinds["exact"] == 1 && kinds["string-any"] == 1, rule, selfRel+"#argResolver#all-forms", fmt.Sprintf("the documented argument forms are all wired: non-string literal, @service, !tagged, !value, %s, pattern (found %v)", special, kinds))
		}
	}
	stepFirstMatch(e, rule, resolverRel, "ArgResolver.ResolveArg", "ResolveArg")
	// the keyword resolver is wired to the documented constants
	gv := gm.Service("gontainerValueResolver")
	okG := ctorIs(e, gv, resolverRel, "NewFixedValueResolver") && len(gv.Args) == 2 && wiredConst(e, gv, 0) == special
	r.Check(okG, rule, selfRel+"#service:gontainerValueResolver", "the container keyword resolver recognises "+special+" and injects the generated constructor's own container variable")
	// and that keyword is the documented one (README / docs/SERVICES.md: "$gontainer")
	r.Check(special == "$gontainer", rule, "internal/pkg/consts.SpecialGontainerID", fmt.Sprintf("the keyword that injects the container is the documented \"$gontainer\" (found %q): under another spelling the documented argument is compiled as plain text", special))
}

// wiredConst: the constant string a service receives as its i-th argument (!value consts.X or a plain string).
func wiredConst(e *Env, s *wiring.Service, i int) string {
	if s == nil || i >= len(s.Args) {
		return ""
	}
	a := s.Args[i]
	if a.Kind == "string" {
		return a.Name
	}
	if a.Kind == "value" && a.Val != nil {
		if c, ok := a.Obj.(*types.Const); ok {
			if sv, ok := constValString(c); ok {
				return sv
			}
		}
	}
	return ""
}

func constValString(c *types.Const) (string, bool) {
	v := c.Val().ExactString()
	if len(v) >= 2 && v[0] == '"' {
		return strings.Trim(v, `"`), true
	}
	return "", false
}

// ---- toExpr ----

func c03ToExpr(e *Env) {
	r := e.R
	key := tokenRel + ".toExpr"
	fn := e.P.Func(tokenRel, "toExpr")
	if fn == nil {
		r.Undecide("R03.2", key, "anchor not found")
		return
	}
	delim, _ := e.P.ConstString(tokenRel, "Delimiter")
	// two comparisons with the delimiter, a length test, and the result slice [1 : len-1]
	cmp, lenTest, slice := 0, false, false
	var seq ssa.Value
	// the comparison with the delimiter may live in a one-line predicate of the package (isDelimiter(r))
	cmpIn := func(f *ssa.Function) int {
		n := 0
		for _, b := range f.Blocks {
			for _, ins := range b.Instrs {
				if x, ok := ins.(*ssa.BinOp); ok && (x.Op == token.NEQ || x.Op == token.EQL) && isStringType(x.X.Type()) {
					if s, ok := constString(x.Y); ok && s == delim {
						n++
					}
				}
			}
		}
		return n
	}
	cmp = cmpIn(fn)
	for _, c := range callsIn(fn, false) {
		if g := c.Common().StaticCallee(); g != nil && g.Pkg == fn.Pkg && len(g.Blocks) == 1 && cmpIn(g) == 1 {
			cmp++ // one call of the predicate = one comparison
		}
	}
	for _, b := range fn.Blocks {
		for _, ins := range b.Instrs {
			if x, ok := ins.(*ssa.Slice); ok {
				if lo, ok := constInt(x.Low); ok && lo == 1 && x.High != nil {
					if bo, ok := x.High.(*ssa.BinOp); ok && bo.Op == token.SUB {
						if k, ok := constInt(bo.Y); ok && k == 1 {
							slice = true
							seq = x.X
						}
					}
				}
			}
		}
	}
	if seq != nil {
		// some branch separates len < 2 from len >= 2 (written as len < 2, len-1 >= 1, …)
		for _, b := range fn.Blocks {
			if iff, ok := b.Instrs[len(b.Instrs)-1].(*ssa.If); ok {
				if edgeImpliesLen(iff.Cond, true, seq, 1) || edgeImpliesLen(iff.Cond, false, seq, 1) {
					lenTest = true
				}
			}
		}
	}
	r.Check(delim == "%" && cmp == 2 && lenTest && slice, "R03.2", key+"#wrapper", fmt.Sprintf("toExpr accepts exactly the strings of at least two runes that start and end with the delimiter %q and returns what is between them (delimiter tests %d, length test %v, inner slice %v)", delim, cmp, lenTest, slice))
}

// ---- R03.5: generated helpers ----

func c03Helpers(e *Env, sks []*skeleton) {
	r := e.R
	for _, sk := range sks {
		f, info := sk.Files[false], sk.Info[false]
		if f == nil || info == nil || sk.ID != "s000" {
			continue
		}
		want := map[string][]string{
			"_getEnv":            {"os.LookupEnv", "fmt.Errorf"},
			"_getEnvInt":         {"os.LookupEnv", "strconv.Atoi", "fmt.Errorf"},
			"_concatenateChunks": {load.RuntimeMod + "/exporter.CastToString"},
			"_callProvider":      {load.RuntimeMod + "/caller.CallProvider"},
			"_paramTodo":         {"errors.New"},
		}
		sigs := map[string]string{
			"_getEnv":            "(string, ...string) (string, error)",
			"_getEnvInt":         "(string, ...int) (int, error)",
			"_concatenateChunks": "(func() (interface{}, error), ...func() (interface{}, error)) (string, error)",
			"_callProvider":      "(interface{}, ...interface{}) (interface{}, error)",
			"_paramTodo":         "(...string) (interface{}, error)",
		}
		seen := map[string]bool{}
		for _, d := range f.Decls {
			fd, ok := d.(*ast.FuncDecl)
			if !ok || fd.Body == nil || fd.Recv == nil {
				continue
			}
			w, isHelper := want[fd.Name.Name]
			if !isHelper {
				continue
			}
			seen[fd.Name.Name] = true
			key := "generated helper " + fd.Name.Name
			got := map[string]bool{}
			ast.Inspect(fd.Body, func(n ast.Node) bool {
				if c, ok := n.(*ast.CallExpr); ok {
					if name := calleeName(load.Callee(info, c)); name != "" {
						got[name] = true
					}
				}
				return true
			})
			var missing, extra []string
			for _, x := range w {
				if !got[x] {
					missing = append(missing, x)
				}
			}
			for x := range got {
				found := false
				for _, y := range w {
					if x == y {
						found = true
					}
				}
				if !found && !strings.HasPrefix(x, "builtin") {
					extra = append(extra, x)
				}
			}
			sort.Strings(extra)
			r.Check(len(missing) == 0 && len(extra) == 0, "R03.5", key+"#calls", fmt.Sprintf("documented behaviour uses exactly %v (missing %v, unexpected %v)", w, missing, extra))
			if o := info.ObjectOf(fd.Name); o != nil {
				sig := o.Type().(*types.Signature)
				s := types.TypeString(sig, nil)
				s = strings.TrimPrefix(s, "func")
				// drop parameter names
				s2 := typesOnlyVariadic(sig)
				r.Check(s2 == sigs[fd.Name.Name], "R03.5", key+"#signature", fmt.Sprintf("documented signature %s, generated %s", sigs[fd.Name.Name], s2))
				_ = s
			}
			if why := errOverwritten(info, fd); why != "" {
				r.Violate("R03.5", key+"#error-discipline", why, nil)
			} else {
				r.Hold("R03.5", key+"#error-discipline", "no error is overwritten before it is tested")
			}
			if fd.Name.Name == "_getEnv" || fd.Name.Name == "_getEnvInt" {
				// default is returned only when the variable is absent: `return def[0], nil` under !ok ∧ len(def) > 0
				okDef := false
				ast.Inspect(fd.Body, func(n ast.Node) bool {
					ifs, ok := n.(*ast.IfStmt)
					if !ok {
						return true
					}
					if u, ok := ast.Unparen(ifs.Cond).(*ast.UnaryExpr); ok && u.Op == token.NOT {
						ast.Inspect(ifs.Body, func(m ast.Node) bool {
							if rs, ok := m.(*ast.ReturnStmt); ok && len(rs.Results) == 2 {
								if ix, ok := ast.Unparen(rs.Results[0]).(*ast.IndexExpr); ok {
									if tv, ok := info.Types[ix.Index]; ok && tv.Value != nil && tv.Value.String() == "0" {
										okDef = true
									}
								}
							}
							return true
						})
					}
					return true
				})
				r.Check(okDef, "R03.5", key+"#default-only-when-absent", "the default is returned only when the variable does not exist")
			}
			if fd.Name.Name == "_concatenateChunks" {
				// iterates over first followed by chunks, in that order
				okOrder := false
				ast.Inspect(fd.Body, func(n ast.Node) bool {
					rs, ok := n.(*ast.RangeStmt)
					if !ok {
						return true
					}
					if c, ok := ast.Unparen(rs.X).(*ast.CallExpr); ok && len(c.Args) == 2 {
						if id, ok := ast.Unparen(c.Fun).(*ast.Ident); ok && id.Name == "append" {
							if cl, ok := ast.Unparen(c.Args[0]).(*ast.CompositeLit); ok && len(cl.Elts) == 1 {
								a0, ok1 := ast.Unparen(cl.Elts[0]).(*ast.Ident)
								a1, ok2 := ast.Unparen(c.Args[1]).(*ast.Ident)
								ps := paramObjs(info, fd)
								if ok1 && ok2 && len(ps) == 2 && info.ObjectOf(a0) == ps[0] && info.ObjectOf(a1) == ps[1] {
									okOrder = true
								}
							}
						}
					}
					return true
				})
				r.Check(okOrder, "R03.5", key+"#chunk-order", "chunks are evaluated and appended in pattern order (first, then the rest)")
			}
		}
		for h := range want {
			if !seen[h] {
				r.Violate("R03.5", "generated helper "+h, "helper method is not generated", nil)
			}
		}
	}
}

func typesOnlyVariadic(sig *types.Signature) string {
	var ps, rs []string
	for i := 0; i < sig.Params().Len(); i++ {
		t := sig.Params().At(i).Type()
		s := types.TypeString(t, nil)
		if sig.Variadic() && i == sig.Params().Len()-1 {
			s = "..." + types.TypeString(t.(*types.Slice).Elem(), nil)
		}
		ps = append(ps, strings.ReplaceAll(s, "any", "interface{}"))
	}
	for i := 0; i < sig.Results().Len(); i++ {
		rs = append(rs, strings.ReplaceAll(types.TypeString(sig.Results().At(i).Type(), nil), "any", "interface{}"))
	}
	return "(" + strings.Join(ps, ", ") + ") (" + strings.Join(rs, ", ") + ")"
}
