package rules

import (
	"fmt"
	"go/types"

	"golang.org/x/tools/go/ssa"
)

// c04Tag: provenance inside Tag.UnmarshalYAML and serviceTags.
func c04Tag(e *Env) {
	r := e.R
	key := inputRel + ".Tag.UnmarshalYAML"
	fn := e.P.Func(inputRel, "Tag.UnmarshalYAML")
	if fn == nil {
		r.Undecide("R04.5", key, "anchor not found")
		return
	}
	// stores to Name come from a string assertion, stores to Priority from an int assertion or the constant 0
	okName, okPrio := true, true
	nName, nPrio := 0, 0
	for _, b := range unitBlocks(fn, 2) {
		for _, ins := range b.Instrs {
			st, ok := ins.(*ssa.Store)
			if !ok {
				continue
			}
			fa, ok := st.Addr.(*ssa.FieldAddr)
			if !ok {
				continue
			}
			switch fieldName(fa) {
			case "Name":
				nName++
				if !fromAssert(st.Val, "string") {
					okName = false
				}
			case "Priority":
				nPrio++
				if c, isC := constInt(st.Val); isC {
					if c != 0 {
						okPrio = false
					}
				} else if !fromAssert(st.Val, "int") {
					okPrio = false
				}
			}
		}
	}
	r.Check(okName && nName >= 2, "R04.5", key+"#name", fmt.Sprintf("the tag name is the asserted string, unchanged (%d stores)", nName))
	r.Check(okPrio && nPrio >= 2, "R04.5", key+"#priority", fmt.Sprintf("the priority is the asserted int, unchanged, or 0 when absent (%d stores)", nPrio))
	// mapping keys
	keys := map[string]bool{}
	for _, b := range unitBlocks(fn, 2) {
		for _, ins := range b.Instrs {
			if lk, ok := ins.(*ssa.Lookup); ok {
				if s, ok := constString(lk.Index); ok {
					keys[s] = true
				}
			}
		}
	}
	r.Check(keys["name"] && keys["priority"] && len(keys) == 2, "R04.5", key+"#keys", fmt.Sprintf("the mapping form reads exactly the keys name and priority (found %v)", keys))
	// serviceTags copies Name->Name, Priority->Priority
	st := e.P.Func(compilerRel, "StepCompileServices.serviceTags")
	if st == nil {
		r.Undecide("R04.5", compilerRel+".StepCompileServices.serviceTags", "anchor not found")
		return
	}
	pairs := map[string]string{}
	for _, b := range st.Blocks {
		for _, ins := range b.Instrs {
			if s, ok := ins.(*ssa.Store); ok {
				if fa, ok := s.Addr.(*ssa.FieldAddr); ok {
					pairs[fieldName(fa)] = srcField(s.Val)
				}
			}
		}
	}
	r.Check(pairs["Name"] == "Name" && pairs["Priority"] == "Priority", "R04.5", compilerRel+".StepCompileServices.serviceTags#copies", fmt.Sprintf("output.Tag.Name ← input.Tag.Name and Priority ← Priority, no arithmetic (found %v)", pairs))
}

func fromAssert(v ssa.Value, typ string) bool {
	ex, ok := v.(*ssa.Extract)
	if !ok || ex.Index != 0 {
		if ta, ok := v.(*ssa.TypeAssert); ok {
			return ta.AssertedType.String() == typ
		}
		return false
	}
	ta, ok := ex.Tuple.(*ssa.TypeAssert)
	return ok && ta.AssertedType.String() == typ
}

// srcField: the value is a plain load of a struct field (possibly of a spilled range element).
func srcField(v ssa.Value) string {
	switch x := v.(type) {
	case *ssa.UnOp:
		if fa, ok := x.X.(*ssa.FieldAddr); ok {
			return fieldName(fa)
		}
	case *ssa.Field:
		if s, ok := x.X.Type().Underlying().(*types.Struct); ok {
			return s.Field(x.Field).Name()
		}
	}
	return "?"
}
