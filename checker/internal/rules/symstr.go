package rules

import (
	"fmt"
	"go/token"
	"go/types"
	"sort"
	"strings"

	"golang.org/x/tools/go/ssa"
)

// Engine F (symbolic string shapes): the text a code-producing function emits, as a sequence of literal
// pieces and named holes, for every combination of "this input part is empty / non-empty" that the
// function branches on. It is an abstract evaluation of the function's SSA form over the domain
// {sequence of atoms}; branches on the emptiness of a hole fork the evaluation, everything else it cannot
// decide ends the path as undecided. No code of the repository is executed.

type atom struct {
	lit string // literal text (hole == "")
	sym string // hole name
}

type symVal struct {
	kind  string // "str", "strs" (a slice of strings), "bool", "map", "unknown"
	atoms []atom
	list  [][]atom
	b     bool
}

type symPath struct {
	assume map[string]bool // hole -> non-empty
	code   []atom
	ok     bool
	why    string
}

func (p symPath) key() string {
	var ks []string
	for k, v := range p.assume {
		ks = append(ks, fmt.Sprintf("%s=%v", k, v))
	}
	sort.Strings(ks)
	return strings.Join(ks, ",")
}

func renderAtoms(as []atom, subst func(sym string) string) string {
	var b strings.Builder
	for _, a := range as {
		if a.sym == "" {
			b.WriteString(a.lit)
		} else {
			b.WriteString(subst(a.sym))
		}
	}
	return b.String()
}

func shapeString(as []atom) string {
	return renderAtoms(as, func(s string) string { return "‹" + s + "›" })
}

type symEval struct {
	e      *Env
	fn     *ssa.Function
	target string // struct field whose stored value is the result ("Code"); "" = the function's string result
	paths  []symPath
	vals   []symVal // per path: the result value (for nested evaluation)
	steps  int
	depth  int
	params map[*ssa.Parameter]symVal
}

// symShapes evaluates fn and returns, per path, the shape of the value stored into field `target` of the
// struct the function returns.
func symShapes(e *Env, fn *ssa.Function, target string) []symPath {
	se := &symEval{e: e, fn: fn, target: target}
	se.run(fn.Blocks[0], 0, nil, map[ssa.Value]symVal{}, map[ssa.Value]symVal{}, map[string]bool{})
	return se.paths
}

func copyEnv(m map[ssa.Value]symVal) map[ssa.Value]symVal {
	n := make(map[ssa.Value]symVal, len(m))
	for k, v := range m {
		n[k] = v
	}
	return n
}

func copyAssume(m map[string]bool) map[string]bool {
	n := make(map[string]bool, len(m))
	for k, v := range m {
		n[k] = v
	}
	return n
}

func (se *symEval) val(v ssa.Value, env map[ssa.Value]symVal, assume map[string]bool) symVal {
	if a, ok := env[v]; ok {
		return a
	}
	switch x := v.(type) {
	case *ssa.Const:
		if s, ok := constString(x); ok {
			if s == "" {
				return symVal{kind: "str"}
			}
			return symVal{kind: "str", atoms: []atom{{lit: s}}}
		}
	case *ssa.Parameter:
		if a, ok := se.params[x]; ok {
			return a
		}
		if isStringType(x.Type()) {
			return se.hole(x.Name(), assume)
		}
	}
	return symVal{kind: "unknown"}
}

// sliceOfArray: the elements of `[]string{a, b}` (a slice of a local array filled by indexed stores).
func (se *symEval) sliceOfArray(sl *ssa.Slice, env, cells map[ssa.Value]symVal, assume map[string]bool) (symVal, bool) {
	al, ok := sl.X.(*ssa.Alloc)
	if !ok {
		return symVal{}, false
	}
	byIdx := map[int64][]atom{}
	for _, ref := range *al.Referrers() {
		if ia, ok := ref.(*ssa.IndexAddr); ok {
			k, _ := constInt(ia.Index)
			if c, ok := cells[ia]; ok && c.kind == "str" {
				byIdx[k] = c.atoms
			} else {
				return symVal{}, false
			}
		}
	}
	out := symVal{kind: "strs"}
	for i := int64(0); i < int64(len(byIdx)); i++ {
		out.list = append(out.list, byIdx[i])
	}
	return out, true
}

// hole: a named input part; empty on paths that assumed so.
func (se *symEval) hole(name string, assume map[string]bool) symVal {
	if ne, decided := assume[name]; decided && !ne {
		return symVal{kind: "str"}
	}
	return symVal{kind: "str", atoms: []atom{{sym: name}}}
}

func (se *symEval) run(b *ssa.BasicBlock, start int, prev *ssa.BasicBlock, env, cells map[ssa.Value]symVal, assume map[string]bool) {
	for {
		se.steps++
		if se.steps > 4000 {
			se.paths = append(se.paths, symPath{assume: assume, why: "evaluation budget exceeded"})
			return
		}
		for idx := start; idx < len(b.Instrs); idx++ {
			ins := b.Instrs[idx]
			switch x := ins.(type) {
			case *ssa.Phi:
				for i, p := range b.Preds {
					if p == prev {
						env[x] = se.val(x.Edges[i], env, assume)
					}
				}
			case *ssa.Store:
				cells[x.Addr] = se.val(x.Val, env, assume)
			case *ssa.UnOp:
				if x.Op == token.MUL {
					if c, ok := cells[x.X]; ok {
						env[x] = c
					} else if fa, ok := x.X.(*ssa.FieldAddr); ok {
						if c2, ok2 := cells[fa]; ok2 {
							env[x] = c2
						} else if isStringType(x.Type()) {
							env[x] = se.hole("field:"+fieldName(fa), assume)
						}
					}
				}
			case *ssa.Extract:
				if c, ok := x.Tuple.(*ssa.Call); ok {
					n := callName(&c.Call)
					switch {
					case strings.HasSuffix(n, "/regex.Match") && x.Index == 1:
						env[x] = symVal{kind: "map"}
					case strings.HasSuffix(n, ".toExpr") && x.Index == 0:
						env[x] = se.hole("expr", assume)
					default:
						// (ok, groups) of a helper that wraps regex.Match
						if _, isMap := x.Type().Underlying().(*types.Map); isMap {
							env[x] = symVal{kind: "map"}
						}
					}
				}
			case *ssa.Lookup:
				if se.val(x.X, env, assume).kind == "map" {
					if k, ok := constString(x.Index); ok {
						env[x] = se.hole("group:"+k, assume)
					}
				}
			case *ssa.BinOp:
				l, r := se.val(x.X, env, assume), se.val(x.Y, env, assume)
				if x.Op == token.ADD && l.kind == "str" && r.kind == "str" {
					env[x] = symVal{kind: "str", atoms: append(append([]atom{}, l.atoms...), r.atoms...)}
				}
				// comparisons with "" are resolved at the If
			case *ssa.MakeInterface:
				env[x] = se.val(x.X, env, assume)
			case *ssa.ChangeType:
				env[x] = se.val(x.X, env, assume)
			case *ssa.Slice:
				if v, ok := se.sliceOfArray(x, env, cells, assume); ok {
					env[x] = v
				}
			case *ssa.Call:
				// a helper of the package that returns a string (or a (bool, map) match): evaluate it; when it has
				// several paths the rest of this block is evaluated once per path
				if g := x.Call.StaticCallee(); g != nil && g.Pkg == se.fn.Pkg && len(g.Blocks) > 0 && se.depth < 3 && !strings.HasSuffix(callName(&x.Call), ".toExpr") {
					if sub := se.nested(g, x, env, assume); len(sub) > 0 {
						for _, sp := range sub {
							e2, c2 := copyEnv(env), copyEnv(cells)
							e2[x] = sp.val
							a2 := copyAssume(assume)
							conflict := false
							for k, v := range sp.assume {
								if old, had := a2[k]; had && old != v {
									conflict = true
								}
								a2[k] = v
							}
							if conflict {
								continue
							}
							se.run(b, idx+1, prev, e2, c2, a2)
						}
						return
					}
				}
				se.call(x, env, cells, assume)
			}
		}
		start = 0
		switch t := b.Instrs[len(b.Instrs)-1].(type) {
		case *ssa.Return:
			if se.target == "" {
				if len(t.Results) >= 1 {
					se.paths = append(se.paths, symPath{assume: assume, ok: true})
					se.vals = append(se.vals, se.val(t.Results[0], env, assume))
				}
				return
			}
			// the value stored into <target> of the returned struct
			var code *symVal
			for addr, v := range cells {
				if fa, ok := addr.(*ssa.FieldAddr); ok && fieldName(fa) == se.target {
					vv := v
					code = &vv
				}
			}
			if code != nil && code.kind == "str" {
				se.paths = append(se.paths, symPath{assume: assume, code: code.atoms, ok: true})
			} else if len(t.Results) > 0 && !isNilConst(t.Results[len(t.Results)-1]) && code == nil {
				// an error return without a value: not a code path
			} else {
				se.paths = append(se.paths, symPath{assume: assume, why: "the emitted text is not a concatenation the engine can follow"})
			}
			return
		case *ssa.Jump:
			prev, b = b, b.Succs[0]
		case *ssa.If:
			// `x != ""` / `x == ""` on a single hole: fork (or follow the assumption)
			if bo, ok := t.Cond.(*ssa.BinOp); ok && (bo.Op == token.NEQ || bo.Op == token.EQL) {
				var other ssa.Value
				if s, isC := constString(bo.Y); isC && s == "" {
					other = bo.X
				} else if s, isC := constString(bo.X); isC && s == "" {
					other = bo.Y
				}
				if other != nil {
					name := se.holeName(other, env)
					if name != "" {
						follow := func(nonEmpty bool) {
							a2 := copyAssume(assume)
							a2[name] = nonEmpty
							e2, c2 := copyEnv(env), copyEnv(cells)
							// re-evaluate values of this hole under the new assumption lazily: drop cached strings that mention it
							for k, v := range e2 {
								if v.kind == "str" && !nonEmpty {
									var kept []atom
									for _, at := range v.atoms {
										if at.sym != name {
											kept = append(kept, at)
										}
									}
									v.atoms = kept
									e2[k] = v
								}
							}
							succ := b.Succs[1]
							if (bo.Op == token.NEQ) == nonEmpty {
								succ = b.Succs[0]
							}
							se.run(succ, 0, b, e2, c2, a2)
						}
						if ne, decided := assume[name]; decided {
							follow(ne)
						} else {
							follow(true)
							follow(false)
						}
						return
					}
				}
			}
			// a test of an error value (the result of a check that does not change the text): both outcomes
			// are followed with the same state; the failing one ends in an error return, which is not a code path
			if v, _, isNil := nilTest(t.Cond); isNil && isErrorType(v.Type()) {
				se.run(b.Succs[0], 0, b, copyEnv(env), copyEnv(cells), copyAssume(assume))
				se.run(b.Succs[1], 0, b, copyEnv(env), copyEnv(cells), copyAssume(assume))
				return
			}
			se.paths = append(se.paths, symPath{assume: assume, why: "a branch the engine cannot decide: " + se.e.P.Pos(t.Cond.Pos())})
			return
		default:
			se.paths = append(se.paths, symPath{assume: assume, why: "unsupported control flow"})
			return
		}
	}
}

func (se *symEval) holeName(v ssa.Value, env map[ssa.Value]symVal) string {
	switch x := v.(type) {
	case *ssa.Lookup:
		if k, ok := constString(x.Index); ok {
			return "group:" + k
		}
	case *ssa.UnOp:
		if fa, ok := x.X.(*ssa.FieldAddr); ok {
			return "field:" + fieldName(fa)
		}
	case *ssa.Parameter:
		return x.Name()
	}
	if a, ok := env[v]; ok && a.kind == "str" && len(a.atoms) == 1 && a.atoms[0].sym != "" {
		return a.atoms[0].sym
	}
	return ""
}

type subPath struct {
	assume map[string]bool
	val    symVal
}

// nested evaluates a helper of the package on the caller's abstract arguments.
func (se *symEval) nested(g *ssa.Function, x *ssa.Call, env map[ssa.Value]symVal, assume map[string]bool) []subPath {
	if !isStringType(x.Type()) {
		return nil
	}
	sub := &symEval{e: se.e, fn: g, target: "", depth: se.depth + 1, params: map[*ssa.Parameter]symVal{}}
	for i, p := range g.Params {
		if i < len(x.Call.Args) {
			if a := se.val(x.Call.Args[i], env, assume); a.kind != "unknown" {
				sub.params[p] = a
			}
		}
	}
	sub.run(g.Blocks[0], 0, nil, map[ssa.Value]symVal{}, map[ssa.Value]symVal{}, copyAssume(assume))
	var out []subPath
	for i, p := range sub.paths {
		if !p.ok || i >= len(sub.vals) || sub.vals[i].kind != "str" {
			return nil
		}
		out = append(out, subPath{p.assume, sub.vals[i]})
	}
	return out
}

func (se *symEval) call(x *ssa.Call, env, cells map[ssa.Value]symVal, assume map[string]bool) {
	n := callName(&x.Call)
	args := x.Call.Args
	// strings.Builder / bytes.Buffer: the local holds the text written so far
	if (strings.HasPrefix(n, "strings.(Builder).") || strings.HasPrefix(n, "bytes.(Buffer).")) && len(args) >= 1 {
		recv := args[0]
		cur, has := cells[recv]
		if !has {
			cur = symVal{kind: "str"}
		}
		switch {
		case strings.HasSuffix(n, ").WriteString") && len(args) == 2:
			if a := se.val(args[1], env, assume); a.kind == "str" && cur.kind == "str" {
				cells[recv] = symVal{kind: "str", atoms: append(append([]atom{}, cur.atoms...), a.atoms...)}
			} else {
				cells[recv] = symVal{kind: "unknown"}
			}
		case strings.HasSuffix(n, ").WriteByte") || strings.HasSuffix(n, ").WriteRune"):
			if c, ok := args[1].(*ssa.Const); ok && cur.kind == "str" {
				cells[recv] = symVal{kind: "str", atoms: append(append([]atom{}, cur.atoms...), atom{lit: string(rune(c.Int64()))})}
			} else {
				cells[recv] = symVal{kind: "unknown"}
			}
		case strings.HasSuffix(n, ").String"):
			env[x] = cur
		case strings.HasSuffix(n, ").Grow") || strings.HasSuffix(n, ").Len") || strings.HasSuffix(n, ").Reset"):
		default:
			cells[recv] = symVal{kind: "unknown"}
		}
		return
	}
	render := func(v symVal) string { return shapeString(v.atoms) }
	switch {
	case n == "fmt.Sprintf" && len(args) == 2:
		fv := se.val(args[0], env, assume)
		if fv.kind != "str" || len(fv.atoms) != 1 || fv.atoms[0].sym != "" {
			return
		}
		f := fv.atoms[0].lit
		var vals []ssa.Value
		if sl, ok := args[1].(*ssa.Slice); ok {
			if al, ok := sl.X.(*ssa.Alloc); ok {
				byIdx := map[int64]ssa.Value{}
				for _, ref := range *al.Referrers() {
					if ia, ok := ref.(*ssa.IndexAddr); ok {
						k, _ := constInt(ia.Index)
						for _, r2 := range *ia.Referrers() {
							if st, ok := r2.(*ssa.Store); ok {
								byIdx[k] = st.Val
							}
						}
					}
				}
				for i := int64(0); i < int64(len(byIdx)); i++ {
					vals = append(vals, byIdx[i])
				}
			}
		}
		var out []atom
		lit := func(s string) {
			if s != "" {
				out = append(out, atom{lit: s})
			}
		}
		ai := 0
		cur := ""
		for i := 0; i < len(f); i++ {
			if f[i] != '%' || i+1 >= len(f) {
				cur += string(f[i])
				continue
			}
			j := i + 1
			for j < len(f) && strings.ContainsRune("+#- 0", rune(f[j])) {
				j++
			}
			if j >= len(f) {
				cur += f[i:]
				break
			}
			verb := f[j]
			flags := f[i+1 : j]
			i = j
			if verb == '%' {
				cur += "%"
				continue
			}
			lit(cur)
			cur = ""
			if ai >= len(vals) {
				out = append(out, atom{sym: "missing-argument"})
				continue
			}
			av := se.val(vals[ai], env, assume)
			ai++
			switch {
			case (verb == 's' || verb == 'v') && flags == "" && av.kind == "str":
				out = append(out, av.atoms...)
			case verb == 'q' && av.kind == "str":
				out = append(out, atom{sym: "quoted(" + render(av) + ")"})
			default:
				out = append(out, atom{sym: "formatted"})
			}
		}
		lit(cur)
		env[x] = symVal{kind: "str", atoms: out}
	case x.Call.IsInvoke() && x.Call.Method.Name() == "Alias" && len(args) == 1:
		env[x] = symVal{kind: "str", atoms: []atom{{sym: "alias(" + render(se.val(args[0], env, assume)) + ")"}}}
	case strings.HasSuffix(n, "/exporter.MustExport") && len(args) == 1:
		env[x] = symVal{kind: "str", atoms: []atom{{sym: "export(" + render(se.val(args[0], env, assume)) + ")"}}}
	case n == "builtin.append" && len(args) == 2:
		l, r := se.val(args[0], env, assume), se.val(args[1], env, assume)
		if isNilConst(args[0]) {
			l = symVal{kind: "strs"}
		}
		if l.kind == "strs" && r.kind == "strs" {
			env[x] = symVal{kind: "strs", list: append(append([][]atom{}, l.list...), r.list...)}
		}
	case n == "strings.Join" && len(args) == 2 && se.val(args[0], env, assume).kind == "strs":
		sep := se.val(args[1], env, assume)
		if sep.kind != "str" {
			return
		}
		var out []atom
		for i, el := range se.val(args[0], env, assume).list {
			if i > 0 {
				out = append(out, sep.atoms...)
			}
			out = append(out, el...)
		}
		env[x] = symVal{kind: "str", atoms: out}
	case n == "strings.Join" && len(args) == 2:
		// Join of a literal slice of strings with a constant separator
		sep := se.val(args[1], env, assume)
		sl, ok := args[0].(*ssa.Slice)
		if !ok || sep.kind != "str" {
			return
		}
		al, ok := sl.X.(*ssa.Alloc)
		if !ok {
			return
		}
		byIdx := map[int64]ssa.Value{}
		for _, ref := range *al.Referrers() {
			if ia, ok := ref.(*ssa.IndexAddr); ok {
				k, _ := constInt(ia.Index)
				for _, r2 := range *ia.Referrers() {
					if st, ok := r2.(*ssa.Store); ok {
						byIdx[k] = st.Val
					}
				}
			}
		}
		var out []atom
		for i := int64(0); i < int64(len(byIdx)); i++ {
			if i > 0 {
				out = append(out, sep.atoms...)
			}
			ev := se.val(byIdx[i], env, assume)
			if ev.kind != "str" {
				return
			}
			out = append(out, ev.atoms...)
		}
		env[x] = symVal{kind: "str", atoms: out}
	}
}
