// Package rules holds the per-property rule tables (engine C and the glue to
// the other engines).
package rules

import (
	"fmt"
	"go/ast"
	"go/types"
	"golang.org/x/tools/go/callgraph"
	"golang.org/x/tools/go/callgraph/cha"
	"golang.org/x/tools/go/callgraph/vta"
	"golang.org/x/tools/go/ssa/ssautil"
	"sort"

	"gverif/internal/load"
	"gverif/internal/report"
	"gverif/internal/wiring"

	"golang.org/x/tools/go/packages"
)

type Env struct {
	P        *load.Program
	R        *report.Ctx
	Tier     string
	Verif    string // /verif
	ctlMap   map[string]*load.Program
	gm       *wiring.GoModel
	ym       *wiring.YModel
	modelErr bool
	cha      *callgraph.Graph
	vta      *callgraph.Graph
}

// Control loads (once) a positive-control fixture module under /verif/fixtures.
func (e *Env) Control(name string, ssa bool) *load.Program {
	if e.ctlMap == nil {
		e.ctlMap = map[string]*load.Program{}
	}
	k := fmt.Sprintf("%s/%v", name, ssa)
	if p, ok := e.ctlMap[k]; ok {
		return p
	}
	p, err := load.Load(e.Verif+"/fixtures/"+name, ssa)
	if err != nil {
		e.R.Undecide("control", "fixtures/"+name, "positive-control fixture does not load: "+err.Error())
		e.ctlMap[k] = nil
		return nil
	}
	e.ctlMap[k] = p
	return p
}

// chaGraph: the class-hierarchy call graph of the loaded program (built once per run).
func (e *Env) chaGraph() *callgraph.Graph {
	if e.cha == nil {
		e.cha = cha.CallGraph(e.P.SSA)
	}
	return e.cha
}

// vtaGraph: the call graph refined by variable-type analysis (function values are resolved through the
// values that can flow into them, not by signature alone).
func (e *Env) vtaGraph() *callgraph.Graph {
	if e.vta == nil {
		e.vta = vta.CallGraph(ssautil.AllFunctions(e.P.SSA), e.chaGraph())
	}
	return e.vta
}

var registry = map[string]func(*Env){}

func Register(id string, f func(*Env)) { registry[id] = f }

func Props() []string {
	var s []string
	for k := range registry {
		s = append(s, k)
	}
	sort.Strings(s)
	return s
}

func Run(id string, e *Env) bool {
	f, ok := registry[id]
	if !ok {
		return false
	}
	f(e)
	return true
}

// ---- small shared helpers ----

func (e *Env) analysedBase() {
	e.R.Analysed["module_packages"] = len(e.P.Roots)
	e.R.Analysed["loaded_packages"] = len(e.P.All)
	if e.P.SSA != nil {
		e.R.Analysed["module_functions_ssa"] = len(e.P.Funcs())
	}
	n := 0
	e.P.EachModFile(func(*packages.Package, *ast.File) { n++ })
	e.R.Analysed["module_files"] = n
	if n < 60 || len(e.P.Roots) < 18 {
		e.R.Undecide("L", "module", fmt.Sprintf("only %d packages / %d files were loaded; expected >= 18 / >= 60", len(e.P.Roots), n))
	}
}

// enclosingFunc returns the FuncDecl of pk whose body contains n.
func enclosingFunc(pk *packages.Package, n ast.Node) *ast.FuncDecl {
	for _, f := range pk.Syntax {
		if f.Pos() <= n.Pos() && n.End() <= f.End() {
			for _, d := range f.Decls {
				if fd, ok := d.(*ast.FuncDecl); ok && fd.Pos() <= n.Pos() && n.End() <= fd.End() {
					return fd
				}
			}
		}
	}
	return nil
}

func namedOf(t types.Type) *types.Named {
	for {
		switch x := t.(type) {
		case *types.Pointer:
			t = x.Elem()
		case *types.Named:
			return x
		default:
			if a, ok := t.(*types.Alias); ok {
				t = types.Unalias(a)
				continue
			}
			return nil
		}
	}
}

// isNamed reports whether t (or *t) is the named type pkgPath.name.
func isNamed(t types.Type, pkgPath, name string) bool {
	n := namedOf(t)
	return n != nil && n.Obj().Name() == name && n.Obj().Pkg() != nil && n.Obj().Pkg().Path() == pkgPath
}

func objPkgPath(o types.Object) string {
	if o == nil || o.Pkg() == nil {
		return ""
	}
	return o.Pkg().Path()
}

// calleeName returns "pkgpath.Name" or "pkgpath.(Recv).Name" for a resolved call.
func calleeName(o types.Object) string {
	fn, ok := o.(*types.Func)
	if !ok {
		return ""
	}
	sig := fn.Type().(*types.Signature)
	if sig.Recv() != nil {
		if n := namedOf(sig.Recv().Type()); n != nil {
			return objPkgPath(n.Obj()) + ".(" + n.Obj().Name() + ")." + fn.Name()
		}
		return "(" + sig.Recv().Type().String() + ")." + fn.Name()
	}
	return objPkgPath(fn) + "." + fn.Name()
}

// ResetCaches clears the per-run memo tables (only the development sweep runs several properties in one process).
func ResetCaches() {
	combCache = map[string]string{}
	semverKeyCount = map[string]int{}
	currentGM = nil
}
