package rules

import (
	"fmt"
	"go/ast"
	"go/constant"
	"go/parser"
	"go/token"
	"go/types"
	"golang.org/x/tools/go/ssa"
	"sort"
	"strings"

	"gverif/internal/wiring"
)

func init() { Register("C19", C19) }

const selfRel = "internal/gontainer"

// models loads (once per run) both sides of the self-hosted wiring.
func (e *Env) models() (*wiring.GoModel, *wiring.YModel, bool) {
	if e.gm != nil || e.ym != nil || e.modelErr {
		return e.gm, e.ym, !e.modelErr
	}
	gm, err := wiring.FromGo(e.P, selfRel)
	if err != nil {
		e.R.Undecide("W", selfRel+"/gontainer.go", "wiring model of the generated file cannot be extracted: "+err.Error())
		e.modelErr = true
		return nil, nil, false
	}
	ym, err := wiring.FromYAML(e.P.Dir)
	if err != nil {
		e.R.Undecide("W", selfRel+"/*.yaml", "wiring model of the YAML files cannot be read: "+err.Error())
		e.modelErr = true
		return nil, nil, false
	}
	for _, pr := range gm.Problems {
		e.R.Undecide("W", selfRel+"/gontainer.go#shape", "construct of the generated constructor outside the shapes the templates emit: "+pr)
	}
	e.gm, e.ym = gm, ym
	currentGM = gm
	e.R.Analysed["wiring_go_services"] = len(gm.Services)
	e.R.Analysed["wiring_go_params"] = len(gm.Params)
	e.R.Analysed["wiring_go_decorators"] = len(gm.Decorators)
	e.R.Analysed["wiring_go_getters"] = len(gm.Getters)
	e.R.Analysed["wiring_yaml_files"] = ym.Files
	e.R.Analysed["wiring_yaml_services"] = len(ym.Services)
	if len(gm.Services) < 30 || len(ym.Services) < 30 || len(ym.Files) < 7 {
		e.R.Undecide("W", selfRel+"#size", fmt.Sprintf("wiring model is smaller than the one confirmed by hand (go services %d, yaml services %d, files %d)", len(gm.Services), len(ym.Services), len(ym.Files)))
	}
	return gm, ym, true
}

func C19(e *Env) {
	r := e.R
	r.Level = "translation_validation"
	e.analysedBase()
	yamlKeysRule(e, "R11.12")
	e.R.Rule("R11.12", "key table (shared with C11): the tool's own configuration uses the documented keys; a key the model no longer recognises is dropped silently and the regenerated file differs", 25)
	r.Rule("R19.1", "YAML ⇔ Go: the model read from the YAML files (in the Makefile's self-compile order, merged as documented) equals the model extracted from the checked-in gontainer.go — same meta names, parameters, services (creation method and symbol, ordered arguments by kind and payload, fields, calls, tags, scope, todo), decorators in order, getters with their types and must-getters", 100)
	gm, ym, ok := e.models()
	if !ok {
		return
	}
	c19Compare(e, gm, ym)
	reinstantiate(e)
	// a fixpoint needs a deterministic generator: alias numbering and element order must not follow map order
	for _, fn := range []struct{ name, typ string }{{"Merge", "Input"}, {"mergeMeta", "Meta"}, {"mergeService", "Service"}} {
		mergeLiteralRule(e, fn.name, fn.typ)
	}
	c09Fold(e)
	r.Rule("R09.1", "the self-configuration is split over seven files (meta only in the first): what the tool compiles from them is decided by Merge/mergeMeta/mergeService, field by field with the documented combinator (shared with C09); R19.1 merges the YAML with the checker's own documented merge, so a deviating module merge makes the regenerated file differ", 22)
	r.Rule("R09.1c", "behaviour classes of the merge combinators (shared with C09)", 4)
	r.Rule("R09.2", "the fold is *i = input.Merge(*i, decoded) (shared with C09)", 1)
	sharedWriteRules(e)
	r.Rule("R10.2", "regenerating in place (as `make self-compile` does) replaces the file: one os.WriteFile (create, truncate, write) (shared with C10)", 2)
	r.Rule("R10.1", "the written path is the -o path (shared with C10)", 1)
	c19StepOrder(e)
	c19AliasScheme(e, gm)
	r.Rule("R19.5", "alias naming scheme: every import alias of the checked-in gontainer.go is a word of the regular language of names imports.Alias builds today (prefix, lower-case hexadecimal counter, separator, sanitised last segment)", 1)
	c19Fragments(e)
	r.Rule("R19.4", "compile layer vs generated file: for every parameter that is a single function token, the GO: line in gontainer.go is the text FactoryFunction.Create emits today for that token (engine F: symbolic shape of the emitted code, holes filled with the token's own values)", 1)
	r.Rule("R19.3", "import aliases are numbered by first request, so the generated file depends on the order in which the compile steps run: compiler.New receives validate, meta, params, services, decorators in that order — the order the checked-in file was generated with", 1)
	r.Rule("R08.1", "no order-sensitive range over a map in module code (engine M, shared with C08): otherwise import aliases are numbered in map order and a regenerated file differs from run to run", 1)
	for _, m := range MapRanges(e.P) {
		if m.Sensitive {
			r.Violate("R08.1", m.Key, "order-sensitive range over a map: "+m.Why, nil, m.Pos)
		} else {
			r.Hold("R08.1", m.Key, "order-insensitive", m.Pos)
		}
	}
	r.Extra["programs"] = 1
	r.Extra["disagreements_checked"] = len(r.Obs())
	r.NotCovered = append(r.NotCovered,
		"byte identity of a regenerated file as such (the generator is not run); numbering of import aliases (first-use order inside the generator)",
		"the second generation (follows from the first when the file is what the tool emits)")
}

var reinstantiate = func(e *Env) {}

// normExpr prints an expression with package qualifiers replaced by quoted import paths.
func normExpr(info *types.Info, e ast.Expr) string {
	switch x := ast.Unparen(e).(type) {
	case *ast.Ident:
		return x.Name
	case *ast.SelectorExpr:
		if id, ok := x.X.(*ast.Ident); ok {
			if pn, ok := info.Uses[id].(*types.PkgName); ok {
				return fmt.Sprintf("%q.%s", pn.Imported().Path(), x.Sel.Name)
			}
		}
		return normExpr(info, x.X) + "." + x.Sel.Name
	case *ast.UnaryExpr:
		return x.Op.String() + normExpr(info, x.X)
	case *ast.StarExpr:
		return "*" + normExpr(info, x.X)
	case *ast.CompositeLit:
		if len(x.Elts) == 0 {
			return normExpr(info, x.Type) + "{}"
		}
	case *ast.InterfaceType:
		if x.Methods == nil || len(x.Methods.List) == 0 {
			return "interface{}"
		}
	case *ast.BasicLit:
		return x.Value
	case *ast.CallExpr:
		var as []string
		for _, a := range x.Args {
			as = append(as, normExpr(info, a))
		}
		return normExpr(info, x.Fun) + "(" + strings.Join(as, ", ") + ")"
	}
	return types.ExprString(e)
}

func normRef(r wiring.Ref, curPkg string) string {
	s := r.Ptr
	if r.Path != "" {
		s += fmt.Sprintf("%q.", r.Path)
	}
	s += r.Name + r.Rest
	if r.Lit {
		s += "{}"
	}
	return s
}

func c19Compare(e *Env, gm *wiring.GoModel, ym *wiring.YModel) {
	r := e.R
	info := gm.Pkg.TypesInfo
	key := func(s string) string { return selfRel + "#" + s }
	deref := func(p *string, def string) string {
		if p != nil {
			return *p
		}
		return def
	}
	eq := func(k, what, got, want string) {
		r.Check(got == want, "R19.1", key(k), fmt.Sprintf("%s: gontainer.go has %q, the YAML declares %q", what, got, want))
	}
	// meta
	eq("meta.pkg", "package name", gm.PkgName, deref(ym.Pkg, "main"))
	eq("meta.container_type", "container type", gm.TypeName, deref(ym.Type, "Gontainer"))
	eq("meta.container_constructor", "constructor name", gm.CtorName, deref(ym.Ctor, "NewGontainer"))
	// output path
	eq("makefile.output", "self-compile output path", ym.Output, selfRel+"/gontainer.go")

	builtins := builtinFuncs(e)

	cmpArg := func(k string, d wiring.Dep, a any) {
		ya, err := ym.ParseArg(a)
		if err != nil {
			r.Violate("R19.1", key(k), "the YAML argument is not in the documented grammar: "+err.Error(), nil)
			return
		}
		pos := e.P.Pos(d.Pos)
		if d.Kind != ya.Kind && !(ya.Kind == "literal" && d.Kind == "value") {
			r.Violate("R19.1", key(k), fmt.Sprintf("argument kinds differ: gontainer.go injects %s(%s), the YAML declares %s(%v)", d.Kind, d.Name, ya.Kind, a), nil, pos)
			return
		}
		switch ya.Kind {
		case "service", "tag", "param", "string":
			r.Check(d.Name == ya.Name, "R19.1", key(k), fmt.Sprintf("%s reference: gontainer.go has %q, the YAML declares %q", ya.Kind, d.Name, ya.Name), pos)
		case "container":
			r.Hold("R19.1", key(k), "$gontainer", pos)
		case "value":
			got, want := normExpr(info, d.Expr), normRef(ya.Ref, gm.Pkg.PkgPath)
			r.Check(got == want, "R19.1", key(k), fmt.Sprintf("!value: gontainer.go injects %s, the YAML declares %s", got, want), pos)
		case "literal":
			want := fmt.Sprint(a)
			got := ""
			if d.Val != nil {
				got = d.Val.ExactString()
				if d.Val.Kind() == constant.Float {
					f, _ := constant.Float64Val(d.Val)
					got = fmt.Sprint(f)
				}
			} else if a == nil {
				want, got = "nil", normExpr(info, d.Expr)
			}
			r.Check(got == want, "R19.1", key(k), fmt.Sprintf("literal: gontainer.go injects %s, the YAML declares %s", got, want), pos)
		case "func", "concat":
			okT := len(d.Toks) == len(ya.Toks)
			var diffs []string
			for i := 0; okT && i < len(ya.Toks); i++ {
				if why := cmpTok(e, gm, ym, builtins, d.Toks[i], ya.Toks[i]); why != "" {
					diffs = append(diffs, fmt.Sprintf("chunk %d: %s", i, why))
				}
			}
			if !okT {
				diffs = append(diffs, fmt.Sprintf("%d chunks in gontainer.go, %d in the YAML", len(d.Toks), len(ya.Toks)))
			}
			r.Check(len(diffs) == 0, "R19.1", key(k), "pattern chunks: "+strings.Join(diffs, "; "), pos)
		}
	}
	cmpArgs := func(k string, ds []wiring.Dep, as []any) {
		if len(ds) != len(as) {
			r.Violate("R19.1", key(k+"#count"), fmt.Sprintf("gontainer.go passes %d arguments, the YAML declares %d", len(ds), len(as)), nil)
			return
		}
		for i := range ds {
			cmpArg(fmt.Sprintf("%s[%d]", k, i), ds[i], as[i])
		}
	}

	// parameters
	gp := map[string]wiring.Param{}
	for _, p := range gm.Params {
		gp[p.Name] = p
	}
	for _, n := range ym.ParamNames() {
		p, ok := gp[n]
		if !ok {
			r.Violate("R19.1", key("param:"+n), "parameter declared in the YAML is missing from gontainer.go", nil)
			continue
		}
		cmpArg("param:"+n, p.Dep, ym.Params[n])
		delete(gp, n)
	}
	for n := range gp {
		r.Violate("R19.1", key("param:"+n), "parameter in gontainer.go that no YAML file declares", nil)
	}
	// parameters are emitted in sorted order
	var pn []string
	for _, p := range gm.Params {
		pn = append(pn, p.Name)
	}
	r.Check(sort.StringsAreSorted(pn), "R19.1", key("params#order"), "parameters appear in key order")

	// services
	gs := map[string]*wiring.Service{}
	var sn []string
	for i := range gm.Services {
		gs[gm.Services[i].Name] = &gm.Services[i]
		sn = append(sn, gm.Services[i].Name)
	}
	r.Check(sort.StringsAreSorted(sn), "R19.1", key("services#order"), "services appear in key order")
	defMust := ym.DefMust != nil && *ym.DefMust
	for _, n := range ym.ServiceNames() {
		ys := ym.Services[n]
		g, ok := gs[n]
		if !ok {
			r.Violate("R19.1", key("service:"+n), "service declared in the YAML is missing from gontainer.go", nil)
			continue
		}
		delete(gs, n)
		k := "service:" + n
		pos := e.P.Pos(g.Pos)
		if ys.Todo != nil && *ys.Todo {
			r.Check(g.CtorKind == "todo" && len(g.Args)+len(g.Calls)+len(g.Fields)+len(g.Tags) == 0, "R19.1", key(k+"#todo"), "todo service: error constructor and nothing else", pos)
			continue
		}
		switch {
		case ys.Constructor != nil:
			ref, okr := ym.ParseRef(*ys.Constructor)
			got := ""
			if g.Ctor != nil {
				got = normExpr(info, g.Ctor)
			}
			r.Check(okr && g.CtorKind == "func" && got == normRef(ref, ""), "R19.1", key(k+"#constructor"), fmt.Sprintf("constructor: gontainer.go calls %s (%s), the YAML declares %s", got, g.CtorKind, *ys.Constructor), pos)
		case ys.Value != nil:
			ref, okr := ym.ParseRef(*ys.Value)
			got := ""
			if g.CtorLit != nil && g.CtorKind == "value" {
				got = normExpr(info, g.CtorLit.Body.List[0].(*ast.ReturnStmt).Results[0])
			}
			r.Check(okr && got == normRef(ref, ""), "R19.1", key(k+"#value"), fmt.Sprintf("value: gontainer.go returns %s, the YAML declares %s", got, *ys.Value), pos)
		case ys.Type != nil:
			r.Check(g.CtorKind == "type", "R19.1", key(k+"#type-only"), "type-only service: zero-value constructor", pos)
		default:
			r.Violate("R19.1", key(k+"#creation"), "the YAML declares no creation method", nil, pos)
		}
		// the result type of value / type constructors
		if ys.Constructor == nil && g.CtorLit != nil && g.CtorLit.Type.Results != nil && len(g.CtorLit.Type.Results.List) == 1 {
			got := normExpr(info, g.CtorLit.Type.Results.List[0].Type)
			want := "interface{}"
			if ys.Type != nil {
				if ref, ok := ym.ParseRef(*ys.Type); ok {
					want = normRef(ref, "")
				}
			}
			r.Check(got == want, "R19.1", key(k+"#type"), fmt.Sprintf("declared type: gontainer.go has %s, the YAML declares %s", got, want), pos)
		}
		cmpArgs(k+".arguments", g.Args, ys.Args)
		// fields in key order
		var fn []string
		for f := range ys.Fields {
			fn = append(fn, f)
		}
		sort.Strings(fn)
		if len(fn) != len(g.Fields) {
			r.Violate("R19.1", key(k+".fields#count"), fmt.Sprintf("gontainer.go sets %d fields, the YAML declares %d", len(g.Fields), len(fn)), nil, pos)
		} else {
			for i, f := range fn {
				r.Check(g.Fields[i].Name == f, "R19.1", key(fmt.Sprintf("%s.fields[%d]#name", k, i)), fmt.Sprintf("field name: %q vs %q", g.Fields[i].Name, f), pos)
				cmpArg(fmt.Sprintf("%s.fields[%s]", k, f), g.Fields[i].Val, ys.Fields[f])
			}
		}
		if len(ys.Calls) != len(g.Calls) {
			r.Violate("R19.1", key(k+".calls#count"), fmt.Sprintf("gontainer.go appends %d calls, the YAML declares %d", len(g.Calls), len(ys.Calls)), nil, pos)
		} else {
			for i, c := range ys.Calls {
				r.Check(g.Calls[i].Method == c.Method && g.Calls[i].Immutable == c.Immutable, "R19.1", key(fmt.Sprintf("%s.calls[%d]", k, i)),
					fmt.Sprintf("call: gontainer.go has %s (wither=%v), the YAML declares %s (wither=%v)", g.Calls[i].Method, g.Calls[i].Immutable, c.Method, c.Immutable), pos)
				cmpArgs(fmt.Sprintf("%s.calls[%d].arguments", k, i), g.Calls[i].Args, c.Args)
			}
		}
		if len(ys.Tags) != len(g.Tags) {
			r.Violate("R19.1", key(k+".tags#count"), fmt.Sprintf("gontainer.go sets %d tags, the YAML declares %d", len(g.Tags), len(ys.Tags)), nil, pos)
		} else {
			for i, t := range ys.Tags {
				r.Check(g.Tags[i].Name == t.Name && g.Tags[i].Prio == t.Prio, "R19.1", key(fmt.Sprintf("%s.tags[%d]", k, i)),
					fmt.Sprintf("tag: gontainer.go has (%s,%d), the YAML declares (%s,%d)", g.Tags[i].Name, g.Tags[i].Prio, t.Name, t.Prio), pos)
			}
		}
		wantScope := "SetScopeDefault"
		if ys.Scope != nil {
			wantScope = map[string]string{"shared": "SetScopeShared", "contextual": "SetScopeContextual", "non_shared": "SetScopeNonShared"}[*ys.Scope]
		}
		r.Check(g.ScopeCall == wantScope, "R19.1", key(k+"#scope"), fmt.Sprintf("scope: gontainer.go calls %q, the YAML implies %q", g.ScopeCall, wantScope), pos)
		// getters
		c19Getters(e, gm, ym, ys, defMust)
	}
	for n := range gs {
		r.Violate("R19.1", key("service:"+n), "service in gontainer.go that no YAML file declares", nil)
	}
	// getters without a declaring service
	for _, g := range gm.Getters {
		ys, ok := ym.Services[g.Service]
		if !ok || ys.Getter == nil {
			r.Violate("R19.1", key("getter:"+g.Method), "getter method in gontainer.go for a service that declares no getter", nil, e.P.Pos(g.Pos))
		}
	}
	// decorators
	if len(gm.Decorators) != len(ym.Decorators) {
		r.Violate("R19.1", key("decorators#count"), fmt.Sprintf("gontainer.go adds %d decorators, the YAML declares %d", len(gm.Decorators), len(ym.Decorators)), nil)
	} else {
		for i, yd := range ym.Decorators {
			gd := gm.Decorators[i]
			ref, okr := ym.ParseRef(yd.Decorator)
			got := normExpr(info, gd.Fn)
			r.Check(okr && gd.Tag == yd.Tag && got == normRef(ref, ""), "R19.1", key(fmt.Sprintf("decorators[%d]", i)),
				fmt.Sprintf("decorator: gontainer.go has (%s, %s), the YAML declares (%s, %s)", gd.Tag, got, yd.Tag, yd.Decorator), e.P.Pos(gd.Pos))
			cmpArgs(fmt.Sprintf("decorators[%d].arguments", i), gd.Args, yd.Args)
		}
	}
}

func c19Getters(e *Env, gm *wiring.GoModel, ym *wiring.YModel, ys *wiring.YService, defMust bool) {
	r := e.R
	info := gm.Pkg.TypesInfo
	_ = info
	var mine []wiring.Getter
	for _, g := range gm.Getters {
		if g.Service == ys.Name {
			mine = append(mine, g)
		}
	}
	k := selfRel + "#service:" + ys.Name + "#getters"
	if ys.Getter == nil {
		r.Check(len(mine) == 0, "R19.1", k, "a service without a getter adds no methods")
		return
	}
	G := *ys.Getter
	must := defMust
	if ys.MustGetter != nil {
		must = *ys.MustGetter
	}
	want := map[string]bool{G: true, G + "InContext": true}
	if must {
		want["Must"+G] = true
		want["Must"+G+"InContext"] = true
	}
	got := map[string]bool{}
	wantType := "interface{}"
	if ys.Type != nil {
		if ref, ok := ym.ParseRef(*ys.Type); ok {
			wantType = normRef(ref, "")
		}
	}
	for _, g := range mine {
		got[g.Method] = true
		// type
		ts := "interface{}"
		if g.Type != nil {
			ts = types.TypeString(g.Type, func(p *types.Package) string { return fmt.Sprintf("%q", p.Path()) })
			if ts == "interface{}" || ts == "any" {
				ts = "interface{}"
			}
		}
		r.Check(ts == wantType, "R19.1", k+":"+g.Method+"#type", fmt.Sprintf("getter type: gontainer.go has %s, the YAML declares %s", ts, wantType), e.P.Pos(g.Pos))
	}
	var missing, extra []string
	for m := range want {
		if !got[m] {
			missing = append(missing, m)
		}
	}
	for m := range got {
		if !want[m] {
			extra = append(extra, m)
		}
	}
	sort.Strings(missing)
	sort.Strings(extra)
	r.Check(len(missing)+len(extra) == 0, "R19.1", k, fmt.Sprintf("getter methods of %q: missing %v, unexpected %v", ys.Name, missing, extra))
}

// builtinFuncs reads the alias -> helper map that StepDefaultInput registers.
func builtinFuncs(e *Env) map[string]string {
	out := map[string]string{}
	// on SSA: the constant entries of the map that is stored into Meta.Functions (a literal or make + stores)
	if top := e.P.Func("internal/cmd/runner", "StepDefaultInput.Run"); top != nil {
		// the function (Run itself or a helper it calls) that stores the map into Meta.Functions
		fn := top
		var target ssa.Value
		for _, uf := range unitFns(top, 1) {
			for _, b := range uf.Blocks {
				for _, ins := range b.Instrs {
					if st, ok := ins.(*ssa.Store); ok {
						if fa, ok := st.Addr.(*ssa.FieldAddr); ok && fieldName(fa) == "Functions" {
							target, fn = st.Val, uf
						}
					}
				}
			}
		}
		// through a local
		if ld, ok := target.(*ssa.UnOp); ok {
			if al, ok := ld.X.(*ssa.Alloc); ok {
				for _, ref := range *al.Referrers() {
					if st, ok := ref.(*ssa.Store); ok && st.Addr == al {
						target = st.Val
					}
				}
			}
		}
		// the map comes from a helper of the package (builtInFunctions()): read the map that helper returns
		if c, ok := target.(*ssa.Call); ok {
			if g := c.Call.StaticCallee(); g != nil && e.P.InModule(g) && len(g.Blocks) > 0 {
				for _, b := range g.Blocks {
					if ret, isRet := b.Instrs[len(b.Instrs)-1].(*ssa.Return); isRet && len(ret.Results) == 1 {
						target, fn = ret.Results[0], g
					}
				}
				if ld, isLd := target.(*ssa.UnOp); isLd {
					if al, isAl := ld.X.(*ssa.Alloc); isAl {
						for _, ref := range *al.Referrers() {
							if st, isSt := ref.(*ssa.Store); isSt && st.Addr == al {
								target = st.Val
							}
						}
					}
				}
			}
		}
		if target != nil {
			for _, b := range fn.Blocks {
				for _, ins := range b.Instrs {
					if mu, ok := ins.(*ssa.MapUpdate); ok && (mu.Map == target || sameCell(mu.Map, target)) {
						k, ok1 := constString(mu.Key)
						v, ok2 := constString(mu.Value)
						if ok1 && ok2 {
							out[k] = v
						}
					}
				}
			}
		}
		if len(out) > 0 {
			return out
		}
	}
	fd, pk := e.P.Decl("internal/cmd/runner", "StepDefaultInput.Run")
	if fd == nil {
		return out
	}
	// only a literal that is assigned to the Functions field counts (the same map stored into Imports would
	// make env / envInt / todo import aliases instead of functions)
	ast.Inspect(fd.Body, func(n ast.Node) bool {
		as, ok := n.(*ast.AssignStmt)
		if !ok || len(as.Lhs) != 1 || len(as.Rhs) != 1 {
			return true
		}
		sel, ok := ast.Unparen(as.Lhs[0]).(*ast.SelectorExpr)
		if !ok || sel.Sel.Name != "Functions" {
			return true
		}
		cl, ok := ast.Unparen(as.Rhs[0]).(*ast.CompositeLit)
		if !ok {
			return true
		}
		for _, el := range cl.Elts {
			if kv, ok := el.(*ast.KeyValueExpr); ok {
				k, ok1 := stringConst(pk.TypesInfo, kv.Key)
				v, ok2 := stringConst(pk.TypesInfo, kv.Value)
				if ok1 && ok2 {
					out[k] = v
				}
			}
		}
		return true
	})
	return out
}

func stringConst(info *types.Info, e ast.Expr) (string, bool) {
	tv, ok := info.Types[e]
	if !ok || tv.Value == nil || tv.Value.Kind() != constant.String {
		return "", false
	}
	return constant.StringVal(tv.Value), true
}

func cmpTok(e *Env, gm *wiring.GoModel, ym *wiring.YModel, builtins map[string]string, g wiring.Tok, y wiring.YTok) string {
	info := gm.Pkg.TypesInfo
	switch y.Kind {
	case "string":
		if g.Kind != "string" || g.Name != y.Text {
			return fmt.Sprintf("literal %q vs %s %q", y.Text, g.Kind, g.Name)
		}
	case "percent":
		if g.Kind != "string" || g.Name != "%" {
			return "%% must become the literal %"
		}
	case "param":
		if g.Kind != "param" || g.Name != y.Text {
			return fmt.Sprintf("reference %%%s%% vs %s %q", y.Text, g.Kind, g.Name)
		}
	case "func":
		if g.Kind != "func" {
			return fmt.Sprintf("function call %s(...) vs %s", y.Text, g.Kind)
		}
		goFn, ok := ym.Functions[y.Text]
		want := ""
		if ok {
			if ref, ok := ym.ParseRef(goFn); ok {
				want = normRef(ref, "")
			}
		} else if b, ok := builtins[y.Text]; ok {
			want = b
		} else {
			return "function " + y.Text + " is not registered"
		}
		got := normExpr(info, g.Fn)
		if got != want {
			return fmt.Sprintf("function %s: gontainer.go calls %s, expected %s", y.Text, got, want)
		}
		// arguments: compare as Go expression lists
		wantArgs := ""
		if strings.TrimSpace(y.Args) != "" {
			ex, err := parser.ParseExpr("f(" + y.Args + ")")
			if err != nil {
				return "arguments are not Go expressions"
			}
			var as []string
			for _, a := range ex.(*ast.CallExpr).Args {
				as = append(as, types.ExprString(a))
			}
			wantArgs = strings.Join(as, ", ")
		}
		var gas []string
		for _, a := range g.Args {
			gas = append(gas, types.ExprString(a))
		}
		if strings.Join(gas, ", ") != wantArgs {
			return fmt.Sprintf("function arguments: (%s) vs (%s)", strings.Join(gas, ", "), wantArgs)
		}
	}
	return ""
}

var _ = token.NoPos

// c19StepOrder: R19.3.
func c19StepOrder(e *Env) {
	r := e.R
	gm, _, ok := e.models()
	if !ok {
		return
	}
	c := gm.Service("compiler")
	key := selfRel + "#service:compiler#step-order"
	if c == nil {
		r.Undecide("R19.3", key, "compiler service not found")
		return
	}
	want := []string{"stepValidateInput", "stepCompileMeta", "stepCompileParams", "stepCompileServices", "stepCompileDecorators"}
	okO := len(c.Args) == len(want)
	var got []string
	for i, a := range c.Args {
		got = append(got, a.Name)
		if i < len(want) && !depIs(a, "service", want[i]) {
			okO = false
		}
	}
	r.Check(okO, "R19.3", key, fmt.Sprintf("compiler.New(%v) — steps in the order validate, meta, params, services, decorators", got), e.P.Pos(c.Pos))
}
