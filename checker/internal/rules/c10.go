package rules

import (
	"fmt"
	"go/ast"
	"go/token"
	"go/types"
	"strings"

	"gverif/internal/load"

	"golang.org/x/tools/go/packages"
	"golang.org/x/tools/go/ssa"
)

func init() { Register("C10", C10) }

var fileMutators = map[string]bool{
	"os.WriteFile": true, "os.Create": true, "os.OpenFile": true, "os.Remove": true, "os.RemoveAll": true,
	"os.Rename": true, "os.Mkdir": true, "os.MkdirAll": true, "os.Truncate": true, "os.Chmod": true, "os.Chown": true,
	"os.Lchown": true, "os.Symlink": true, "os.Link": true, "os.CreateTemp": true, "os.MkdirTemp": true, "os.Chtimes": true,
	"io/ioutil.WriteFile": true, "io/ioutil.TempFile": true, "io/ioutil.TempDir": true, "os.NewFile": true,
	"os.(File).Write": true, "os.(File).WriteString": true, "os.(File).WriteAt": true, "os.(File).Truncate": true,
	"os.(File).ReadFrom": true, "os.(File).Chmod": true, "os.(File).Sync": true,
}

type callSite struct {
	fn    *ssa.Function
	ins   ssa.CallInstruction
	name  string
	fnKey string
}

// moduleCalls lists every call instruction of non-generated module code.
func moduleCalls(p *load.Program) []callSite {
	var out []callSite
	for _, fn := range p.Funcs() {
		if isGeneratedFn(p, rootFn(fn)) {
			continue
		}
		for _, b := range fn.Blocks {
			for _, ins := range b.Instrs {
				if c, ok := ins.(ssa.CallInstruction); ok {
					out = append(out, callSite{fn, c, callName(c.Common()), p.FuncKey(fn)})
				}
			}
		}
	}
	return out
}

func C10(e *Env) {
	r := e.R
	e.analysedBase()
	cliSurfaceRule(e, "R16.0")
	e.R.Rule("R16.0", "the command line the property is stated for exists: `gontainer build` with -i, -o, -q (shared with C16)", 7)
	r.Rule("R10.1", "exactly one call of a file-mutating API exists in module code: os.WriteFile in StepCodeGenerator.Run, whose path derives from the step's outputFile field only", 1)
	r.Rule("R10.2", "that write is reachable only through the success edge of builder.Build, writes Build's result, and every 'return nil' of the step lies behind the success edge of the write", 2)
	r.Rule("R10.3", "Runner.Run leaves the loop at the first failing step (no step runs after a failure), returns that step's error, and returns nil only after the loop; NewRunner keeps the step order; the code generator is the last step of the runner in gontainer.go and occurs once", 4)
	r.Rule("R10.4", "rule E: every error produced by a call in module code flows into the enclosing function's error result (or is used when there is none); reviewed exceptions are the best-effort prints of the error list and MarkFlagRequired; StepAmalgamated runs every sub-step and joins all results", 60)
	r.Rule("R10.5", "os.Exit is called only from main.main, with the constant 1, behind rootCmd.Execute() != nil; RunE returns nil iff runner.Run returned nil; no log.Fatal*/os.Exit elsewhere", 3)
	r.Rule("R10.6", "the count printed by the verbose step and the numbered list printed by RunE are both grouperror.Collection of the error that is returned; the list loop prints every element (no skip) numbered index+1", 3)
	r.Rule("R10.7", "--quiet: RunE's writer is io.Discard unless the quiet flag is false, it is the only writer handed to the runner payload and to the error list; no module code outside package main touches os.Stdout/os.Stderr, fmt.Print*, print/println or package log; the printer's writer service is the one buildRunner overrides", 4)
	r.Rule("R10.1-control", "positive control: a dropped error and a stray file mutation in fixtures/ctl must be reported", 2)

	calls := moduleCalls(e.P)
	r.Analysed["module_call_instructions"] = len(calls)
	c09FlagChain(e)
	c16Flags(e)
	r.Rule("R16.1", "flag binding (shared with C16): --quiet exists and is the variable RunE switches the writer on", 2)
	r.Rule("R16.2", "payload = negated flag (shared with C16)", 2)
	r.Rule("R16.3", "the ignore switches are applied on every path (shared with C16)", 2)
	errorFlattenRule(e, "R11.10")
	r.Rule("R11.10", "the printed list and count contain every violation: no module code formats an error value into the text of another, the only wrapper is grouperror.Prefix (shared with C11)", 1)
	r.Rule("R09.4", "the -i flag is a string array that reaches the payload's inputPatterns unchanged (shared with C09): a slice flag splits a path on commas, so the command reads other files than the ones it was given and fails or succeeds for the wrong input", 1)

	// ---- R10.1 / R10.2
	var writes []callSite
	for _, c := range calls {
		if fileMutators[c.name] {
			writes = append(writes, c)
		}
	}
	gen := e.P.Func("internal/cmd/runner", "StepCodeGenerator.Run")
	if gen == nil {
		r.Undecide("R10.1", "internal/cmd/runner.StepCodeGenerator.Run", "anchor function not found")
	}
	var wHelper *ssa.Function
	okSite := false
	if gen != nil {
		_, _, _, wHelper, okSite = writeSite(gen)
	}
	for _, w := range writes {
		key := w.fnKey + " -> " + w.name
		if w.fn == wHelper && wHelper != nil && w.name == "os.WriteFile" {
			// the write helper of the code generator: only the generator may call it
			callers := 0
			for _, c := range calls {
				if c.ins.Common().StaticCallee() == wHelper && c.fn != gen {
					callers++
				}
			}
			r.Check(callers == 0, "R10.1", key, "the one file write (in the code generator's own write helper, which nothing else calls)", e.P.Pos(w.ins.Pos()))
			continue
		}
		if w.fn != gen {
			r.Violate("R10.1", key, "file-mutating call outside the code-generator step", nil, e.P.Pos(w.ins.Pos()))
			continue
		}
		if w.name != "os.WriteFile" {
			r.Undecide("R10.1", key, "file mutation through an API other than os.WriteFile: truncation/creation semantics are not reviewed for it", e.P.Pos(w.ins.Pos()))
			continue
		}
		r.Hold("R10.1", key, "the one file write", e.P.Pos(w.ins.Pos()))
	}
	if gen != nil && !okSite {
		r.Violate("R10.1", "internal/cmd/runner.StepCodeGenerator.Run#writes", "the code generator does not write the file through exactly one os.WriteFile (directly or in its own write helper)", nil)
	}
	if gen != nil && okSite {
		c10Write(e, gen)
	}

	// ---- R10.3
	c10Runner(e)

	// ---- R10.4
	ruleE(e, "R10.4")
	c10Amalgamated(e, "R10.4")
	c10Verbose(e)

	// ---- R10.5
	c10Exit(e, calls)

	// ---- R10.6 / R10.7
	c10RunE(e)
	c10Printing(e)

	// positive controls
	if ctl := e.Control("ctl", true); ctl != nil {
		dropped, mut := 0, 0
		for _, s := range ErrSites(ctl) {
			if s.Status == "dropped" {
				dropped++
			}
		}
		for _, c := range moduleCalls(ctl) {
			if fileMutators[c.name] {
				mut++
			}
		}
		if dropped >= 1 {
			r.Hold("R10.1-control", "fixtures/ctl#dropped-error", fmt.Sprintf("%d reported", dropped))
		} else {
			r.Undecide("R10.1-control", "fixtures/ctl#dropped-error", "seeded dropped error not reported")
		}
		if mut >= 1 {
			r.Hold("R10.1-control", "fixtures/ctl#file-mutation", fmt.Sprintf("%d reported", mut))
		} else {
			r.Undecide("R10.1-control", "fixtures/ctl#file-mutation", "seeded file mutation not reported")
		}
	}
	wiringC10(e)
	c10ReadConfig(e, "R10.9")
	r.Rule("R10.9", "failure paths of reading the configuration: a file is merged only after it was read and parsed successfully; no pattern, nothing processed and a file matched by two patterns are errors; the 'processed' flag is set only after a merge", 7)
	c09FindFiles(e, "R10.8")
	r.Rule("R10.8", "'a file matched by two patterns' is detected on cleaned paths: every matched path is filepath.Clean'ed before it is used as the bookkeeping key (shared with R09.3), so two spellings of one file are one key", 4)
	r.NotCovered = append(r.NotCovered,
		"atomicity of os.WriteFile under an I/O error in mid-write",
		"cobra's flag parsing and its own error printing (SilenceErrors/SilenceUsage are checked to be set)",
		"the texts of the diagnostics")
}

// findCalls returns the call instructions of fn (no closures) whose name matches.
func findCalls(fn *ssa.Function, name string, anon bool) []ssa.CallInstruction {
	var out []ssa.CallInstruction
	name = load.ResolveQualified(name)
	for _, c := range callsIn(fn, anon) {
		if callName(c.Common()) == name {
			out = append(out, c)
		}
	}
	return out
}

// ownerOfInvoke: when fn itself does not invoke `method` but exactly one helper of its package that it calls
// (directly, or a function literal it runs) does so exactly once, the loop logic lives there: the rules
// analyse that helper, provided fn hands the helper's error result on unchanged (returns it, or returns
// what a call of the module's join helper makes of it).
// stepCall: an invocation of a step, directly (x.Run(...)) or through a thin wrapper of the package
// (a closure or helper whose single block returns p.Run(...) for one of its parameters p).
type stepCall struct {
	c    ssa.CallInstruction
	recv ssa.Value // the step value in the caller
}

func thinInvokeWrapper(g *ssa.Function, method string) (int, bool) {
	if g == nil || len(g.Blocks) != 1 {
		return 0, false
	}
	var inv []ssa.CallInstruction
	for _, c := range callsIn(g, false) {
		if c.Common().IsInvoke() && (method == "" || c.Common().Method.Name() == method) {
			inv = append(inv, c)
		}
	}
	if len(inv) != 1 {
		return 0, false
	}
	ret, ok := g.Blocks[0].Instrs[len(g.Blocks[0].Instrs)-1].(*ssa.Return)
	if !ok || len(ret.Results) != 1 || ret.Results[0] != inv[0].Value() {
		return 0, false
	}
	for i, p := range g.Params {
		if inv[0].Common().Value == p {
			return i, true
		}
	}
	return 0, false
}

func stepCalls(fn *ssa.Function, method string) []stepCall {
	var out []stepCall
	for _, c := range callsIn(fn, false) {
		if c.Common().IsInvoke() {
			if method == "" || c.Common().Method.Name() == method {
				out = append(out, stepCall{c, c.Common().Value})
			}
			continue
		}
		var g *ssa.Function
		if sc := c.Common().StaticCallee(); sc != nil {
			g = sc
		} else if mc, ok := c.Common().Value.(*ssa.MakeClosure); ok {
			g, _ = mc.Fn.(*ssa.Function)
		}
		if g == nil || g == fn || rootFn(g).Pkg != fn.Pkg {
			continue
		}
		if i, ok := thinInvokeWrapper(g, method); ok && i < len(c.Common().Args) {
			out = append(out, stepCall{c, c.Common().Args[i]})
		}
	}
	return out
}

func ownerOfInvoke(fn *ssa.Function, method string) *ssa.Function {
	if len(stepCalls(fn, method)) > 0 {
		return fn
	}
	var owner *ssa.Function
	var site ssa.CallInstruction
	n := 0
	for _, c := range callsIn(fn, false) {
		var g *ssa.Function
		if sc := c.Common().StaticCallee(); sc != nil {
			g = sc
		} else if mc, ok := c.Common().Value.(*ssa.MakeClosure); ok {
			g, _ = mc.Fn.(*ssa.Function)
		}
		if g == nil || g == fn || len(g.Blocks) == 0 || rootFn(g).Pkg != fn.Pkg {
			continue
		}
		if len(findInvokes(g, method, false)) == 1 {
			owner, site = g, c
			n++
		}
	}
	if n != 1 || site.Value() == nil {
		return fn
	}
	// the helper's result reaches fn's result
	ts := taintFrom(fn, site.Value())
	for _, b := range fn.Blocks {
		if ret, ok := b.Instrs[len(b.Instrs)-1].(*ssa.Return); ok && b != fn.Recover {
			for _, rv := range ret.Results {
				if ts.has(rv) {
					return owner
				}
			}
		}
	}
	return fn
}

func findInvokes(fn *ssa.Function, method string, anon bool) []ssa.CallInstruction {
	var out []ssa.CallInstruction
	for _, c := range callsIn(fn, anon) {
		if c.Common().IsInvoke() && c.Common().Method.Name() == method {
			out = append(out, c)
		}
	}
	return out
}

// errOf returns the error-typed result value of a call (the call itself or its Extract).
func errOf(c ssa.CallInstruction) ssa.Value {
	v := c.Value()
	if v == nil {
		return nil
	}
	res := c.Common().Signature().Results()
	if res.Len() == 1 && isErrorType(res.At(0).Type()) {
		return v
	}
	for _, ref := range *v.Referrers() {
		if ex, ok := ref.(*ssa.Extract); ok && isErrorType(res.At(ex.Index).Type()) {
			return ex
		}
	}
	return nil
}

func extractOf(c ssa.CallInstruction, idx int) ssa.Value {
	v := c.Value()
	if v == nil {
		return nil
	}
	for _, ref := range *v.Referrers() {
		if ex, ok := ref.(*ssa.Extract); ok && ex.Index == idx {
			return ex
		}
	}
	return nil
}

// successEdge reports whether ins is only reachable when errv == nil was established
// by a branch on errv.
// errAliases: values that are the same error as errv — errv itself and the result of calling a function
// literal of fn all of whose returns return (an alias of) errv.
func errAliases(fn *ssa.Function, errv ssa.Value) map[ssa.Value]bool {
	al := map[ssa.Value]bool{errv: true}
	for round := 0; round < 3; round++ {
		allInstrs(fn, func(_ *ssa.Function, ins ssa.Instruction) {
			c, ok := ins.(*ssa.Call)
			if !ok || c.Call.IsInvoke() {
				return
			}
			var lit *ssa.Function
			switch f := c.Call.Value.(type) {
			case *ssa.MakeClosure:
				lit, _ = f.Fn.(*ssa.Function)
			case *ssa.Function:
				if f.Parent() != nil {
					lit = f
				}
			}
			if lit == nil || lit.Signature.Results().Len() != 1 {
				return
			}
			all, n := true, 0
			for _, b := range lit.Blocks {
				if b == lit.Recover {
					continue // the synthetic block of a function with defers; reached only after a recovered panic
				}
				if ret, ok := b.Instrs[len(b.Instrs)-1].(*ssa.Return); ok {
					n++
					rv := ret.Results[0]
					// a function with defers spills its result: `*t0 = v; rundefers; return *t0`
					if ld, ok := rv.(*ssa.UnOp); ok && ld.Op == token.MUL {
						if cell, ok := ld.X.(*ssa.Alloc); ok {
							stores, good := 0, 0
							for _, ref := range *cell.Referrers() {
								if st, ok := ref.(*ssa.Store); ok && st.Addr == cell {
									stores++
									if al[st.Val] {
										good++
									}
								}
							}
							if stores > 0 && stores == good {
								continue
							}
						}
					}
					if !al[rv] {
						all = false
					}
				}
			}
			if all && n > 0 {
				al[c] = true
			}
		})
		// a variable that holds either nil or the error (`var err error; for … && err == nil { err = step() }`):
		// it is non-nil exactly when the error it was last assigned is
		allInstrs(fn, func(_ *ssa.Function, ins ssa.Instruction) {
			phi, ok := ins.(*ssa.Phi)
			if !ok || !isErrorType(phi.Type()) {
				return
			}
			okPhi, some := true, false
			for _, ed := range phi.Edges {
				switch {
				case isNilConst(ed):
				case al[ed]:
					some = true
				default:
					okPhi = false
				}
			}
			if okPhi && some {
				al[phi] = true
			}
		})
	}
	return al
}

func successEdge(fn *ssa.Function, errv ssa.Value, ins ssa.Instruction) bool {
	aliases := errAliases(rootFn(fn), errv)
	for _, b := range fn.Blocks {
		iff, ok := b.Instrs[len(b.Instrs)-1].(*ssa.If)
		if !ok {
			continue
		}
		v, nonNilOnTrue, ok := nilTest(iff.Cond)
		if !ok || !aliases[v] {
			continue
		}
		// success = the edge where errv is nil
		if edgeDominates(b, !nonNilOnTrue, ins) {
			return true
		}
	}
	return false
}

func failureEdgeBlock(fn *ssa.Function, errv ssa.Value) (*ssa.BasicBlock, bool) {
	aliases := errAliases(rootFn(fn), errv)
	for _, b := range fn.Blocks {
		iff, ok := b.Instrs[len(b.Instrs)-1].(*ssa.If)
		if !ok {
			continue
		}
		v, nonNilOnTrue, ok := nilTest(iff.Cond)
		if !ok || !aliases[v] {
			continue
		}
		if nonNilOnTrue {
			return b.Succs[0], true
		}
		return b.Succs[1], true
	}
	return nil, false
}

// writeSite: the one place where the code generator writes the file — an os.WriteFile call in gen itself, or
// the call of a helper of the package (method or function) whose body is: one unconditional os.WriteFile
// of its own parameters, whose error it returns. Returns the call in gen that stands for the write and
// the path / data values as seen in gen.
func writeSite(gen *ssa.Function) (site ssa.CallInstruction, path, data ssa.Value, helper *ssa.Function, ok bool) {
	if ws := findCalls(gen, "os.WriteFile", false); len(ws) == 1 {
		return ws[0], ws[0].Common().Args[0], ws[0].Common().Args[1], nil, true
	} else if len(ws) > 1 {
		return nil, nil, nil, nil, false
	}
	n := 0
	for _, c := range callsIn(gen, false) {
		g := c.Common().StaticCallee()
		if g == nil || g.Pkg != gen.Pkg || len(g.Blocks) == 0 {
			continue
		}
		ws := findCalls(g, "os.WriteFile", false)
		if len(ws) != 1 || ws[0].Block() != g.Blocks[0] {
			continue
		}
		w := ws[0]
		// the helper returns the write's error on every path
		werr := errOf(w)
		al := errAliases(g, werr)
		okRet := werr != nil
		for _, b := range g.Blocks {
			if ret, isRet := b.Instrs[len(b.Instrs)-1].(*ssa.Return); isRet && b != g.Recover {
				if len(ret.Results) != 1 || !(al[ret.Results[0]] || isNilConst(ret.Results[0]) && successEdge(g, werr, ret)) {
					okRet = false
				}
			}
		}
		if !okRet {
			continue
		}
		// map the written path and data to the caller's values
		actual := func(v ssa.Value) ssa.Value {
			// through a string(...) / []byte(...) conversion of a parameter
			for i := 0; i < 3; i++ {
				switch x := v.(type) {
				case *ssa.Convert:
					v = x.X
					continue
				case *ssa.ChangeType:
					v = x.X
					continue
				}
				break
			}
			if prm, isP := v.(*ssa.Parameter); isP {
				for i, q := range g.Params {
					if q == prm && i < len(c.Common().Args) {
						return c.Common().Args[i]
					}
				}
			}
			// a field of the receiver: the same field read in gen (resolved by the caller through fieldLoads)
			return v
		}
		n++
		site, path, data, helper = c, actual(w.Common().Args[0]), actual(w.Common().Args[1]), g
	}
	return site, path, data, helper, n == 1
}

func c10Write(e *Env, gen *ssa.Function) {
	r := e.R
	key := "internal/cmd/runner.StepCodeGenerator.Run"
	w, wPath, wData, wHelper, _ := writeSite(gen)
	builds := findInvokes(gen, "Build", false)
	if len(builds) == 0 {
		// the build half lives in a helper of the package that returns builder.Build's results as they are
		for _, c := range callsIn(gen, false) {
			g := c.Common().StaticCallee()
			if g == nil || g.Pkg != gen.Pkg || len(g.Blocks) == 0 {
				continue
			}
			inv := findInvokes(g, "Build", false)
			if len(inv) != 1 {
				continue
			}
			okRet := true
			for _, gb := range g.Blocks {
				if ret, isRet := gb.Instrs[len(gb.Instrs)-1].(*ssa.Return); isRet && gb != g.Recover {
					if len(ret.Results) != 2 {
						okRet = false
						continue
					}
					e0, ok0 := ret.Results[0].(*ssa.Extract)
					e1, ok1 := ret.Results[1].(*ssa.Extract)
					if !ok0 || !ok1 || e0.Tuple != inv[0].Value() || e1.Tuple != inv[0].Value() || e0.Index != 0 || e1.Index != 1 {
						okRet = false
					}
				}
			}
			if okRet {
				builds = append(builds, c)
			}
		}
	}
	if len(builds) != 1 {
		r.Undecide("R10.2", key+"#build", fmt.Sprintf("%d calls of builder.Build, expected 1", len(builds)))
		return
	}
	b := builds[0]
	berr := errOf(b)
	bout := extractOf(b, 0)
	if berr == nil || bout == nil {
		r.Undecide("R10.2", key+"#build", "results of Build are not both used")
		return
	}
	pos := e.P.Pos(w.Pos())
	r.Check(successEdge(gen, berr, w), "R10.2", key+"#write-after-build-success",
		"os.WriteFile must be reachable only through the err == nil edge of builder.Build", pos)
	ts := taintFrom(gen, bout)
	r.Check(ts.has(wData), "R10.2", key+"#write-data-is-build-result",
		"the bytes written must derive from the first result of builder.Build", pos)
	// path derives from the receiver's outputFile field
	var fieldLoads []ssa.Value
	for _, blk := range gen.Blocks {
		for _, ins := range blk.Instrs {
			if fa, ok := ins.(*ssa.FieldAddr); ok {
				if st, ok := fa.X.Type().Underlying().(*types.Pointer); ok {
					if _, ok := st.Elem().Underlying().(*types.Struct); ok && fieldName(fa) == "outputFile" {
						for _, ref := range *fa.Referrers() {
							if u, ok := ref.(*ssa.UnOp); ok && u.Op == token.MUL {
								fieldLoads = append(fieldLoads, u)
							}
						}
					}
				}
			}
		}
	}
	// when the write lives in a method helper the path may be read from the receiver's field there
	if wHelper != nil {
		for _, blk := range wHelper.Blocks {
			for _, ins := range blk.Instrs {
				if fa, ok := ins.(*ssa.FieldAddr); ok && fieldName(fa) == "outputFile" {
					for _, ref := range *fa.Referrers() {
						if u, ok := ref.(*ssa.UnOp); ok && u.Op == token.MUL {
							fieldLoads = append(fieldLoads, u)
						}
					}
				}
			}
		}
	}
	pt := taintFrom(gen, fieldLoads...)
	okPath := pt.has(wPath)
	if wHelper != nil && taintFrom(wHelper, fieldLoads...).has(wPath) {
		okPath = true
	}
	for _, fl := range fieldLoads {
		if wPath == fl {
			okPath = true
		}
	}
	// and from nothing else: walk back through pure string functions
	src := wPath
	for i := 0; i < 5; i++ {
		if c, ok := src.(*ssa.Call); ok && len(c.Call.Args) == 1 && strings.HasPrefix(callName(&c.Call), "path/filepath.") {
			src = c.Call.Args[0]
			continue
		}
		break
	}
	direct := false
	for _, fl := range fieldLoads {
		if src == fl {
			direct = true
		}
	}
	r.Check(okPath && direct, "R10.1", key+"#write-path-is-outputFile",
		"the path written must be the step's outputFile field (through path/filepath cleaning only)", pos)
	// return nil only after a successful write
	werr := errOf(w)
	for _, blk := range gen.Blocks {
		for _, ins := range blk.Instrs {
			ret, ok := ins.(*ssa.Return)
			if !ok || len(ret.Results) != 1 {
				continue
			}
			if isNilConst(ret.Results[0]) {
				ok := werr != nil && successEdge(gen, werr, ret)
				r.Check(ok, "R10.2", key+"#nil-return-after-write-success",
					"a nil return of the code-generator step must lie behind the err == nil edge of the file write", e.P.Pos(ret.Pos()))
			}
		}
	}
	// nothing else may fail silently: the constructor keeps the field
	if nf := e.P.Func("internal/cmd/runner", "NewStepCodeGenerator"); nf != nil {
		okStore := false
		for _, blk := range nf.Blocks {
			for _, ins := range blk.Instrs {
				if st, ok := ins.(*ssa.Store); ok {
					if fa, ok := st.Addr.(*ssa.FieldAddr); ok {
						if _, ok := fa.X.Type().Underlying().(*types.Pointer).Elem().Underlying().(*types.Struct); ok && fieldName(fa) == "outputFile" {
							if prm, ok := st.Val.(*ssa.Parameter); ok && prm.Name() == "outputFile" {
								okStore = true
							}
						}
					}
				}
			}
		}
		r.Check(okStore, "R10.1", "internal/cmd/runner.NewStepCodeGenerator#outputFile", "the constructor stores its outputFile parameter unchanged")
	}
}

// stepLoopRule checks "leave the loop at the first failure" for a function that
// invokes method on each element of a slice field.
func stepLoopRule(e *Env, rule, rel, name, method string) {
	r := e.R
	key := rel + "." + name
	fn := e.P.Func(rel, name)
	if fn == nil {
		r.Undecide(rule, key, "anchor function not found")
		return
	}
	fn = ownerOfInvoke(fn, method)
	inv := stepCalls(fn, method)
	if len(inv) != 1 {
		r.Undecide(rule, key, fmt.Sprintf("%d invocations of %s, expected 1", len(inv), method))
		return
	}
	c := inv[0].c
	errv := errOf(c)
	if errv == nil {
		r.Violate(rule, key+"#result-used", "the step's error is discarded", nil, e.P.Pos(c.Pos()))
		return
	}
	// the call is inside a loop
	inLoop := reach(c.Block(), false)[c.Block()]
	r.Check(inLoop, rule, key+"#loop", "the step invocation is inside the loop over the steps", e.P.Pos(c.Pos()))
	fb, ok := failureEdgeBlock(fn, errv)
	if !ok {
		r.Violate(rule, key+"#first-failure", "no branch on the step's error: a failing step does not stop the run", nil, e.P.Pos(c.Pos()))
		return
	}
	after := reach(fb, true)
	r.Check(!after[c.Block()], rule, key+"#first-failure",
		"after a step failed, no further step may run (the failure edge must not lead back to the loop)", e.P.Pos(c.Pos()))
	ts := taintFrom(fn, errv)
	for _, blk := range fn.Blocks {
		for _, ins := range blk.Instrs {
			ret, ok := ins.(*ssa.Return)
			if !ok {
				continue
			}
			ev := ret.Results[len(ret.Results)-1]
			if after[blk] {
				r.Check(ts.has(ev), rule, key+"#failure-returns-error", "the return on the failure path must carry the failing step's error", e.P.Pos(ret.Pos()))
			} else {
				r.Check(isNilConst(ev) || ts.has(ev), rule, key+"#success-return", "outside the failure path the function returns nil", e.P.Pos(ret.Pos()))
				// nil return must not be inside the loop
				r.Check(!reach(blk, true)[c.Block()], rule, key+"#nil-after-loop", "nil is returned only after all steps ran", e.P.Pos(ret.Pos()))
			}
		}
	}
	// range over the whole slice from index 0 upward
	c10RangeAll(e, rule, rel, name)
}

// c10RangeAll: the loop invoking steps is `for _, x := range <field>` (AST), i.e. every element, in order.
func c10RangeAll(e *Env, rule, rel, name string) {
	key := rel + "." + name
	fn := e.P.Func(rel, name)
	if fn == nil {
		e.R.Undecide(rule, key+"#range", "function not found")
		return
	}
	fn = ownerOfInvoke(fn, "Run")
	// the invoked step is steps[i] with i walking the whole slice upwards from 0 (a range statement, or a
	// counted loop i := 0; i < len(steps); i++), steps being the receiver's field (directly or via a local)
	found := false
	for _, sc := range stepCalls(fn, "") {
		c := sc.c
		ld, ok := sc.recv.(*ssa.UnOp)
		if !ok {
			continue
		}
		ia, ok := ld.X.(*ssa.IndexAddr)
		if !ok {
			continue
		}
		x := ia.X
		// through a local copy of the slice
		fromSteps := derivesFromField(x, "steps", 0)
		if prm, isP := x.(*ssa.Parameter); isP && !fromSteps {
			// the helper receives the slice: the caller passes the steps field
			if orig := e.P.Func(rel, name); orig != nil {
				for _, c := range callsIn(orig, false) {
					if c.Common().StaticCallee() == fn {
						for i, q := range fn.Params {
							if q == prm && i < len(c.Common().Args) && derivesFromField(c.Common().Args[i], "steps", 0) {
								fromSteps = true
							}
						}
					}
				}
			}
		}
		if !fromSteps {
			if l2, ok := x.(*ssa.UnOp); ok {
				if al, ok := l2.X.(*ssa.Alloc); ok {
					for _, ref := range *al.Referrers() {
						if st, ok := ref.(*ssa.Store); ok && st.Addr == al && derivesFromField(st.Val, "steps", 0) {
							fromSteps = true
						}
					}
				}
			}
		}
		if !fromSteps {
			continue
		}
		if src, ok := rangeIndexOf(ia.Index); ok && (src == x || sameLoad(src, x)) {
			found = true
		}
		if _, ok := countedLoopIndex(fn, x, ia.Index, c); ok {
			if phi, isPhi := ia.Index.(*ssa.Phi); isPhi {
				for _, ed := range phi.Edges {
					if k, isK := constInt(ed); isK && k == 0 {
						found = true
					}
				}
			}
		}
	}
	e.R.Check(found, rule, key+"#range", "the steps are visited in slice order from the first to the last (a range over the steps field, or a counted loop over it)", e.P.Pos(fn.Pos()))
}

func ctorKeepsVariadic(e *Env, rule, rel, ctor, field string) {
	fn := e.P.Func(rel, ctor)
	key := rel + "." + ctor + "#" + field
	if fn == nil {
		e.R.Undecide(rule, key, "constructor not found")
		return
	}
	ok := false
	for _, blk := range fn.Blocks {
		for _, ins := range blk.Instrs {
			if st, isSt := ins.(*ssa.Store); isSt {
				if fa, isFa := st.Addr.(*ssa.FieldAddr); isFa {
					if s, isS := fa.X.Type().Underlying().(*types.Pointer).Elem().Underlying().(*types.Struct); isS && s.Field(fa.Field).Name() == field {
						if prm, isP := st.Val.(*ssa.Parameter); isP && fn.Signature.Variadic() && prm == fn.Params[len(fn.Params)-1] {
							ok = true
						}
					}
				}
			}
		}
	}
	e.R.Check(ok, rule, key, "the constructor stores its variadic parameter in the field unchanged (same elements, same order)")
}

func c10Runner(e *Env) {
	stepLoopRule(e, "R10.3", "internal/cmd/runner", "Runner.Run", "Run")
	ctorKeepsVariadic(e, "R10.3", "internal/cmd/runner", "NewRunner", "steps")
}

func c10Amalgamated(e *Env, rule string) {
	r := e.R
	key := "internal/cmd/runner.StepAmalgamated.Run"
	fn := e.P.Func("internal/cmd/runner", "StepAmalgamated.Run")
	if fn == nil {
		r.Undecide(rule, key, "anchor function not found")
		return
	}
	fn = ownerOfInvoke(fn, "Run")
	inv := findInvokes(fn, "Run", false)
	if len(inv) != 1 {
		r.Undecide(rule, key, fmt.Sprintf("%d invocations of Run, expected 1", len(inv)))
		return
	}
	c := inv[0]
	// loop blocks = blocks that can reach the call and are reachable from it
	fromCall := reach(c.Block(), false)
	ok := fromCall[c.Block()]
	for _, blk := range fn.Blocks {
		if fromCall[blk] && reach(blk, false)[c.Block()] {
			for _, ins := range blk.Instrs {
				if _, isRet := ins.(*ssa.Return); isRet {
					ok = false
				}
			}
			// the only conditional in the loop is the range condition
			if iff, isIf := blk.Instrs[len(blk.Instrs)-1].(*ssa.If); isIf {
				if bo, isB := iff.Cond.(*ssa.BinOp); !isB || bo.Op != token.LSS {
					ok = false
				}
			}
		}
	}
	r.Check(ok, rule, key+"#runs-every-step", "every sub-step runs: no return and no conditional exit inside the loop", e.P.Pos(c.Pos()))
	c10RangeAll(e, rule, "internal/cmd/runner", "StepAmalgamated.Run")
	ctorKeepsVariadic(e, rule, "internal/cmd/runner", "NewStepAmalgamated", "steps")
}

func c10Verbose(e *Env) {
	r := e.R
	key := "internal/cmd/runner.StepVerboseSwitchable.Run"
	fn := e.P.Func("internal/cmd/runner", "StepVerboseSwitchable.Run")
	if fn == nil {
		r.Undecide("R10.4", key, "anchor function not found")
		return
	}
	inv := findInvokes(fn, "Run", true)
	if len(inv) == 0 {
		// the decorated step is run by a helper of the package (runParent) that returns its error unchanged
		for _, c := range callsIn(fn, true) {
			g := c.Common().StaticCallee()
			if g == nil || g.Pkg != fn.Pkg || len(g.Blocks) == 0 || errOf(c) == nil {
				continue
			}
			gi := findInvokes(g, "Run", true)
			if len(gi) != 1 || errOf(gi[0]) == nil {
				continue
			}
			al := errAliases(g, errOf(gi[0]))
			okRet := true
			for _, gb := range g.Blocks {
				if ret, isRet := gb.Instrs[len(gb.Instrs)-1].(*ssa.Return); isRet && gb != g.Recover {
					if len(ret.Results) != 1 || !al[ret.Results[0]] {
						// a function with defers spills its result into a cell
						if ld, isLd := ret.Results[0].(*ssa.UnOp); isLd {
							if cell, isAl := ld.X.(*ssa.Alloc); isAl {
								good := false
								for _, ref := range *cell.Referrers() {
									if st, isSt := ref.(*ssa.Store); isSt && st.Addr == cell && al[st.Val] {
										good = true
									}
								}
								if good {
									continue
								}
							}
						}
						okRet = false
					}
				}
			}
			if okRet {
				inv = append(inv, c)
			}
		}
	}
	if len(inv) != 1 {
		r.Undecide("R10.4", key, fmt.Sprintf("%d invocations of parent.Run, expected 1", len(inv)))
		return
	}
	perr := errOf(inv[0])
	if perr == nil {
		r.Violate("R10.4", key+"#parent-error", "the decorated step's error is discarded", nil, e.P.Pos(inv[0].Pos()))
		return
	}
	ts := taintFrom(fn, perr)
	// every return that is not the inactive early exit returns exactly the parent's error (not re-wrapped, not replaced)
	nRet := 0
	for _, blk := range fn.Blocks {
		for _, ins := range blk.Instrs {
			ret, ok := ins.(*ssa.Return)
			if !ok {
				continue
			}
			nRet++
			v := ret.Results[0]
			if isNilConst(v) {
				// must be the inactive path: dominated by a test of the active field
				ok := dominatedByFieldTest(fn, ret, "active") || successEdge(fn, perr, ret) || successEdgeViaCell(fn, perr, ret)
				r.Check(ok, "R10.4", key+"#nil-return-only-when-inactive", "a nil return must be guarded by the active flag being false (or by the decorated step's error being nil)", e.P.Pos(ret.Pos()))
				continue
			}
			direct := ts.has(v) && !passesThroughCall(v, ts)
			r.Check(direct, "R10.4", key+"#returns-parent-error", "the active path returns the decorated step's error unchanged", e.P.Pos(ret.Pos()))
		}
	}
	// R10.6 count
	coll := findCalls(fn, load.RuntimeMod+"/grouperror.Collection", true)
	okc, okEdge := false, false
	fb, hasFb := failureEdgeBlock(fn, perr)
	for _, c := range coll {
		if ts.has(c.Common().Args[0]) {
			okc = true
			if hasFb && len(fb.Preds) == 1 && fb.Dominates(c.Block()) || failureEdgeViaCell(fn, perr, c) {
				okEdge = true
			}
		}
	}
	r.Check(okc, "R10.6", key+"#count", "the printed error count is len(grouperror.Collection(<the error that is returned>))")
	r.Check(okEdge, "R10.6", key+"#count-on-failure", "the count is reported on the failure edge of the decorated step's error (a failing step is not announced as passed, a passing one not as failed with 0 errors)")
}

func passesThroughCall(v ssa.Value, ts *taintSet) bool {
	seen := map[ssa.Value]bool{}
	var walk func(v ssa.Value) bool
	walk = func(v ssa.Value) bool {
		if seen[v] {
			return false
		}
		seen[v] = true
		switch x := v.(type) {
		case *ssa.Call:
			// the source itself (parent.Run) is an invoke whose result is the taint root
			for _, a := range x.Call.Args {
				if ts.has(a) {
					return true
				}
			}
			return false
		case *ssa.Phi:
			for _, ed := range x.Edges {
				if walk(ed) {
					return true
				}
			}
		case *ssa.UnOp:
			return false
		case *ssa.MakeInterface:
			return walk(x.X)
		case *ssa.ChangeInterface:
			return walk(x.X)
		}
		return false
	}
	return walk(v)
}

// dominatedByFieldTest: ret is reachable only through a branch whose condition is a
// (possibly negated) load of the receiver field with that name.
func dominatedByFieldTest(fn *ssa.Function, ins ssa.Instruction, field string) bool {
	for _, b := range fn.Blocks {
		iff, ok := b.Instrs[len(b.Instrs)-1].(*ssa.If)
		if !ok {
			continue
		}
		cond := iff.Cond
		neg := false
		if u, ok := cond.(*ssa.UnOp); ok && u.Op == token.NOT {
			cond, neg = u.X, true
		}
		ld, ok := cond.(*ssa.UnOp)
		if !ok || ld.Op != token.MUL {
			continue
		}
		fa, ok := ld.X.(*ssa.FieldAddr)
		if !ok {
			continue
		}
		s, ok := fa.X.Type().Underlying().(*types.Pointer).Elem().Underlying().(*types.Struct)
		if !ok || s.Field(fa.Field).Name() != field {
			continue
		}
		// inactive edge: field false
		if edgeDominates(b, neg, ins) {
			return true
		}
	}
	return false
}

func c10Exit(e *Env, calls []callSite) {
	r := e.R
	mainFn := e.P.Func(".", "main")
	n := 0
	for _, c := range calls {
		switch {
		case c.name == "os.Exit":
			n++
			key := c.fnKey + " -> os.Exit"
			pos := e.P.Pos(c.ins.Pos())
			if c.fn != mainFn {
				r.Violate("R10.5", key, "os.Exit outside main.main", nil, pos)
				continue
			}
			code, isConst := constInt(c.ins.Common().Args[0])
			if !isConst || code != 1 {
				r.Violate("R10.5", key+"#code", "exit code is not the constant 1", nil, pos)
				continue
			}
			ex := findCalls(mainFn, "github.com/spf13/cobra.(Command).Execute", false)
			ok := len(ex) == 1 && errOf(ex[0]) != nil
			if ok {
				fb, has := failureEdgeBlock(mainFn, errOf(ex[0]))
				ok = has && len(fb.Preds) == 1 && fb.Dominates(c.ins.Block())
			}
			if len(ex) == 0 {
				// main delegates to run() error, whose every return is the result of rootCmd.Execute()
				for _, hc := range callsIn(mainFn, false) {
					g := hc.Common().StaticCallee()
					if g == nil || g.Pkg != mainFn.Pkg || errOf(hc) == nil {
						continue
					}
					gex := findCalls(g, "github.com/spf13/cobra.(Command).Execute", false)
					if len(gex) != 1 {
						continue
					}
					allExec := true
					for _, gb := range g.Blocks {
						if gret, isRet := gb.Instrs[len(gb.Instrs)-1].(*ssa.Return); isRet {
							if len(gret.Results) != 1 || gret.Results[0] != gex[0].Value() {
								allExec = false
							}
						}
					}
					if !allExec {
						continue
					}
					fb, has := failureEdgeBlock(mainFn, errOf(hc))
					ok = has && len(fb.Preds) == 1 && fb.Dominates(c.ins.Block())
				}
			}
			r.Check(ok, "R10.5", key, "os.Exit(1) is reached exactly when rootCmd.Execute() returned an error", pos)
		case strings.HasPrefix(c.name, "log.Fatal") || strings.HasPrefix(c.name, "log.Panic") || strings.HasPrefix(c.name, "log.(Logger).Fatal"):
			r.Violate("R10.5", c.fnKey+" -> "+c.name, "process exit through package log", nil, e.P.Pos(c.ins.Pos()))
		case c.name == "runtime.Goexit" || c.name == "syscall.Exit":
			r.Violate("R10.5", c.fnKey+" -> "+c.name, "process/goroutine exit outside main", nil, e.P.Pos(c.ins.Pos()))
		}
	}
	if n == 0 {
		r.Violate("R10.5", "main.main -> os.Exit", "no os.Exit call: a failing build would exit 0", nil)
	}
	// main: nothing after a successful Execute may exit non-zero, and Execute's error is tested
	if mainFn == nil {
		r.Undecide("R10.5", "main.main", "anchor not found")
	}
	// cobra command settings
	fd, pk := e.P.Decl("internal/cmd", "NewBuildCmd")
	if fd == nil {
		r.Undecide("R10.5", "internal/cmd.NewBuildCmd", "anchor not found")
		return
	}
	want := map[string]bool{"SilenceUsage": false, "SilenceErrors": false}
	ast.Inspect(fd.Body, func(n ast.Node) bool {
		kv, ok := n.(*ast.KeyValueExpr)
		if !ok {
			return true
		}
		if id, ok := kv.Key.(*ast.Ident); ok {
			if _, w := want[id.Name]; w {
				if tv, ok := pk.TypesInfo.Types[kv.Value]; ok && tv.Value != nil && tv.Value.String() == "true" {
					want[id.Name] = true
				}
			}
		}
		return true
	})
	for k, v := range want {
		r.Check(v, "R10.7", "internal/cmd.NewBuildCmd#"+k, "cobra must not print usage or errors itself (it would bypass --quiet and the numbered list)")
	}
}

// runEClosure finds the function literal assigned to the RunE field in NewBuildCmd.
func runEClosure(e *Env) *ssa.Function {
	nb := e.P.Func("internal/cmd", "NewBuildCmd")
	if nb == nil {
		return nil
	}
	for _, blk := range nb.Blocks {
		for _, ins := range blk.Instrs {
			st, ok := ins.(*ssa.Store)
			if !ok {
				continue
			}
			fa, ok := st.Addr.(*ssa.FieldAddr)
			if !ok {
				continue
			}
			s, ok := fa.X.Type().Underlying().(*types.Pointer).Elem().Underlying().(*types.Struct)
			if !ok || s.Field(fa.Field).Name() != "RunE" {
				continue
			}
			if mc, ok := st.Val.(*ssa.MakeClosure); ok {
				return mc.Fn.(*ssa.Function)
			}
			if f, ok := st.Val.(*ssa.Function); ok {
				return f
			}
		}
	}
	return nil
}

func c10RunE(e *Env) {
	r := e.R
	key := "internal/cmd.NewBuildCmd$RunE"
	fn := runEClosure(e)
	if fn == nil {
		r.Undecide("R10.5", key, "RunE closure not found")
		return
	}
	runs := findCalls(fn, e.P.ModPath+"/internal/cmd/runner.(Runner).Run", false)
	if len(runs) != 1 {
		r.Undecide("R10.5", key+"#run", fmt.Sprintf("%d calls of Runner.Run, expected 1", len(runs)))
		return
	}
	rerr := errOf(runs[0])
	if rerr == nil {
		r.Violate("R10.5", key+"#run", "the runner's error is discarded", nil, e.P.Pos(runs[0].Pos()))
		return
	}
	ts := taintFrom(fn, rerr)
	for _, blk := range fn.Blocks {
		for _, ins := range blk.Instrs {
			ret, ok := ins.(*ssa.Return)
			if !ok {
				continue
			}
			v := ret.Results[0]
			if isNilConst(v) {
				r.Check(successEdge(fn, rerr, ret), "R10.5", key+"#nil-iff-success", "RunE returns nil only when runner.Run returned nil", e.P.Pos(ret.Pos()))
			} else {
				r.Check(ts.has(v), "R10.5", key+"#error-iff-failure", "RunE returns the runner's error (so main exits 1)", e.P.Pos(ret.Pos()))
				// through a helper of the package (return report(out, err)): the helper returns nil only for a nil error
				if c, isCall := v.(*ssa.Call); isCall && v != rerr && ssa.Value(c) != runs[0].Value() {
					if g := c.Call.StaticCallee(); g != nil && e.P.InModule(g) && len(g.Blocks) > 0 {
						pi := -1
						for i, a := range c.Call.Args {
							if a == rerr && i < len(g.Params) {
								pi = i
							}
						}
						if pi < 0 {
							r.Undecide("R10.5", key+"#error-iff-failure-through-helper", "the runner's error reaches the result through "+e.P.FuncKey(g)+", which does not receive it as a parameter", e.P.Pos(ret.Pos()))
						} else {
							okH := true
							gts := taintFrom(g, g.Params[pi])
							for _, gb := range g.Blocks {
								gret, isRet := gb.Instrs[len(gb.Instrs)-1].(*ssa.Return)
								if !isRet || len(gret.Results) == 0 {
									continue
								}
								gv := gret.Results[len(gret.Results)-1]
								if isNilConst(gv) {
									if !successEdge(g, g.Params[pi], gret) {
										okH = false
									}
								} else if !gts.has(gv) {
									okH = false
								}
							}
							r.Check(okH, "R10.5", key+"#error-iff-failure-through-helper", "the helper "+e.P.FuncKey(g)+" returns nil only behind its error parameter being nil, and that error otherwise (an exit status that depends on --quiet or on the writer is wrong)", e.P.Pos(ret.Pos()))
						}
					}
				}
			}
		}
	}
	// the runner is the one built from the payload
	br := findCalls(fn, e.P.ModPath+"/internal/cmd.buildRunner", false)
	r.Check(len(br) == 1 && runs[0].Common().Args[0] == br[0].Value(), "R10.5", key+"#runner", "RunE runs the runner returned by buildRunner")

	// R10.6 list — printed by RunE itself or by a helper of its package that receives the runner's error
	lfn, lts := fn, ts
	var helperCall ssa.CallInstruction
	if len(findCalls(fn, load.RuntimeMod+"/grouperror.Collection", false)) == 0 {
		for _, c := range callsIn(fn, false) {
			g := c.Common().StaticCallee()
			if g == nil || g.Pkg != fn.Pkg && rootFn(fn).Pkg != g.Pkg || len(g.Blocks) == 0 {
				continue
			}
			if len(findCalls(g, load.RuntimeMod+"/grouperror.Collection", false)) != 1 {
				continue
			}
			var seeds []ssa.Value
			for i, a := range c.Common().Args {
				if ts.has(a) && i < len(g.Params) {
					seeds = append(seeds, g.Params[i])
				}
			}
			if len(seeds) > 0 {
				lfn, lts, helperCall = g, taintFrom(g, seeds...), c
			}
		}
	}
	c10List(e, key, lfn, lts)

	// R10.7: writer discipline
	var outv ssa.Value
	var printers []ssa.CallInstruction
	printers = append(printers, callsIn(fn, false)...)
	if helperCall != nil {
		printers = append(printers, callsIn(lfn, false)...)
	}
	for _, c := range printers {
		n := callName(c.Common())
		if strings.HasPrefix(n, "github.com/fatih/color.(Color).Fprint") {
			w := c.Common().Args[1]
			if prm, isP := w.(*ssa.Parameter); isP && helperCall != nil && prm.Parent() == lfn {
				for i, gp := range lfn.Params {
					if gp == prm && i < len(helperCall.Common().Args) {
						w = helperCall.Common().Args[i]
					}
				}
			}
			if outv == nil {
				outv = w
			} else if outv != w {
				r.Violate("R10.7", key+"#single-writer", "the error list is printed to different writers", nil, e.P.Pos(c.Pos()))
			}
		}
		if strings.HasPrefix(n, "github.com/fatih/color.(Color).Print") || strings.HasPrefix(n, "github.com/fatih/color.(Color).Sprint") && false {
			r.Violate("R10.7", key+"#stdout-print", "color.Print* writes to stdout regardless of --quiet", nil, e.P.Pos(c.Pos()))
		}
	}
	if outv == nil {
		r.Undecide("R10.7", key+"#writer", "no Fprint of the error list found")
		return
	}
	r.Check(quietWriter(fn, outv), "R10.7", key+"#quiet-writer", "the writer is io.Discard on every path on which the quiet flag is set")
	r.Check(loudWriter(fn, outv), "R10.7", key+"#loud-writer", "without --quiet the writer is the command's output stream (cmd.OutOrStdout / OutOrStderr or os.Stdout / os.Stderr): the numbered error list is printed")
	// payload.writer is the same value
	okPayload := false
	for _, blk := range fn.Blocks {
		for _, ins := range blk.Instrs {
			if st, ok := ins.(*ssa.Store); ok {
				if fa, ok := st.Addr.(*ssa.FieldAddr); ok {
					if _, ok := fa.X.Type().Underlying().(*types.Pointer).Elem().Underlying().(*types.Struct); ok && fieldName(fa) == "writer" {
						okPayload = st.Val == outv
					}
				}
			}
		}
	}
	r.Check(okPayload, "R10.7", key+"#payload-writer", "runnerPayload.writer is the same quiet-switched writer")
}

// c10List: the numbered list is grouperror.Collection of the runner's error, every element is printed,
// numbered index+1, in a loop without further conditions. lfn is RunE or the helper that prints.
func c10List(e *Env, key string, lfn *ssa.Function, lts *taintSet) {
	r := e.R
	coll := findCalls(lfn, load.RuntimeMod+"/grouperror.Collection", false)
	if len(coll) != 1 || !lts.has(coll[0].Common().Args[0]) {
		r.Violate("R10.6", key+"#list", "the numbered list is not grouperror.Collection of the runner's error", nil)
	} else {
		cv := coll[0].Value()
		r.Hold("R10.6", key+"#list", "list = grouperror.Collection(err)", e.P.Pos(coll[0].Pos()))
		// loop over cv: blocks between; no conditional other than the range condition; every element printed
		var elemLoads []ssa.Value
		var loopBlocks []*ssa.BasicBlock
		for _, blk := range lfn.Blocks {
			for _, ins := range blk.Instrs {
				if ia, ok := ins.(*ssa.IndexAddr); ok && ia.X == cv {
					for _, ref := range *ia.Referrers() {
						if u, ok := ref.(*ssa.UnOp); ok {
							elemLoads = append(elemLoads, u)
						}
					}
					// number printed = index + 1
					_ = ia
				}
			}
		}
		if len(elemLoads) == 0 {
			r.Violate("R10.6", key+"#list-loop", "no loop over the collected errors", nil)
		} else {
			body := elemLoads[0].(*ssa.UnOp).Block()
			for _, blk := range lfn.Blocks {
				if reach(body, true)[blk] && reach(blk, false)[body] {
					loopBlocks = append(loopBlocks, blk)
				}
			}
			cond := 0
			for _, blk := range loopBlocks {
				if _, ok := blk.Instrs[len(blk.Instrs)-1].(*ssa.If); ok {
					cond++
				}
			}
			r.Check(cond == 1, "R10.6", key+"#list-loop-prints-every-error", "the list loop has no conditional besides the range condition (no error is skipped or merged)", e.P.Pos(elemLoads[0].Pos()))
			// the element is printed, and the number printed is index+1
			et := taintFrom(lfn, elemLoads...)
			printed, numbered := false, false
			for _, c := range callsIn(lfn, false) {
				n := callName(c.Common())
				if !strings.HasPrefix(n, "github.com/fatih/color.(Color).Fprint") {
					continue
				}
				inLoop := false
				for _, lb := range loopBlocks {
					if lb == c.Block() {
						inLoop = true
					}
				}
				if !inLoop {
					continue
				}
				for _, a := range c.Common().Args[1:] {
					if et.has(a) {
						printed = true
					}
					if variadicHasIndexPlusOne(a) {
						numbered = true
					}
				}
			}
			r.Check(printed, "R10.6", key+"#list-prints-element", "each collected error is printed")
			r.Check(numbered, "R10.6", key+"#list-numbering", "entries are numbered index+1")
		}
	}

}

func variadicHasIndexPlusOne(sl ssa.Value) bool {
	s, ok := sl.(*ssa.Slice)
	if !ok {
		return false
	}
	al, ok := s.X.(*ssa.Alloc)
	if !ok {
		return false
	}
	for _, ref := range *al.Referrers() {
		ia, ok := ref.(*ssa.IndexAddr)
		if !ok {
			continue
		}
		for _, r2 := range *ia.Referrers() {
			st, ok := r2.(*ssa.Store)
			if !ok {
				continue
			}
			v := unwrap(st.Val)
			if bo, ok := v.(*ssa.BinOp); ok && bo.Op == token.ADD {
				if c, ok := constInt(bo.Y); ok && c == 1 {
					if _, isIdx := bo.X.(*ssa.BinOp); isIdx { // rangeindex t+1
						return true
					}
					if _, isPhi := bo.X.(*ssa.Phi); isPhi {
						return true
					}
				}
			}
		}
	}
	return false
}

// quietWriter: v is phi(io.Discard, X) where the X edge is taken only when quiet is false,
// or a direct load of io.Discard.
func quietWriter(fn *ssa.Function, v ssa.Value) bool {
	isDiscard := func(x ssa.Value) bool {
		u, ok := x.(*ssa.UnOp)
		if !ok || u.Op != token.MUL {
			return false
		}
		g, ok := u.X.(*ssa.Global)
		return ok && g.Name() == "Discard" && g.Pkg.Pkg.Path() == "io"
	}
	phi, ok := v.(*ssa.Phi)
	if !ok {
		return isDiscard(v)
	}
	for i, ed := range phi.Edges {
		if isDiscard(ed) {
			continue
		}
		// the predecessor supplying this edge must be reachable only when quiet is false
		pred := phi.Block().Preds[i]
		if !onlyWhenFlagFalse(fn, pred, "quiet") {
			return false
		}
	}
	return true
}

// loudWriter: v has an edge that is the command's output stream and that edge is taken when quiet is false.
func loudWriter(fn *ssa.Function, v ssa.Value) bool {
	isStream := func(x ssa.Value) bool {
		x = unwrap(x)
		if c, ok := x.(*ssa.Call); ok {
			n := callName(&c.Call)
			return strings.HasSuffix(n, "cobra.(Command).OutOrStdout") || strings.HasSuffix(n, "cobra.(Command).OutOrStderr") || strings.HasSuffix(n, "cobra.(Command).ErrOrStderr")
		}
		if u, ok := x.(*ssa.UnOp); ok && u.Op == token.MUL {
			if g, ok := u.X.(*ssa.Global); ok && g.Pkg.Pkg.Path() == "os" && (g.Name() == "Stdout" || g.Name() == "Stderr") {
				return true
			}
		}
		return false
	}
	phi, ok := v.(*ssa.Phi)
	if !ok {
		return false
	}
	for i, ed := range phi.Edges {
		if isStream(ed) && onlyWhenFlagFalse(fn, phi.Block().Preds[i], "quiet") {
			return true
		}
	}
	return false
}

// onlyWhenFlagFalse: block b is dominated by the false edge of a branch on the captured variable.
func onlyWhenFlagFalse(fn *ssa.Function, b *ssa.BasicBlock, flag string) bool {
	for _, blk := range fn.Blocks {
		iff, ok := blk.Instrs[len(blk.Instrs)-1].(*ssa.If)
		if !ok {
			continue
		}
		cond := iff.Cond
		neg := false
		if u, ok := cond.(*ssa.UnOp); ok && u.Op == token.NOT {
			cond, neg = u.X, true
		}
		ld, ok := cond.(*ssa.UnOp)
		if !ok || ld.Op != token.MUL {
			continue
		}
		fv, ok := ld.X.(*ssa.FreeVar)
		if !ok || fv.Name() != flag {
			continue
		}
		// edge where flag is false: succs[1] if cond is flag, succs[0] if cond is !flag
		s := blk.Succs[1]
		if neg {
			s = blk.Succs[0]
		}
		if len(s.Preds) == 1 && s.Dominates(b) {
			return true
		}
	}
	return false
}

func c10Printing(e *Env) {
	r := e.R
	n := 0
	e.P.EachFuncDecl(func(pk *packages.Package, rel string, fd *ast.FuncDecl) {
		if fd.Body == nil || pk.Types.Name() == "main" && rel == "." {
			return
		}
		if f := load.FileOf(pk, fd); f != nil && ast.IsGenerated(f) {
			return
		}
		key := load.DeclKey(rel, fd)
		ast.Inspect(fd.Body, func(nd ast.Node) bool {
			switch x := nd.(type) {
			case *ast.SelectorExpr:
				if id, ok := x.X.(*ast.Ident); ok {
					if pn, ok := pk.TypesInfo.Uses[id].(*types.PkgName); ok && pn.Imported().Path() == "os" &&
						(x.Sel.Name == "Stdout" || x.Sel.Name == "Stderr") {
						r.Violate("R10.7", key+" uses os."+x.Sel.Name, "direct use of a process stream bypasses --quiet", nil, e.P.Pos(x.Pos()))
					}
				}
			case *ast.CallExpr:
				n++
				o := load.Callee(pk.TypesInfo, x)
				name := calleeName(o)
				if name == "fmt.Print" || name == "fmt.Printf" || name == "fmt.Println" || strings.HasPrefix(name, "log.") ||
					strings.HasPrefix(name, "github.com/fatih/color.Print") || strings.HasPrefix(name, "github.com/fatih/color.(Color).Print") {
					r.Violate("R10.7", key+" -> "+name, "prints to a process stream regardless of --quiet", nil, e.P.Pos(x.Pos()))
				}
				if id, ok := ast.Unparen(x.Fun).(*ast.Ident); ok {
					if b, ok := pk.TypesInfo.Uses[id].(*types.Builtin); ok && (b.Name() == "print" || b.Name() == "println") {
						r.Violate("R10.7", key+" -> builtin "+b.Name(), "prints to stderr regardless of --quiet", nil, e.P.Pos(x.Pos()))
					}
				}
			}
			return true
		})
	})
	r.Hold("R10.7", "module#no-direct-printing", fmt.Sprintf("%d call expressions outside package main scanned for process-stream printing", n))
	_ = token.NoPos
}

// successEdgeViaCell: like successEdge, for an error that lives in a local cell written by a closure
// (err is assigned inside func(){…}() and tested after it): the tested value is a load of the cell
// the error was stored into.
// failureEdgeViaCell: like successEdgeViaCell for the other outcome (the error is known to be non-nil).
func failureEdgeViaCell(fn *ssa.Function, errv ssa.Value, ins ssa.Instruction) bool {
	cells := map[ssa.Value]bool{}
	bind := freeVarBindings(fn)
	allInstrs(fn, func(_ *ssa.Function, in ssa.Instruction) {
		if st, ok := in.(*ssa.Store); ok && st.Val == errv {
			cells[cellOf(st.Addr, bind)] = true
		}
	})
	for _, b := range fn.Blocks {
		iff, ok := b.Instrs[len(b.Instrs)-1].(*ssa.If)
		if !ok {
			continue
		}
		v, nonNilOnTrue, ok := nilTest(iff.Cond)
		if !ok {
			continue
		}
		ld, ok := v.(*ssa.UnOp)
		if !ok || !cells[cellOf(ld.X, bind)] {
			continue
		}
		if edgeDominates(b, nonNilOnTrue, ins) {
			return true
		}
	}
	return false
}

func successEdgeViaCell(fn *ssa.Function, errv ssa.Value, ins ssa.Instruction) bool {
	// cells that receive errv (in fn or its closures)
	cells := map[ssa.Value]bool{}
	bind := freeVarBindings(fn)
	allInstrs(fn, func(_ *ssa.Function, in ssa.Instruction) {
		if st, ok := in.(*ssa.Store); ok && st.Val == errv {
			cells[cellOf(st.Addr, bind)] = true
		}
	})
	for _, b := range fn.Blocks {
		iff, ok := b.Instrs[len(b.Instrs)-1].(*ssa.If)
		if !ok {
			continue
		}
		v, nonNilOnTrue, ok := nilTest(iff.Cond)
		if !ok {
			continue
		}
		ld, ok := v.(*ssa.UnOp)
		if !ok || !cells[cellOf(ld.X, bind)] {
			continue
		}
		if edgeDominates(b, !nonNilOnTrue, ins) {
			return true
		}
	}
	return false
}
