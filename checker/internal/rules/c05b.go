package rules

import (
	"fmt"
	"go/constant"
	"go/token"
	"go/types"
	"sort"
	"strings"

	"golang.org/x/tools/go/ssa"
)

// c05ProcessScopesSSA decides R05.1 for StepCompileServices.processScopes on the SSA form, independent of
// the loop form (range / index loop), of switch vs if-chain, and of locals or pointers to the element:
// every store into <compiled services>[j].Scope stores an output.Scope constant, is guarded by exactly one
// fact about the declared scope of the same-named input service (nil, or equal to one input.Scope constant),
// and the facts map nil→Default, shared→Shared, contextual→Contextual, non_shared→NonShared.
func c05ProcessScopesSSA(e *Env) bool {
	r := e.R
	key := "internal/pkg/compiler.StepCompileServices.processScopes"
	fn := e.P.Func(compilerRel, "StepCompileServices.processScopes")
	if fn == nil {
		return false
	}
	constName := func(rel, typ string, v constant.Value) string {
		pk := e.P.Pkg(rel)
		if pk == nil || v == nil {
			return ""
		}
		for _, n := range pk.Types.Scope().Names() {
			if c, ok := pk.Types.Scope().Lookup(n).(*types.Const); ok {
				if nt := namedOf(c.Type()); nt != nil && nt.Obj().Name() == typ && constant.Compare(c.Val(), token.EQL, v) {
					return n
				}
			}
		}
		return ""
	}
	type storeT struct {
		ins   *ssa.Store
		out   string
		idx   ssa.Value
		guard []string
	}
	var stores []storeT
	// the index value of an element address &X[j] (through pointer locals)
	elemIndex := func(addr ssa.Value) (ssa.Value, bool) {
		for i := 0; i < 4; i++ {
			switch x := addr.(type) {
			case *ssa.IndexAddr:
				return x.Index, true
			case *ssa.FieldAddr:
				addr = x.X
			case *ssa.UnOp:
				// pointer local: *alloc holding &X[j]
				if al, ok := x.X.(*ssa.Alloc); ok && x.Op == token.MUL {
					var only ssa.Value
					n := 0
					for _, ref := range *al.Referrers() {
						if st, ok := ref.(*ssa.Store); ok && st.Addr == al {
							n++
							only = st.Val
						}
					}
					if n != 1 {
						return nil, false
					}
					addr = only
				} else {
					return nil, false
				}
			default:
				return nil, false
			}
		}
		return nil, false
	}
	for _, b := range fn.Blocks {
		for _, ins := range b.Instrs {
			st, ok := ins.(*ssa.Store)
			if !ok {
				continue
			}
			fa, ok := st.Addr.(*ssa.FieldAddr)
			if !ok || fieldName(fa) != "Scope" {
				continue
			}
			s := storeT{ins: st}
			if c, isC := st.Val.(*ssa.Const); isC {
				s.out = constName(outputRel, "Scope", c.Value)
			}
			s.idx, _ = elemIndex(fa.X)
			// guards along the dominator chain
			for d := b; d != nil; d = d.Idom() {
				id := d.Idom()
				if id == nil {
					break
				}
				iff, ok := id.Instrs[len(id.Instrs)-1].(*ssa.If)
				if !ok {
					continue
				}
				onTrue := id.Succs[0] == d || (len(id.Succs[0].Preds) == 1 && id.Succs[0].Dominates(d))
				onFalse := id.Succs[1] == d || (len(id.Succs[1].Preds) == 1 && id.Succs[1].Dominates(d))
				if onTrue == onFalse {
					continue
				}
				if v, nonNilOnTrue, isNil := nilTest(iff.Cond); isNil && derivesFromField(v, "Scope", 0) {
					if nonNilOnTrue != onTrue {
						s.guard = append(s.guard, "nil")
					}
					continue
				}
				if bo, isB := iff.Cond.(*ssa.BinOp); isB && (bo.Op == token.EQL || bo.Op == token.NEQ) {
					if c, isC := bo.Y.(*ssa.Const); isC && derivesFromField(bo.X, "Scope", 0) {
						if (bo.Op == token.EQL) == onTrue {
							s.guard = append(s.guard, constName(inputRel, "Scope", c.Value))
						}
						continue
					}
				}
				// loop conditions
				if bo, isB := iff.Cond.(*ssa.BinOp); isB && bo.Op == token.LSS {
					continue
				}
				s.guard = append(s.guard, "?")
			}
			stores = append(stores, s)
		}
	}
	if len(stores) == 0 {
		return false
	}
	// same element: the store index is the index whose element's Name keys the lookup of the declared scope
	okIdx, okRead := true, false
	var idx0 ssa.Value
	for _, s := range stores {
		if s.idx == nil {
			okIdx = false
			continue
		}
		if idx0 == nil {
			idx0 = s.idx
		}
		if s.idx != idx0 {
			okIdx = false
		}
	}
	if idx0 != nil {
		// idx0 walks the whole slice
		_, isRange := rangeIndexOf(idx0)
		_, isCounted := idx0.(*ssa.Phi)
		if !isRange && !isCounted {
			okIdx = false
		}
		allInstrs(fn, func(_ *ssa.Function, ins ssa.Instruction) {
			lk, ok := ins.(*ssa.Lookup)
			if !ok {
				return
			}
			// key = <element at idx0>.Name, the element read in place, through a pointer, or from a local copy
			var isElem func(v ssa.Value, d int) bool // v is (the address of / a copy of) the element at idx0
			isElem = func(v ssa.Value, d int) bool {
				if d > 6 || v == nil {
					return false
				}
				switch x := v.(type) {
				case *ssa.IndexAddr:
					return x.Index == idx0
				case *ssa.UnOp:
					return isElem(x.X, d+1)
				case *ssa.Alloc:
					for _, ref := range *x.Referrers() {
						if st, ok := ref.(*ssa.Store); ok && st.Addr == x && isElem(st.Val, d+1) {
							return true
						}
					}
				}
				return false
			}
			var walk func(v ssa.Value, d int) bool
			walk = func(v ssa.Value, d int) bool {
				if d > 6 || v == nil {
					return false
				}
				switch x := v.(type) {
				case *ssa.UnOp:
					return walk(x.X, d+1)
				case *ssa.FieldAddr:
					return fieldName(x) == "Name" && isElem(x.X, 0)
				case *ssa.Field:
					return fieldNameT(x.X.Type(), x.Field) == "Name" && isElem(x.X, 0)
				case *ssa.Alloc:
					for _, ref := range *x.Referrers() {
						if st, ok := ref.(*ssa.Store); ok && st.Addr == x && walk(st.Val, d+1) {
							return true
						}
					}
				}
				return false
			}
			if walk(lk.Index, 0) {
				okRead = true
			}
		})
	}
	r.Check(okIdx, "R05.1", key+"#written-at-own-index", "the scope is written to the service at the loop's own index, for every index of the compiled services")
	r.Check(okRead, "R05.1", key+"#reads-own-service", "the declared scope is read from the input service with the same name")
	want := map[string]string{"nil": "ScopeDefault", "ScopeShared": "ScopeShared", "ScopeContextual": "ScopeContextual", "ScopeNonShared": "ScopeNonShared"}
	got := map[string]string{}
	for _, s := range stores {
		// the decisive fact: the single positive guard (negative facts of an if/else chain are not recorded)
		g := "?"
		var pos []string
		for _, x := range s.guard {
			if x != "" {
				pos = append(pos, x)
			}
		}
		sort.Strings(pos)
		if len(pos) == 1 {
			g = pos[0]
		} else if len(pos) > 1 {
			g = strings.Join(pos, "+")
		}
		got[g] = s.out
	}
	for c, w := range want {
		k := "case:" + c
		if c == "nil" {
			k = "nil"
		}
		r.Check(got[c] == w, "R05.1", key+"#"+k, fmt.Sprintf("input %s is compiled to output.%s (found %q)", c, w, got[c]))
	}
	for c := range got {
		if _, ok := want[c]; !ok {
			r.Violate("R05.1", key+"#unexpected:"+c, "scope assignment under an undocumented condition", nil)
		}
	}
	return true
}
