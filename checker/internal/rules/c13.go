package rules

import (
	"fmt"
	"go/token"
	"go/types"
	"gverif/internal/load"

	"golang.org/x/tools/go/ssa"
)

func init() {
	Register("C13", C13)
	Register("C17", C17)
	Register("C20", C20)
}

func C13(e *Env) {
	r := e.R
	e.analysedBase()
	yamlKeysRule(e, "R11.12", "getter", "must_getter", "default_must_getter", "pkg", "container_type", "container_constructor", "type")
	e.R.Rule("R11.12", "key table (shared with C11): getter, must_getter, default_must_getter, pkg, container_type, container_constructor and type are recognised under their documented spelling", 7)
	r.Rule("R13.1", "method-set contract: for every instantiated service with getter G and type T, *ContainerType declares G() (T, error) and GInContext(context.Context) (T, error), declares MustG() T and MustGInContext(context.Context) T iff must-getter, nothing else besides the _helpers; exported package objects are exactly the type and the constructor under the configured names; in both modes", 10)
	r.Rule("R13.2", "pairing: G calls c.Get(<its own service>), GInContext calls c.GetInContext(ctx, <same>), both convert through copier.Copy(s, &result, true); MustG calls c.G and MustGInContext calls c.GInContext(ctx) and panic on error", 6)
	r.Rule("R01.6", "collision set (shared with C01): getters colliding with the runtime container's API or the embedded field are rejected", 12)
	r.Rule("R01.7", "equal getters on different services are rejected (shared with C01)", 1)
	r.Rule("R13.4", "MustGetter derives from Service.MustGetter and Meta.DefaultMustGetter; an error site exists that is control-dependent on 'getter empty ∧ must_getter set ∧ true'; Getter derives from Service.Getter", 3)
	r.Rule("R13.5", "defaults: pkg, container_type, container_constructor, must-getter default to main, Gontainer, NewGontainer, false", 4)

	b := newSkelBuilder(e)
	if !b.fr.ok || b.te.DataType == nil {
		return
	}
	sks := b.skeletons(e.Tier)
	getterRules(e, sks)
	collisionRule(e, "R01.6")
	dupGetterRule(e, "R01.7")
	c13Getter(e)
	c13Defaults(e)
	c14Groups(e)
	r.Rule("R14.8", "the declared type reaches the getter signature whole: every capture group of the type reference (pointer marker, import, name) is part of the compiled type on every path (shared with C14): a dropped * makes G() return T where *T was declared and the conversion fails at run time", 5)
	dereferenceRule(e, "R13.7")
	r.Rule("R13.7", "ptr.Dereference returns the pointed-to value whenever the pointer is set (an explicit must_getter: false is not mistaken for unset)", 1)
	mergeLiteralRule(e, "mergeService", "Service")
	mergeLiteralRule(e, "mergeMeta", "Meta")
	r.Rule("R09.1", "getter, must_getter and default_must_getter survive the multi-file merge field by field (later non-nil wins; one attribute never resets another) (shared with C09)", 14)
	r.Rule("R09.1c", "behaviour classes of the merge combinators (shared with C09)", 2)
	vars13 := regexVars(e)
	c11Languages(e, vars13)
	c11Lemmas(e, vars13)
	r.Rule("R11.2", "the getter grammar accepts exactly the documented identifiers (shared with C11): in particular no leading underscore, which keeps user getters apart from the generated container's own _helper methods", 8)
	r.Rule("R11.3", "identifier lemmas (shared with C11)", 4)
	c13Families(e, "R13.6")
	r.Rule("R13.6", "name-family separation: ValidateServiceGetter rejects every getter with the Must prefix and every getter with the InContext suffix (the test's true edge creates the error directly, the error reaches the result, every non-nil non-reserved getter reaches the test); with pairwise different getters this makes G, GInContext, MustG and MustGInContext of different services distinct", 2)
	r.NotCovered = append(r.NotCovered,
		"the complete truth table of must-getter resolution over {unset,true,false}² (only its dependencies, its error site and the 'no getter' cases are decided)",
		"that copier.Copy yields the same object (runtime, trusted)")
}

// c13Getter: R13.4 on SSA of StepCompileServices.getter.
func c13Getter(e *Env) {
	r := e.R
	key := "internal/pkg/compiler.StepCompileServices.getter"
	fn := e.P.Func("internal/pkg/compiler", "StepCompileServices.getter")
	if fn == nil {
		r.Undecide("R13.4", key, "anchor not found")
		return
	}
	// results: (getter string, mustGetter bool, err error)
	reads := map[string]bool{}
	allInstrs(fn, func(_ *ssa.Function, ins ssa.Instruction) {
		switch x := ins.(type) {
		case *ssa.FieldAddr:
			reads[fieldName(x)] = true
		case *ssa.Field:
			if s, ok := x.X.Type().Underlying().(*types.Struct); ok {
				reads[s.Field(x.Field).Name()] = true
			}
		}
	})
	r.Check(reads["Getter"], "R13.4", key+"#reads-Service.Getter", "the getter name derives from Service.Getter")
	r.Check(reads["MustGetter"] && reads["DefaultMustGetter"], "R13.4", key+"#reads-both-must-settings", "must-getter derives from Service.MustGetter and Meta.DefaultMustGetter")
	// error site guarded by getter == "" and MustGetter != nil and mustGetter
	sites := errorSites([]*ssa.Function{fn})
	r.Check(len(sites) == 1, "R13.4", key+"#one-error-site", fmt.Sprintf("exactly one rejection: explicit must_getter without getter (%d error sites)", len(sites)))
	for _, s := range sites {
		var conds []string
		for d := s.call.Block(); d != nil; d = d.Idom() {
			id := d.Idom()
			if id == nil {
				break
			}
			iff, ok := id.Instrs[len(id.Instrs)-1].(*ssa.If)
			if !ok || len(d.Preds) != 1 {
				continue
			}
			edge := d == id.Succs[0]
			conds = append(conds, describeCond(iff.Cond, edge))
		}
		has := func(want string) bool {
			for _, c := range conds {
				if c == want {
					return true
				}
			}
			return false
		}
		ok := has(`getter==""`) && has("MustGetter!=nil") && has("must==true")
		r.Check(ok, "R13.4", key+"#error-guards", fmt.Sprintf("the rejection is guarded by getter empty ∧ must_getter set ∧ resolved value true; found guards %v", conds), e.P.Pos(s.call.Pos()))
	}
	// when the getter is empty the resulting must-getter is false: the constant false becomes the second
	// result (directly in a return, through a phi edge, or by a store into the named result) in a block
	// that is reached only when getter == "" held
	guardedByEmpty := func(blk *ssa.BasicBlock) bool {
		for d := blk; d != nil; d = d.Idom() {
			id := d.Idom()
			if id == nil {
				break
			}
			iff, ok := id.Instrs[len(id.Instrs)-1].(*ssa.If)
			if !ok {
				continue
			}
			// the edge from id that leads to d (d may be a join of several edges: accept only single-pred steps,
			// or a successor that is only reachable through one edge of id)
			for i, su := range id.Succs {
				if (su == d && len(d.Preds) == 1) || (su != d && len(su.Preds) == 1 && su.Dominates(d)) {
					if describeCond(iff.Cond, i == 0) == `getter==""` {
						return true
					}
				}
			}
			// `if getter != "" || !must { return }`: the fall-through is reached only through the false edges
			if onlyThroughFalse(id, d) && describeCond(iff.Cond, false) == `getter==""` {
				return true
			}
		}
		return false
	}
	isFalse := func(v ssa.Value) bool {
		c, ok := v.(*ssa.Const)
		return ok && c.Value != nil && c.Value.String() == "false"
	}
	okFalse := false
	for _, b := range fn.Blocks {
		for _, ins := range b.Instrs {
			switch x := ins.(type) {
			case *ssa.Phi:
				if x.Type().String() == "bool" {
					for i, ed := range x.Edges {
						if isFalse(ed) && guardedByEmpty(b.Preds[i]) {
							okFalse = true
						}
					}
				}
			case *ssa.Store:
				if isFalse(x.Val) && guardedByEmpty(b) {
					okFalse = true
				}
			case *ssa.Return:
				if len(x.Results) == 3 && isFalse(x.Results[1]) && guardedByEmpty(b) {
					okFalse = true
				}
			}
		}
	}
	r.Check(okFalse, "R13.4", key+"#no-getter-no-must", "an inherited default must-getter is dropped for a service without getter (no Must method for a missing getter): the constant false becomes the result on a path where the getter is empty")
}

// describeCond renders the few condition shapes of getter() in a normal form.
func describeCond(c ssa.Value, edge bool) string {
	neg := false
	for {
		if u, ok := c.(*ssa.UnOp); ok && u.Op == token.NOT {
			c, neg = u.X, !neg
			continue
		}
		break
	}
	if neg {
		edge = !edge
	}
	if b, ok := c.(*ssa.BinOp); ok && (b.Op == token.EQL || b.Op == token.NEQ) {
		eq := (b.Op == token.EQL) == edge
		if s, ok := constString(b.Y); ok && s == "" {
			if eq {
				return `getter==""`
			}
			return `getter!=""`
		}
		if isNilConst(b.Y) || isNilConst(b.X) {
			v := b.X
			if isNilConst(b.X) {
				v = b.Y
			}
			name := "?"
			if ld, ok := v.(*ssa.UnOp); ok {
				if fa, ok := ld.X.(*ssa.FieldAddr); ok {
					name = fieldName(fa)
				}
			}
			if f, ok := v.(*ssa.Field); ok {
				if s, ok := f.X.Type().Underlying().(*types.Struct); ok {
					name = s.Field(f.Field).Name()
				}
			}
			if eq {
				return name + "==nil"
			}
			return name + "!=nil"
		}
	}
	if c.Type().String() == "bool" {
		if edge {
			return "must==true"
		}
		return "must==false"
	}
	return "?"
}

func c13Defaults(e *Env) {
	r := e.R
	want := map[string]string{"defaultMetaPkg": `"main"`, "defaultMetaContainerType": `"Gontainer"`, "defaultMetaContainerConstructor": `"NewGontainer"`, "defaultMetaMustGetter": "false"}
	pk := e.P.Pkg("internal/pkg/compiler")
	for n, w := range want {
		key := "internal/pkg/compiler." + n
		c, ok := pk.Types.Scope().Lookup(n).(*types.Const)
		if !ok {
			r.Undecide("R13.5", key, "constant not found")
			continue
		}
		r.Check(c.Val().String() == w, "R13.5", key, fmt.Sprintf("documented default %s, constant is %s", w, c.Val().String()))
	}
	// each default is the fallback of the matching field
	fn := e.P.Func("internal/pkg/compiler", "StepCompileMeta.Process")
	if fn == nil {
		r.Undecide("R13.5", "internal/pkg/compiler.StepCompileMeta.Process", "anchor not found")
		return
	}
	pairs := map[string]string{"Pkg": "main", "ContainerType": "Gontainer", "ContainerConstructor": "NewGontainer"}
	for _, c := range callsIn(fn, false) {
		f := c.Common().StaticCallee()
		if f == nil || f.Origin() == nil || f.Origin().Name() != "Dereference" || len(c.Common().Args) != 2 {
			continue
		}
		src := ""
		if ld, ok := c.Common().Args[0].(*ssa.UnOp); ok {
			if fa, ok := ld.X.(*ssa.FieldAddr); ok {
				src = fieldName(fa)
			}
		}
		def, _ := constString(c.Common().Args[1])
		// destination field
		dst := ""
		for _, ref := range *c.Value().Referrers() {
			if st, ok := ref.(*ssa.Store); ok {
				if fa, ok := st.Addr.(*ssa.FieldAddr); ok {
					dst = fieldName(fa)
				}
			}
		}
		if w, ok := pairs[src]; ok {
			r.Check(def == w && dst == src, "R13.5", "internal/pkg/compiler.StepCompileMeta.Process#"+src, fmt.Sprintf("output.Meta.%s = input.Meta.%s or %q (found destination %q, default %q)", src, src, w, dst, def), e.P.Pos(c.Pos()))
			delete(pairs, src)
		}
	}
	for src := range pairs {
		r.Violate("R13.5", "internal/pkg/compiler.StepCompileMeta.Process#"+src, "meta name is not carried into the output with its documented default", nil)
	}
}

func C17(e *Env) {
	r := e.R
	e.analysedBase()
	cliSurfaceRule(e, "R16.0")
	e.R.Rule("R16.0", "--stub is a registered flag of `gontainer build` (shared with C16)", 7)
	r.Rule("R17.1", "for every instantiated valuation the stub declares the same package, container type, constructor and getter methods with identical parameter and result types as the normal output", 8)
	r.Rule("R17.2", "the stub compiles, references objects of the user's packages only as types, and the bodies of its constructor and getters are the single statement panic(\"stub\")", 3)
	r.Rule("R17.3", "the stub (and only the stub) starts with a //go:build line that requires the gontainerstub tag, before the package clause", 2)
	r.Rule("R17.4", "the stub flag reaches only the template: the `stub` parameter is a dependency of the template builder alone, Builder.stub is only read to fill data.Stub, and no validation or compilation step can see it — hence the same accept/reject decision in both modes", 3)
	b := newSkelBuilder(e)
	if !b.fr.ok || b.te.DataType == nil {
		return
	}
	sks := b.skeletons(e.Tier)
	stubRules(e, sks)
	rawPrintRule(e, b, "R17.5")
	r.Rule("R17.5", "same accept/reject decision in both modes: user data of type interface{} (Raw values) reaches the generated text only through export, so the comment blocks that exist in normal mode only cannot make the formatter fail where the stub succeeds", 4)
	skelInitRule(e, sks, "R17.1i")
	r.Rule("R17.1i", "the stub's init() assertion holds as well (a stub whose method set differs panics at import)", 4)
	c17Flag(e)
	c17RawCode(e)
	r.Rule("R17.6", "same accept/reject decision in both modes: the one piece of user text that is printed unescaped (the argument list of a function token, normal mode only) is parsed as Go in the compile step, so text that the formatter would refuse is refused before generation, with or without --stub", 1)
	formatGate(e, "R17.4f")
	r.Rule("R17.4f", "both modes go through the same formatter and import pass (shared with R01.4)", 3)
	c16Flags(e)
	r.Rule("R16.1", "flag binding (shared with C16)", 2)
	r.Rule("R16.2", "payload = negated flag (shared with C16)", 2)
	r.Rule("R16.3", "same accept/reject decision in both modes: the ignore switches are applied on every path through buildRunner, --stub or not (shared with C16)", 2)
	sharedWriteRules(e)
	r.Rule("R10.2", "the stub on disk is exactly the generated stub: one os.WriteFile (create, truncate, write) (shared with C10): written over a longer real container it must not keep the old tail", 2)
	r.Rule("R10.1", "the written path is the -o path (shared with C10)", 1)
	r.NotCovered = append(r.NotCovered,
		"user data that changes the formatter's verdict in one mode only is covered by R03.1 (sanitisation), not here",
		"the Makefile's generate-stub recipe and .gitignore entry (build hygiene, not behaviour)")
}

func c17Flag(e *Env) {
	r := e.R
	gm, _, ok := e.models()
	if ok {
		var users []string
		for _, s := range gm.Services {
			for _, a := range s.Args {
				if depIs(a, "param", "stub") {
					users = append(users, s.Name)
				}
			}
		}
		r.Check(len(users) == 1 && users[0] == "templateBuilder", "R17.4", selfRel+"#param:stub-users", fmt.Sprintf("the stub parameter is injected into the template builder only (users: %v)", users))
		tb := gm.Service("templateBuilder")
		okTB := ctorIs(e, tb, "internal/pkg/template", "NewBuilder") && len(tb.Args) == 5 && depIs(tb.Args[4], "param", "stub")
		r.Check(okTB, "R17.4", selfRel+"#service:templateBuilder", "NewBuilder(…, %stub%) receives the flag as its last argument")
		if ov := buildRunnerOverrides(e); ov != nil {
			r.Check(ov.params["stub"] == "stub", "R17.4", "internal/cmd.buildRunner#param:stub", "the stub parameter is the --stub flag's payload field")
		}
	}
	// Builder.stub: stored by the constructor, read only in Build to fill data.Stub
	reads := 0
	okReads := true
	for _, fn := range e.P.Funcs() {
		for _, b := range fn.Blocks {
			for _, ins := range b.Instrs {
				var name string
				var base types.Type
				switch x := ins.(type) {
				case *ssa.FieldAddr:
					name, base = fieldName(x), x.X.Type()
					if name == "stub" && isNamed(base, e.P.ModPath+"/internal/pkg/template", "Builder") {
						for _, ref := range *x.Referrers() {
							if _, isStore := ref.(*ssa.Store); isStore && ref.(*ssa.Store).Addr == x {
								continue
							}
							reads++
							if e.P.FuncKey(fn) != "(internal/pkg/template.Builder).Build" {
								okReads = false
							}
						}
					}
				case *ssa.Field:
					if s, ok := x.X.Type().Underlying().(*types.Struct); ok && load.Current.BaselineField(x.X.Type(), s.Field(x.Field).Name()) == "stub" && isNamed(x.X.Type(), e.P.ModPath+"/internal/pkg/template", "Builder") {
						reads++
						if e.P.FuncKey(fn) != "(internal/pkg/template.Builder).Build" {
							okReads = false
						}
						// its only use: stored into data.Stub
						for _, ref := range *x.Referrers() {
							st, isSt := ref.(*ssa.Store)
							if !isSt {
								if _, dbg := ref.(*ssa.DebugRef); !dbg {
									okReads = false
								}
								continue
							}
							if fa, ok := st.Addr.(*ssa.FieldAddr); !ok || fieldName(fa) != "Stub" {
								okReads = false
							}
						}
					}
				}
			}
		}
	}
	// the flag may also go straight from NewBuilder's parameter into the template data (a pre-built data value)
	direct := false
	if nb := e.P.Func("internal/pkg/template", "NewBuilder"); nb != nil {
		for _, prm := range nb.Params {
			if b, isB := prm.Type().Underlying().(*types.Basic); !isB || b.Kind() != types.Bool {
				continue
			}
			okP, n := true, 0
			for _, ref := range *prm.Referrers() {
				switch x := ref.(type) {
				case *ssa.DebugRef:
				case *ssa.Store:
					fa, isFa := x.Addr.(*ssa.FieldAddr)
					if !isFa || x.Val != ssa.Value(prm) {
						okP = false
						continue
					}
					switch fieldName(fa) {
					case "Stub":
						n++
					case "stub":
					default:
						okP = false
					}
				default:
					okP = false
				}
			}
			if okP && n >= 1 {
				direct = true
			}
			if !okP {
				okReads = false
			}
		}
	}
	r.Check((reads >= 1 || direct) && okReads, "R17.4", "internal/pkg/template.Builder#stub-reads", fmt.Sprintf("the --stub flag reaches the templates only as data.Stub: Builder.stub is read only by Build to fill it, or NewBuilder stores its parameter into it (%d reads, direct %v)", reads, direct))
}

func C20(e *Env) {
	r := e.R
	e.analysedBase()
	yamlKeysRule(e, "R11.12", "scope", "services")
	e.R.Rule("R11.12", "key table (shared with C11): `scope` is recognised under its documented spelling", 2)
	r.Rule("R20.1", "the generated file declares no package-level variable (in any valuation, both modes)", 2)
	r.Rule("R20.2", "the generated container struct has exactly one field, the embedded *container.Container: no state of its own", 2)
	r.Rule("R20.3", "no generated function or closure assigns to a captured variable, a receiver field, or through a pointer/map it did not create: writes go to the executing function's own locals and named results only (the constructor initialises its own locals once)", 4)
	b := newSkelBuilder(e)
	if !b.fr.ok || b.te.DataType == nil {
		return
	}
	sks := b.skeletons(e.Tier)
	effectRules(e, sks)
	c05ProcessScopes(e)
	emissionRules(e, sks, map[string]bool{"R05.1": true, "R02.5": true})
	r.Rule("R02.5", "every construction runs its own construction code: a service block registers a constructor closure that evaluates the declared value/constructor/type expression when called (never a value evaluated once at container creation, which would hand one object to every context and every non_shared Get) (shared with C02)", 10)
	c05Validator(e)
	loopExitRule(e, "R05.3", outputRel, "a dependency that sorts after the first non-service dependency is never inspected", "ValidateServicesScopes", "Output.BuildDependencyGraph", "Service.AllArgs")
	c05Wiring(e, "R05.2", "ValidateServicesScopes")
	r.Rule("R05.3", "a declared-shared service that (transitively) depends on a contextual one would cache the first context's instance for every later context; the validator that rejects such configurations inspects every dependency and is guarded exactly (shared with C05)", 6)
	r.Rule("R05.2", "that validator is wired into the output validation and cannot be switched off (shared with C05)", 2)
	r.Rule("R05.1", "a service without declared scope is registered with SetScopeDefault (so the runtime derives contextual-ness from its dependencies) and declared scopes call their own setter (shared with C05): a wrong setter shares a contextual service between contexts", 5)
	mergeLiteralRule(e, "mergeService", "Service")
	c09Fold(e)
	r.Rule("R09.1", "a declared scope survives the multi-file merge (shared with C09): a lost `contextual` becomes shared at run time and one instance reaches every context", 11)
	r.Rule("R09.1c", "behaviour classes of the merge combinators (shared with C09)", 2)
	r.Rule("R09.2", "the fold is Merge(accumulator, file): the later file's scope wins (shared with C09)", 1)
	r.NotCovered = append(r.NotCovered,
		"goroutine schedules, the runtime library's locking, at-most-once construction and context isolation are properties of gontainer-helpers executing; the check decides only that the generated code adds no shared mutable state of its own, so that every race would have to be inside the runtime",
		"scope promotion (default vs shared) is decided under C05")
}
