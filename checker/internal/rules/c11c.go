package rules

import (
	"fmt"
	"go/types"
	"reflect"
	"sort"
	"strings"
)

// documentedKeys: the YAML keys of the configuration language as documented (README.md, docs/*.md), per
// mapping, with the Go type that decodes them. The decoder ignores unknown keys, so a key the model does
// not know under its documented spelling is silently dropped: the attribute is lost without a diagnostic.
var documentedKeys = map[string]map[string]string{
	"Input": {
		"version": "*Version", "meta": "Meta", "parameters": "map[string]any",
		"services": "map[string]Service", "decorators": "[]Decorator",
	},
	"Meta": {
		"pkg": "*string", "container_type": "*string", "container_constructor": "*string",
		"default_must_getter": "*bool", "imports": "map[string]string", "functions": "map[string]string",
	},
	"Service": {
		"getter": "*string", "must_getter": "*bool", "type": "*string", "value": "*string",
		"constructor": "*string", "arguments": "[]any", "calls": "[]Call", "fields": "map[string]any",
		"tags": "[]Tag", "scope": "*Scope", "todo": "*bool",
	},
	"Decorator": {"tag": "string", "decorator": "string", "arguments": "[]any"},
}

// yamlKeysRule (R11.12): for each mapping of the input model, the set of keys the decoder recognises (struct
// tag `yaml`, or the lower-cased field name when there is none) and the Go type behind each key equal the
// documented table. `only` restricts the check to some keys ("" = all).
func yamlKeysRule(e *Env, rule string, only ...string) {
	r := e.R
	pk := e.P.Pkg(inputRel)
	if pk == nil {
		r.Undecide(rule, inputRel, "package not found")
		return
	}
	want := map[string]bool{}
	for _, k := range only {
		want[k] = true
	}
	qual := func(p *types.Package) string {
		if p == pk.Types {
			return ""
		}
		return p.Path()
	}
	var names []string
	for n := range documentedKeys {
		names = append(names, n)
	}
	sort.Strings(names)
	for _, tn := range names {
		obj := e.P.Obj(inputRel, tn)
		key := inputRel + "." + tn
		var st *types.Struct
		if obj != nil {
			st, _ = obj.Type().Underlying().(*types.Struct)
		}
		if st == nil {
			r.Undecide(rule, key, "struct of the input model not found")
			continue
		}
		got := map[string]string{}
		for i := 0; i < st.NumFields(); i++ {
			f := st.Field(i)
			if !f.Exported() {
				continue
			}
			name, _, _ := strings.Cut(reflect.StructTag(st.Tag(i)).Get("yaml"), ",")
			if name == "-" {
				continue
			}
			if name == "" {
				name = strings.ToLower(f.Name())
			}
			got[name] = strings.ReplaceAll(types.TypeString(f.Type(), qual), "interface{}", "any")
			if strings.Contains(reflect.StructTag(st.Tag(i)).Get("yaml"), ",inline") {
				got[name] = "inline " + got[name]
			}
		}
		for k, t := range documentedKeys[tn] {
			if len(want) > 0 && !want[k] {
				continue
			}
			g, ok := got[k]
			switch {
			case !ok:
				r.Violate(rule, key+"#key:"+k, fmt.Sprintf("the documented key %q is not a key of %s: the decoder ignores unknown keys, so the attribute is silently dropped from every configuration that uses it", k, tn), nil, e.P.Pos(obj.Pos()))
			case g != t:
				r.Violate(rule, key+"#key:"+k, fmt.Sprintf("the documented key %q decodes into %s, the language needs %s", k, g, t), nil, e.P.Pos(obj.Pos()))
			default:
				r.Hold(rule, key+"#key:"+k, "documented key, decoded into "+t, e.P.Pos(obj.Pos()))
			}
		}
		if len(want) == 0 {
			for k := range got {
				if _, ok := documentedKeys[tn][k]; !ok {
					r.Violate(rule, key+"#undocumented:"+k, fmt.Sprintf("%s accepts the key %q, which the documentation does not have", tn, k), nil, e.P.Pos(obj.Pos()))
				}
			}
		}
	}
}
