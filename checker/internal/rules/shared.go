package rules

import (
	"fmt"
	"go/ast"
	"go/token"
	"go/types"
	"strings"

	"golang.org/x/tools/go/packages"
	"golang.org/x/tools/go/ssa"
)

// sharedWriteRules: the output file is written by exactly one os.WriteFile (create + truncate + write in
// one call) after a successful build (R10.1/R10.2, owned by C10).
func sharedWriteRules(e *Env) {
	r := e.R
	gen := e.P.Func("internal/cmd/runner", "StepCodeGenerator.Run")
	okSite := false
	if gen != nil {
		_, _, _, _, okSite = writeSite(gen)
	}
	if okSite {
		c10Write(e, gen)
	} else {
		r.Violate("R10.2", "internal/cmd/runner.StepCodeGenerator.Run#single-write", "the code generator does not write the output with exactly one os.WriteFile: whether the file is truncated and complete on every path is not decided (see C10)", nil)
	}
}

// nilVersusEmptyRule (R09.6): `arguments: []` and an omitted key both mean "no elements", and the multi-file
// merge turns one into the other. Module code outside the merge combinators must not compare a slice of
// the input model with nil (only its length may matter).
func nilVersusEmptyRule(e *Env, rule string) {
	r := e.R
	n := 0
	e.P.EachFuncDecl(func(pk *packages.Package, rel string, fd *ast.FuncDecl) {
		if fd.Body == nil || (rel != inputRel && rel != compilerRel && rel != "internal/pkg/resolver") {
			return
		}
		info := pk.TypesInfo
		ast.Inspect(fd.Body, func(nd ast.Node) bool {
			be, ok := nd.(*ast.BinaryExpr)
			if !ok || (be.Op != token.EQL && be.Op != token.NEQ) {
				return true
			}
			for _, pair := range [][2]ast.Expr{{be.X, be.Y}, {be.Y, be.X}} {
				id, isNil := ast.Unparen(pair[1]).(*ast.Ident)
				if !isNil || id.Name != "nil" {
					continue
				}
				se, isSel := ast.Unparen(pair[0]).(*ast.SelectorExpr)
				if !isSel {
					continue
				}
				if _, isSlice := info.TypeOf(se).Underlying().(*types.Slice); !isSlice {
					continue
				}
				if named := namedOf(info.TypeOf(se.X)); named == nil || named.Obj().Pkg() == nil || named.Obj().Pkg().Path() != e.P.ModPath+"/"+inputRel {
					continue
				}
				n++
				r.Violate(rule, fmt.Sprintf("%s#nil-test:%s", loadDeclKey(rel, fd), se.Sel.Name), "a slice of the input model is compared with nil: an explicit empty list and an omitted key (which the multi-file merge turns into each other) are told apart", nil, e.P.Pos(be.Pos()))
			}
			return true
		})
	})
	r.Hold(rule, "input-model-slices#no-nil-test", fmt.Sprintf("no comparison of an input-model slice with nil outside the merge combinators (%d found)", n))
}

// mergeUnconditionalRule (R09.2b): every file that was decoded without error is merged — the call of
// input.Merge in StepReadConfig.Run is guarded by nothing but error tests.
func mergeUnconditionalRule(e *Env, rule string) {
	r := e.R
	key := "internal/cmd/runner.StepReadConfig.Run#merge-unconditional"
	fn := e.P.Func("internal/cmd/runner", "StepReadConfig.Run")
	if fn == nil {
		r.Undecide(rule, key, "anchor not found")
		return
	}
	var merges []ssa.CallInstruction
	seenCall := map[ssa.CallInstruction]bool{}
	for _, f := range unitFns(fn, 1) {
		for _, c := range findCalls(f, e.P.ModPath+"/"+inputRel+".Merge", true) {
			if !seenCall[c] {
				seenCall[c] = true
				merges = append(merges, c)
			}
		}
	}
	if len(merges) != 1 {
		r.Undecide(rule, key, fmt.Sprintf("%d calls of input.Merge, expected 1", len(merges)))
		return
	}
	m := merges[0]
	bad := ""
	for d := m.Block(); d != nil; d = d.Idom() {
		id := d.Idom()
		if id == nil {
			break
		}
		iff, ok := id.Instrs[len(id.Instrs)-1].(*ssa.If)
		if !ok {
			continue
		}
		// which edge(s) of id lead to d?
		onlyOne := (id.Succs[0] == d || id.Succs[0].Dominates(d)) != (id.Succs[1] == d || id.Succs[1].Dominates(d))
		if !onlyOne {
			continue // d is reached whatever the condition says
		}
		if v, _, isNil := nilTest(iff.Cond); isNil && isErrorType(v.Type()) {
			continue // error test
		}
		if ex, isEx := iff.Cond.(*ssa.Extract); isEx {
			if _, isNext := ex.Tuple.(*ssa.Next); isNext {
				continue // range over a map
			}
		}
		if bo, isB := iff.Cond.(*ssa.BinOp); isB && bo.Op == token.LSS {
			if c, isC := bo.Y.(*ssa.Call); isC {
				if bi, isBi := c.Call.Value.(*ssa.Builtin); isBi && bi.Name() == "len" {
					continue // range over a slice
				}
			}
		}
		bad = e.P.Pos(iff.Cond.Pos())
	}
	r.Check(bad == "", rule, key, "every file decoded without error is merged: input.Merge is guarded only by error tests and loop conditions (a content-dependent skip drops declarations) "+bad, e.P.Pos(m.Pos()))
}

func loadDeclKey(rel string, fd *ast.FuncDecl) string {
	if fd.Recv != nil && len(fd.Recv.List) == 1 {
		return rel + "." + recvNameOf(fd) + "." + fd.Name.Name
	}
	return rel + "." + fd.Name.Name
}

// dereferenceRule: ptr.Dereference(p, d) is `*p` whenever p is set and d only when p is nil — every
// "explicit value beats the default, explicit false included" rule of the compiler (todo, must_getter,
// scope defaults) rests on it. Decided on the generic function's SSA: exactly one branch, the nil test
// of the pointer parameter; the non-nil edge returns the load of it, the nil edge the default parameter.
func dereferenceRule(e *Env, rule string) {
	r := e.R
	key := "internal/pkg/ptr.Dereference"
	fn := e.P.Func("internal/pkg/ptr", "Dereference")
	if fn == nil || len(fn.Params) != 2 {
		r.Undecide(rule, key, "anchor not found")
		return
	}
	p, d := fn.Params[0], fn.Params[1]
	ifs := 0
	var test *ssa.If
	for _, b := range fn.Blocks {
		if iff, ok := b.Instrs[len(b.Instrs)-1].(*ssa.If); ok {
			ifs++
			test = iff
		}
	}
	ok := ifs == 1
	why := fmt.Sprintf("%d branches", ifs)
	if ok {
		v, nonNilOnTrue, isNil := nilTest(test.Cond)
		ok = isNil && v == ssa.Value(p)
		if ok {
			nn, nl := test.Block().Succs[0], test.Block().Succs[1]
			if !nonNilOnTrue {
				nn, nl = nl, nn
			}
			retOf := func(b *ssa.BasicBlock) ssa.Value {
				if ret, ok := b.Instrs[len(b.Instrs)-1].(*ssa.Return); ok && len(ret.Results) == 1 {
					return ret.Results[0]
				}
				return nil
			}
			rn, rl := retOf(nn), retOf(nl)
			ld, isLoad := rn.(*ssa.UnOp)
			ok = isLoad && ld.Op == token.MUL && ld.X == ssa.Value(p) && rl == ssa.Value(d)
			why = "the non-nil edge must return *ptr and the nil edge the default"
		} else {
			why = "the only branch is not the nil test of the pointer"
		}
	}
	r.Check(ok, rule, key, "Dereference(p, d) = *p if p != nil, else d — a set value is never replaced by the default, whatever it is ("+why+")")
}

// aliasTableReadyRule (R14.2b): the user's alias table is complete before anything asks for a local name.
// Inside StepCompileMeta.Process every call that can reach an Alias(...) request (over the CHA call graph of
// module code) comes after the call that reaches RegisterPrefixAlias; nothing that runs earlier (input
// validation, constructors of the wiring) requests an alias.
func aliasTableReadyRule(e *Env, rule string) {
	r := e.R
	key := compilerRel + ".StepCompileMeta.Process#aliases-registered-before-first-use"
	fn := e.P.Func(compilerRel, "StepCompileMeta.Process")
	if fn == nil {
		r.Undecide(rule, key, "anchor not found")
		return
	}
	cg := e.chaGraph()
	// module functions that directly contain a call named X
	direct := func(name string) map[*ssa.Function]bool {
		out := map[*ssa.Function]bool{}
		for _, f := range e.P.Funcs() {
			if isGeneratedFn(e.P, rootFn(f)) {
				continue
			}
			for _, c := range callsIn(f, false) {
				n := ""
				if c.Common().IsInvoke() {
					n = c.Common().Method.Name()
				} else if g := c.Common().StaticCallee(); g != nil {
					n = g.Name()
				}
				if n == name {
					out[f] = true
				}
			}
		}
		return out
	}
	reachMemo := map[string]map[*ssa.Function]bool{}
	reaches := func(f *ssa.Function, name string) bool {
		d, ok := reachMemo[name]
		if !ok {
			d = direct(name)
			// backward closure over the call graph
			changed := true
			for changed {
				changed = false
				for g, node := range cg.Nodes {
					if g == nil || d[g] || !e.P.InModule(g) {
						continue
					}
					for _, ed := range node.Out {
						if ed.Callee != nil && d[ed.Callee.Func] {
							d[g] = true
							changed = true
							break
						}
					}
				}
			}
			reachMemo[name] = d
		}
		return d[f]
	}
	siteReaches := func(c ssa.CallInstruction, name string) bool {
		n := ""
		if c.Common().IsInvoke() {
			n = c.Common().Method.Name()
		} else if g := c.Common().StaticCallee(); g != nil {
			n = g.Name()
		}
		if n == name {
			return true
		}
		node := cg.Nodes[c.Parent()]
		if node == nil {
			return false
		}
		for _, ed := range node.Out {
			if ed.Site == c && ed.Callee != nil && reaches(ed.Callee.Func, name) {
				return true
			}
		}
		return false
	}
	var regs, uses []ssa.CallInstruction
	for _, c := range callsIn(fn, true) {
		if siteReaches(c, "RegisterPrefixAlias") {
			regs = append(regs, c)
		}
		if siteReaches(c, "Alias") {
			uses = append(uses, c)
		}
	}
	if len(regs) == 0 {
		r.Violate(rule, key, "StepCompileMeta.Process never registers the user's aliases", nil)
		return
	}
	bad := ""
	for _, u := range uses {
		okU := false
		for _, g := range regs {
			if g == u {
				continue
			}
			if g.Parent() == u.Parent() && (g.Block() == u.Block() && before(g, u) || g.Block() != u.Block() && g.Block().Dominates(u.Block())) {
				okU = true
			}
		}
		if !okU {
			bad = "— not so for the call at " + e.P.Pos(u.Pos())
		}
	}
	r.Check(bad == "", rule, key, fmt.Sprintf("every call of StepCompileMeta.Process that can reach an Alias request (%d) comes after the registration of the user's aliases %s", len(uses), bad))
}

// handledAfterSupports: the invocation c = x.M(arg) in f happens only after x.Supports(arg) returned true —
// either tested in f itself, or x is what a finder helper of the package returned, and the helper returns
// a strategy only from the true edge of strategy.Supports(<the same argument>).
func handledAfterSupports(f *ssa.Function, c ssa.CallInstruction) bool {
	if !c.Common().IsInvoke() || len(c.Common().Args) == 0 {
		return false
	}
	recv, arg := c.Common().Value, c.Common().Args[0]
	for _, sc := range findInvokes(f, "Supports", false) {
		if sc.Common().Value == recv && sc.Common().Args[0] == arg {
			for _, ref := range *sc.Value().Referrers() {
				if iff, isIf := ref.(*ssa.If); isIf && edgeDominates(iff.Block(), true, c) {
					return true
				}
			}
		}
	}
	// finder helper
	var hc *ssa.Call
	resIdx := 0
	switch x := recv.(type) {
	case *ssa.Extract:
		hc, _ = x.Tuple.(*ssa.Call)
		resIdx = x.Index
	case *ssa.Call:
		hc = x
	}
	if hc == nil {
		return false
	}
	h := hc.Call.StaticCallee()
	if h == nil || h.Pkg != f.Pkg || len(h.Blocks) == 0 {
		return false
	}
	// which parameter of h receives arg?
	pidx := -1
	for i, a := range hc.Call.Args {
		if a == arg {
			pidx = i
		}
	}
	if pidx < 0 || pidx >= len(h.Params) {
		return false
	}
	hp := h.Params[pidx]
	n := 0
	for _, b := range h.Blocks {
		ret, ok := b.Instrs[len(b.Instrs)-1].(*ssa.Return)
		if !ok || b == h.Recover || resIdx >= len(ret.Results) {
			continue
		}
		rv := ret.Results[resIdx]
		if isNilConst(rv) {
			continue
		}
		n++
		okRet := false
		for _, sc := range findInvokes(h, "Supports", false) {
			if !(sc.Common().Value == rv || sameLoad(sc.Common().Value, rv) || sameExpr(sc.Common().Value, rv, 0)) || sc.Common().Args[0] != ssa.Value(hp) {
				continue
			}
			for _, ref := range *sc.Value().Referrers() {
				if iff, isIf := ref.(*ssa.If); isIf && edgeDominates(iff.Block(), true, ret) {
					okRet = true
				}
			}
		}
		if !okRet {
			return false
		}
	}
	return n > 0
}

// sameExpr: two SSA values are the same access path (loads of the same field / element of the same
// base with the same index value), evaluated twice. Sound only between points with no intervening write
// to that path; used for receiver-held tables that are written by constructors only.
func sameExpr(a, b ssa.Value, depth int) bool {
	if a == b {
		return true
	}
	if depth > 6 {
		return false
	}
	switch x := a.(type) {
	case *ssa.UnOp:
		y, ok := b.(*ssa.UnOp)
		return ok && x.Op == y.Op && sameExpr(x.X, y.X, depth+1)
	case *ssa.FieldAddr:
		y, ok := b.(*ssa.FieldAddr)
		return ok && x.Field == y.Field && sameExpr(x.X, y.X, depth+1)
	case *ssa.IndexAddr:
		y, ok := b.(*ssa.IndexAddr)
		return ok && x.Index == y.Index && sameExpr(x.X, y.X, depth+1)
	case *ssa.Field:
		y, ok := b.(*ssa.Field)
		return ok && x.Field == y.Field && sameExpr(x.X, y.X, depth+1)
	}
	return false
}

// isMissingFilter: h(set, names) returns the elements of names that are NOT keys of set: its result slice is
// only ever extended by append(result, n) with n an element of the names parameter, behind the failed edge of
// the comma-ok lookup set[n]. Returns the indices of the set and names parameters.
func isMissingFilter(h *ssa.Function) (setIdx, namesIdx int, ok bool) {
	if h == nil || len(h.Blocks) == 0 || len(h.Params) < 2 || h.Signature.Results().Len() != 1 {
		return 0, 0, false
	}
	if _, isSlice := h.Signature.Results().At(0).Type().Underlying().(*types.Slice); !isSlice {
		return 0, 0, false
	}
	setIdx, namesIdx = -1, -1
	n := 0
	for _, b := range h.Blocks {
		for _, ins := range b.Instrs {
			c, isCall := ins.(*ssa.Call)
			if !isCall {
				continue
			}
			bi, isB := c.Call.Value.(*ssa.Builtin)
			if !isB || bi.Name() != "append" || len(c.Call.Args) != 2 {
				continue
			}
			n++
			// appended element(s): a one-element array holding v
			sl, isSl := c.Call.Args[1].(*ssa.Slice)
			if !isSl {
				return 0, 0, false
			}
			al, isAl := sl.X.(*ssa.Alloc)
			if !isAl {
				return 0, 0, false
			}
			var elem ssa.Value
			for _, ref := range *al.Referrers() {
				if ia, isIa := ref.(*ssa.IndexAddr); isIa {
					for _, r2 := range *ia.Referrers() {
						if st, isSt := r2.(*ssa.Store); isSt {
							elem = st.Val
						}
					}
				}
			}
			lk := failedLookup(h, c)
			if lk == nil || elem == nil || unwrap(lk.Index) != unwrap(elem) {
				return 0, 0, false
			}
			// the looked-up map is a parameter, the key an element of another parameter
			for i, p := range h.Params {
				if lk.X == ssa.Value(p) {
					setIdx = i
				}
				if ld, isLd := unwrap(elem).(*ssa.UnOp); isLd {
					if ia, isIa := ld.X.(*ssa.IndexAddr); isIa && ia.X == ssa.Value(p) {
						namesIdx = i
					}
				}
			}
		}
	}
	return setIdx, namesIdx, n > 0 && setIdx >= 0 && namesIdx >= 0
}

// missingNameAt: at the error site `ins` of fn a name is known to be missing from a declared set. Either
// the site lies behind the failed edge of a comma-ok lookup (key = the looked-up name), or it lies in a
// loop over the result of a missing-filter helper (key = the loop element). names is the list the name
// was taken from, set the map it was looked up in.
func missingNameAt(fn *ssa.Function, ins ssa.Instruction) (key, names, set ssa.Value, ok bool) {
	if lk := failedLookup(fn, ins); lk != nil {
		var src ssa.Value
		if ld, isLd := lk.Index.(*ssa.UnOp); isLd {
			if ia, isIa := ld.X.(*ssa.IndexAddr); isIa {
				src = ia.X
			}
		}
		return lk.Index, src, lk.X, true
	}
	// a membership predicate of the package: `func isKnown(set, name) bool { _, ok := set[name]; return ok }`
	for _, b := range fn.Blocks {
		iff, isIf := b.Instrs[len(b.Instrs)-1].(*ssa.If)
		if !isIf {
			continue
		}
		cond := iff.Cond
		neg := false
		if u, isU := cond.(*ssa.UnOp); isU && u.Op == token.NOT {
			cond, neg = u.X, true
		}
		c, isCall := cond.(*ssa.Call)
		if !isCall {
			continue
		}
		p := c.Call.StaticCallee()
		if p == nil || len(p.Blocks) != 1 || p.Pkg != fn.Pkg {
			continue
		}
		ret, isRet := p.Blocks[0].Instrs[len(p.Blocks[0].Instrs)-1].(*ssa.Return)
		if !isRet || len(ret.Results) != 1 {
			continue
		}
		ex, isEx := ret.Results[0].(*ssa.Extract)
		if !isEx || ex.Index != 1 {
			continue
		}
		lk, isLk := ex.Tuple.(*ssa.Lookup)
		if !isLk || !lk.CommaOk {
			continue
		}
		si, ki := -1, -1
		for i, prm := range p.Params {
			if lk.X == ssa.Value(prm) {
				si = i
			}
			if lk.Index == ssa.Value(prm) {
				ki = i
			}
		}
		if si < 0 || ki < 0 || si >= len(c.Call.Args) || ki >= len(c.Call.Args) {
			continue
		}
		// the site lies on the edge where the predicate is false
		if edgeDominates(b, neg, ins) || (!neg && onlyThroughFalse(b, ins.Block())) {
			k := c.Call.Args[ki]
			var src ssa.Value
			if ld, isLd := k.(*ssa.UnOp); isLd {
				if ia, isIa := ld.X.(*ssa.IndexAddr); isIa {
					src = ia.X
				}
			}
			return k, src, c.Call.Args[si], true
		}
	}
	for _, b := range fn.Blocks {
		for _, in2 := range b.Instrs {
			ia, isIa := in2.(*ssa.IndexAddr)
			if !isIa {
				continue
			}
			c, isCall := ia.X.(*ssa.Call)
			if !isCall {
				continue
			}
			si, ni, isF := isMissingFilter(c.Call.StaticCallee())
			if !isF || !(b == ins.Block() || b.Dominates(ins.Block())) {
				continue
			}
			for _, ref := range *ia.Referrers() {
				if ld, isLd := ref.(*ssa.UnOp); isLd {
					return ld, c.Call.Args[ni], c.Call.Args[si], true
				}
			}
		}
	}
	return nil, nil, nil, false
}

// sliceSourceField: the struct field a slice value was loaded from.
func sliceSourceField(v ssa.Value) string {
	switch s := v.(type) {
	case *ssa.UnOp:
		if fa, ok := s.X.(*ssa.FieldAddr); ok {
			return fieldName(fa)
		}
	case *ssa.Field:
		return fieldNameT(s.X.Type(), s.Field)
	}
	return ""
}

// coreOf: when fn is a thin wrapper — it hands all its own parameters (receiver included) to exactly one
// function of its package and returns that call's non-error results unchanged — the logic lives in the
// callee, and rules about "what fn does" analyse the callee. The wrapper may decorate the error.
func coreOf(fn *ssa.Function) *ssa.Function {
	for depth := 0; depth < 2; depth++ {
		var cand *ssa.Call
		n := 0
		for _, c := range callsIn(fn, false) {
			call, isCall := c.(*ssa.Call)
			if !isCall {
				continue
			}
			g := call.Call.StaticCallee()
			if g == nil || g.Pkg != fn.Pkg || len(g.Blocks) == 0 || g == fn {
				continue
			}
			n++
			cand = call
		}
		if n != 1 {
			return fn
		}
		// every (non-receiver) parameter of fn is passed on
		for i, p := range fn.Params {
			if i == 0 && fn.Signature.Recv() != nil {
				continue
			}
			passed := false
			for _, a := range cand.Call.Args {
				if a == ssa.Value(p) {
					passed = true
				}
			}
			if !passed {
				return fn
			}
		}
		// the non-error results are the callee's
		ok := true
		for _, b := range fn.Blocks {
			ret, isRet := b.Instrs[len(b.Instrs)-1].(*ssa.Return)
			if !isRet || b == fn.Recover {
				continue
			}
			for _, rv := range ret.Results {
				if isErrorType(rv.Type()) {
					continue
				}
				if ex, isEx := rv.(*ssa.Extract); isEx && ex.Tuple == ssa.Value(cand) {
					continue
				}
				if rv == ssa.Value(cand) {
					continue
				}
				ok = false
			}
		}
		if !ok {
			return fn
		}
		fn = cand.Call.StaticCallee()
	}
	return fn
}

// errorFlattenRule: diagnostics keep their group structure. The only wrapper of an error in module code
// is grouperror.Prefix, which prefixes every member of a group; formatting an error value into text
// (fmt.Errorf/Sprintf/Sprint with an error operand, or err.Error() outside a panic) turns a group of
// violations into one entry, so the numbered list and the count lose all but the first line's key.
func errorFlattenRule(e *Env, rule string) {
	r := e.R
	errT := types.Universe.Lookup("error").Type().Underlying().(*types.Interface)
	isErr := func(v ssa.Value) bool {
		v = unwrap(v)
		t := v.Type()
		if t == nil {
			return false
		}
		if b, ok := t.Underlying().(*types.Basic); ok && b.Kind() == types.UntypedNil {
			return false
		}
		return types.Implements(t, errT)
	}
	formatters := map[string]bool{"fmt.Errorf": true, "fmt.Sprintf": true, "fmt.Sprint": true, "fmt.Sprintln": true, "fmt.Appendf": true}
	n, bad := 0, 0
	for _, c := range moduleCalls(e.P) {
		cc := c.ins.Common()
		if formatters[c.name] && len(cc.Args) > 0 {
			n++
			for _, a := range varargs(cc.Args[len(cc.Args)-1]) {
				if isErr(a) && mayBeGroup(e, a, map[ssa.Value]bool{}) {
					bad++
					r.Violate(rule, c.fnKey+" -> "+c.name+"#error-operand", "an error value is formatted into the text of a new error or message: if it is a group (several violations of one element) its members are glued into one entry and lose their prefix; wrap with grouperror.Prefix instead", nil, e.P.Pos(c.ins.Pos()))
				}
			}
			continue
		}
		if cc.IsInvoke() && cc.Method.Name() == "Error" && isErrorType(cc.Value.Type()) {
			n++
			// allowed: the text goes straight into panic(...)
			okUse := true
			if v := c.ins.Value(); v != nil && v.Referrers() != nil {
				for _, ref := range *v.Referrers() {
					mi, isMI := ref.(*ssa.MakeInterface)
					if !isMI {
						okUse = false
						continue
					}
					for _, r2 := range *mi.Referrers() {
						if _, isP := r2.(*ssa.Panic); !isP {
							okUse = false
						}
					}
				}
			}
			if !okUse && mayBeGroup(e, cc.Value, map[ssa.Value]bool{}) {
				bad++
				r.Violate(rule, c.fnKey+" -> error.Error()#flattened", "the text of an error is taken (err.Error()) and used outside a panic: a group of violations becomes one string", nil, e.P.Pos(c.ins.Pos()))
			}
		}
	}
	if bad == 0 {
		r.Hold(rule, "module#no-error-flattening", fmt.Sprintf("%d formatting calls and Error() calls of module code inspected: none takes an error operand (errors are wrapped by grouperror.Prefix only)", n))
	}
}

// mayBeGroup: can this error value be a group of several violations? Errors that come straight from a call
// into a package outside the module and outside grouperror (os, strconv, yaml, …) are single errors;
// everything else (results of module functions and interfaces, grouperror.*, parameters, fields) may be a group.
func mayBeGroup(e *Env, v ssa.Value, seen map[ssa.Value]bool) bool {
	v = unwrap(v)
	if seen[v] {
		return false
	}
	seen[v] = true
	switch x := v.(type) {
	case *ssa.Const:
		return false
	case *ssa.Parameter:
		// an error handed to a helper (newErrXxx(…, err)): what the callers pass decides
		fn := x.Parent()
		idx := -1
		for i, p := range fn.Params {
			if p == x {
				idx = i
			}
		}
		if idx < 0 || fn.Pkg == nil || !e.P.InModulePath(fn.Pkg.Pkg.Path()) {
			return true
		}
		callers := 0
		for _, c := range moduleCalls(e.P) {
			if c.ins.Common().StaticCallee() == fn && idx < len(c.ins.Common().Args) {
				callers++
				if mayBeGroup(e, c.ins.Common().Args[idx], seen) {
					return true
				}
			}
		}
		return callers == 0
	case *ssa.Phi:
		for _, ed := range x.Edges {
			if mayBeGroup(e, ed, seen) {
				return true
			}
		}
		return false
	case *ssa.Extract:
		return mayBeGroup(e, x.Tuple, seen)
	case *ssa.Call:
		cc := x.Common()
		if cc.IsInvoke() {
			if pk := cc.Method.Pkg(); pk != nil && !e.P.InModulePath(pk.Path()) {
				return false
			}
			return true
		}
		if g := cc.StaticCallee(); g != nil && g.Pkg != nil {
			path := g.Pkg.Pkg.Path()
			if e.P.InModulePath(path) || strings.Contains(path, "/grouperror") {
				return true
			}
			return false
		}
		return true
	case *ssa.UnOp:
		if x.Op == token.MUL {
			if al, ok := x.X.(*ssa.Alloc); ok {
				any := false
				for _, ref := range *al.Referrers() {
					if st, ok := ref.(*ssa.Store); ok && st.Addr == al {
						if mayBeGroup(e, st.Val, seen) {
							any = true
						}
					}
				}
				return any
			}
		}
		return true
	}
	return true
}
