package rules

import (
	"fmt"
	"go/token"

	"golang.org/x/tools/go/ssa"
)

// mergeServicesSSA decides the service-map combinator on the SSA form, independent of how the two passes
// are written (maps.Iterate callbacks, range over maps.Keys, range over the map): every store into the
// result map is classified by where its value comes from.
//
//	first-kept: some store writes a value of the first operand;
//	new-key:    a store of a value of the second operand, on the miss edge of a lookup in the first operand;
//	same-key:   a store of mergeService(<first's value>, <second's value>) on the hit edge of that lookup;
//	order:      the stores of the first pass precede those of the second pass in the function.
func mergeServicesSSA(e *Env, name string) (decided bool, ok bool) {
	r := e.R
	fn := e.P.Func(inputRel, name)
	key := inputRel + "." + name
	if fn == nil || len(fn.Params) != 2 {
		return false, false
	}
	bind := freeVarBindings(fn)
	// operand: "a" / "b" for a value that is (a load of the cell of) one of the two parameters
	var operand func(v ssa.Value, depth int) string
	operand = func(v ssa.Value, depth int) string {
		if depth > 8 {
			return ""
		}
		switch x := v.(type) {
		case *ssa.Parameter:
			if x == fn.Params[0] {
				return "a"
			}
			if x == fn.Params[1] {
				return "b"
			}
		case *ssa.UnOp:
			if x.Op == token.MUL {
				cell := cellOf(x.X, bind)
				if al, isAlloc := cell.(*ssa.Alloc); isAlloc {
					res := ""
					n := 0
					for _, ref := range *al.Referrers() {
						if st, isStore := ref.(*ssa.Store); isStore && st.Addr == al {
							n++
							res = operand(st.Val, depth+1)
						}
					}
					if n == 1 {
						return res
					}
				}
			}
		case *ssa.ChangeType:
			return operand(x.X, depth+1)
		}
		return ""
	}
	// iterate callbacks: closure -> operand it iterates over
	iterOver := map[*ssa.Function]string{}
	allInstrs(fn, func(_ *ssa.Function, ins ssa.Instruction) {
		c, isCall := ins.(ssa.CallInstruction)
		if !isCall || len(c.Common().Args) != 2 {
			return
		}
		callee := c.Common().StaticCallee()
		if callee == nil || callee.Origin() == nil && callee.Name() != "Iterate" {
			return
		}
		nm := callee.Name()
		if o := callee.Origin(); o != nil {
			nm = o.Name()
		}
		if nm != "Iterate" {
			return
		}
		op := operand(c.Common().Args[0], 0)
		var cl *ssa.Function
		switch f := c.Common().Args[1].(type) {
		case *ssa.MakeClosure:
			cl, _ = f.Fn.(*ssa.Function)
		case *ssa.Function:
			cl = f
		}
		if op != "" && cl != nil {
			iterOver[cl] = op
		}
	})
	type cls struct {
		kind   string // a | b | merge | ?
		lookup *ssa.Lookup
	}
	var classify func(v ssa.Value, depth int) cls
	classify = func(v ssa.Value, depth int) cls {
		if depth > 8 {
			return cls{kind: "?"}
		}
		switch x := v.(type) {
		case *ssa.Lookup:
			if op := operand(x.X, 0); op != "" {
				return cls{op, x}
			}
		case *ssa.Extract:
			switch t := x.Tuple.(type) {
			case *ssa.Lookup:
				if x.Index == 0 {
					if op := operand(t.X, 0); op != "" {
						return cls{op, t}
					}
				}
			case *ssa.Next:
				if rg, isR := t.Iter.(*ssa.Range); isR && x.Index == 2 {
					if op := operand(rg.X, 0); op != "" {
						return cls{op, nil}
					}
				}
			}
		case *ssa.Parameter:
			if op, isIt := iterOver[x.Parent()]; isIt && len(x.Parent().Params) == 2 && x.Parent().Params[1] == x {
				return cls{op, nil}
			}
		case *ssa.UnOp:
			if x.Op == token.MUL {
				if al, isAlloc := x.X.(*ssa.Alloc); isAlloc {
					var only ssa.Value
					n := 0
					for _, ref := range *al.Referrers() {
						if st, isStore := ref.(*ssa.Store); isStore && st.Addr == al {
							n++
							only = st.Val
						}
					}
					if n == 1 {
						return classify(only, depth+1)
					}
				}
			}
		case *ssa.Call:
			if c := x.Call.StaticCallee(); c != nil && c.Name() == "mergeService" && len(x.Call.Args) == 2 {
				a0, a1 := classify(x.Call.Args[0], depth+1), classify(x.Call.Args[1], depth+1)
				if a0.kind == "a" && a1.kind == "b" {
					return cls{"merge", a0.lookup}
				}
				return cls{"merge-wrong-order(" + a0.kind + "," + a1.kind + ")", nil}
			}
		}
		return cls{kind: "?"}
	}
	type store struct {
		ins *ssa.MapUpdate
		c   cls
	}
	var stores []store
	allInstrs(fn, func(_ *ssa.Function, ins ssa.Instruction) {
		if mu, isMU := ins.(*ssa.MapUpdate); isMU {
			stores = append(stores, store{mu, classify(mu.Value, 0)})
		}
	})
	if len(stores) == 0 {
		return false, false
	}
	// hit/miss edges: the ok result of a lookup in the first operand
	guarded := func(ins ssa.Instruction, wantHit bool) bool {
		f := ins.Parent()
		for _, b := range f.Blocks {
			iff, isIf := b.Instrs[len(b.Instrs)-1].(*ssa.If)
			if !isIf {
				continue
			}
			ex, isEx := iff.Cond.(*ssa.Extract)
			if !isEx || ex.Index != 1 {
				continue
			}
			lk, isLk := ex.Tuple.(*ssa.Lookup)
			if !isLk || operand(lk.X, 0) != "a" {
				continue
			}
			if edgeDominatesOrJoin(b, wantHit, ins) {
				return true
			}
		}
		return false
	}
	var firstPos, mergePos, newPos token.Pos
	first, merge, newKey := false, false, false
	bad := ""
	// every store goes into the map that is returned (not into an operand)
	rootOf := func(v ssa.Value) ssa.Value {
		if ld, isLd := v.(*ssa.UnOp); isLd && ld.Op == token.MUL {
			return cellOf(ld.X, bind)
		}
		return v
	}
	var retRoot ssa.Value
	for _, b := range fn.Blocks {
		if ret, isRet := b.Instrs[len(b.Instrs)-1].(*ssa.Return); isRet && len(ret.Results) == 1 && !isNilConst(ret.Results[0]) {
			retRoot = rootOf(ret.Results[0])
		}
	}
	for _, s := range stores {
		if op := operand(s.ins.Map, 0); op != "" {
			bad = "a store into the operand " + op + " instead of the result: " + e.P.Pos(s.ins.Pos())
		} else if retRoot != nil && rootOf(s.ins.Map) != retRoot {
			bad = "a store into a map that is not the returned one: " + e.P.Pos(s.ins.Pos())
		}
	}
	for _, s := range stores {
		switch s.c.kind {
		case "a":
			first, firstPos = true, s.ins.Pos()
		case "b":
			if guarded(s.ins, false) {
				newKey, newPos = true, s.ins.Pos()
			} else {
				bad = "a value of the second operand is stored without the key being absent from the first (the first's attributes are lost): " + e.P.Pos(s.ins.Pos())
			}
		case "merge":
			if guarded(s.ins, true) {
				merge, mergePos = true, s.ins.Pos()
			} else {
				bad = "mergeService is applied outside the hit edge of the lookup in the first operand: " + e.P.Pos(s.ins.Pos())
			}
		default:
			bad = fmt.Sprintf("a store into the result whose value is not one of first[k], second[k], mergeService(first[k], second[k]) (%s): %s", s.c.kind, e.P.Pos(s.ins.Pos()))
		}
	}
	if bad != "" {
		r.Violate("R09.1c", key+"#stores", bad, nil)
		return true, false
	}
	res := r.Check(merge, "R09.1c", key+"#same-key", "a service present in both operands is mergeService(first[k], second[k]) in that order, on the hit edge of the lookup in the first operand")
	res = r.Check(newKey, "R09.1c", key+"#new-key", "a service only in the second operand is stored as it is (miss edge)") && res
	res = r.Check(first && firstPos < mergePos && firstPos < newPos, "R09.1c", key+"#first-kept", "services of the first operand are kept, and stored before the second pass runs") && res
	return true, res
}
