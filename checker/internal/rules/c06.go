package rules

import (
	"fmt"
	"go/ast"
	"go/token"
	"go/types"
	"sort"
	"strings"

	"gverif/internal/load"

	"golang.org/x/tools/go/ssa"
)

func init() {
	Register("C06", C06)
	Register("C07", C07)
}

func outputType(e *Env, name string) types.Type {
	pk := e.P.Pkg(outputRel)
	if pk == nil {
		return nil
	}
	o := pk.Types.Scope().Lookup(name)
	if o == nil {
		return nil
	}
	return o.Type()
}

// lookupKeyPaths: access paths of the keys of every comma-ok map lookup reachable from fn.
func lookupKeyPaths(a *apath, fn *ssa.Function) map[string]bool {
	out := map[string]bool{}
	for _, f := range pkgCallees(fn) {
		for _, b := range f.Blocks {
			for _, ins := range b.Instrs {
				if lk, ok := ins.(*ssa.Lookup); ok && lk.CommaOk {
					if _, isMap := lk.X.Type().Underlying().(*types.Map); isMap {
						for p := range a.of(lk.Index) {
							out[strings.ReplaceAll(p, elemMark, "[*]")] = true
						}
					}
				}
			}
		}
	}
	return out
}

func C06(e *Env) {
	r := e.R
	e.analysedBase()
	yamlKeysRule(e, "R11.12", "services", "parameters", "decorators", "arguments", "calls", "fields")
	e.R.Rule("R11.12", "key table (shared with C11): every position that can hold a reference is recognised under its documented spelling", 6)
	r.Rule("R06.1", "coverage by type: every path from output.Output to a DependsOnParams list (plus Params[*].DependsOn) is looked up in the declared-parameter set by ValidateParamsExist, every path to a DependsOnServices list in the declared-service set by ValidateServicesExist; the required paths are enumerated from the types, so a new position is required automatically", 9)
	r.Rule("R06.2", "Service.AllArgs returns the elements of every path from output.Service to a value of type Arg (constructor arguments, call arguments, field values)", 3)
	r.Rule("R06.3", "the declared sets are filled from every parameter / service unconditionally (todo ones included)", 2)
	r.Rule("R06.4", "the identifier a resolver emits into the generated code is the identifier it records as dependency (same captured group / same variable): @service, !tagged, %reference%; pattern dependencies are the union over ALL tokens; the five dependency fields are copied one-to-one from the resolver's result into output.Arg and output.Param", 8)
	r.Rule("R06.5", "each diagnostic names the referrer and the missing name; each validator's result combines all of its sub-validators on every return (no early acceptance)", 6)
	r.Rule("R06.7", "both existence validators are wired into the output validation step of the self-hosted runner", 4)

	c16Flags(e)
	r.Rule("R16.1", "each ignore flag is bound to its own variable (shared with C16)", 2)
	r.Rule("R16.3", "the two existence validators are switched by their own ignore flag and by nothing else (not by --stub): Active receives exactly the payload field (shared with C16)", 2)
	r.Rule("R16.2", "the payload field is the negation of exactly its flag (shared with C16)", 2)
	c10RunE(e)
	r.Rule("R10.6", "every diagnostic is reported: the numbered list prints every element of grouperror.Collection(err), without cap, skip or merge (shared with C10)", 3)
	r.Rule("R10.5", "the runner's error is what RunE returns (shared with C10)", 1)
	r.Rule("R10.7", "writer discipline of the list (shared with C10)", 1)
	a := newApath(e.P)
	ot := outputType(e, "Output")
	if ot == nil {
		r.Undecide("R06.1", outputRel+".Output", "type not found")
		return
	}
	type vspec struct {
		fn, leaf string
		extra    []string
	}
	for _, v := range []vspec{
		{"ValidateParamsExist", "DependsOnParams", []string{"Output.Params[*].DependsOn[*]"}},
		{"ValidateServicesExist", "DependsOnServices", nil},
	} {
		fn := e.P.Func(outputRel, v.fn)
		if fn == nil {
			r.Undecide("R06.1", outputRel+"."+v.fn, "validator not found")
			continue
		}
		a.root(fn, 0, "Output")
		req := append(typePaths(ot, "Output", map[string]bool{v.leaf: true}), v.extra...)
		found := lookupKeyPaths(a, fn)
		for _, p := range req {
			key := outputRel + "." + v.fn + " covers " + p
			if found[p] {
				r.Hold("R06.1", key, "looked up in the declared set")
			} else {
				r.Violate("R06.1", key, "a reference in this position is never checked against the declared names: a dangling reference here is accepted and fails at run time with 'does not exist'", map[string]any{"looked_up": sortedPaths(found)})
			}
		}
		r.Analysed[v.fn+"_lookup_paths"] = sortedPaths(found)
	}
	c06AllArgs(e, a)
	c15ExistingRule(e, "R06.3")
	c06Recorded(e)
	c06Copies(e)
	c06Diagnostics(e)
	c06Wiring(e, "ValidateParamsExist")
	c06Wiring(e, "ValidateServicesExist")
	if b := newSkelBuilder(e); b.fr.ok && b.te.DataType != nil {
		emissionRules(e, b.skeletons(e.Tier), map[string]bool{"R15.1": true, "R02.5": true})
		r.Rule("R02.5", "every declared service — todo ones included — is registered in the generated container under its own name, so a reference that passed validation cannot fail with 'does not exist' (emission rules shared with C02/C15)", 10)
		r.Rule("R15.1", "a todo service is still registered (shared with C15)", 1)
	}
	loopExitRule(e, "R06.5", outputRel, "a later dangling reference is not reported", reachableNames(e, outputRel, "ValidateParamsExist", "ValidateServicesExist")...)
	r.NotCovered = append(r.NotCovered,
		"the run-time 'does not exist' errors of the runtime library (follow from R06.1 + R06.4 under the trusted runtime)",
		"the exact diagnostic wording")
}

// c15ExistingRule re-keys the shared rule of C15.
func c15ExistingRule(e *Env, rule string) {
	save := e.R
	_ = save
	for _, v := range []struct{ fn, field string }{{"ValidateParamsExist", "Params"}, {"ValidateServicesExist", "Services"}} {
		key := outputRel + "." + v.fn + "#existing"
		fn := e.P.Func(outputRel, v.fn)
		if fn == nil {
			e.R.Undecide(rule, key, "anchor not found")
			continue
		}
		ok := existingSetFilled(fn, v.field)
		e.R.Check(ok, rule, key, fmt.Sprintf("every element of o.%s is entered into the declared set unconditionally (todo ones included)", v.field))
	}
}

func c06AllArgs(e *Env, a *apath) {
	r := e.R
	fn := e.P.Func(outputRel, "Service.AllArgs")
	st := outputType(e, "Service")
	at := outputType(e, "Arg")
	if fn == nil || st == nil || at == nil {
		r.Undecide("R06.2", outputRel+".Service.AllArgs", "anchor not found")
		return
	}
	// required: paths from Service to values of type Arg
	var req []string
	var walk func(t types.Type, path string, d int)
	walk = func(t types.Type, path string, d int) {
		if d > 6 {
			return
		}
		if types.Identical(t, at) {
			req = append(req, path)
			return
		}
		switch u := t.Underlying().(type) {
		case *types.Struct:
			for i := 0; i < u.NumFields(); i++ {
				walk(u.Field(i).Type(), path+"."+u.Field(i).Name(), d+1)
			}
		case *types.Slice:
			walk(u.Elem(), path+"[*]", d+1)
		case *types.Map:
			walk(u.Elem(), path+"[*]", d+1)
		}
	}
	walk(st, "Service", 0)
	b := newApath(e.P)
	b.root(fn, 0, "Service")
	got := map[string]bool{}
	for _, blk := range fn.Blocks {
		for _, ins := range blk.Instrs {
			if ret, ok := ins.(*ssa.Return); ok {
				for p := range b.of(ret.Results[0]) {
					got[elemOf(p)] = true
				}
			}
		}
	}
	for _, p := range req {
		r.Check(got[p], "R06.2", outputRel+".Service.AllArgs returns "+p, fmt.Sprintf("arguments in this position take part in reference, cycle and scope checks (returned element paths %v)", sortedPaths(got)))
	}
}

// c06Recorded: same captured value is emitted and recorded.
func c06Recorded(e *Env) {
	r := e.R
	for _, c := range []struct{ rel, fn, field, group string }{
		{"internal/pkg/resolver", "ServiceResolver.ResolveArg", "DependsOnServices", "service"},
		{"internal/pkg/resolver", "TaggedResolver.ResolveArg", "DependsOnTags", "tag"},
	} {
		key := c.rel + "." + c.fn
		fn := e.P.Func(c.rel, c.fn)
		if fn == nil {
			r.Undecide("R06.4", key, "anchor not found")
			continue
		}
		// the group key of the value stored as dependency, and of the value formatted into Code
		var depKeys, codeKeys []string
		for _, b := range fn.Blocks {
			for _, ins := range b.Instrs {
				st, ok := ins.(*ssa.Store)
				if !ok {
					continue
				}
				fa, ok := st.Addr.(*ssa.FieldAddr)
				if !ok {
					continue
				}
				switch fieldName(fa) {
				case c.field:
					depKeys = append(depKeys, lookupConstKeys(st.Val, 0)...)
				case "Code":
					codeKeys = append(codeKeys, lookupConstKeys(st.Val, 0)...)
				}
			}
		}
		sort.Strings(depKeys)
		sort.Strings(codeKeys)
		ok := len(depKeys) == 1 && len(codeKeys) == 1 && depKeys[0] == codeKeys[0] && depKeys[0] == c.group
		r.Check(ok, "R06.4", key+"#emitted-is-recorded", fmt.Sprintf("the generated code and the recorded dependency both use capture group %q (code uses %v, dependency uses %v)", c.group, codeKeys, depKeys))
	}
	// FactoryReference: DependsOn and Code use the same variable
	fn := e.P.Func("internal/pkg/token", "FactoryReference.Create")
	key := "internal/pkg/token.FactoryReference.Create"
	if fn == nil {
		r.Undecide("R06.4", key, "anchor not found")
	} else {
		var dep, code []ssa.Value
		for _, b := range fn.Blocks {
			for _, ins := range b.Instrs {
				if st, ok := ins.(*ssa.Store); ok {
					if fa, ok := st.Addr.(*ssa.FieldAddr); ok {
						switch fieldName(fa) {
						case "DependsOn":
							dep = append(dep, stringLeaves(st.Val, 0)...)
						case "Code":
							code = append(code, stringLeaves(st.Val, 0)...)
						}
					}
				}
			}
		}
		same := len(dep) == 1 && len(code) >= 1
		for _, c := range code {
			if len(dep) == 1 && c != dep[0] {
				same = false
			}
		}
		r.Check(same, "R06.4", key+"#emitted-is-recorded", "getParam(<name>) and the recorded dependency are the same extracted reference name")
	}
	// PatternResolver: union over all tokens, unconditionally
	pf := e.P.Func("internal/pkg/resolver", "PatternResolver.ResolveArg")
	pkey := "internal/pkg/resolver.PatternResolver.ResolveArg"
	if pf == nil {
		r.Undecide("R06.4", pkey, "anchor not found")
		return
	}
	okUnion := false
	// the accumulation loop may live in a helper of the package that receives the tokens and returns the list
	var accFn *ssa.Function
	var accCall ssa.Value
	for _, uf := range unitFns(pf, 1) {
		for _, b := range uf.Blocks {
			for _, ins := range b.Instrs {
				c, ok := ins.(*ssa.Call)
				if !ok {
					continue
				}
				if bi, ok := c.Call.Value.(*ssa.Builtin); !ok || bi.Name() != "append" || len(c.Call.Args) != 2 {
					continue
				}
				if !derivesFromField(c.Call.Args[1], "DependsOn", 0) {
					continue
				}
				// the loop around it has exactly one conditional (the range condition)
				conds := 0
				for _, lb := range uf.Blocks {
					if reach(b, true)[lb] && reach(lb, false)[b] {
						if _, isIf := lb.Instrs[len(lb.Instrs)-1].(*ssa.If); isIf {
							conds++
						}
					}
				}
				if conds == 1 {
					okUnion = true
					accFn = uf
				}
			}
		}
	}
	if accFn != nil && accFn != pf {
		// the helper returns the accumulator, and ResolveArg stores the helper's result
		okUnion = false
		for _, b := range accFn.Blocks {
			if ret, isRet := b.Instrs[len(b.Instrs)-1].(*ssa.Return); isRet && len(ret.Results) == 1 && phiOfAppends(ret.Results[0]) {
				okUnion = true
			}
		}
		for _, c := range callsIn(pf, false) {
			if c.Common().StaticCallee() == accFn {
				accCall = c.Value()
			}
		}
	}
	r.Check(okUnion, "R06.4", pkey+"#union-of-all-tokens", "DependsOnParams is the concatenation of the dependencies of every token, without filter or early exit")
	// and the stored dependency list is that accumulator
	okStored := false
	throughHelper := ""
	var unionStores []*ssa.Store
	for _, b := range pf.Blocks {
		for _, ins := range b.Instrs {
			if st, ok := ins.(*ssa.Store); ok {
				if fa, ok := st.Addr.(*ssa.FieldAddr); ok && fieldName(fa) == "DependsOnParams" {
					if c, isCall := st.Val.(*ssa.Call); isCall && !(accCall != nil && st.Val == accCall) {
						// the list passes through a function on its way into the result: a filter that is not followed
						if g := c.Call.StaticCallee(); g != nil && e.P.InModule(g) {
							throughHelper = e.P.FuncKey(g)
							continue
						}
					}
					if derivesFromField(st.Val, "DependsOn", 0) || phiOfAppends(st.Val) || (accCall != nil && st.Val == accCall) {
						okStored = true
						unionStores = append(unionStores, st)
					}
				}
			}
		}
	}
	if !okStored && throughHelper != "" {
		r.Undecide("R06.4", pkey+"#stores-the-union", "the accumulated list reaches the result only through "+throughHelper+", a rewrite of the list that is not followed: an entry it drops is a reference that is compiled into the code but never validated", e.P.Pos(pf.Pos()))
	} else {
		r.Check(okStored, "R06.4", pkey+"#stores-the-union", "the result's DependsOnParams is the accumulated list")
	}
	// every successful return carries it: no fast path hands out code without its references
	if okStored {
		okAll, bad := true, token.NoPos
		for _, b := range pf.Blocks {
			ret, isRet := b.Instrs[len(b.Instrs)-1].(*ssa.Return)
			if !isRet || len(ret.Results) == 0 {
				continue
			}
			if k, isK := ret.Results[len(ret.Results)-1].(*ssa.Const); !isK || !k.IsNil() {
				continue // an error return
			}
			dom := false
			for _, st := range unionStores {
				if st.Block().Dominates(b) {
					dom = true
				}
				// accumulation in place inside a loop (x.DependsOnParams = append(x.DependsOnParams, …)): the
				// return lies behind that loop
				for _, h := range pf.Blocks {
					if isLoopHeader(h) && h.Dominates(st.Block()) && reach(st.Block(), true)[h] && h.Dominates(b) {
						dom = true
					}
				}
			}
			if !dom {
				okAll, bad = false, ret.Pos()
			}
		}
		r.Check(okAll, "R06.4", pkey+"#every-success-return-carries-the-union", "every return with a nil error lies behind the store of the accumulated list: a fast path that returns the code without its references loses the parameter edges of that argument", e.P.Pos(bad))
	}
	loopExitRule(e, "R06.4", "internal/pkg/resolver", "a reference after the exit is compiled into the code but not recorded", reachableNames(e, "internal/pkg/resolver", "PatternResolver.ResolveArg")...)
}

func phiOfAppends(v ssa.Value) bool {
	switch x := v.(type) {
	case *ssa.Phi:
		for _, e := range x.Edges {
			if c, ok := e.(*ssa.Call); ok {
				if b, ok := c.Call.Value.(*ssa.Builtin); ok && b.Name() == "append" {
					return true
				}
			}
		}
	case *ssa.Call:
		if b, ok := x.Call.Value.(*ssa.Builtin); ok && b.Name() == "append" {
			return true
		}
	}
	return false
}

// lookupConstKeys: constant keys of map lookups the value derives from (through Sprintf varargs, slices literals).
func lookupConstKeys(v ssa.Value, d int) []string {
	if d > 10 || v == nil {
		return nil
	}
	switch x := v.(type) {
	case *ssa.Lookup:
		if s, ok := constString(x.Index); ok {
			return []string{s}
		}
	case *ssa.Call:
		var out []string
		for _, a := range x.Call.Args {
			out = append(out, lookupConstKeys(a, d+1)...)
		}
		return out
	case *ssa.Slice:
		return lookupConstKeys(x.X, d+1)
	case *ssa.Alloc:
		var out []string
		for _, ref := range *x.Referrers() {
			if ia, ok := ref.(*ssa.IndexAddr); ok {
				for _, r2 := range *ia.Referrers() {
					if st, ok := r2.(*ssa.Store); ok {
						out = append(out, lookupConstKeys(st.Val, d+1)...)
					}
				}
			}
			if st, ok := ref.(*ssa.Store); ok && st.Addr == x {
				out = append(out, lookupConstKeys(st.Val, d+1)...)
			}
		}
		return out
	case *ssa.MakeInterface:
		return lookupConstKeys(x.X, d+1)
	case *ssa.Extract:
		return lookupConstKeys(x.Tuple, d+1)
	case *ssa.UnOp:
		return lookupConstKeys(x.X, d+1)
	case *ssa.Phi:
		var out []string
		for _, e := range x.Edges {
			out = append(out, lookupConstKeys(e, d+1)...)
		}
		return out
	}
	return nil
}

// stringLeaves: the non-constant string values a value is assembled from.
func stringLeaves(v ssa.Value, d int) []ssa.Value {
	if d > 10 || v == nil {
		return nil
	}
	switch x := v.(type) {
	case *ssa.Const:
		return nil
	case *ssa.Call:
		if n := callName(&x.Call); n == "fmt.Sprintf" {
			var out []ssa.Value
			for _, a := range x.Call.Args[1:] {
				out = append(out, stringLeaves(a, d+1)...)
			}
			return out
		}
		return []ssa.Value{x}
	case *ssa.Slice:
		return stringLeaves(x.X, d+1)
	case *ssa.Alloc:
		var out []ssa.Value
		for _, ref := range *x.Referrers() {
			if ia, ok := ref.(*ssa.IndexAddr); ok {
				for _, r2 := range *ia.Referrers() {
					if st, ok := r2.(*ssa.Store); ok {
						out = append(out, stringLeaves(st.Val, d+1)...)
					}
				}
			}
		}
		return out
	case *ssa.MakeInterface:
		return stringLeaves(x.X, d+1)
	case *ssa.Extract:
		return []ssa.Value{x}
	}
	return []ssa.Value{v}
}

// c06Copies: composite literals of output.Arg / output.Param / resolver.ParamExpr copy the dependency
// fields from the same-named fields; no literal of output.Arg omits one.
func c06Copies(e *Env) {
	r := e.R
	at := outputType(e, "Arg")
	if at == nil {
		return
	}
	ast0 := at.Underlying().(*types.Struct)
	n := 0
	for _, rel := range []string{compilerRel, "internal/pkg/resolver"} {
		pk := e.P.Pkg(rel)
		for _, f := range pk.Syntax {
			for _, d := range f.Decls {
				fd, ok := d.(*ast.FuncDecl)
				if !ok || fd.Body == nil {
					continue
				}
				ast.Inspect(fd.Body, func(nd ast.Node) bool {
					cl, ok := nd.(*ast.CompositeLit)
					if !ok {
						return true
					}
					t := pk.TypesInfo.TypeOf(cl)
					if t == nil || !types.Identical(t, at) {
						return true
					}
					n++
					key := fmt.Sprintf("%s#output.Arg-literal-%d", load.DeclKey(rel, fd), n)
					set := map[string]string{}
					for _, el := range cl.Elts {
						if kv, ok := el.(*ast.KeyValueExpr); ok {
							set[kv.Key.(*ast.Ident).Name] = lastName(kv.Value)
						}
					}
					ok2 := true
					var miss []string
					for i := 0; i < ast0.NumFields(); i++ {
						fn := ast0.Field(i).Name()
						if set[fn] != fn {
							ok2 = false
							miss = append(miss, fn)
						}
					}
					r.Check(ok2, "R06.4", key, fmt.Sprintf("output.Arg is built field by field from the same-named fields of the resolver's result (missing or different: %v)", miss), e.P.Pos(cl.Pos()))
					return true
				})
			}
		}
	}
	if n == 0 {
		r.Violate("R06.4", compilerRel+"#output.Arg-literal", "no composite literal of output.Arg found", nil)
	}
	// Param: DependsOn <- DependsOnParams ; ParamExpr.DependsOnParams <- ArgExpr.DependsOnParams
	for _, c := range []struct{ rel, fn, dst, src string }{
		{compilerRel, "StepCompileParams.Process$1", "DependsOn", "DependsOnParams"},
		{"internal/pkg/resolver", "ParamResolver.ResolveParam", "DependsOnParams", "DependsOnParams"},
	} {
		var fn *ssa.Function
		base := strings.TrimSuffix(c.fn, "$1")
		if f := e.P.Func(c.rel, base); f != nil {
			fn = f
			if strings.HasSuffix(c.fn, "$1") && len(f.AnonFuncs) > 0 {
				fn = f.AnonFuncs[0]
			}
		}
		key := c.rel + "." + c.fn + "#" + c.dst
		if fn == nil {
			r.Undecide("R06.4", key, "anchor not found")
			continue
		}
		ok := false
		allInstrs(fn, func(_ *ssa.Function, ins ssa.Instruction) {
			if st, isSt := ins.(*ssa.Store); isSt {
				if fa, isFa := st.Addr.(*ssa.FieldAddr); isFa && fieldName(fa) == c.dst && srcField(st.Val) == c.src {
					ok = true
				}
			}
		})
		r.Check(ok, "R06.4", key, fmt.Sprintf("%s ← %s, unchanged", c.dst, c.src))
	}
}

func c06Diagnostics(e *Env) {
	r := e.R
	for _, v := range []string{"ValidateParamsExist", "ValidateServicesExist"} {
		fn := e.P.Func(outputRel, v)
		if fn == nil {
			continue
		}
		for i, s := range errorSites(pkgCallees(fn)) {
			key := fmt.Sprintf("%s.%s#error-site-%d(%s)", outputRel, v, i+1, strings.TrimPrefix(e.P.FuncKey(s.fn), outputRel+"."))
			mkey, _, _, okM := missingNameAt(s.fn, s.call)
			names, missing := 0, false
			if isErrorCtorHelper(s.call.Call.StaticCallee()) {
				// the diagnostic is built by a newErrXxx helper: its arguments are the formatted values
				for _, a := range s.call.Call.Args {
					if derivesFromField(a, "Name", 0) || derivesFromField(a, "Tag", 0) {
						names++
					}
					if okM && unwrap(a) == mkey {
						missing = true
					}
				}
			} else if sl, ok := s.call.Call.Args[len(s.call.Call.Args)-1].(*ssa.Slice); ok {
				if al, ok := sl.X.(*ssa.Alloc); ok {
					for _, ref := range *al.Referrers() {
						if ia, ok := ref.(*ssa.IndexAddr); ok {
							for _, r2 := range *ia.Referrers() {
								if st, ok := r2.(*ssa.Store); ok {
									if derivesFromField(st.Val, "Name", 0) || derivesFromField(st.Val, "Tag", 0) {
										names++
									}
									if okM && unwrap(st.Val) == mkey {
										missing = true
									}
								}
							}
						}
					}
				}
			}
			r.Check(names >= 1 && missing, "R06.5", key, "the diagnostic names the referrer and the missing name", e.P.Pos(s.call.Pos()))
			// the check of a reference depends on nothing but the loops over the elements and the look-up in
			// the declared set: a shortcut that skips some elements (todo services, services without arguments,
			// …) leaves their references unchecked
			why := ""
			sf := s.call.Parent()
			for _, b := range sf.Blocks {
				iff, isIf := b.Instrs[len(b.Instrs)-1].(*ssa.If)
				if !isIf || isLoopHeader(b) {
					continue
				}
				if !edgeDominates(b, true, s.call) && !edgeDominates(b, false, s.call) {
					continue
				}
				// membership test: the ok of a look-up in a map (or the looked-up bool itself)
				cond := iff.Cond
				if u, isU := cond.(*ssa.UnOp); isU && u.Op == token.NOT {
					cond = u.X
				}
				member := false
				switch x := cond.(type) {
				case *ssa.Extract:
					if lk, isLk := x.Tuple.(*ssa.Lookup); isLk && lk.CommaOk && x.Index == 1 {
						member = true
					}
				case *ssa.Lookup:
					_, member = x.X.Type().Underlying().(*types.Map)
				case *ssa.Call:
					// a one-line predicate of the package around such a look-up (isDeclared(set, name))
					if g := x.Call.StaticCallee(); g != nil && e.P.InModule(g) && len(g.Blocks) == 1 {
						for _, gi := range g.Blocks[0].Instrs {
							if _, isLk := gi.(*ssa.Lookup); isLk {
								member = true
							}
						}
					}
				}
				if !member {
					why = fmt.Sprintf("%s at %s", iff.Cond.String(), e.P.Pos(iff.Cond.Pos()))
				}
			}
			r.Check(why == "", "R06.5", key+"#no-shortcut", "the look-up of this reference depends only on the loops over the elements and on the membership test (found another condition: "+why+")", e.P.Pos(s.call.Pos()))
		}
		// every return combines all sub-validators
		var subs []ssa.Value
		for _, c := range callsIn(fn, false) {
			if callee := c.Common().StaticCallee(); callee != nil && callee.Pkg == fn.Pkg && c.Value() != nil && isErrorSlice(c.Value().Type()) {
				subs = append(subs, c.Value())
			}
		}
		key := outputRel + "." + v + "#returns-combine-all-sub-validators"
		ok := len(subs) >= 2
		for _, b := range fn.Blocks {
			for _, ins := range b.Instrs {
				if ret, isRet := ins.(*ssa.Return); isRet {
					for _, sv := range subs {
						if !taintFrom(fn, sv).has(ret.Results[0]) {
							ok = false
						}
					}
				}
			}
		}
		r.Check(ok, "R06.5", key, fmt.Sprintf("every return of %s carries the findings of all %d sub-validators (no early acceptance)", v, len(subs)))
	}
}

// ---------------- C07 ----------------

// foreignCondition: a description of a branch condition the call depends on that is neither a loop
// condition nor a non-emptiness test of one of the call's own arguments; "" when there is none.
func foreignCondition(c ssa.CallInstruction, a *apath) string {
	sameAsArg := func(x ssa.Value) bool {
		x = unwrap(x)
		px := a.of(x)
		for _, arg := range c.Common().Args {
			if unwrap(arg) == x {
				return true
			}
			pa := a.of(arg)
			if len(px) > 0 && len(px) == len(pa) {
				all := true
				for k := range px {
					if !pa[k] {
						all = false
					}
				}
				if all {
					return true
				}
			}
		}
		return false
	}
	// nonEmpty: cond (on edge `onTrue`) says "x is non-empty" for an own argument x
	nonEmpty := func(cond ssa.Value, onTrue bool) bool {
		b, ok := cond.(*ssa.BinOp)
		if !ok {
			return false
		}
		if v, nn, ok := nilTest(cond); ok {
			return nn == onTrue && sameAsArg(v)
		}
		lenOf := func(v ssa.Value) ssa.Value {
			if call, ok := v.(*ssa.Call); ok {
				if bi, ok := call.Call.Value.(*ssa.Builtin); ok && bi.Name() == "len" {
					return call.Call.Args[0]
				}
			}
			return nil
		}
		intOf := func(v ssa.Value) (int64, bool) {
			if k, ok := v.(*ssa.Const); ok && k.Value != nil {
				return k.Int64(), true
			}
			return 0, false
		}
		op, l, rr := b.Op, b.X, b.Y
		if lenOf(l) == nil && lenOf(rr) != nil { // k op len(x)  ->  len(x) op' k
			l, rr = rr, l
			switch op {
			case token.LSS:
				op = token.GTR
			case token.LEQ:
				op = token.GEQ
			case token.GTR:
				op = token.LSS
			case token.GEQ:
				op = token.LEQ
			}
		}
		x := lenOf(l)
		k, isK := intOf(rr)
		if x == nil || !isK || !sameAsArg(x) {
			return false
		}
		switch {
		case onTrue && (op == token.GTR || op == token.NEQ) && k == 0, onTrue && op == token.GEQ && k == 1:
			return true
		case !onTrue && (op == token.EQL || op == token.LEQ) && k == 0, !onTrue && op == token.LSS && k == 1:
			return true
		}
		return false
	}
	fn := c.Parent()
	for _, b := range fn.Blocks {
		iff, ok := b.Instrs[len(b.Instrs)-1].(*ssa.If)
		if !ok {
			continue
		}
		for _, onTrue := range []bool{true, false} {
			if !edgeDominates(b, onTrue, c) {
				continue
			}
			if isLoopHeader(b) { // loop condition: the body runs once per element, the exit after the last
				continue
			}
			if nonEmpty(iff.Cond, onTrue) {
				continue
			}
			edge := "false"
			if onTrue {
				edge = "true"
			}
			return fmt.Sprintf("the condition %s at %s is %s", iff.Cond.String(), fn.Prog.Fset.Position(iff.Cond.Pos()), edge)
		}
	}
	return ""
}

// isLoopHeader: b is the target of a back edge (a predecessor that b dominates).
func isLoopHeader(b *ssa.BasicBlock) bool {
	for _, p := range b.Preds {
		if b.Dominates(p) {
			return true
		}
	}
	return false
}

func C07(e *Env) {
	r := e.R
	e.analysedBase()
	yamlKeysRule(e, "R11.12", "services", "parameters", "decorators", "arguments", "calls", "fields", "tags")
	e.R.Rule("R11.12", "key table (shared with C11): every position that can hold a dependency is recognised under its documented spelling", 7)
	r.Rule("R07.1", "graph coverage by type: BuildDependencyGraph hands every dependency-carrying path of output.Output to the graph builder method of its kind — services with their tag names, service→service/tag/param edges over all argument positions, decorators with their tag and their service/tag/param edges, param→param edges", 14)
	r.Rule("R07.2", "ValidateCircularDeps returns exactly the error derived from graph.CircularDepsToError(graph.CircularDeps()) of that graph", 2)
	r.Rule("R07.3", "the cycle validator is wired into the output validation step and cannot be switched off", 3)
	r.Rule("R07.4", "parameter edges exist: Param.DependsOn ← ParamExpr.DependsOnParams ← ArgExpr.DependsOnParams ← union of the tokens' references; all five dependency fields are copied into output.Arg wherever one is built", 3)
	r.Rule("R07.5", "per-element dependency lists are fresh (declared inside the loop) and every element is visited (no early exit)", 8)

	for _, m := range []struct{ name, typ string }{{"Merge", "Input"}, {"mergeService", "Service"}} {
		mergeLiteralRule(e, m.name, m.typ)
	}
	r.Rule("R09.1", "no declaration is lost before the graph is built: decorators, calls and tags of all files are concatenated, arguments replaced only by a non-empty later list (shared with C09)", 16)
	r.Rule("R09.1c", "behaviour classes of the merge combinators (shared with C09)", 3)
	fn := e.P.Func(outputRel, "Output.BuildDependencyGraph")
	ot := outputType(e, "Output")
	if fn == nil || ot == nil {
		r.Undecide("R07.1", outputRel+".Output.BuildDependencyGraph", "anchor not found")
		return
	}
	a := newApath(e.P)
	a.root(fn, 0, "Output")
	// collect builder calls: method name -> per-argument path sets
	type callArgs struct {
		pos  token.Pos
		args []map[string]bool
	}
	calls := map[string][]callArgs{}
	graphPkg := load.RuntimeMod + "/container/graph"
	for _, c := range callsIn(fn, false) {
		callee := c.Common().StaticCallee()
		if callee == nil || callee.Pkg == nil || !strings.HasPrefix(callee.Pkg.Pkg.Path(), load.RuntimeMod+"/container/") || !strings.HasSuffix(callee.Pkg.Pkg.Path(), "/graph") || callee.Signature.Recv() == nil {
			continue
		}
		ca := callArgs{pos: c.Pos()}
		for _, arg := range c.Common().Args[1:] {
			m := map[string]bool{}
			for p := range a.of(arg) {
				p = strings.ReplaceAll(p, elemMark, "[*]")
				m[p] = true
			}
			ca.args = append(ca.args, m)
		}
		calls[callee.Name()] = append(calls[callee.Name()], ca)
		// the edge is added for every element: the only conditions a builder call may depend on are
		// the loops over the elements and a non-emptiness test of a list it passes on
		if why := foreignCondition(c, a); why != "" {
			r.Violate("R07.1", callee.Name()+"#unconditional", "the edge of this kind is added only when "+why+": an element whose other dependency lists are non-empty loses these edges, and a cycle through them is not found", nil, e.P.Pos(c.Pos()))
		} else {
			r.Hold("R07.1", callee.Name()+"#unconditional", "the builder call depends on no condition besides the loops over the elements (and a non-emptiness test of its own list)", e.P.Pos(c.Pos()))
		}
	}
	r.Analysed["graph_builder_calls"] = len(calls)
	has := func(method string, argIdx int, path string) bool {
		for _, c := range calls[method] {
			if argIdx < len(c.args) && (c.args[argIdx][path] || c.args[argIdx][strings.TrimSuffix(path, "[*]")]) {
				return true
			}
		}
		return false
	}
	need := func(method string, argIdx int, path, why string) {
		key := fmt.Sprintf("%s(arg%d) ⊇ %s", method, argIdx, path)
		if has(method, argIdx, path) {
			r.Hold("R07.1", key, why)
		} else {
			var got []string
			for _, c := range calls[method] {
				if argIdx < len(c.args) {
					got = append(got, sortedPaths(c.args[argIdx])...)
				}
			}
			r.Violate("R07.1", key, "this dependency never becomes an edge of the graph: a cycle (or a shared-on-contextual chain) through it is not detected; "+why, map[string]any{"argument_paths": got})
		}
	}
	need("AddService", 0, "Output.Services[*].Name", "service node")
	need("AddService", 1, "Output.Services[*].Tags[*].Name[*]", "tags of the service (edges from !tagged consumers and decorators)")
	svcT := outputType(e, "Service")
	for _, k := range []string{"Services", "Tags", "Params"} {
		for _, p := range typePaths(svcT, "Output.Services[*]", map[string]bool{"DependsOn" + k: true}) {
			need("ServiceDependsOn"+k, 1, p, "service → "+strings.ToLower(k)+" edge")
		}
		need("ServiceDependsOn"+k, 0, "Output.Services[*].Name", "edge source is the service itself")
		for _, p := range typePaths(outputType(e, "Decorator"), "Output.Decorators[*]", map[string]bool{"DependsOn" + k: true}) {
			need("DecoratorDependsOn"+k, 1, p, "decorator → "+strings.ToLower(k)+" edge")
		}
	}
	need("AddDecorator", 1, "Output.Decorators[*].Tag", "decorator attached to its tag")
	need("ParamDependsOnParam", 0, "Output.Params[*].Name", "param → param edge source")
	need("ParamDependsOnParam", 1, "Output.Params[*].DependsOn[*]", "param → param edge target")
	// decorator ids: the same index identifies the decorator in AddDecorator and in its edges
	c07DecoratorIDs(e, fn)

	// R07.2
	vf := e.P.Func(outputRel, "ValidateCircularDeps")
	if vf == nil {
		r.Undecide("R07.2", outputRel+".ValidateCircularDeps", "anchor not found")
	} else {
		// graph.CircularDepsToError is a function variable of the runtime: a call through the loaded global
		var toErr []*ssa.Call
		for _, c := range callsIn(vf, false) {
			call, ok := c.(*ssa.Call)
			if !ok {
				continue
			}
			if ld, ok := call.Call.Value.(*ssa.UnOp); ok {
				if g, ok := ld.X.(*ssa.Global); ok && g.Name() == "CircularDepsToError" && g.Pkg.Pkg.Path() == graphPkg {
					toErr = append(toErr, call)
				}
			}
			if callName(&call.Call) == graphPkg+".CircularDepsToError" {
				toErr = append(toErr, call)
			}
		}
		okChain := false
		if len(toErr) == 1 {
			if inv, ok := toErr[0].Call.Args[0].(*ssa.Call); ok && inv.Call.IsInvoke() && inv.Call.Method.Name() == "CircularDeps" {
				if g, ok := inv.Call.Value.(*ssa.Call); ok && strings.HasSuffix(callName(&g.Call), ".(Output).BuildDependencyGraph") {
					okChain = true
				}
			}
		}
		r.Check(okChain, "R07.2", outputRel+".ValidateCircularDeps#chain", "CircularDepsToError(o.BuildDependencyGraph().CircularDeps())")
		okRet := len(toErr) == 1
		if okRet {
			ts := taintFrom(vf, toErr[0])
			for _, b := range vf.Blocks {
				for _, ins := range b.Instrs {
					if ret, ok := ins.(*ssa.Return); ok && !ts.has(ret.Results[0]) {
						okRet = false
					}
				}
			}
		}
		r.Check(okRet, "R07.2", outputRel+".ValidateCircularDeps#returns", "every return carries that error (a cyclic configuration cannot be accepted on another path)")
	}
	c05Wiring(e, "R07.3", "ValidateCircularDeps")
	c06Copies4(e, "R07.4")
	c06Recorded(e)
	r.Rule("R06.4", "the recorded dependencies are the union over ALL tokens of a pattern and the same identifiers that are emitted (shared with C06): a lost reference is a lost edge", 6)
	freshRule(e, "R07.5", 6, outputRel)
	loopExitRule(e, "R07.5", outputRel, "elements after the exit contribute no node or edge", "Output.BuildDependencyGraph", "Service.AllArgs")
	loopExitRule(e, "R07.5", "internal/pkg/resolver", "a reference after the exit is not recorded as an edge", "PatternResolver.ResolveArg")
	c06AllArgsRule(e, "R07.5")
	r.NotCovered = append(r.NotCovered,
		"the runtime library's cycle enumeration and the format of its report",
		"termination of run-time parameter evaluation (follows from acyclicity under the trusted runtime)")
}

func c06AllArgsRule(e *Env, rule string) {
	save := e.R
	_ = save
	a := newApath(e.P)
	fn := e.P.Func(outputRel, "Service.AllArgs")
	if fn == nil {
		return
	}
	a.root(fn, 0, "Service")
	n := 0
	for _, blk := range fn.Blocks {
		for _, ins := range blk.Instrs {
			if ret, ok := ins.(*ssa.Return); ok {
				n = len(a.of(ret.Results[0]))
			}
		}
	}
	e.R.Check(n >= 3, rule, outputRel+".Service.AllArgs#positions", fmt.Sprintf("AllArgs returns arguments from %d positions (constructor, calls, fields)", n))
}

func c06Copies4(e *Env, rule string) {
	// reuse the copies rule under another id
	r := e.R
	at := outputType(e, "Arg")
	if at == nil {
		return
	}
	st := at.Underlying().(*types.Struct)
	n := 0
	for _, rel := range []string{compilerRel} {
		pk := e.P.Pkg(rel)
		for _, f := range pk.Syntax {
			for _, d := range f.Decls {
				fd, ok := d.(*ast.FuncDecl)
				if !ok || fd.Body == nil {
					continue
				}
				ast.Inspect(fd.Body, func(nd ast.Node) bool {
					cl, ok := nd.(*ast.CompositeLit)
					if !ok {
						return true
					}
					if t := pk.TypesInfo.TypeOf(cl); t == nil || !types.Identical(t, at) {
						return true
					}
					n++
					set := map[string]string{}
					for _, el := range cl.Elts {
						if kv, ok := el.(*ast.KeyValueExpr); ok {
							set[kv.Key.(*ast.Ident).Name] = lastName(kv.Value)
						}
					}
					var miss []string
					for i := 0; i < st.NumFields(); i++ {
						if fn := st.Field(i).Name(); set[fn] != fn {
							miss = append(miss, fn)
						}
					}
					r.Check(len(miss) == 0, rule, fmt.Sprintf("%s#output.Arg-literal-%d", load.DeclKey(rel, fd), n), fmt.Sprintf("every dependency field of the resolver's result reaches output.Arg (missing or different: %v)", miss), e.P.Pos(cl.Pos()))
					return true
				})
			}
		}
	}
	for _, c := range []struct{ rel, fn, dst, src string }{
		{compilerRel, "StepCompileParams.Process", "DependsOn", "DependsOnParams"},
		{"internal/pkg/resolver", "ParamResolver.ResolveParam", "DependsOnParams", "DependsOnParams"},
	} {
		fn := e.P.Func(c.rel, c.fn)
		key := c.rel + "." + c.fn + "#" + c.dst
		if fn == nil {
			r.Undecide(rule, key, "anchor not found")
			continue
		}
		ok := false
		allInstrs(fn, func(_ *ssa.Function, ins ssa.Instruction) {
			if st, isSt := ins.(*ssa.Store); isSt {
				if fa, isFa := st.Addr.(*ssa.FieldAddr); isFa && fieldName(fa) == c.dst && srcField(st.Val) == c.src {
					ok = true
				}
			}
		})
		r.Check(ok, rule, key, fmt.Sprintf("%s ← %s, unchanged", c.dst, c.src))
	}
}

// c07DecoratorIDs: AddDecorator and DecoratorDependsOn* identify the decorator by the same range index.
func c07DecoratorIDs(e *Env, fn *ssa.Function) {
	var ids []ssa.Value
	for _, c := range callsIn(fn, false) {
		callee := c.Common().StaticCallee()
		if callee == nil || !(callee.Name() == "AddDecorator" || strings.HasPrefix(callee.Name(), "DecoratorDependsOn")) {
			continue
		}
		ids = append(ids, c.Common().Args[1])
	}
	ok := len(ids) >= 4
	for _, v := range ids {
		if v != ids[0] {
			ok = false
		}
	}
	e.R.Check(ok, "R07.1", outputRel+".Output.BuildDependencyGraph#decorator-id", fmt.Sprintf("the %d decorator calls of one iteration use the same decorator id (its index)", len(ids)))
}

// c06Wiring: the existence validators are sub-steps of the output validation step (they are
// switchable by design, which C16 decides).
func c06Wiring(e *Env, validator string) {
	r := e.R
	gm, _, ok := e.models()
	if !ok {
		return
	}
	holder := ""
	for i := range gm.Services {
		for _, a := range gm.Services[i].Args {
			if a.Kind == "value" && a.Obj != nil && a.Obj.Name() == validator && objPkgPath(a.Obj) == e.P.ModPath+"/"+outputRel {
				holder = gm.Services[i].Name
			}
		}
	}
	vo := gm.Service("stepValidateOutput")
	in := false
	if vo != nil && holder != "" {
		for _, a := range vo.Args {
			if depIs(a, "service", holder) {
				in = true
			}
		}
	}
	r.Check(in, "R06.7", selfRel+"#validator:"+validator, fmt.Sprintf("output.%s is held by service %q, a sub-step of stepValidateOutput", validator, holder))
	run := gm.Service("runner")
	inRun := false
	if run != nil {
		for _, a := range run.Args {
			if depIs(a, "service", "stepValidateOutput") {
				inRun = true
			}
		}
	}
	r.Check(inRun, "R06.7", selfRel+"#stepValidateOutput-in-runner:"+validator, "the output validation step is one of the runner's steps")
}
