package rules

import (
	"fmt"
	"go/ast"
	"go/token"
	"go/types"
	"strings"

	"gverif/internal/load"

	"golang.org/x/tools/go/ssa"
)

func init() {
	Register("C05", C05)
	Register("C15", C15)
}

var scopeKeywords = map[string]string{"shared": "Shared", "contextual": "Contextual", "non_shared": "NonShared"}

func C05(e *Env) {
	r := e.R
	e.analysedBase()
	yamlKeysRule(e, "R11.12", "scope", "services")
	e.R.Rule("R11.12", "key table (shared with C11): `scope` is recognised under its documented spelling (an ignored key leaves every service in the default scope)", 2)
	r.Rule("R05.1", "scope chain: keyword → input.Scope constant (mapScopeString literal) → output.Scope constant (exhaustive switch of processScopes, nil → default, written at the index of the service it was read for) → template predicate → runtime setter; shared, contextual, non_shared and unset reach SetScopeShared, SetScopeContextual, SetScopeNonShared, SetScopeDefault, which exist in the pinned runtime", 12)
	r.Rule("R05.2", "ValidateServicesScopes is wired into the output validation step and cannot be switched off", 2)
	r.Rule("R05.3", "the scope validator raises exactly one kind of error, guarded by subject.Scope == ScopeShared and dependency.Scope == ScopeContextual, naming both; it inspects every dependency (no early loop exit) of the graph that BuildDependencyGraph builds from all edge kinds", 5)
	r.Rule("R05.4", "BuildDependencyGraph keeps per-service and per-decorator dependency lists fresh (declared inside the loop), so one element's dependencies never leak into the next", 6)

	c05Keywords(e)
	c05ProcessScopes(e)
	b := newSkelBuilder(e)
	if b.fr.ok && b.te.DataType != nil {
		sks := b.skeletons(e.Tier)
		emissionRules(e, sks, map[string]bool{"R05.1": true, "R02.5": true})
		r.Rule("R02.5", "every construction runs its own construction code: a service block registers a constructor closure, never a value evaluated once at container creation, which would hand one object to every context and every non_shared Get (shared with C02/C20)", 10)
		getterRules(e, sks)
		r.Rule("R13.2", "per-context instance identity needs the typed getters to pass their context on: GInContext calls c.GetInContext(ctx, own service), MustGInContext calls GInContext(ctx) (shared with C13)", 4)
		r.Rule("R13.1", "method-set contract of the getters (shared with C13)", 4)
	}
	c05Wiring(e, "R05.2", "ValidateServicesScopes")
	c05Validator(e)
	freshRule(e, "R05.4", 6, outputRel)
	mergeLiteralRule(e, "mergeService", "Service")
	r.Rule("R09.1", "a declared scope survives the multi-file merge: Service.Scope is merged like every scalar attribute, later non-nil wins (merge wiring shared with C09)", 11)
	r.Rule("R09.1c", "behaviour classes of the merge combinators (shared with C09)", 4)
	loopExitRule(e, "R05.3", outputRel, "a dependency that sorts after the first non-service dependency is never inspected", "ValidateServicesScopes", "Output.BuildDependencyGraph", "Service.AllArgs")
	r.NotCovered = append(r.NotCovered,
		"instance identity per scope at run time (once per container / per Get / per context) is the runtime library's behaviour",
		"the derivation 'unset scope is contextual iff it depends on a contextual service' is done by the runtime behind SetScopeDefault",
		"the transitive closure computed by graph.Deps (runtime library)")
}

func c05Keywords(e *Env) {
	r := e.R
	pk := e.P.Pkg(inputRel)
	obj := pk.Types.Scope().Lookup("mapScopeString")
	if obj == nil {
		r.Undecide("R05.1", inputRel+".mapScopeString", "variable not found")
		return
	}
	found := map[string]string{}
	for _, f := range pk.Syntax {
		ast.Inspect(f, func(n ast.Node) bool {
			cl, ok := n.(*ast.CompositeLit)
			if !ok || !literalAssignedTo(pk.TypesInfo, f, cl, obj) {
				return true
			}
			for _, el := range cl.Elts {
				kv, ok := el.(*ast.KeyValueExpr)
				if !ok {
					continue
				}
				kw, ok1 := load.StringOf(pk.TypesInfo, kv.Value)
				if id, ok := ast.Unparen(kv.Key).(*ast.Ident); ok && ok1 {
					found[kw] = id.Name
				}
			}
			return true
		})
	}
	for kw, suffix := range scopeKeywords {
		r.Check(found[kw] == "Scope"+suffix, "R05.1", inputRel+".mapScopeString#"+kw, fmt.Sprintf("keyword %q denotes input.Scope%s (found %q)", kw, suffix, found[kw]))
	}
	r.Check(len(found) == len(scopeKeywords), "R05.1", inputRel+".mapScopeString#no-other-keyword", fmt.Sprintf("exactly the three documented keywords (found %d)", len(found)))
	// the constants are distinct and none is zero (zero would be indistinguishable from unset in the output enum)
	vals := map[string]bool{}
	for _, s := range scopeKeywords {
		if c, ok := pk.Types.Scope().Lookup("Scope" + s).(*types.Const); ok {
			vals[c.Val().String()] = true
		}
	}
	r.Check(len(vals) == 3, "R05.1", inputRel+".Scope#distinct-constants", "the three input scope constants are pairwise distinct")
	// UnmarshalYAML: looks the keyword up and stores the found constant
	fn := e.P.Func(inputRel, "Scope.UnmarshalYAML")
	if fn == nil {
		r.Undecide("R05.1", inputRel+".Scope.UnmarshalYAML", "anchor not found")
		return
	}
	okStore := false
	for _, b := range fn.Blocks {
		for _, ins := range b.Instrs {
			if st, ok := ins.(*ssa.Store); ok {
				if ex, ok := st.Val.(*ssa.Extract); ok && ex.Index == 0 {
					if lk, ok := ex.Tuple.(*ssa.Lookup); ok && lk.CommaOk {
						if ld, ok := lk.X.(*ssa.UnOp); ok {
							if g, ok := ld.X.(*ssa.Global); ok && g.Name() == "mapStringScope" {
								okStore = true
							}
						}
					}
				}
			}
		}
	}
	r.Check(okStore, "R05.1", inputRel+".Scope.UnmarshalYAML#stores-looked-up-constant", "the decoded scope is the constant found for the keyword; unknown keywords are an error")
	okErr := false
	for _, s := range errorSites([]*ssa.Function{fn}) {
		if failedLookup(fn, s.call) != nil {
			okErr = true
		}
	}
	r.Check(okErr, "R05.1", inputRel+".Scope.UnmarshalYAML#unknown-keyword-is-error", "an unknown scope keyword is rejected")
}

func c05ProcessScopes(e *Env) {
	if c05ProcessScopesSSA(e) {
		return
	}
	r := e.R
	fd, pk := e.P.Decl("internal/pkg/compiler", "StepCompileServices.processScopes")
	key := "internal/pkg/compiler.StepCompileServices.processScopes"
	if fd == nil {
		r.Undecide("R05.1", key, "anchor not found")
		return
	}
	info := pk.TypesInfo
	var loop *ast.RangeStmt
	ast.Inspect(fd.Body, func(n ast.Node) bool {
		if rs, ok := n.(*ast.RangeStmt); ok && loop == nil {
			loop = rs
		}
		return true
	})
	if loop == nil {
		r.Violate("R05.1", key+"#loop", "no loop over the compiled services", nil)
		return
	}
	var idx, val types.Object
	if id, ok := loop.Key.(*ast.Ident); ok {
		idx = info.ObjectOf(id)
	}
	if id, ok := loop.Value.(*ast.Ident); ok {
		val = info.ObjectOf(id)
	}
	// every assignment to .Scope: index is the loop index; rhs is an output.Scope constant
	type asg struct {
		rhs  string
		cond string
		pos  token.Pos
	}
	var asgs []asg
	okIdx := true
	var visit func(n ast.Node, cond string)
	visit = func(n ast.Node, cond string) {
		ast.Inspect(n, func(x ast.Node) bool {
			switch s := x.(type) {
			case *ast.CaseClause:
				c := "default"
				if len(s.List) == 1 {
					c = "case " + lastName(s.List[0])
				} else if len(s.List) > 1 {
					c = "case multi"
				}
				for _, st := range s.Body {
					visit(st, c)
				}
				return false
			case *ast.IfStmt:
				c := cond
				if be, ok := ast.Unparen(s.Cond).(*ast.BinaryExpr); ok && be.Op == token.EQL {
					if id, ok := ast.Unparen(be.Y).(*ast.Ident); ok && id.Name == "nil" {
						c = "nil"
					}
				}
				visit(s.Body, c)
				if s.Else != nil {
					visit(s.Else, cond)
				}
				return false
			case *ast.AssignStmt:
				for i, l := range s.Lhs {
					se, ok := ast.Unparen(l).(*ast.SelectorExpr)
					if !ok || se.Sel.Name != "Scope" {
						continue
					}
					if ix, ok := elemIndex(se.X); ok {
						if id, ok := ast.Unparen(ix.Index).(*ast.Ident); !ok || info.ObjectOf(id) != idx {
							okIdx = false
						}
					} else {
						okIdx = false
					}
					asgs = append(asgs, asg{lastName(s.Rhs[i]), cond, s.Pos()})
				}
			}
			return true
		})
	}
	visit(loop.Body, "")
	r.Check(okIdx, "R05.1", key+"#written-at-own-index", "the scope is written to the service at the loop's own index")
	// the input scope is read for the same service: i.Services[<loop value>.Name].Scope
	okRead := false
	ast.Inspect(loop.Body, func(n ast.Node) bool {
		se, ok := n.(*ast.SelectorExpr)
		if !ok || se.Sel.Name != "Scope" {
			return true
		}
		if ix, ok := ast.Unparen(se.X).(*ast.IndexExpr); ok {
			if ks, ok := ast.Unparen(ix.Index).(*ast.SelectorExpr); ok && ks.Sel.Name == "Name" {
				if id, ok := ast.Unparen(ks.X).(*ast.Ident); ok && info.ObjectOf(id) == val {
					okRead = true
				}
			}
		}
		return true
	})
	r.Check(okRead, "R05.1", key+"#reads-own-service", "the declared scope is read from the input service with the same name")
	want := map[string]string{"nil": "ScopeDefault", "case ScopeShared": "ScopeShared", "case ScopeContextual": "ScopeContextual", "case ScopeNonShared": "ScopeNonShared"}
	got := map[string]string{}
	for _, a := range asgs {
		got[a.cond] = a.rhs
	}
	for c, w := range want {
		r.Check(got[c] == w, "R05.1", key+"#"+strings.ReplaceAll(c, " ", ":"), fmt.Sprintf("input %s is compiled to output.%s (found %q)", c, w, got[c]))
	}
	for c := range got {
		if _, ok := want[c]; !ok {
			r.Violate("R05.1", key+"#unexpected:"+c, "scope assignment under an undocumented condition", nil)
		}
	}
}

func lastName(e ast.Expr) string {
	switch x := ast.Unparen(e).(type) {
	case *ast.Ident:
		return x.Name
	case *ast.SelectorExpr:
		return x.Sel.Name
	}
	return types.ExprString(e)
}

// c05Wiring: the validator value is a constructor argument of a step that is an argument of
// stepValidateOutput, and no getter exposes that step.
func c05Wiring(e *Env, rule, validator string) {
	r := e.R
	gm, _, ok := e.models()
	if !ok {
		return
	}
	holder := ""
	for i := range gm.Services {
		for _, a := range gm.Services[i].Args {
			if a.Kind == "value" && a.Obj != nil && a.Obj.Name() == validator && objPkgPath(a.Obj) == e.P.ModPath+"/"+outputRel {
				holder = gm.Services[i].Name
			}
		}
	}
	if holder == "" {
		r.Violate(rule, selfRel+"#validator:"+validator, "the validator is not wired into any step of the self-hosted container", nil)
		return
	}
	vo := gm.Service("stepValidateOutput")
	in := false
	if vo != nil {
		for _, a := range vo.Args {
			if depIs(a, "service", holder) {
				in = true
			}
		}
	}
	r.Check(in, rule, selfRel+"#validator:"+validator, fmt.Sprintf("output.%s is held by service %q, which is a sub-step of stepValidateOutput", validator, holder))
	run := gm.Service("runner")
	inRun := false
	if run != nil {
		for _, a := range run.Args {
			if depIs(a, "service", "stepValidateOutput") {
				inRun = true
			}
		}
	}
	r.Check(inRun, rule, selfRel+"#stepValidateOutput-in-runner", "the output validation step is one of the runner's steps")
	exposed := false
	for _, g := range gm.Getters {
		if g.Service == holder || g.Service == "stepValidateOutput" {
			exposed = true
		}
	}
	r.Check(!exposed, rule, selfRel+"#validator:"+validator+"#not-switchable", "no getter exposes the step, so Active(false) cannot reach it")
}

func c05Validator(e *Env) {
	r := e.R
	key := outputRel + ".ValidateServicesScopes"
	fn := e.P.Func(outputRel, "ValidateServicesScopes")
	if fn == nil {
		r.Undecide("R05.3", key, "anchor not found")
		return
	}
	fns := append([]*ssa.Function{fn}, fn.AnonFuncs...)
	sites := errorSites(fns)
	r.Check(len(sites) == 1, "R05.3", key+"#one-error-site", fmt.Sprintf("the validator has exactly one error site (found %d): no configuration is rejected for another scope reason", len(sites)))
	sharedC, ctxC := "", ""
	if pk := e.P.Pkg(outputRel); pk != nil {
		if c, ok := pk.Types.Scope().Lookup("ScopeShared").(*types.Const); ok {
			sharedC = c.Val().String()
		}
		if c, ok := pk.Types.Scope().Lookup("ScopeContextual").(*types.Const); ok {
			ctxC = c.Val().String()
		}
	}
	for _, s := range sites {
		// guards: subject.Scope == ScopeShared (or != → return) and dep.Scope == ScopeContextual
		gShared, gCtx := false, false
		f := s.call.Parent()
		for _, b := range f.Blocks {
			iff, ok := b.Instrs[len(b.Instrs)-1].(*ssa.If)
			if !ok {
				continue
			}
			bx, c, op, ok := constCompare(iff.Cond)
			if !ok {
				continue
			}
			bo := struct {
				X  ssa.Value
				Op token.Token
			}{bx, op}
			scopeRead := false
			switch x := bo.X.(type) {
			case *ssa.UnOp:
				if fa, ok := x.X.(*ssa.FieldAddr); ok && fieldName(fa) == "Scope" {
					scopeRead = true
				}
			case *ssa.Field:
				if st, ok := x.X.Type().Underlying().(*types.Struct); ok && st.Field(x.Field).Name() == "Scope" {
					scopeRead = true
				}
			}
			if !scopeRead {
				continue
			}
			onEq := bo.Op == token.EQL
			if edgeDominates(b, onEq, s.call) {
				if c.Value.String() == sharedC {
					gShared = true
				}
				if c.Value.String() == ctxC {
					gCtx = true
				}
			}
		}
		r.Check(gShared, "R05.3", key+"#subject-is-shared", "the error is raised only for a service declared shared", e.P.Pos(s.call.Pos()))
		r.Check(gCtx, "R05.3", key+"#dependency-is-contextual", "the error is raised only for a dependency declared contextual", e.P.Pos(s.call.Pos()))
		// the dependency is a service node: services, parameters, tags and decorators share the graph's
		// name space, so a look-up by name alone takes a parameter or tag for the service of that name
		gSvc := false
		for _, b := range f.Blocks {
			iff, ok := b.Instrs[len(b.Instrs)-1].(*ssa.If)
			if !ok {
				continue
			}
			cond, pos := iff.Cond, true
			for {
				u, isU := cond.(*ssa.UnOp)
				if !isU || u.Op != token.NOT {
					break
				}
				cond, pos = u.X, !pos
			}
			if isServiceKindTest(e, cond, 0) && edgeDominates(b, pos, s.call) {
				gSvc = true
			}
		}
		r.Check(gSvc, "R05.3", key+"#dependency-is-a-service", "the error is raised only for a dependency node of kind service (Dependency.IsService()): a parameter, tag or decorator that shares its name with a contextual service is not a dependency on that service", e.P.Pos(s.call.Pos()))
		// names both services
		names := 0
		if sl, ok := s.call.Call.Args[len(s.call.Call.Args)-1].(*ssa.Slice); ok {
			if al, ok := sl.X.(*ssa.Alloc); ok {
				for _, ref := range *al.Referrers() {
					if ia, ok := ref.(*ssa.IndexAddr); ok {
						for _, r2 := range *ia.Referrers() {
							if st, ok := r2.(*ssa.Store); ok && derivesFromField(st.Val, "Name", 0) {
								names++
							}
						}
					}
				}
			}
		}
		r.Check(names >= 2, "R05.3", key+"#names-both", fmt.Sprintf("the diagnostic names both services (%d names formatted)", names))
	}
	// the iteration over the subjects is reached on every run: no return of the validator lies before it
	// (except for an empty service list)
	for _, s := range sites {
		var site ssa.Instruction
		f := s.call.Parent()
		if f != fn {
			// the closure handed to the iterator: the call in fn that receives it
			for f.Parent() != nil && f.Parent() != fn {
				f = f.Parent()
			}
			allInstrs(fn, func(g *ssa.Function, ins ssa.Instruction) {
				if g != fn {
					return
				}
				if mc, ok := ins.(*ssa.MakeClosure); ok && mc.Fn == f {
					for _, ref := range *mc.Referrers() {
						if c, ok := ref.(ssa.CallInstruction); ok {
							site = c
						}
					}
				}
			})
		} else {
			// the outermost loop around the error site
			for _, b := range fn.Blocks {
				if isLoopHeader(b) && b.Dominates(s.call.Block()) && reach(s.call.Block(), true)[b] {
					if site == nil || b.Dominates(site.Block()) {
						site = b.Instrs[0]
					}
				}
			}
		}
		if site == nil {
			r.Undecide("R05.3", key+"#every-run-reaches-the-iteration", "the iteration over the subject services was not found (unrecognised idiom)")
			continue
		}
		okAll, bad := true, token.NoPos
		for _, b := range fn.Blocks {
			ret, isRet := b.Instrs[len(b.Instrs)-1].(*ssa.Return)
			if !isRet || site.Block().Dominates(b) {
				continue
			}
			// allowed: the list of services is empty
			okEmpty := false
			for _, ib := range fn.Blocks {
				iff, isIf := ib.Instrs[len(ib.Instrs)-1].(*ssa.If)
				if !isIf {
					continue
				}
				if bo, isB := iff.Cond.(*ssa.BinOp); isB && bo.Op == token.EQL {
					if c, isC := bo.X.(*ssa.Call); isC {
						if bi, isBi := c.Call.Value.(*ssa.Builtin); isBi && bi.Name() == "len" && derivesFromField(c.Call.Args[0], "Services", 0) {
							if k, isK := constInt(bo.Y); isK && k == 0 && edgeDominates(ib, true, ret) {
								okEmpty = true
							}
						}
					}
				}
			}
			if !okEmpty {
				okAll, bad = false, ret.Pos()
			}
		}
		r.Check(okAll, "R05.3", key+"#every-run-reaches-the-iteration", "no return of the validator lies before the iteration over the subject services (a shortcut that skips the check accepts a shared service holding a contextual one)", e.P.Pos(bad))
	}
	// a dependency that is not declared has no scope: a look-up by name that yields a position must not fall
	// back to position 0 (the zero value of a missing key), which is some unrelated service
	nIdx, nBadIdx := 0, 0
	for _, f := range fns {
		for _, b := range f.Blocks {
			for _, ins := range b.Instrs {
				var idx ssa.Value
				switch x := ins.(type) {
				case *ssa.IndexAddr:
					idx = x.Index
				case *ssa.Index:
					idx = x.Index
				default:
					continue
				}
				lk, isLk := unwrap(idx).(*ssa.Lookup)
				if !isLk {
					continue
				}
				if _, isMap := lk.X.Type().Underlying().(*types.Map); !isMap {
					continue
				}
				nIdx++
				if !lk.CommaOk {
					nBadIdx++
					r.Violate("R05.3", key+"#missing-dependency-has-no-scope", "a position looked up by name without the comma-ok form indexes the service list: for a dependency that is not declared the look-up yields 0 and the scope of the first service is taken for it (a missing service becomes a scope error that --ignore-missing-services cannot switch off)", nil, e.P.Pos(ins.Pos()))
				}
			}
		}
	}
	if nIdx > 0 && nBadIdx == 0 {
		r.Hold("R05.3", key+"#missing-dependency-has-no-scope", fmt.Sprintf("%d position look-ups index the service list, all in the comma-ok form", nIdx))
	}
	if nIdx == 0 {
		r.Hold("R05.3", key+"#missing-dependency-has-no-scope", "service records are looked up by name in a map of records (a missing name yields the zero record, whose scope is not contextual); no position look-up indexes the service list")
	}
	// graph: Deps(subject.Name) of o.BuildDependencyGraph()
	okGraph := false
	allInstrs(fn, func(_ *ssa.Function, ins ssa.Instruction) {
		if c, ok := ins.(ssa.CallInstruction); ok && c.Common().IsInvoke() && c.Common().Method.Name() == "Deps" {
			if derivesFromField(c.Common().Args[0], "Name", 0) {
				okGraph = true
			}
		}
	})
	bg := len(findCalls(fn, e.P.ModPath+"/"+outputRel+".(Output).BuildDependencyGraph", true)) == 1
	r.Check(okGraph && bg, "R05.3", key+"#uses-full-graph", "dependencies are graph.Deps(<subject's name>) of the graph built by Output.BuildDependencyGraph (all edge kinds: R07.1)")
}

// isServiceKindTest: v is Dependency.IsService() of the runtime's graph, directly or through a one-line
// predicate of module code.
func isServiceKindTest(e *Env, v ssa.Value, depth int) bool {
	c, ok := v.(*ssa.Call)
	if !ok || depth > 2 {
		return false
	}
	g := c.Call.StaticCallee()
	if g == nil {
		return false
	}
	if g.Name() == "IsService" && g.Pkg != nil && strings.HasPrefix(g.Pkg.Pkg.Path(), load.RuntimeMod+"/") {
		return true
	}
	if g.Pkg != nil && e.P.InModulePath(g.Pkg.Pkg.Path()) && len(g.Blocks) == 1 {
		if ret, ok := g.Blocks[0].Instrs[len(g.Blocks[0].Instrs)-1].(*ssa.Return); ok && len(ret.Results) == 1 {
			return isServiceKindTest(e, ret.Results[0], depth+1)
		}
	}
	return false
}

// constCompare: cond is `x ==/!= const`, either written out or through a one-line predicate of module
// code whose body is `return <param> ==/!= const` (e.g. Scope.IsShared); x is then the actual argument.
func constCompare(cond ssa.Value) (x ssa.Value, c *ssa.Const, op token.Token, ok bool) {
	return constCompareSub(cond, nil, 0)
}

// constCompareSub follows one-line predicates: `return p == K`, `return p.is(K)` with `is(o) = p == o`, …;
// subst maps the parameters of the predicate being read to the values of its caller.
func constCompareSub(cond ssa.Value, subst map[*ssa.Parameter]ssa.Value, depth int) (x ssa.Value, c *ssa.Const, op token.Token, ok bool) {
	if depth > 4 {
		return nil, nil, 0, false
	}
	res := func(v ssa.Value) ssa.Value {
		if p, isP := v.(*ssa.Parameter); isP {
			if a, has := subst[p]; has {
				return a
			}
		}
		return v
	}
	switch v := cond.(type) {
	case *ssa.BinOp:
		if v.Op != token.EQL && v.Op != token.NEQ {
			return nil, nil, 0, false
		}
		l, r := res(v.X), res(v.Y)
		if k, isC := r.(*ssa.Const); isC && k.Value != nil {
			return l, k, v.Op, true
		}
		if k, isC := l.(*ssa.Const); isC && k.Value != nil {
			return r, k, v.Op, true
		}
	case *ssa.Call:
		callee := v.Call.StaticCallee()
		if callee == nil || len(callee.Blocks) != 1 || len(v.Call.Args) == 0 {
			return nil, nil, 0, false
		}
		ret, isRet := callee.Blocks[0].Instrs[len(callee.Blocks[0].Instrs)-1].(*ssa.Return)
		if !isRet || len(ret.Results) != 1 {
			return nil, nil, 0, false
		}
		sub2 := map[*ssa.Parameter]ssa.Value{}
		for i, prm := range callee.Params {
			if i < len(v.Call.Args) {
				sub2[prm] = res(v.Call.Args[i])
			}
		}
		return constCompareSub(ret.Results[0], sub2, depth+1)
	}
	return nil, nil, 0, false
}

// ---------------- C15 ----------------

func C15(e *Env) {
	r := e.R
	e.analysedBase()
	yamlKeysRule(e, "R11.12", "todo", "parameters", "services")
	e.R.Rule("R11.12", "key table (shared with C11): `todo` is recognised under its documented spelling (an ignored key compiles the service as a regular one)", 3)
	r.Rule("R15.1", "a todo service is compiled to name+flag only and generated as an error constructor (\"service todo\") followed by its registration; the todo parameter helper returns errors.New(params[0]) or errors.New(\"parameter todo\")", 4)
	r.Rule("R15.2", "laziness: outside function literals the generated constructor calls only the runtime's registration API (newService, Service setters, Override*, AddDecorator, dependency* constructors); user functions, getParam, env helpers and callProvider appear only inside function literals, so nothing is evaluated while the container is built", 1)
	r.Rule("R15.3", "todo/env/envInt are registered as built-in functions (map of StepDefaultInput, which is the runner's first step) and bound to helpers that exist in the generated constructor", 4)
	r.Rule("R15.4", "todo parameters and todo services count as declared: the existence validators fill their `existing` sets from every element unconditionally, and the todo path of processService keeps the name", 2)
	r.Rule("R15.5", "generated helpers never lose an error: an error assigned in a generated helper is tested or returned before it is overwritten (a swallowed provider error turns a todo parameter into the string \"nil\")", 3)

	b := newSkelBuilder(e)
	if b.fr.ok && b.te.DataType != nil {
		sks := b.skeletons(e.Tier)
		emissionRules(e, sks, map[string]bool{"R15.1": true, "R02.5": false})
		lazinessRules(e, sks)
		c15Helpers(e, sks)
	}
	c15Todo(e)
	var tv []RegexVar
	for _, v := range regexVars(e) {
		if v.Rel == tokenRel {
			tv = append(tv, v)
		}
	}
	c11LanguagesOf(e, tv)
	r.Rule("R11.2", "%todo(...)% is recognised as a function token for every argument text the documentation allows (the function-token and reference grammars equal their reference for all strings; shared with C11)", 2)
	mergeLiteralRule(e, "mergeService", "Service")
	r.Rule("R09.1", "a later file's `todo` (like every scalar attribute) overrides an earlier one: merge wiring of input.Service (shared with C09)", 11)
	r.Rule("R09.1c", "behaviour classes of the merge combinators (shared with C09)", 4)
	c03Shapes(e, "R03.7")
	r.Rule("R03.7", "engine F: the function token emits callProvider(<fn>[, <arguments>]) with the argument text verbatim (shared with C03): a re-assembled argument list rewrites the message of %todo(\"…\")%", 5)
	c03ToExpr(e)
	r.Rule("R03.2", "toExpr strips exactly the two delimiters, in runes (shared with C03): cut by a byte index, a %todo(\"…\")% whose message is not ASCII loses its tail, is not recognised as a function token and the build is rejected", 1)
	c15Builtins(e)
	c15Existing(e)
	r.NotCovered = append(r.NotCovered,
		"override histories (OverrideParam / OverrideService followed by Get) and first-use caching are the runtime library's behaviour",
		"merge of the todo flag across files is decided under C09 (R09.1)")
}

func c15Todo(e *Env) {
	r := e.R
	key := "internal/pkg/compiler.StepCompileServices.processService"
	fn := e.P.Func("internal/pkg/compiler", "StepCompileServices.processService")
	if fn == nil {
		r.Undecide("R15.1", key, "anchor not found")
		return
	}
	// the early return under Todo: stores Name (parameter) and Todo (true) into the result, nothing else
	var todoBlk *ssa.BasicBlock
	for _, b := range fn.Blocks {
		iff, ok := b.Instrs[len(b.Instrs)-1].(*ssa.If)
		if !ok {
			continue
		}
		if c, ok := iff.Cond.(*ssa.Call); ok && c.Call.StaticCallee() != nil && c.Call.StaticCallee().Origin() != nil && c.Call.StaticCallee().Origin().Name() == "Dereference" {
			if derivesFromField(c.Call.Args[0], "Todo", 0) {
				todoBlk = b.Succs[0]
			}
		}
	}
	if todoBlk == nil {
		r.Violate("R15.1", key+"#todo-branch", "no branch on the service's todo flag", nil)
		return
	}
	stores := map[string]string{}
	hasRet := false
	for _, ins := range todoBlk.Instrs {
		switch x := ins.(type) {
		case *ssa.Store:
			if fa, ok := x.Addr.(*ssa.FieldAddr); ok {
				switch v := x.Val.(type) {
				case *ssa.Parameter:
					stores[fieldName(fa)] = "param:" + v.Name()
				case *ssa.Const:
					if v.Value != nil {
						stores[fieldName(fa)] = v.Value.String()
					}
				default:
					stores[fieldName(fa)] = "?"
				}
			}
		case *ssa.Return:
			hasRet = true
		}
	}
	ok := hasRet && stores["Name"] == "param:name" && stores["Todo"] == "true" && len(stores) == 2
	r.Check(ok, "R15.1", key+"#todo-branch", fmt.Sprintf("a todo service keeps its name, sets Todo and compiles nothing else (stores %v)", stores))
}

func c15Builtins(e *Env) {
	r := e.R
	bi := builtinFuncs(e)
	docs := map[string]string{"env": "getEnv", "envInt": "getEnvInt", "todo": "paramTodo"}
	for k, v := range docs {
		r.Check(bi[k] == v, "R15.3", "internal/cmd/runner.StepDefaultInput.Run#"+k, fmt.Sprintf("built-in %q is bound to the generated helper %q (found %q)", k, v, bi[k]))
	}
	gm, _, ok := e.models()
	if ok {
		run := gm.Service("runner")
		first := run != nil && len(run.Args) > 0 && depIs(run.Args[0], "service", "stepDefaultInput")
		r.Check(first, "R15.3", selfRel+"#runner-first-step", "the default input (built-in functions) is installed before the configuration is read, so user files can add to it")
		// the helper names exist as locals of the generated constructor
		have := map[string]bool{}
		for _, k := range gm.Helpers {
			have[k] = true
		}
		for _, v := range docs {
			r.Check(have[v], "R15.3", selfRel+"#helper:"+v, "the generated constructor binds a local named "+v)
		}
	}
}

func c15Existing(e *Env) {
	r := e.R
	for _, v := range []struct{ fn, field string }{{"ValidateParamsExist", "Params"}, {"ValidateServicesExist", "Services"}} {
		key := outputRel + "." + v.fn + "#existing"
		fn := e.P.Func(outputRel, v.fn)
		if fn == nil {
			r.Undecide("R15.4", key, "anchor not found")
			continue
		}
		ok := existingSetFilled(fn, v.field)
		r.Check(ok, "R15.4", key, fmt.Sprintf("every element of o.%s is entered into the `existing` set unconditionally (todo ones included)", v.field))
	}
}

// existingSetFilled: the set of declared names is filled by a MapUpdate keyed by <element>.Name inside a loop
// with no conditional other than the loop condition, in the validator itself or in a set-building helper
// that is handed the whole list o.<field>; the todo flag is not consulted.
func existingSetFilled(fn *ssa.Function, field string) bool {
	v := struct{ field string }{field}
	// the MapUpdate keyed by <elem>.Name inside a loop with no conditional other than the range condition
	ok := false
	for _, uf := range unitFns(fn, 1) {
		for _, b := range uf.Blocks {
			for _, ins := range b.Instrs {
				mu, isMu := ins.(*ssa.MapUpdate)
				if !isMu || !derivesFromField(mu.Key, "Name", 0) {
					continue
				}
				if uf != fn {
					// a set-building helper: it must be handed the whole list of declared elements
					okArg := false
					for _, c := range callsIn(fn, false) {
						if c.Common().StaticCallee() == uf {
							for _, a := range c.Common().Args {
								if sliceSourceField(a) == v.field {
									okArg = true
								}
							}
						}
					}
					if !okArg {
						continue
					}
				}
				// loop blocks around it
				conds := 0
				for _, lb := range uf.Blocks {
					if reach(b, true)[lb] && reach(lb, false)[b] {
						if _, isIf := lb.Instrs[len(lb.Instrs)-1].(*ssa.If); isIf {
							conds++
						}
					}
				}
				if conds == 1 && !readsField(uf, "Todo") {
					ok = true
				}
			}
		}
	}
	return ok
}

func readsField(fn *ssa.Function, field string) bool {
	found := false
	allInstrs(fn, func(_ *ssa.Function, ins ssa.Instruction) {
		switch x := ins.(type) {
		case *ssa.FieldAddr:
			if fieldName(x) == field {
				found = true
			}
		case *ssa.Field:
			if s, ok := x.X.Type().Underlying().(*types.Struct); ok && s.Field(x.Field).Name() == field {
				found = true
			}
		}
	})
	return found
}

// c15Helpers: the todo parameter helper and the error discipline of all generated helpers.
func c15Helpers(e *Env, sks []*skeleton) {
	r := e.R
	for _, sk := range sks {
		f, info := sk.Files[false], sk.Info[false]
		if f == nil || info == nil || sk.ID != "s000" {
			continue
		}
		for _, d := range f.Decls {
			fd, ok := d.(*ast.FuncDecl)
			if !ok || fd.Body == nil || fd.Recv == nil || !strings.HasPrefix(fd.Name.Name, "_") {
				continue
			}
			key := "generated helper " + fd.Name.Name
			if why := errOverwritten(info, fd); why != "" {
				r.Violate("R15.5", key+"#error-discipline", why, nil)
			} else {
				r.Hold("R15.5", key+"#error-discipline", "every assigned error is tested or returned before it is reassigned")
			}
			if fd.Name.Name == "_paramTodo" {
				var lits []string
				usesParam := false
				ast.Inspect(fd.Body, func(n ast.Node) bool {
					if c, ok := n.(*ast.CallExpr); ok && calleeName(load.Callee(info, c)) == "errors.New" && len(c.Args) == 1 {
						if s, ok := load.StringOf(info, c.Args[0]); ok {
							lits = append(lits, s)
						} else if ix, ok := ast.Unparen(c.Args[0]).(*ast.IndexExpr); ok {
							if tv, ok := info.Types[ix.Index]; ok && tv.Value != nil && tv.Value.String() == "0" {
								usesParam = true
							}
						}
					}
					return true
				})
				r.Check(len(lits) == 1 && lits[0] == "parameter todo" && usesParam, "R15.1", key+"#messages", fmt.Sprintf("returns errors.New(params[0]) when a message is given, else errors.New(\"parameter todo\") (literals %v, uses params[0]: %v)", lits, usesParam))
				nilFirst := true
				ast.Inspect(fd.Body, func(n ast.Node) bool {
					if rs, ok := n.(*ast.ReturnStmt); ok && len(rs.Results) == 2 {
						if id, ok := rs.Results[0].(*ast.Ident); !ok || id.Name != "nil" {
							nilFirst = false
						}
						if id, ok := rs.Results[1].(*ast.Ident); ok && id.Name == "nil" {
							nilFirst = false
						}
					}
					return true
				})
				r.Check(nilFirst, "R15.1", key+"#always-error", "every return of the todo helper is (nil, <error>)")
			}
		}
	}
}

// errLostOnFailure: every failure branch `if e != nil { … }` (or the else of `if e == nil`) of an
// error-typed variable propagates that error: the branch returns an expression that mentions e, or e is
// the function's named error result itself, or the branch assigns an expression mentioning e to it. A
// shadowed `x, err := f()` inside a loop whose failure branch only breaks loses the error.
func errLostOnFailure(info *types.Info, fd *ast.FuncDecl) string {
	named := map[types.Object]bool{}
	if fd.Type.Results != nil {
		for _, f := range fd.Type.Results.List {
			for _, n := range f.Names {
				if o := info.Defs[n]; o != nil && isErrorType(o.Type()) {
					named[o] = true
				}
			}
		}
	}
	mentions := func(n ast.Node, obj types.Object) bool {
		found := false
		ast.Inspect(n, func(m ast.Node) bool {
			if id, ok := m.(*ast.Ident); ok && info.ObjectOf(id) == obj {
				found = true
			}
			return true
		})
		return found
	}
	why := ""
	var check func(body *ast.BlockStmt, obj types.Object, pos ast.Node)
	check = func(body *ast.BlockStmt, obj types.Object, pos ast.Node) {
		if named[obj] {
			return // the failure is already in the result
		}
		ok := false
		ast.Inspect(body, func(m ast.Node) bool {
			switch x := m.(type) {
			case *ast.FuncLit:
				return false
			case *ast.ReturnStmt:
				for _, res := range x.Results {
					if mentions(res, obj) {
						ok = true
					}
				}
			case *ast.AssignStmt:
				for i, l := range x.Lhs {
					if id, isId := l.(*ast.Ident); isId && named[info.ObjectOf(id)] && i < len(x.Rhs) && mentions(x.Rhs[i], obj) {
						ok = true
					}
				}
			case *ast.CallExpr:
				// handed to something (appended to an error list, wrapped, panicked with)
				for _, a := range x.Args {
					if mentions(a, obj) {
						ok = true
					}
				}
			}
			return true
		})
		if !ok {
			why = "the failure branch of an error test neither returns the error nor hands it on: the error of a failing provider is lost and a partial value is returned as success"
		}
	}
	ast.Inspect(fd.Body, func(n ast.Node) bool {
		if _, isLit := n.(*ast.FuncLit); isLit {
			return false
		}
		ifs, ok := n.(*ast.IfStmt)
		if !ok {
			return true
		}
		be, ok := ast.Unparen(ifs.Cond).(*ast.BinaryExpr)
		if !ok || (be.Op != token.NEQ && be.Op != token.EQL) {
			return true
		}
		var obj types.Object
		for _, pair := range [][2]ast.Expr{{be.X, be.Y}, {be.Y, be.X}} {
			if id, isNil := ast.Unparen(pair[1]).(*ast.Ident); isNil && id.Name == "nil" {
				if v, isId := ast.Unparen(pair[0]).(*ast.Ident); isId {
					if o := info.ObjectOf(v); o != nil && isErrorType(o.Type()) {
						obj = o
					}
				}
			}
		}
		if obj == nil {
			return true
		}
		if be.Op == token.NEQ {
			check(ifs.Body, obj, ifs)
		} else if eb, isBlock := ifs.Else.(*ast.BlockStmt); isBlock {
			check(eb, obj, ifs)
		}
		return true
	})
	return why
}

// errOverwritten: in straight-line statement lists, `…, err :=/= call` followed by another
// assignment to err (or the end of the list) before err is read.
func errOverwritten(info *types.Info, fd *ast.FuncDecl) string {
	if why := errLostOnFailure(info, fd); why != "" {
		return why
	}
	why := ""
	var lists [][]ast.Stmt
	ast.Inspect(fd.Body, func(n ast.Node) bool {
		switch x := n.(type) {
		case *ast.BlockStmt:
			lists = append(lists, x.List)
		case *ast.CaseClause:
			lists = append(lists, x.Body)
		}
		return true
	})
	assignsErr := func(s ast.Stmt) types.Object {
		as, ok := s.(*ast.AssignStmt)
		if !ok || len(as.Rhs) != 1 {
			return nil
		}
		if _, isCall := ast.Unparen(as.Rhs[0]).(*ast.CallExpr); !isCall {
			return nil
		}
		for _, l := range as.Lhs {
			if id, ok := l.(*ast.Ident); ok && id.Name != "_" {
				if o := info.ObjectOf(id); o != nil && isErrorType(o.Type()) {
					return o
				}
			}
		}
		return nil
	}
	reads := func(s ast.Stmt, o types.Object) bool {
		found := false
		// a read is any use other than as the target of an assignment
		ast.Inspect(s, func(n ast.Node) bool {
			if as, ok := n.(*ast.AssignStmt); ok {
				for _, r := range as.Rhs {
					if mentions(info, r, o) {
						found = true
					}
				}
				return false
			}
			if id, ok := n.(*ast.Ident); ok && info.ObjectOf(id) == o {
				found = true
			}
			return !found
		})
		return found
	}
	for _, l := range lists {
		for i, s := range l {
			o := assignsErr(s)
			if o == nil {
				continue
			}
			used := false
			for _, nx := range l[i+1:] {
				if reads(nx, o) {
					used = true
					break
				}
				if assignsErr(nx) == o {
					break
				}
				if _, isRet := nx.(*ast.ReturnStmt); isRet {
					// a bare return of named results reads them
					used = true
					break
				}
			}
			if !used && why == "" {
				why = fmt.Sprintf("in %s an error assigned from a call is overwritten or dropped before it is tested", fd.Name.Name)
			}
		}
	}
	return why
}
