package rules

import (
	"fmt"
	"go/ast"
	"go/token"
	"go/types"

	"gverif/internal/load"

	"golang.org/x/tools/go/packages"
)

// Freshness lint ("stale accumulator"): a local variable that is filled inside a loop
// body (v = append(v, …) or &v handed to a call such as a decoder) and consumed by a
// call inside the same loop body must be declared (or reset) inside that body;
// otherwise iteration n sees what iterations 0..n-1 left behind.

type FreshSite struct {
	Key   string
	Pos   string
	Stale bool
	Why   string
}

func FreshSites(p *load.Program, rels ...string) []FreshSite {
	want := map[string]bool{}
	for _, r := range rels {
		want[r] = true
	}
	var out []FreshSite
	p.EachFuncDecl(func(pk *packages.Package, rel string, fd *ast.FuncDecl) {
		if fd.Body == nil || (len(want) > 0 && !want[rel]) {
			return
		}
		info := pk.TypesInfo
		loopN := 0
		ast.Inspect(fd.Body, func(n ast.Node) bool {
			var body *ast.BlockStmt
			switch x := n.(type) {
			case *ast.ForStmt:
				body = x.Body
			case *ast.RangeStmt:
				body = x.Body
			default:
				return true
			}
			loopN++
			// variables filled inside the body
			filled := map[types.Object]token.Pos{}
			reset := map[types.Object]bool{}
			ast.Inspect(body, func(m ast.Node) bool {
				switch y := m.(type) {
				case *ast.AssignStmt:
					for i, l := range y.Lhs {
						id, ok := ast.Unparen(l).(*ast.Ident)
						if !ok || i >= len(y.Rhs) {
							continue
						}
						obj := info.ObjectOf(id)
						if y.Tok == token.DEFINE {
							continue
						}
						rhs := ast.Unparen(y.Rhs[i])
						if call, ok := rhs.(*ast.CallExpr); ok {
							if fid, ok := ast.Unparen(call.Fun).(*ast.Ident); ok && fid.Name == "append" && len(call.Args) > 0 {
								if aid, ok := ast.Unparen(call.Args[0]).(*ast.Ident); ok && info.ObjectOf(aid) == obj {
									if _, seen := filled[obj]; !seen {
										filled[obj] = y.Pos()
									}
									continue
								}
							}
						}
						// any other plain assignment to the variable inside the body is a reset
						if y.Tok == token.ASSIGN {
							reset[obj] = true
						}
					}
				case *ast.UnaryExpr:
					if y.Op == token.AND {
						if id, ok := ast.Unparen(y.X).(*ast.Ident); ok {
							obj := info.ObjectOf(id)
							if _, isVar := obj.(*types.Var); isVar {
								if _, seen := filled[obj]; !seen {
									filled[obj] = y.Pos()
								}
							}
						}
					}
				}
				return true
			})
			// variables defined inside the body from the results of a module helper (`a, b := collect(x)`):
			// fresh by construction when the helper returns only its own locals
			ast.Inspect(body, func(m ast.Node) bool {
				as, ok := m.(*ast.AssignStmt)
				if !ok || as.Tok != token.DEFINE || len(as.Rhs) != 1 {
					return true
				}
				call, ok := ast.Unparen(as.Rhs[0]).(*ast.CallExpr)
				if !ok {
					return true
				}
				callee, _ := load.Callee(info, call).(*types.Func)
				if callee == nil || callee.Pkg() == nil || !p.InModulePath(callee.Pkg().Path()) {
					return true
				}
				for _, l := range as.Lhs {
					id, ok := ast.Unparen(l).(*ast.Ident)
					if !ok || id.Name == "_" {
						continue
					}
					v, ok := info.Defs[id].(*types.Var)
					if !ok {
						continue
					}
					switch v.Type().Underlying().(type) {
					case *types.Slice, *types.Map:
					default:
						continue
					}
					if !consumedByCall(info, body, v) {
						continue
					}
					site := FreshSite{Key: fmt.Sprintf("%s#loop-%d:%s", load.DeclKey(rel, fd), loopN, v.Name()), Pos: p.Pos(as.Pos())}
					if why, ok := returnsOwnLocals(p, callee); !ok {
						site.Stale = true
						site.Why = fmt.Sprintf("variable %q is produced by %s, whose result is not shown to be fresh per call: %s", v.Name(), callee.Name(), why)
					}
					out = append(out, site)
				}
				return true
			})
			for obj, pos := range filled {
				v, ok := obj.(*types.Var)
				if !ok || v.IsField() || v.Parent() == nil || v.Parent() == pk.Types.Scope() {
					continue
				}
				// consumed by a call inside the body (not the append / & itself)?
				consumed := false
				ast.Inspect(body, func(m ast.Node) bool {
					call, ok := m.(*ast.CallExpr)
					if !ok {
						return true
					}
					if fid, ok := ast.Unparen(call.Fun).(*ast.Ident); ok && (fid.Name == "append" || fid.Name == "len" || fid.Name == "cap") {
						return true
					}
					for _, a := range call.Args {
						if id, ok := ast.Unparen(a).(*ast.Ident); ok && info.ObjectOf(id) == obj {
							consumed = true
						}
					}
					return true
				})
				if !consumed {
					continue
				}
				declaredInside := body.Pos() <= v.Pos() && v.Pos() < body.End()
				site := FreshSite{
					Key: fmt.Sprintf("%s#loop-%d:%s", load.DeclKey(rel, fd), loopN, v.Name()),
					Pos: p.Pos(pos),
				}
				if !declaredInside && !reset[obj] {
					site.Stale = true
					site.Why = fmt.Sprintf("variable %q is filled and consumed inside the loop body but declared outside it and never reset: each iteration inherits the content of the previous ones", v.Name())
				}
				out = append(out, site)
			}
			return true
		})
	})
	return out
}

func consumedByCall(info *types.Info, body *ast.BlockStmt, obj types.Object) bool {
	consumed := false
	ast.Inspect(body, func(m ast.Node) bool {
		call, ok := m.(*ast.CallExpr)
		if !ok {
			return true
		}
		if fid, ok := ast.Unparen(call.Fun).(*ast.Ident); ok && (fid.Name == "append" || fid.Name == "len" || fid.Name == "cap") {
			return true
		}
		for _, a := range call.Args {
			if id, ok := ast.Unparen(a).(*ast.Ident); ok && info.ObjectOf(id) == obj {
				consumed = true
			}
		}
		return true
	})
	return consumed
}

// returnsOwnLocals: every return statement of the function returns local variables declared in its own
// body (not parameters, not package variables, not fields), nil, or composite/make expressions; named
// results count as locals.
func returnsOwnLocals(p *load.Program, callee *types.Func) (string, bool) {
	fd, pk := p.DeclOf(callee)
	if fd == nil || fd.Body == nil {
		return "its source was not found", false
	}
	info := pk.TypesInfo
	ok := true
	why := ""
	params := map[types.Object]bool{}
	if fd.Recv != nil {
		for _, f := range fd.Recv.List {
			for _, n := range f.Names {
				params[info.Defs[n]] = true
			}
		}
	}
	for _, f := range fd.Type.Params.List {
		for _, n := range f.Names {
			params[info.Defs[n]] = true
		}
	}
	ast.Inspect(fd.Body, func(n ast.Node) bool {
		if _, isLit := n.(*ast.FuncLit); isLit {
			return false
		}
		ret, isRet := n.(*ast.ReturnStmt)
		if !isRet {
			return true
		}
		for _, res := range ret.Results {
			switch x := ast.Unparen(res).(type) {
			case *ast.Ident:
				o := info.ObjectOf(x)
				if x.Name == "nil" {
					continue
				}
				v, isVar := o.(*types.Var)
				if !isVar {
					continue // constants
				}
				if params[o] || v.IsField() || v.Parent() == pk.Types.Scope() {
					ok, why = false, "returns "+x.Name+", which is not a local of the helper"
				}
			case *ast.CompositeLit, *ast.BasicLit:
			case *ast.CallExpr:
				if fid, isId := ast.Unparen(x.Fun).(*ast.Ident); isId && (fid.Name == "make" || fid.Name == "append") {
					continue
				}
				ok, why = false, "returns the result of another call"
			default:
				switch info.TypeOf(res).Underlying().(type) {
				case *types.Slice, *types.Map, *types.Pointer:
					ok, why = false, "returns an expression that may alias longer-lived storage"
				}
			}
		}
		return true
	})
	return why, ok
}

func freshRule(e *Env, rule string, min int, rels ...string) {
	sites := FreshSites(e.P, rels...)
	for _, s := range sites {
		if s.Stale {
			e.R.Violate(rule, s.Key, s.Why, nil, s.Pos)
		} else {
			e.R.Hold(rule, s.Key, "per-iteration variable is declared (or reset) inside the loop body", s.Pos)
		}
	}
}
