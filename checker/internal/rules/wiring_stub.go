package rules

// wiringC10 is filled in by the wiring engine (W): code generator last, printer's writer.
var wiringC10 = func(e *Env) {}
