package rules

import (
	"fmt"
	"go/ast"
	"go/token"
	"go/types"
	"strings"

	"gverif/internal/load"

	"golang.org/x/tools/go/packages"
	"golang.org/x/tools/go/ssa"
)

func init() { Register("C09", C09) }

const inputRel = "internal/pkg/input"

// documented merge rule of slice-typed fields (docs: arguments replace, the rest append)
var sliceMergeRule = map[string]string{
	"Service.Args":     "replace-if-non-empty",
	"Service.Calls":    "append",
	"Service.Tags":     "append",
	"Input.Decorators": "append",
}

func C09(e *Env) {
	r := e.R
	e.analysedBase()
	nilErrorUse(e, "R10.4")
	e.R.Rule("R10.4", "error tests are not inverted (shared with C10): with the test of filepath.Glob's error inverted, findFiles returns no file for every valid pattern and nothing is read or merged", 1)
	yamlKeysRule(e, "R11.12")
	e.R.Rule("R11.12", "key table (shared with C11): what a file contributes to the merge is what the decoder recognises", 25)
	r.Rule("R09.1", "the values returned by Merge, mergeMeta and mergeService define every field of their struct; field K is combinator(first.K, second.K) with the combinator its documented class requires (pointer: later non-nil wins; map: key-wise union, later wins; services: per-key mergeService; arguments: later non-empty replaces; calls/tags/decorators: earlier ++ later)", 22)
	r.Rule("R09.1c", "the combinators themselves have the documented selection behaviour, decided by abstract evaluation over {nil, empty, non-empty} operands (mergePtr, mergeArgs) and by the order of their stores (mergeMap, mergeServices)", 4)
	r.Rule("R09.2", "the fold is *i = input.Merge(*i, decoded): accumulator first, the file just read second", 1)
	r.Rule("R09.3", "findFiles returns the slice it sorted; the sort runs after every element was replaced by its filepath.Clean'ed form; the elements come from filepath.Glob(pattern)", 4)
	r.Rule("R09.4", "patterns are visited by a range over the patterns field (ascending), files by a range over findFiles' result; the patterns reach the step unchanged from the -i flag; nothing else sorts or reorders in module code (every sort call site is one of the reviewed three)", 3)
	r.Rule("R09.5", "the decode target of yaml.Unmarshal and the per-file error list are fresh per file (declared inside the innermost loop body), so a file never inherits the content of the previous one", 1)

	for _, fn := range []struct{ name, typ string }{{"Merge", "Input"}, {"mergeMeta", "Meta"}, {"mergeService", "Service"}} {
		mergeLiteralRule(e, fn.name, fn.typ)
	}
	c09Fold(e)
	c09FindFiles(e, "R09.3")
	c09Order(e)
	freshRule(e, "R09.5", 1, "internal/cmd/runner")
	sortSites(e, "R09.4")

	patternsPassThrough(e, "R09.4")
	nilVersusEmptyRule(e, "R09.6")
	mergeUnconditionalRule(e, "R09.2b")
	r.Rule("R09.6", "an empty list and an omitted key are not told apart: no input-model slice is compared with nil in the validators, compiler or resolvers", 1)
	r.Rule("R09.2b", "every file decoded without error is merged: the Merge call is guarded only by error tests and loop conditions", 1)
	r.NotCovered = append(r.NotCovered,
		"byte identity of single-file vs split output as such (follows from the decided wiring plus associativity of the four combinators; not executed)",
		"path-cleaning and glob semantics of path/filepath (trusted)",
		"bodies of maps.Iterate / slices.Copy beyond their order and copy idioms")
}

func paramObjs(info *types.Info, fd *ast.FuncDecl) []types.Object {
	var out []types.Object
	for _, f := range fd.Type.Params.List {
		for _, n := range f.Names {
			out = append(out, info.ObjectOf(n))
		}
	}
	return out
}

func isSel(info *types.Info, e ast.Expr, base types.Object, field string) bool {
	se, ok := ast.Unparen(e).(*ast.SelectorExpr)
	if !ok || se.Sel.Name != field {
		return false
	}
	id, ok := ast.Unparen(se.X).(*ast.Ident)
	return ok && info.ObjectOf(id) == base
}

func mergeLiteralRule(e *Env, fname, tname string) {
	r := e.R
	fd, pk := e.P.Decl(inputRel, fname)
	key := inputRel + "." + fname
	if fd == nil {
		r.Undecide("R09.1", key, "merge function not found")
		return
	}
	info := pk.TypesInfo
	ps := paramObjs(info, fd)
	if len(ps) != 2 {
		r.Undecide("R09.1", key, "merge function does not take two operands")
		return
	}
	tobj := pk.Types.Scope().Lookup(tname)
	if tobj == nil {
		r.Undecide("R09.1", key, "struct type not found")
		return
	}
	st, ok := tobj.Type().Underlying().(*types.Struct)
	if !ok {
		r.Undecide("R09.1", key, "not a struct")
		return
	}
	if mergeStructSSA(e, fname, tname, st, pk.PkgPath) {
		return
	}
	var lit *ast.CompositeLit
	nret := 0
	ast.Inspect(fd.Body, func(n ast.Node) bool {
		if _, ok := n.(*ast.FuncLit); ok {
			return false
		}
		if rs, ok := n.(*ast.ReturnStmt); ok {
			nret++
			if len(rs.Results) == 1 {
				if cl, ok := ast.Unparen(rs.Results[0]).(*ast.CompositeLit); ok {
					lit = cl
				}
			}
		}
		return true
	})
	if nret != 1 || lit == nil || len(fd.Body.List) != 1 {
		r.Undecide("R09.1", key, "merge function is not a single return of a composite literal (unrecognised idiom: field-by-field provenance is not implemented)", e.P.Pos(fd.Pos()))
		return
	}
	vals := map[string]ast.Expr{}
	for _, el := range lit.Elts {
		kv, ok := el.(*ast.KeyValueExpr)
		if !ok {
			r.Undecide("R09.1", key, "positional composite literal", e.P.Pos(lit.Pos()))
			return
		}
		vals[kv.Key.(*ast.Ident).Name] = kv.Value
	}
	for i := 0; i < st.NumFields(); i++ {
		f := st.Field(i)
		fkey := key + "#" + tname + "." + f.Name()
		v, ok := vals[f.Name()]
		if !ok {
			r.Violate("R09.1", fkey, "field is not set in the merged value: it is silently dropped whenever two files are merged", nil, e.P.Pos(lit.Pos()))
			continue
		}
		want := ""
		switch u := f.Type().Underlying().(type) {
		case *types.Pointer:
			want = "mergePtr"
		case *types.Map:
			if isNamed(u.Elem(), pk.PkgPath, "Service") {
				want = "mergeServices"
			} else {
				want = "mergeMap"
			}
		case *types.Struct:
			want = "struct:" + namedOf(f.Type()).Obj().Name()
		case *types.Slice:
			switch sliceMergeRule[tname+"."+f.Name()] {
			case "replace-if-non-empty":
				want = "mergeArgs"
			case "append":
				want = "append"
			default:
				r.Undecide("R09.1", fkey, "slice field without a documented merge rule", e.P.Pos(v.Pos()))
				continue
			}
		default:
			r.Undecide("R09.1", fkey, "field of a type class without a documented merge rule: "+f.Type().String(), e.P.Pos(v.Pos()))
			continue
		}
		call, ok := ast.Unparen(v).(*ast.CallExpr)
		if !ok {
			r.Violate("R09.1", fkey, "field is not combined from both operands", nil, e.P.Pos(v.Pos()))
			continue
		}
		pos := e.P.Pos(v.Pos())
		if want == "append" {
			okA := false
			if id, ok := ast.Unparen(call.Fun).(*ast.Ident); ok && id.Name == "append" && len(call.Args) == 2 && call.Ellipsis != token.NoPos {
				if inner, ok := ast.Unparen(call.Args[0]).(*ast.CallExpr); ok && len(inner.Args) == 1 {
					cn := calleeName(load.Callee(info, inner))
					if (cn == e.P.ModPath+"/internal/pkg/slices.Copy" || cn == "slices.Clone") && isSel(info, inner.Args[0], ps[0], f.Name()) && isSel(info, call.Args[1], ps[1], f.Name()) {
						okA = true
					}
				}
			}
			r.Check(okA, "R09.1", fkey, "documented rule: earlier elements followed by later elements — append(Copy(first."+f.Name()+"), second."+f.Name()+"...)", pos)
			continue
		}
		callee := load.Callee(info, call)
		wantClass := map[string]string{"mergePtr": "later-non-nil-wins", "mergeMap": "key-wise-union-later-wins", "mergeServices": "per-key-service-merge", "mergeArgs": "later-non-empty-replaces"}[want]
		if strings.HasPrefix(want, "struct:") {
			wantClass = "struct-merge:" + strings.TrimPrefix(want, "struct:")
		}
		gotClass := "unknown"
		if callee != nil && objPkgPath(callee) == pk.PkgPath {
			gotClass = combinatorClass(e, callee.Name())
		}
		okArgs := len(call.Args) == 2 && isSel(info, call.Args[0], ps[0], f.Name()) && isSel(info, call.Args[1], ps[1], f.Name())
		if gotClass == "unknown" {
			r.Undecide("R09.1", fkey, "combinator "+types.ExprString(call.Fun)+" could not be shown to have the documented behaviour class "+wantClass+" (see its R09.1c obligations)", pos)
			continue
		}
		r.Check(gotClass == wantClass && okArgs, "R09.1", fkey, fmt.Sprintf("documented class %q applied to (first.%s, second.%s); found combinator of class %q", wantClass, f.Name(), f.Name(), gotClass), pos)
	}
}

// ---- combinators ----

type absState int

const (
	stNil absState = iota
	stEmpty
	stFull
)

// evalSelect abstractly evaluates a two-operand selector function: which operand does the
// returned expression derive from for the given operand states? "a", "b", "nil", "?".
func evalSelect(info *types.Info, fd *ast.FuncDecl, a, b types.Object, sa, sb absState) string {
	var evalCond func(e ast.Expr) (bool, bool)
	stateOf := func(x ast.Expr) (absState, bool) {
		id, ok := ast.Unparen(x).(*ast.Ident)
		if !ok {
			return 0, false
		}
		switch info.ObjectOf(id) {
		case a:
			return sa, true
		case b:
			return sb, true
		}
		return 0, false
	}
	evalCond = func(c ast.Expr) (bool, bool) {
		c = ast.Unparen(c)
		switch x := c.(type) {
		case *ast.UnaryExpr:
			if x.Op == token.NOT {
				v, ok := evalCond(x.X)
				return !v, ok
			}
		case *ast.BinaryExpr:
			switch x.Op {
			case token.LAND:
				l, ok1 := evalCond(x.X)
				r, ok2 := evalCond(x.Y)
				return l && r, ok1 && ok2
			case token.LOR:
				l, ok1 := evalCond(x.X)
				r, ok2 := evalCond(x.Y)
				return l || r, ok1 && ok2
			case token.EQL, token.NEQ:
				// x == nil
				var st absState
				var ok bool
				if id, isId := ast.Unparen(x.Y).(*ast.Ident); isId && id.Name == "nil" {
					st, ok = stateOf(x.X)
				} else if id, isId := ast.Unparen(x.X).(*ast.Ident); isId && id.Name == "nil" {
					st, ok = stateOf(x.Y)
				}
				if ok {
					isNil := st == stNil
					if x.Op == token.NEQ {
						return !isNil, true
					}
					return isNil, true
				}
				fallthrough
			case token.GTR, token.LSS, token.GEQ, token.LEQ:
				// len(x) OP const
				call, isCall := ast.Unparen(x.X).(*ast.CallExpr)
				lit, isLit := ast.Unparen(x.Y).(*ast.BasicLit)
				if isCall && isLit && len(call.Args) == 1 {
					if fid, ok := ast.Unparen(call.Fun).(*ast.Ident); ok && fid.Name == "len" {
						st, ok := stateOf(call.Args[0])
						if !ok {
							return false, false
						}
						n := 0
						if st == stFull {
							n = 1 // representative: at least one element; constants above 1 are undecided
						}
						k := 0
						switch lit.Value {
						case "0":
							k = 0
						case "1":
							k = 1
						default:
							return false, false
						}
						switch x.Op {
						case token.GTR:
							return n > k, k == 0
						case token.GEQ:
							return n >= k, k <= 1
						case token.LSS:
							return n < k, k <= 1
						case token.LEQ:
							return n <= k, k == 0
						case token.EQL:
							return n == k, k == 0
						case token.NEQ:
							return n != k, k == 0
						}
					}
				}
			}
		}
		return false, false
	}
	derives := func(x ast.Expr) string {
		ma, mb := false, false
		ast.Inspect(x, func(n ast.Node) bool {
			if id, ok := n.(*ast.Ident); ok {
				switch info.ObjectOf(id) {
				case a:
					ma = true
				case b:
					mb = true
				}
			}
			return true
		})
		switch {
		case ma && !mb:
			return "a"
		case mb && !ma:
			return "b"
		case !ma && !mb:
			if id, ok := ast.Unparen(x).(*ast.Ident); ok && id.Name == "nil" {
				return "nil"
			}
		}
		return "?"
	}
	var run func(list []ast.Stmt) string
	run = func(list []ast.Stmt) string {
		for _, s := range list {
			switch x := s.(type) {
			case *ast.ReturnStmt:
				if len(x.Results) != 1 {
					return "?"
				}
				return derives(x.Results[0])
			case *ast.IfStmt:
				if x.Init != nil {
					return "?"
				}
				v, ok := evalCond(x.Cond)
				if !ok {
					return "?"
				}
				if v {
					if res := run(x.Body.List); res != "" {
						return res
					}
				} else if x.Else != nil {
					switch el := x.Else.(type) {
					case *ast.BlockStmt:
						if res := run(el.List); res != "" {
							return res
						}
					case *ast.IfStmt:
						if res := run([]ast.Stmt{el}); res != "" {
							return res
						}
					}
				}
			default:
				return "?"
			}
		}
		return ""
	}
	return run(fd.Body.List)
}

var combCache = map[string]string{}

// combinatorClass classifies a two-operand function of the input package by behaviour.
func combinatorClass(e *Env, name string) string {
	if c, ok := combCache[name]; ok {
		return c
	}
	combCache[name] = "unknown"
	fd, pk := e.P.Decl(inputRel, name)
	if fd == nil || fd.Body == nil {
		return "unknown"
	}
	ps := paramObjs(pk.TypesInfo, fd)
	if len(ps) != 2 {
		return "unknown"
	}
	key := inputRel + "." + name
	cls := "unknown"
	switch ps[0].Type().Underlying().(type) {
	case *types.Pointer:
		if selectorMatches(e, pk, fd, ps, key, ptrCases, "a later file's scalar attribute overrides an earlier one") {
			cls = "later-non-nil-wins"
		}
	case *types.Slice:
		if selectorMatches(e, pk, fd, ps, key, sliceCases, "non-empty later arguments replace earlier ones, empty ones do not") {
			cls = "later-non-empty-replaces"
		}
	case *types.Map:
		if m, ok := ps[0].Type().Underlying().(*types.Map); ok && isNamed(m.Elem(), pk.PkgPath, "Service") {
			if mergeServicesRule(e, name) {
				cls = "per-key-service-merge"
			}
		} else if mergeMapRule(e, name) {
			cls = "key-wise-union-later-wins"
		}
	case *types.Struct:
		if n := namedOf(ps[0].Type()); n != nil {
			cls = "struct-merge:" + n.Obj().Name()
			mergeLiteralRule(e, name, n.Obj().Name()) // the nested merge is itself subject to R09.1
		}
	}
	combCache[name] = cls
	return cls
}

type selCase struct {
	sa, sb absState
	want   []string
}

var ptrCases = []selCase{{stNil, stNil, []string{"a", "b", "nil"}}, {stFull, stNil, []string{"a"}}, {stNil, stFull, []string{"b"}}, {stFull, stFull, []string{"b"}}}
var sliceCases = []selCase{{stFull, stNil, []string{"a"}}, {stFull, stEmpty, []string{"a"}}, {stFull, stFull, []string{"b"}}, {stNil, stFull, []string{"b"}}, {stEmpty, stFull, []string{"b"}},
	{stNil, stNil, []string{"a", "b", "nil"}}, {stNil, stEmpty, []string{"a", "b", "nil"}}, {stEmpty, stEmpty, []string{"a", "b", "nil"}}}

func selectorMatches(e *Env, pk *packages.Package, fd *ast.FuncDecl, ps []types.Object, key string, cases []selCase, doc string) bool {
	r := e.R
	all := true
	for _, c := range cases {
		// decided on the SSA form (independent of how the selector is written); the AST evaluator is the fallback
		got := ssaSelect(e.P.Func(inputRel, fd.Name.Name), c.sa, c.sb)
		if got == "?" {
			got = evalSelect(pk.TypesInfo, fd, ps[0], ps[1], c.sa, c.sb)
		}
		okk := false
		for _, w := range c.want {
			if got == w {
				okk = true
			}
		}
		k := fmt.Sprintf("%s#first=%s,second=%s", key, stName(c.sa), stName(c.sb))
		if got == "?" || got == "" {
			r.Undecide("R09.1c", k, "selector body outside the evaluated subset (if/return over nil and len tests of the operands)", e.P.Pos(fd.Pos()))
			all = false
		} else {
			if !r.Check(okk, "R09.1c", k, fmt.Sprintf("%s: result derives from %q, expected one of %v", doc, got, c.want), e.P.Pos(fd.Pos())) {
				all = false
			}
		}
	}
	return all
}

func stName(s absState) string { return [...]string{"nil", "empty", "non-empty"}[s] }

// mergeMapRule: stores into the result happen for the first operand's entries before the second's.
func mergeMapRule(e *Env, name string) bool {
	if !earlyNilOnlyWhenBothEmpty(e, name) {
		return false
	}
	if decided, ok := mergeMapSSA(e, name); decided {
		return ok
	}
	r := e.R
	fd, pk := e.P.Decl(inputRel, name)
	key := inputRel + "." + name
	if fd == nil {
		r.Undecide("R09.1c", key, "combinator not found")
		return false
	}
	info := pk.TypesInfo
	ps := paramObjs(info, fd)
	var order []string
	bad := ""
	ast.Inspect(fd.Body, func(n ast.Node) bool {
		rs, ok := n.(*ast.RangeStmt)
		if !ok {
			return true
		}
		// range over a literal list of the operands
		if cl, ok := ast.Unparen(rs.X).(*ast.CompositeLit); ok {
			for _, el := range cl.Elts {
				id, ok := ast.Unparen(el).(*ast.Ident)
				if !ok {
					bad = "operand list contains a non-operand"
					return false
				}
				switch info.ObjectOf(id) {
				case ps[0]:
					order = append(order, "a")
				case ps[1]:
					order = append(order, "b")
				default:
					bad = "operand list contains a non-operand"
				}
			}
			return true
		}
		if id, ok := ast.Unparen(rs.X).(*ast.Ident); ok {
			switch info.ObjectOf(id) {
			case ps[0]:
				order = append(order, "a")
			case ps[1]:
				order = append(order, "b")
			}
		}
		return true
	})
	// inner store r[k] = v with k, v the range variables
	storeOK := false
	ast.Inspect(fd.Body, func(n ast.Node) bool {
		rs, ok := n.(*ast.RangeStmt)
		if !ok || !isMapType(info.TypeOf(rs.X)) {
			return true
		}
		for _, s := range rs.Body.List {
			if as, ok := s.(*ast.AssignStmt); ok && len(as.Lhs) == 1 && as.Tok == token.ASSIGN {
				if ix, ok := ast.Unparen(as.Lhs[0]).(*ast.IndexExpr); ok {
					kid, ok1 := ast.Unparen(ix.Index).(*ast.Ident)
					vid, ok2 := ast.Unparen(as.Rhs[0]).(*ast.Ident)
					rk, ok3 := rs.Key.(*ast.Ident)
					rv, ok4 := rs.Value.(*ast.Ident)
					if ok1 && ok2 && ok3 && ok4 && info.ObjectOf(kid) == info.ObjectOf(rk) && info.ObjectOf(vid) == info.ObjectOf(rv) {
						storeOK = true
					}
				}
			}
		}
		return true
	})
	if bad != "" {
		r.Undecide("R09.1c", key, bad, e.P.Pos(fd.Pos()))
		return false
	}
	okOrder := len(order) == 2 && order[0] == "a" && order[1] == "b"
	return r.Check(okOrder && storeOK, "R09.1c", key+"#later-wins", fmt.Sprintf("mappings are united key-wise with later values winning: entries of the first operand are stored before those of the second (found order %v, plain key/value store: %v)", order, storeOK), e.P.Pos(fd.Pos()))
}

// earlyNilOnlyWhenBothEmpty: a map combinator may return nil early only when BOTH operands are nil/empty;
// `a == nil || b == nil` would drop the other operand's entries.
func earlyNilOnlyWhenBothEmpty(e *Env, name string) bool {
	fn := e.P.Func(inputRel, name)
	if fn == nil || len(fn.Params) != 2 {
		return true
	}
	key := inputRel + "." + name + "#early-nil-return"
	ok, n := true, 0
	for _, b := range fn.Blocks {
		ret, isRet := b.Instrs[len(b.Instrs)-1].(*ssa.Return)
		if !isRet || len(ret.Results) != 1 || !isNilConst(ret.Results[0]) {
			continue
		}
		n++
		var dom [2]bool
		for _, ib := range fn.Blocks {
			iff, isIf := ib.Instrs[len(ib.Instrs)-1].(*ssa.If)
			if !isIf {
				continue
			}
			for pi, prm := range fn.Params {
				for _, onTrue := range []bool{true, false} {
					if impliesEmptyVia(iff.Cond, onTrue, prm) && edgeDominates(ib, onTrue, ret) {
						dom[pi] = true
					}
				}
			}
		}
		if !dom[0] || !dom[1] {
			ok = false
			e.R.Violate("R09.1c", key, "the combinator returns nil on a path where only one operand is known to be nil/empty: the entries of the other operand are lost (a file that declares none of these keys erases those of the other files)", nil, e.P.Pos(ret.Pos()))
		}
	}
	if ok && n > 0 {
		e.R.Hold("R09.1c", key, fmt.Sprintf("%d early nil return(s), each behind nil/empty tests of both operands", n), e.P.Pos(fn.Pos()))
	}
	return ok
}

// impliesEmptyVia: edgeImpliesEmpty, also through a one-line predicate of the package (isNilMap(a)).
func impliesEmptyVia(cond ssa.Value, onTrue bool, x ssa.Value) bool {
	if edgeImpliesEmpty(cond, onTrue, x) {
		return true
	}
	c, ok := cond.(*ssa.Call)
	if !ok {
		return false
	}
	g := c.Call.StaticCallee()
	if g == nil {
		return false
	}
	if o := g.Origin(); o != nil {
		g = o // an instantiation may be a thin wrapper: read the generic body
	}
	if len(g.Blocks) != 1 {
		return false
	}
	ret, ok := g.Blocks[0].Instrs[len(g.Blocks[0].Instrs)-1].(*ssa.Return)
	if !ok || len(ret.Results) != 1 {
		return false
	}
	for i, p := range g.Params {
		if i < len(c.Call.Args) && c.Call.Args[i] == x && edgeImpliesEmpty(ret.Results[0], onTrue, p) {
			return true
		}
	}
	return false
}

func mergeServicesRule(e *Env, name string) bool {
	if !earlyNilOnlyWhenBothEmpty(e, name) {
		return false
	}
	if decided, ok := mergeServicesSSA(e, name); decided {
		return ok
	}
	r := e.R
	fd, pk := e.P.Decl(inputRel, name)
	key := inputRel + "." + name
	if fd == nil {
		r.Undecide("R09.1c", key, "combinator not found")
		return false
	}
	info := pk.TypesInfo
	ps := paramObjs(info, fd)
	type iter struct {
		over string
		lit  *ast.FuncLit
	}
	var iters []iter
	for _, s := range fd.Body.List {
		es, ok := s.(*ast.ExprStmt)
		if !ok {
			continue
		}
		call, ok := es.X.(*ast.CallExpr)
		if !ok || len(call.Args) != 2 {
			continue
		}
		if calleeName(load.Callee(info, call)) != e.P.ModPath+"/internal/pkg/maps.Iterate" {
			continue
		}
		id, ok := ast.Unparen(call.Args[0]).(*ast.Ident)
		fl, ok2 := ast.Unparen(call.Args[1]).(*ast.FuncLit)
		if !ok || !ok2 {
			continue
		}
		switch info.ObjectOf(id) {
		case ps[0]:
			iters = append(iters, iter{"a", fl})
		case ps[1]:
			iters = append(iters, iter{"b", fl})
		}
	}
	if len(iters) != 2 || iters[0].over != "a" || iters[1].over != "b" {
		r.Undecide("R09.1c", key, "unrecognised shape: expected maps.Iterate(first, …) followed by maps.Iterate(second, …)", e.P.Pos(fd.Pos()))
		return false
	}
	// in the second closure: mergeService(<value from first[k]>, <closure value param>)
	fl := iters[1].lit
	var cps []types.Object
	for _, f := range fl.Type.Params.List {
		for _, n := range f.Names {
			cps = append(cps, info.ObjectOf(n))
		}
	}
	okMerge, okPlain := false, false
	fromA := map[types.Object]bool{}
	ast.Inspect(fl.Body, func(n ast.Node) bool {
		switch x := n.(type) {
		case *ast.AssignStmt:
			// v1, ok := a[k]
			if len(x.Rhs) == 1 {
				if ix, ok := ast.Unparen(x.Rhs[0]).(*ast.IndexExpr); ok {
					if id, ok := ast.Unparen(ix.X).(*ast.Ident); ok && info.ObjectOf(id) == ps[0] {
						if l, ok := x.Lhs[0].(*ast.Ident); ok {
							fromA[info.ObjectOf(l)] = true
						}
					}
				}
			}
			// r[k] = v2
			if len(x.Lhs) == 1 && len(x.Rhs) == 1 && x.Tok == token.ASSIGN {
				if _, ok := ast.Unparen(x.Lhs[0]).(*ast.IndexExpr); ok {
					if id, ok := ast.Unparen(x.Rhs[0]).(*ast.Ident); ok && len(cps) == 2 && info.ObjectOf(id) == cps[1] {
						okPlain = true
					}
				}
			}
		}
		return true
	})
	ast.Inspect(fl.Body, func(n ast.Node) bool {
		call, ok := n.(*ast.CallExpr)
		if !ok || len(call.Args) != 2 {
			return true
		}
		if o := load.Callee(info, call); o != nil && o.Name() == "mergeService" {
			a0, ok0 := ast.Unparen(call.Args[0]).(*ast.Ident)
			a1, ok1 := ast.Unparen(call.Args[1]).(*ast.Ident)
			if ok0 && ok1 && fromA[info.ObjectOf(a0)] && len(cps) == 2 && info.ObjectOf(a1) == cps[1] {
				okMerge = true
			}
			// also accept mergeService(a[k], v2)
			if ix, ok := ast.Unparen(call.Args[0]).(*ast.IndexExpr); ok && ok1 {
				if id, ok := ast.Unparen(ix.X).(*ast.Ident); ok && info.ObjectOf(id) == ps[0] && info.ObjectOf(a1) == cps[1] {
					okMerge = true
				}
			}
		}
		return true
	})
	res := r.Check(okMerge, "R09.1c", key+"#same-key", "a service present in both operands is mergeService(first[k], second[k]) in that order", e.P.Pos(fl.Pos()))
	res = r.Check(okPlain, "R09.1c", key+"#new-key", "a service only in the second operand is stored as it is", e.P.Pos(fl.Pos())) && res
	// first closure stores its value
	fl0 := iters[0].lit
	okFirst := false
	ast.Inspect(fl0.Body, func(n ast.Node) bool {
		if x, ok := n.(*ast.AssignStmt); ok && len(x.Lhs) == 1 && x.Tok == token.ASSIGN {
			if _, ok := ast.Unparen(x.Lhs[0]).(*ast.IndexExpr); ok {
				okFirst = true
			}
		}
		return true
	})
	return r.Check(okFirst, "R09.1c", key+"#first-kept", "services of the first operand are kept", e.P.Pos(fl0.Pos())) && res
}

func c09Fold(e *Env) {
	r := e.R
	fd, pk := e.P.Decl("internal/cmd/runner", "StepReadConfig.Run")
	key := "internal/cmd/runner.StepReadConfig.Run"
	if fd == nil {
		r.Undecide("R09.2", key, "anchor not found")
		return
	}
	info := pk.TypesInfo
	ps := paramObjs(info, fd)
	n := 0
	ast.Inspect(fd.Body, func(nd ast.Node) bool {
		as, ok := nd.(*ast.AssignStmt)
		if !ok || len(as.Rhs) != 1 {
			return true
		}
		call, ok := ast.Unparen(as.Rhs[0]).(*ast.CallExpr)
		if !ok || calleeName(load.Callee(info, call)) != e.P.ModPath+"/internal/pkg/input.Merge" {
			return true
		}
		n++
		isAcc := func(x ast.Expr) bool {
			st, ok := ast.Unparen(x).(*ast.StarExpr)
			if !ok {
				return false
			}
			id, ok := ast.Unparen(st.X).(*ast.Ident)
			return ok && len(ps) > 0 && info.ObjectOf(id) == ps[0]
		}
		ok1 := len(call.Args) == 2 && isAcc(call.Args[0]) && isAcc(as.Lhs[0])
		// second operand: the variable decoded by yaml.Unmarshal
		ok2 := false
		if id, ok := ast.Unparen(call.Args[1]).(*ast.Ident); ok {
			obj := info.ObjectOf(id)
			ast.Inspect(fd.Body, func(m ast.Node) bool {
				c2, ok := m.(*ast.CallExpr)
				if !ok || calleeName(load.Callee(info, c2)) != "gopkg.in/yaml.v3.Unmarshal" || len(c2.Args) != 2 {
					return true
				}
				if u, ok := ast.Unparen(c2.Args[1]).(*ast.UnaryExpr); ok && u.Op == token.AND {
					if uid, ok := ast.Unparen(u.X).(*ast.Ident); ok && info.ObjectOf(uid) == obj {
						ok2 = true
					}
				}
				return true
			})
		}
		r.Check(ok1, "R09.2", key+"#accumulator-first", "*i = input.Merge(*i, …): the accumulated configuration is the first (earlier) operand and receives the result", e.P.Pos(as.Pos()))
		r.Check(ok2, "R09.2", key+"#decoded-second", "the second (later) operand is the value yaml.Unmarshal just decoded", e.P.Pos(as.Pos()))
		return true
	})
	if n != 1 {
		r.Violate("R09.2", key+"#merge-calls", fmt.Sprintf("%d calls of input.Merge, expected 1", n), nil)
	}
}

func c09FindFiles(e *Env, rule string) {
	r := e.R
	key := "internal/cmd/runner.StepReadConfig.findFiles"
	fn := e.P.Func("internal/cmd/runner", "StepReadConfig.findFiles")
	if fn == nil {
		r.Undecide(rule, key, "anchor not found")
		return
	}
	globs := findCalls(fn, "path/filepath.Glob", false)
	if len(globs) == 0 {
		// the globbing lives in a helper that findFiles wraps (glob(pattern)): analyse that helper, provided
		// findFiles hands it its own pattern and returns its result
		for _, c := range callsIn(fn, false) {
			g := c.Common().StaticCallee()
			if g == nil || !e.P.InModule(g) || len(findCalls(g, "path/filepath.Glob", false)) != 1 || len(g.Params) == 0 {
				continue
			}
			passes := false
			for _, a := range c.Common().Args {
				if a == ssa.Value(fn.Params[len(fn.Params)-1]) {
					passes = true
				}
			}
			returns := false
			res := extractOf(c, 0)
			for _, b := range fn.Blocks {
				if ret, ok := b.Instrs[len(b.Instrs)-1].(*ssa.Return); ok && len(ret.Results) > 0 && res != nil && ret.Results[0] == res {
					returns = true
				}
			}
			if passes && returns {
				reviewedSortHelpers[e.P.FuncKey(g)] = true
				fn = g
				globs = findCalls(fn, "path/filepath.Glob", false)
			}
		}
	}
	if len(globs) != 1 {
		r.Undecide(rule, key+"#glob", fmt.Sprintf("%d calls of filepath.Glob, expected 1", len(globs)))
		return
	}
	prm := fn.Params[len(fn.Params)-1]
	r.Check(globs[0].Common().Args[0] == ssa.Value(prm), rule, key+"#glob", "the matches are filepath.Glob(<the pattern parameter>)", e.P.Pos(globs[0].Pos()))
	gv := extractOf(globs[0], 0)
	var sorts []ssa.CallInstruction
	for _, c := range callsIn(fn, false) {
		n := callName(c.Common())
		if n == "sort.Strings" || n == "slices.Sort" {
			sorts = append(sorts, c)
		}
	}
	if len(sorts) != 1 {
		r.Violate(rule, key+"#sorted", fmt.Sprintf("%d sort calls, expected exactly one sort of the matches", len(sorts)), nil)
		return
	}
	sorted := sorts[0].Common().Args[0]
	// the success return returns the sorted slice
	okRet := false
	for _, blk := range fn.Blocks {
		for _, ins := range blk.Instrs {
			if ret, ok := ins.(*ssa.Return); ok && len(ret.Results) == 2 && isNilConst(ret.Results[1]) {
				okRet = ret.Results[0] == sorted && before(sorts[0], ret)
				r.Check(okRet, rule, key+"#returns-sorted", "the slice returned on success is the very slice that was sorted, after the sort", e.P.Pos(ret.Pos()))
			}
		}
	}
	r.Check(sorted == gv || taintFrom(fn, gv).has(sorted), rule, key+"#sorts-matches", "the sorted slice holds the glob matches", e.P.Pos(sorts[0].Pos()))
	// every element store into the sorted slice is a filepath.Clean result and happens before the sort
	stores, cleaned := 0, 0
	for _, blk := range fn.Blocks {
		for _, ins := range blk.Instrs {
			st, ok := ins.(*ssa.Store)
			if !ok {
				continue
			}
			ia, ok := st.Addr.(*ssa.IndexAddr)
			if !ok || ia.X != sorted {
				continue
			}
			stores++
			if c, ok := st.Val.(*ssa.Call); ok && callName(&c.Call) == "path/filepath.Clean" {
				cleaned++
			}
			r.Check(!reachableFrom(sorts[0], st), rule, key+"#clean-before-sort", "no element is rewritten after the sort (lexical order is of the cleaned paths)", e.P.Pos(st.Pos()))
		}
	}
	// append-built slices: elements appended must be Clean results
	if stores == 0 {
		for _, c := range callsIn(fn, false) {
			if callName(c.Common()) == "builtin.append" && taintFrom(fn, c.Value()).has(sorted) {
				stores++
				if sl, ok := c.Common().Args[1].(*ssa.Slice); ok {
					if al, ok := sl.X.(*ssa.Alloc); ok {
						for _, ref := range *al.Referrers() {
							if ia, ok := ref.(*ssa.IndexAddr); ok {
								for _, r2 := range *ia.Referrers() {
									if st, ok := r2.(*ssa.Store); ok {
										if cc, ok := st.Val.(*ssa.Call); ok && callName(&cc.Call) == "path/filepath.Clean" {
											cleaned++
										}
									}
								}
							}
						}
					}
				}
			}
		}
	}
	// the cleaning may be done in place by a helper of the package: h(paths) { for i … { paths[i] = filepath.Clean(paths[i]) } }
	if stores == 0 {
		for _, c := range callsIn(fn, false) {
			g := c.Common().StaticCallee()
			if g == nil || g.Pkg != fn.Pkg || len(g.Blocks) == 0 || len(c.Common().Args) == 0 {
				continue
			}
			for ai, a := range c.Common().Args {
				if a != sorted || ai >= len(g.Params) {
					continue
				}
				hs, hc := 0, 0
				for _, blk := range g.Blocks {
					for _, ins := range blk.Instrs {
						st, ok := ins.(*ssa.Store)
						if !ok {
							continue
						}
						ia, ok := st.Addr.(*ssa.IndexAddr)
						if !ok || ia.X != ssa.Value(g.Params[ai]) {
							continue
						}
						hs++
						if cc, ok := st.Val.(*ssa.Call); ok && callName(&cc.Call) == "path/filepath.Clean" {
							if ld, ok := cc.Call.Args[0].(*ssa.UnOp); ok {
								if ia2, ok := ld.X.(*ssa.IndexAddr); ok && ia2.X == ia.X && ia2.Index == ia.Index {
									// the index walks the whole slice
									_, isRange := rangeIndexOf(ia.Index)
									_, isCounted := countedLoopIndex(g, ia.X, ia.Index, st)
									if isRange || isCounted {
										hc++
									}
								}
							}
						}
					}
				}
				if hs == 1 && hc == 1 && !reachableFrom(sorts[0], c) {
					stores, cleaned = 1, 1
				}
			}
		}
	}
	r.Check(stores > 0 && stores == cleaned, rule, key+"#elements-cleaned", fmt.Sprintf("every path handed on is filepath.Clean'ed before sorting and before the duplicate-match bookkeeping (%d element writes, %d cleaned)", stores, cleaned))
}

func c09Order(e *Env) {
	r := e.R
	fd, pk := e.P.Decl("internal/cmd/runner", "StepReadConfig.Run")
	key := "internal/cmd/runner.StepReadConfig.Run"
	if fd == nil {
		r.Undecide("R09.4", key, "anchor not found")
		return
	}
	info := pk.TypesInfo
	var pat, files *ast.RangeStmt
	var filesObj types.Object
	ast.Inspect(fd.Body, func(n ast.Node) bool {
		rs, ok := n.(*ast.RangeStmt)
		if !ok {
			return true
		}
		if se, ok := ast.Unparen(rs.X).(*ast.SelectorExpr); ok && se.Sel.Name == "patterns" {
			pat = rs
		}
		return true
	})
	if pat == nil {
		r.Violate("R09.4", key+"#pattern-loop", "no range over the patterns field: pattern order is not the order of the -i flags", nil, e.P.Pos(fd.Pos()))
		return
	}
	r.Hold("R09.4", key+"#pattern-loop", "range over s.patterns (ascending index)", e.P.Pos(pat.Pos()))
	// files := s.findFiles(p) with p the range value
	okCall := false
	ast.Inspect(pat.Body, func(n ast.Node) bool {
		as, ok := n.(*ast.AssignStmt)
		if !ok || len(as.Rhs) != 1 {
			return true
		}
		call, ok := ast.Unparen(as.Rhs[0]).(*ast.CallExpr)
		if !ok {
			return true
		}
		if o := load.Callee(info, call); o != nil && o.Name() == "findFiles" && len(call.Args) == 1 {
			if id, ok := ast.Unparen(call.Args[0]).(*ast.Ident); ok {
				if v, ok := pat.Value.(*ast.Ident); ok && info.ObjectOf(id) == info.ObjectOf(v) {
					okCall = true
					if l, ok := as.Lhs[0].(*ast.Ident); ok {
						filesObj = info.ObjectOf(l)
					}
				}
			}
		}
		return true
	})
	r.Check(okCall, "R09.4", key+"#find-per-pattern", "each pattern's files are findFiles(<that pattern>)", e.P.Pos(pat.Pos()))
	if filesObj != nil {
		ast.Inspect(pat.Body, func(n ast.Node) bool {
			rs, ok := n.(*ast.RangeStmt)
			if !ok {
				return true
			}
			if id, ok := ast.Unparen(rs.X).(*ast.Ident); ok && info.ObjectOf(id) == filesObj {
				files = rs
			}
			return true
		})
		// other uses of files: only len()
		okUses := true
		ast.Inspect(pat.Body, func(n ast.Node) bool {
			switch x := n.(type) {
			case *ast.CallExpr:
				if fid, ok := ast.Unparen(x.Fun).(*ast.Ident); ok && fid.Name == "len" {
					return false
				}
				for _, a := range x.Args {
					if id, ok := ast.Unparen(a).(*ast.Ident); ok && info.ObjectOf(id) == filesObj {
						okUses = false
					}
				}
			case *ast.AssignStmt:
				for _, l := range x.Lhs {
					if id, ok := ast.Unparen(l).(*ast.Ident); ok && info.ObjectOf(id) == filesObj && x.Tok == token.ASSIGN {
						okUses = false
					}
				}
			}
			return true
		})
		r.Check(okUses, "R09.4", key+"#files-not-reordered", "the file list is only measured and ranged over between findFiles and the merge")
	}
	if files == nil {
		r.Violate("R09.4", key+"#file-loop", "no range over the files found for a pattern", nil)
	} else {
		// the Merge call is inside the files loop
		inside := false
		ast.Inspect(files.Body, func(n ast.Node) bool {
			if c, ok := n.(*ast.CallExpr); ok && calleeName(load.Callee(info, c)) == e.P.ModPath+"/internal/pkg/input.Merge" {
				inside = true
			}
			return true
		})
		r.Check(inside, "R09.4", key+"#file-loop", "files are merged inside the range over the sorted file list", e.P.Pos(files.Pos()))
	}
	// patterns reach the step unchanged
	ctorKeepsParam(e, "R09.4", "internal/cmd/runner", "NewStepReadConfig", "patterns")
	c09FlagChain(e)
}

// ctorKeepsParam: the constructor stores its parameter of that name in the same-named field.
func ctorKeepsParam(e *Env, rule, rel, ctor, field string) {
	fn := e.P.Func(rel, ctor)
	key := rel + "." + ctor + "#" + field
	if fn == nil {
		e.R.Undecide(rule, key, "constructor not found")
		return
	}
	ok := false
	for _, blk := range fn.Blocks {
		for _, ins := range blk.Instrs {
			if st, isSt := ins.(*ssa.Store); isSt {
				if fa, isFa := st.Addr.(*ssa.FieldAddr); isFa {
					if s, isS := fa.X.Type().Underlying().(*types.Pointer).Elem().Underlying().(*types.Struct); isS && s.Field(fa.Field).Name() == field {
						if _, isP := st.Val.(*ssa.Parameter); isP {
							ok = true
						}
					}
				}
			}
		}
	}
	e.R.Check(ok, rule, key, "the constructor stores its parameter in the field unchanged")
}

// c09FlagChain: -i flag variable -> runnerPayload.inputPatterns (AST).
func c09FlagChain(e *Env) {
	r := e.R
	fd, pk := e.P.Decl("internal/cmd", "NewBuildCmd")
	key := "internal/cmd.NewBuildCmd#input-flag"
	if fd == nil {
		r.Undecide("R09.4", key, "anchor not found")
		return
	}
	info := pk.TypesInfo
	var flagVar types.Object
	ast.Inspect(fd.Body, func(n ast.Node) bool {
		call, ok := n.(*ast.CallExpr)
		if !ok {
			return true
		}
		name := calleeName(load.Callee(info, call))
		if strings.HasPrefix(name, "github.com/spf13/pflag.(FlagSet).StringArrayVar") || strings.HasPrefix(name, "github.com/spf13/pflag.(FlagSet).StringSliceVar") {
			if len(call.Args) >= 2 {
				if s, ok := load.StringOf(info, call.Args[1]); ok && s == "input" {
					if u, ok := ast.Unparen(call.Args[0]).(*ast.UnaryExpr); ok {
						if id, ok := ast.Unparen(u.X).(*ast.Ident); ok {
							flagVar = info.ObjectOf(id)
							if !strings.Contains(name, "StringArrayVar") {
								r.Violate("R09.4", key+"#kind", "the -i flag is not a string array (a slice flag splits on commas)", nil, e.P.Pos(call.Pos()))
							}
						}
					}
				}
			}
		}
		return true
	})
	if flagVar == nil {
		r.Violate("R09.4", key, "no StringArray flag named \"input\"", nil)
		return
	}
	ok := false
	ast.Inspect(fd.Body, func(n ast.Node) bool {
		kv, isKv := n.(*ast.KeyValueExpr)
		if !isKv {
			return true
		}
		if k, isId := kv.Key.(*ast.Ident); isId && k.Name == "inputPatterns" {
			if id, isId := ast.Unparen(kv.Value).(*ast.Ident); isId && info.ObjectOf(id) == flagVar {
				ok = true
			}
		}
		return true
	})
	r.Check(ok, "R09.4", key, "runnerPayload.inputPatterns is the -i flag variable itself (order of the flags)")
}

// sortSites: every call that sorts or reorders, in module code, is one of the reviewed sites.
// reviewedSortHelpers: helpers that c09FindFiles accepted as the body of findFiles (filled per run).
var reviewedSortHelpers = map[string]bool{}

var reviewedSorts = map[string]string{
	"internal/pkg/maps.Keys":                       "sorts the collected keys (engine M decides totality)",
	"internal/pkg/imports.imports.Imports":         "sorts imports by path (engine M decides totality)",
	"internal/cmd/runner.StepReadConfig.findFiles": "sorts the cleaned glob matches (R09.3)",
}

// globHelperOf: key names a function of the runner package that calls filepath.Glob once and is called by
// findFiles only (the extracted body of findFiles).
func globHelperOf(e *Env, key string) bool {
	ff := e.P.Func("internal/cmd/runner", "StepReadConfig.findFiles")
	if ff == nil {
		return false
	}
	for _, c := range callsIn(ff, false) {
		g := c.Common().StaticCallee()
		if g == nil || !e.P.InModule(g) || len(findCalls(g, "path/filepath.Glob", false)) != 1 {
			continue
		}
		k := strings.NewReplacer("(", "", ")", "", "*", "").Replace(e.P.FuncKey(g))
		if k == key {
			return true
		}
	}
	return false
}

func sortSites(e *Env, rule string) {
	n := 0
	e.P.EachFuncDecl(func(pk *packages.Package, rel string, fd *ast.FuncDecl) {
		if fd.Body == nil {
			return
		}
		if f := load.FileOf(pk, fd); f != nil && ast.IsGenerated(f) {
			return
		}
		key := load.DeclKey(rel, fd)
		ast.Inspect(fd.Body, func(nd ast.Node) bool {
			call, ok := nd.(*ast.CallExpr)
			if !ok {
				return true
			}
			name := calleeName(load.Callee(pk.TypesInfo, call))
			if strings.HasPrefix(name, "sort.") || strings.HasPrefix(name, "slices.Sort") || name == "slices.Reverse" || strings.HasPrefix(name, "math/rand.Shuffle") {
				n++
				why, ok := reviewedSorts[key]
				if !ok {
					// the reviewed site under its current name (renamed, or a method turned into a function)
					for rk, rw := range reviewedSorts {
						if i := strings.LastIndex(rk, "/"); i >= 0 {
							if j := strings.Index(rk[i:], "."); j >= 0 {
								rrel, rname := rk[:i+j], rk[i+j+1:]
								if cur := e.P.Resolve(rrel, rname); cur != rname && rrel+"."+cur == key {
									why, ok = rw, true
								}
							}
						}
					}
				}
				if !ok && globHelperOf(e, key) {
					why, ok = "sorts the cleaned glob matches in the helper findFiles wraps (R09.3)", true
				}
				if ok {
					e.R.Hold(rule, key+" -> "+name, "reviewed reordering site: "+why, e.P.Pos(call.Pos()))
				} else {
					e.R.Violate(rule, key+" -> "+name, "reordering call outside the three reviewed sites: declaration order of calls, tags, decorators, arguments or files may no longer be preserved", nil, e.P.Pos(call.Pos()))
				}
			}
			return true
		})
	})
	e.R.Analysed["sort_call_sites"] = n
}
