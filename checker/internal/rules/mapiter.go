package rules

import (
	"fmt"
	"go/ast"
	"go/token"
	"go/types"
	"strings"

	"gverif/internal/load"

	"golang.org/x/tools/go/packages"
)

// Engine M: every range over a map must have an order-insensitive body.

type MapRange struct {
	Key       string // stable key: rel.Func#n
	Pos       string
	Sensitive bool
	Why       string
}

func isMapType(t types.Type) bool {
	if t == nil {
		return false
	}
	if tp, ok := t.(*types.TypeParam); ok {
		// core type of a type parameter
		if u, ok := tp.Constraint().Underlying().(*types.Interface); ok {
			_ = u
		}
		return false
	}
	_, ok := t.Underlying().(*types.Map)
	return ok
}

// MapRanges analyses all map ranges of the given program's module.
func MapRanges(p *load.Program) []MapRange {
	var out []MapRange
	p.EachFuncDecl(func(pk *packages.Package, rel string, fd *ast.FuncDecl) {
		if fd.Body == nil {
			return
		}
		n := 0
		ast.Inspect(fd.Body, func(nd ast.Node) bool {
			rs, ok := nd.(*ast.RangeStmt)
			if !ok {
				return true
			}
			t := pk.TypesInfo.TypeOf(rs.X)
			if !isMapType(t) {
				return true
			}
			n++
			mr := MapRange{Key: fmt.Sprintf("%s#map-range-%d", load.DeclKey(rel, fd), n), Pos: p.Pos(rs.Pos())}
			why := analyseMapRange(pk, fd, rs)
			if why != "" {
				mr.Sensitive, mr.Why = true, why
			}
			out = append(out, mr)
			return true
		})
	})
	return out
}

type mrCtx struct {
	pk       *packages.Package
	fd       *ast.FuncDecl
	rs       *ast.RangeStmt
	keyObj   types.Object
	valObj   types.Object
	collects map[types.Object]collectInfo // slice var -> what is appended
}

type collectInfo struct {
	elemIsKey bool
	keyField  string // composite literal field that holds the key
}

func analyseMapRange(pk *packages.Package, fd *ast.FuncDecl, rs *ast.RangeStmt) string {
	c := &mrCtx{pk: pk, fd: fd, rs: rs, collects: map[types.Object]collectInfo{}}
	if id, ok := rs.Key.(*ast.Ident); ok && id.Name != "_" {
		c.keyObj = pk.TypesInfo.ObjectOf(id)
	}
	if id, ok := rs.Value.(*ast.Ident); ok && id.Name != "_" {
		c.valObj = pk.TypesInfo.ObjectOf(id)
	}
	if why := c.stmts(rs.Body.List); why != "" {
		return why
	}
	// every collected slice must be sorted before any other use
	for obj, ci := range c.collects {
		if why := c.sortedBeforeUse(obj, ci); why != "" {
			return why
		}
	}
	return ""
}

func (c *mrCtx) stmts(list []ast.Stmt) string {
	for _, s := range list {
		if why := c.stmt(s); why != "" {
			return why
		}
	}
	return ""
}

func (c *mrCtx) stmt(s ast.Stmt) string {
	info := c.pk.TypesInfo
	switch x := s.(type) {
	case *ast.EmptyStmt:
		return ""
	case *ast.BlockStmt:
		return c.stmts(x.List)
	case *ast.IncDecStmt:
		if isInteger(info.TypeOf(x.X)) && c.pureExpr(x.X) {
			return ""
		}
		return "increment of a non-integer or impure operand"
	case *ast.AssignStmt:
		if len(x.Lhs) != 1 || len(x.Rhs) != 1 {
			return "multi-assignment inside a map range"
		}
		lhs, rhs := ast.Unparen(x.Lhs[0]), x.Rhs[0]
		// m2[k] = v
		if ix, ok := lhs.(*ast.IndexExpr); ok && isMapType(info.TypeOf(ix.X)) && x.Tok == token.ASSIGN {
			if !c.pureExpr(rhs) || !c.pureExpr(ix.Index) {
				return "map store with an impure operand"
			}
			if c.isObj(ix.Index, c.keyObj) {
				return "" // distinct iterations write distinct keys
			}
			if c.isObj(ix.Index, c.valObj) && c.rangedValuesDistinct() {
				return ""
			}
			return "map store whose key is not the range key (iterations may overwrite each other; last one wins)"
		}
		// n += expr (integers)
		if (x.Tok == token.ADD_ASSIGN || x.Tok == token.OR_ASSIGN || x.Tok == token.AND_ASSIGN || x.Tok == token.XOR_ASSIGN) && isInteger(info.TypeOf(lhs)) && c.pureExpr(rhs) {
			return ""
		}
		// s = append(s, elem)
		if call, ok := ast.Unparen(rhs).(*ast.CallExpr); ok && x.Tok == token.ASSIGN {
			if id, ok := ast.Unparen(call.Fun).(*ast.Ident); ok && id.Name == "append" && info.Uses[id] == types.Universe.Lookup("append") {
				lid, ok1 := lhs.(*ast.Ident)
				aid, ok2 := ast.Unparen(call.Args[0]).(*ast.Ident)
				if ok1 && ok2 && info.ObjectOf(lid) == info.ObjectOf(aid) && len(call.Args) == 2 && call.Ellipsis == token.NoPos {
					ci, ok := c.collectElem(call.Args[1])
					if !ok {
						return "append of a value that does not carry the range key to a slice (element order follows map order)"
					}
					obj := info.ObjectOf(lid)
					if old, seen := c.collects[obj]; seen && old != ci {
						return "slice collects differently shaped elements"
					}
					c.collects[obj] = ci
					return ""
				}
				return "append inside a map range in an unrecognised form"
			}
		}
		return "assignment to a variable outside the iteration (order-dependent state)"
	case *ast.ExprStmt:
		if call, ok := x.X.(*ast.CallExpr); ok {
			if id, ok := ast.Unparen(call.Fun).(*ast.Ident); ok && id.Name == "delete" && info.Uses[id] == types.Universe.Lookup("delete") {
				return ""
			}
		}
		return "call with possible effects inside a map range"
	case *ast.IfStmt:
		if x.Init != nil {
			return "if with init statement inside a map range"
		}
		if !c.pureExpr(x.Cond) {
			return "condition with possible effects inside a map range"
		}
		if why := c.stmts(x.Body.List); why != "" {
			return why
		}
		if x.Else != nil {
			return c.stmt(x.Else)
		}
		return ""
	case *ast.BranchStmt:
		if x.Tok == token.CONTINUE && x.Label == nil {
			return ""
		}
		return x.Tok.String() + " inside a map range (which element is reached first follows map order)"
	case *ast.ReturnStmt:
		return "return inside a map range (which element is reached first follows map order)"
	case *ast.DeclStmt:
		return ""
	}
	return fmt.Sprintf("%T inside a map range", s)
}

func (c *mrCtx) isObj(e ast.Expr, o types.Object) bool {
	if o == nil {
		return false
	}
	id, ok := ast.Unparen(e).(*ast.Ident)
	return ok && c.pk.TypesInfo.ObjectOf(id) == o
}

func isInteger(t types.Type) bool {
	if t == nil {
		return false
	}
	b, ok := t.Underlying().(*types.Basic)
	return ok && b.Info()&types.IsInteger != 0
}

// collectElem recognises an appended element that carries the range key.
func (c *mrCtx) collectElem(e ast.Expr) (collectInfo, bool) {
	e = ast.Unparen(e)
	if c.isObj(e, c.keyObj) {
		return collectInfo{elemIsKey: true}, true
	}
	if cl, ok := e.(*ast.CompositeLit); ok {
		for _, el := range cl.Elts {
			kv, ok := el.(*ast.KeyValueExpr)
			if !ok {
				return collectInfo{}, false
			}
			if !c.pureExpr(kv.Value) {
				return collectInfo{}, false
			}
		}
		for _, el := range cl.Elts {
			kv := el.(*ast.KeyValueExpr)
			if c.isObj(kv.Value, c.keyObj) {
				if id, ok := kv.Key.(*ast.Ident); ok {
					return collectInfo{keyField: id.Name}, true
				}
			}
		}
	}
	return collectInfo{}, false
}

// pureExpr: no calls except conversions, len/cap and a small list of pure functions.
func (c *mrCtx) pureExpr(e ast.Expr) bool {
	pure := true
	info := c.pk.TypesInfo
	ast.Inspect(e, func(n ast.Node) bool {
		switch x := n.(type) {
		case *ast.CallExpr:
			if tv, ok := info.Types[x.Fun]; ok && tv.IsType() {
				return true
			}
			if id, ok := ast.Unparen(x.Fun).(*ast.Ident); ok {
				if b, ok := info.Uses[id].(*types.Builtin); ok && (b.Name() == "len" || b.Name() == "cap") {
					return true
				}
			}
			o := load.Callee(info, x)
			name := calleeName(o)
			if strings.HasPrefix(name, "strings.") || name == "regexp.(Regexp).MatchString" {
				return true
			}
			pure = false
			return false
		case *ast.FuncLit:
			pure = false
			return false
		case *ast.UnaryExpr:
			if x.Op == token.ARROW {
				pure = false
				return false
			}
		}
		return true
	})
	return pure
}

// rangedValuesDistinct: the ranged map is a package-level variable assigned exactly
// once, from a composite literal whose values are pairwise distinct constants.
func (c *mrCtx) rangedValuesDistinct() bool {
	id, ok := ast.Unparen(c.rs.X).(*ast.Ident)
	if !ok {
		return false
	}
	obj, ok := c.pk.TypesInfo.ObjectOf(id).(*types.Var)
	if !ok {
		return false
	}
	if obj.Parent() == c.pk.Types.Scope() {
		return c.globalValuesDistinct(obj)
	}
	// a parameter of an unexported function: every call in the package passes a package-level map whose
	// values are pairwise distinct constants
	pidx := -1
	i := 0
	for _, f := range c.fd.Type.Params.List {
		for _, n := range f.Names {
			if c.pk.TypesInfo.ObjectOf(n) == obj {
				pidx = i
			}
			i++
		}
	}
	if pidx < 0 || c.fd.Recv != nil || ast.IsExported(c.fd.Name.Name) {
		return false
	}
	self := c.pk.TypesInfo.ObjectOf(c.fd.Name)
	calls, good := 0, 0
	for _, f := range c.pk.Syntax {
		ast.Inspect(f, func(n ast.Node) bool {
			call, ok := n.(*ast.CallExpr)
			if !ok {
				return true
			}
			if fid, ok := ast.Unparen(call.Fun).(*ast.Ident); ok && c.pk.TypesInfo.ObjectOf(fid) == self {
				calls++
				if pidx < len(call.Args) {
					if aid, ok := ast.Unparen(call.Args[pidx]).(*ast.Ident); ok {
						if g, ok := c.pk.TypesInfo.ObjectOf(aid).(*types.Var); ok && g.Parent() == c.pk.Types.Scope() && c.globalValuesDistinct(g) {
							good++
						}
					}
				}
			}
			return true
		})
	}
	return calls > 0 && calls == good
}

// globalValuesDistinct: the package-level map is assigned once, from a composite literal whose values are
// pairwise distinct constants, and never stored into.
func (c *mrCtx) globalValuesDistinct(obj *types.Var) bool {
	var lits []*ast.CompositeLit
	assigns := 0
	for _, f := range c.pk.Syntax {
		ast.Inspect(f, func(n ast.Node) bool {
			switch x := n.(type) {
			case *ast.AssignStmt:
				for i, l := range x.Lhs {
					if lid, ok := ast.Unparen(l).(*ast.Ident); ok && c.pk.TypesInfo.ObjectOf(lid) == obj {
						assigns++
						if i < len(x.Rhs) {
							if cl, ok := ast.Unparen(x.Rhs[i]).(*ast.CompositeLit); ok {
								lits = append(lits, cl)
							}
						}
					}
				}
			case *ast.ValueSpec:
				for i, nm := range x.Names {
					if c.pk.TypesInfo.ObjectOf(nm) == obj && i < len(x.Values) {
						assigns++
						if cl, ok := ast.Unparen(x.Values[i]).(*ast.CompositeLit); ok {
							lits = append(lits, cl)
						}
					}
				}
			case *ast.IndexExpr:
				// stores m[k] = v elsewhere would add values we do not see
			}
			return true
		})
	}
	if assigns != 1 || len(lits) != 1 {
		return false
	}
	// no element stores into the map anywhere
	stores := false
	for _, f := range c.pk.Syntax {
		ast.Inspect(f, func(n ast.Node) bool {
			if as, ok := n.(*ast.AssignStmt); ok {
				for _, l := range as.Lhs {
					if ix, ok := ast.Unparen(l).(*ast.IndexExpr); ok {
						if xid, ok := ast.Unparen(ix.X).(*ast.Ident); ok && c.pk.TypesInfo.ObjectOf(xid) == obj {
							stores = true
						}
					}
				}
			}
			return true
		})
	}
	if stores {
		return false
	}
	seen := map[string]bool{}
	for _, el := range lits[0].Elts {
		kv, ok := el.(*ast.KeyValueExpr)
		if !ok {
			return false
		}
		tv, ok := c.pk.TypesInfo.Types[kv.Value]
		if !ok || tv.Value == nil {
			return false
		}
		s := tv.Value.ExactString()
		if seen[s] {
			return false
		}
		seen[s] = true
	}
	return true
}

// sortedBeforeUse: after the range statement, the first statement of the enclosing
// block that mentions the slice must be a total sort of it on the key.
func (c *mrCtx) sortedBeforeUse(slice types.Object, ci collectInfo) string {
	info := c.pk.TypesInfo
	// find the block containing the range statement
	var block *ast.BlockStmt
	ast.Inspect(c.fd.Body, func(n ast.Node) bool {
		if b, ok := n.(*ast.BlockStmt); ok {
			for _, s := range b.List {
				if s == ast.Stmt(c.rs) {
					block = b
				}
			}
		}
		return block == nil
	})
	if block == nil {
		return "collected slice: enclosing block of the range not found"
	}
	after := false
	for _, s := range block.List {
		if s == ast.Stmt(c.rs) {
			after = true
			continue
		}
		if !after || !mentions(info, s, slice) {
			continue
		}
		es, ok := s.(*ast.ExprStmt)
		if !ok {
			return "slice filled in map order is used before it is sorted"
		}
		call, ok := es.X.(*ast.CallExpr)
		if !ok || len(call.Args) == 0 || !c.isObj(call.Args[0], slice) {
			return "slice filled in map order is used before it is sorted"
		}
		name := calleeName(load.Callee(info, call))
		switch name {
		case "sort.Strings", "slices.Sort":
			if ci.elemIsKey {
				return ""
			}
			return "whole-element sort of a slice of structs"
		case "sort.Slice", "sort.SliceStable":
			if len(call.Args) != 2 {
				return "sort call in an unrecognised form"
			}
			fl, ok := ast.Unparen(call.Args[1]).(*ast.FuncLit)
			if !ok {
				return "sort comparator is not a function literal"
			}
			return c.totalComparator(fl, slice, ci)
		}
		return "slice filled in map order is used before it is sorted"
	}
	return "slice filled in map order is never sorted"
}

func mentions(info *types.Info, n ast.Node, o types.Object) bool {
	found := false
	ast.Inspect(n, func(x ast.Node) bool {
		if id, ok := x.(*ast.Ident); ok && info.ObjectOf(id) == o {
			found = true
		}
		return !found
	})
	return found
}

// totalComparator accepts func(i, j int) bool { return s[i](.F) < s[j](.F) } (or >),
// where F is the field that holds the (unique) map key.
func (c *mrCtx) totalComparator(fl *ast.FuncLit, slice types.Object, ci collectInfo) string {
	if len(fl.Body.List) != 1 {
		return "sort comparator is not a single return"
	}
	rt, ok := fl.Body.List[0].(*ast.ReturnStmt)
	if !ok || len(rt.Results) != 1 {
		return "sort comparator is not a single return"
	}
	be, ok := ast.Unparen(rt.Results[0]).(*ast.BinaryExpr)
	if !ok || (be.Op != token.LSS && be.Op != token.GTR) {
		return "sort comparator is not a strict < or > comparison"
	}
	var params []types.Object
	for _, f := range fl.Type.Params.List {
		for _, n := range f.Names {
			params = append(params, c.pk.TypesInfo.ObjectOf(n))
		}
	}
	if len(params) != 2 {
		return "sort comparator does not take two indices"
	}
	side := func(e ast.Expr) (types.Object, bool) {
		e = ast.Unparen(e)
		if !ci.elemIsKey {
			se, ok := e.(*ast.SelectorExpr)
			if !ok || se.Sel.Name != ci.keyField {
				return nil, false
			}
			e = ast.Unparen(se.X)
		}
		ix, ok := e.(*ast.IndexExpr)
		if !ok || !c.isObj(ix.X, slice) {
			return nil, false
		}
		id, ok := ast.Unparen(ix.Index).(*ast.Ident)
		if !ok {
			return nil, false
		}
		return c.pk.TypesInfo.ObjectOf(id), true
	}
	a, ok1 := side(be.X)
	b, ok2 := side(be.Y)
	if !ok1 || !ok2 {
		return "sort comparator does not compare the map key of both elements (ties or a partial order leave map order visible)"
	}
	if (a == params[0] && b == params[1]) || (a == params[1] && b == params[0]) {
		return ""
	}
	return "sort comparator does not compare element i with element j"
}
