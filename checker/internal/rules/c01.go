package rules

import (
	"fmt"
	"go/ast"
	"go/token"
	"go/types"
	"regexp"
	"sort"
	"strings"

	"gverif/internal/load"

	"golang.org/x/tools/go/ssa"
)

func init() { Register("C01", C01) }

func C01(e *Env) {
	r := e.R
	e.analysedBase()
	r.Rule("R01.1", "every field chain, method and function used in the 6 templates resolves against template.data (go/types) and the FuncMap, and every template branch is instantiated by at least one valuation", 1)
	r.Rule("R01.2", "exhaustive skeleton type-check: for every service shape (creation method x type form x getter/must x fields x calls/withers x tags x scope; pairwise-covering in the quick tier, full product in the thorough tier), every argument/parameter code form and every YAML scalar kind, in normal and in stub mode, the instantiated file parses and has no go/types error against the runtime pinned in go.mod (unused imports excepted: pruned by the import pass)", 8)
	r.Rule("R01.3", "init() cannot panic: *ContainerType implements the interface literal of the generated init() for every valuation (types.Implements), in both modes", 8)
	r.Rule("R01.4", "format gate: CodeFormatter.Format returns imports.Process applied to (a rewrite of) format.Source's result with nothing after it, unconditionally; Builder.Build returns formatter.Format(head+body) unchanged", 4)
	r.Rule("R01.6", "collision set: every getter G for which G, GInContext, MustG or MustGInContext is a method promoted from *container.Container or the name of the embedded field is rejected by ValidateServiceGetter (reserved set derived from its init(), Must prefix, InContext suffix)", 12)
	r.Rule("R01.7", "cross-service uniqueness: a validator reachable from NewDefaultValidator detects equal getters on different services", 1)

	b := newSkelBuilder(e)
	if !b.fr.ok || b.te.DataType == nil {
		return
	}
	sks := b.skeletons(e.Tier)
	skelTypeRules(e, b, sks, "R01.2")
	skelInitRule(e, sks, "R01.3")
	coverageRule(e, b, "R01.1")
	formatGate(e, "R01.4")
	collisionRule(e, "R01.6")
	dupGetterRule(e, "R01.7")
	identifierPositions(e, "R01.5")
	// shared with C14: a reference that is compiled to the wrong package path or loses its pointer marker does not compile
	c14Decorate(e)
	c14Groups(e)
	c14Guards(e)
	c14Sanitise(e, "R14.3")
	c03Shapes(e, "R03.7")
	r.Rule("R03.7", "engine F: every token factory emits, on every path, text that parses as a Go function literal with the call shape callProvider(<fn>[, <arguments>]) (shared with C03): a dropped comma or parenthesis in a code template would make every configuration using that token kind uncompilable", 5)
	c15Todo(e)
	r.Rule("R15.1", "a todo service is compiled to name+flag only (shared with C15): the validators skip todo services, so a getter or type copied from one reaches the templates unvalidated (a getter equal to another service's declares a method twice)", 1)
	c13Families(e, "R13.6")
	r.Rule("R13.6", "name-family separation: ValidateServiceGetter rejects every getter with the Must prefix and every getter with the InContext suffix (shared with C13): a getter MustX next to a getter X declares the method MustX twice and the file does not compile", 2)
	sharedWriteRules(e)
	r.Rule("R10.2", "the file on disk is exactly the generated source: one os.WriteFile (create, truncate, write) after a successful build (shared with C10): a stale tail of a longer previous file does not parse", 2)
	r.Rule("R10.1", "the written path is the -o path (shared with C10)", 1)
	mergeLiteralRule(e, "mergeMeta", "Meta")
	mergeLiteralRule(e, "Merge", "Input")
	r.Rule("R09.1", "the alias table and the other meta attributes of earlier files survive the multi-file merge (shared with C09): a lost alias leaves an import path that does not exist", 10)
	r.Rule("R09.1c", "behaviour classes of the merge combinators (shared with C09)", 3)
	r.Rule("R14.1", "alias substitution replaces the whole first segment once (shared with C14): otherwise the import path of the generated file names a package that does not exist", 4)
	r.Rule("R14.8", "every capture group of a type/constructor/value reference reaches the compiled expression on every path (shared with C14)", 5)
	r.Rule("R14.9", "the current package never reaches the alias table (shared with C14)", 5)
	r.Rule("R14.3", "import references are sanitised before aliasing (shared with C14)", 8)
	r.NotCovered = append(r.NotCovered,
		"existence and types of user symbols (assumed by the property)",
		"idempotence of gofmt / x/tools/imports (trusted)",
		"interactions of the alias table with user-chosen aliases (C14)")
}

// identifierPositions: R01.5 — the holes the templates print without export in identifier or path
// positions (package, container type, constructor, getter, import paths) only admit identifiers,
// resp. quote-free paths: decided by the language lemmas of C11 on the bound regular expressions.
var identifierPositions = func(e *Env, rule string) {
	e.R.Rule("R11.3", "R01.5: every value printed raw into an identifier or import-path position is admitted by a grammar whose language contains only Go identifiers, resp. strings without whitespace, quotes or backslashes (language lemmas shared with C11)", 20)
	c11Lemmas(e, regexVars(e))
}

// skelTypeRules: R01.2 — zero parse / type errors for every skeleton in both modes.
func skelTypeRules(e *Env, b *skelBuilder, sks []*skeleton, rule string) {
	nsvc := 0
	for _, sk := range sks {
		nsvc += len(sk.Services)
		for _, stub := range []bool{false, true} {
			key := fmt.Sprintf("skeleton:%s stub=%v", sk.ID, stub)
			if len(sk.Errs[stub]) == 0 {
				e.R.Hold(rule, key, fmt.Sprintf("%d services, %d params, %d decorators: parses and type-checks", len(sk.Services), len(sk.Params), len(sk.Decs)))
				continue
			}
			// group errors by the construct they point at, so that a finding is keyed by construct, not by line
			seen := map[string]bool{}
			for _, er := range sk.Errs[stub] {
				line := sk.lineOf(stub, er)
				k := classifyTypeError(er, line)
				if seen[k] {
					continue
				}
				seen[k] = true
				e.R.Violate(rule, fmt.Sprintf("generated-code[stub=%v]: %s", stub, k), "the instantiated template does not compile: "+er,
					map[string]any{"skeleton": sk.ID, "stub": stub, "error": er, "generated_line": line})
			}
		}
	}
	e.R.Analysed["services_type_checked"] = nsvc * 2
}

// classifyTypeError maps a go/types message + offending line to a stable construct key.
func classifyTypeError(msg, line string) string {
	m := strings.TrimPrefix(strings.TrimPrefix(msg, "type: "), "syntax: ")
	m = rePosPrefix.ReplaceAllString(m, "")
	for _, u := range userPkgs {
		m = strings.ReplaceAll(m, fmt.Sprintf("%q", u), "userpkg")
	}
	m = reDigits.ReplaceAllString(m, "#")
	l := reDigits.ReplaceAllString(line, "#")
	l = reAliasNum.ReplaceAllString(l, "i#_")
	if len(l) > 90 {
		l = l[:90]
	}
	if len(m) > 140 {
		m = m[:140]
	}
	return m + " @ `" + l + "`"
}

var (
	rePosPrefix = regexp.MustCompile(`^gontainer\.go:\d+:\d+: `)
	reDigits    = regexp.MustCompile(`\d+`)
	reAliasNum  = regexp.MustCompile(`\bi[0-9a-f#]+_`)
)

func containerNamed(sk *skeleton, stub bool) *types.Named {
	tp := sk.TPkg[stub]
	if tp == nil {
		return nil
	}
	o := tp.Scope().Lookup(sk.CType)
	if o == nil {
		return nil
	}
	n, _ := o.Type().(*types.Named)
	return n
}

// skelInitRule: R01.3.
func skelInitRule(e *Env, sks []*skeleton, rule string) {
	for _, sk := range sks {
		for _, stub := range []bool{false, true} {
			f := sk.Files[stub]
			if f == nil {
				continue
			}
			key := fmt.Sprintf("skeleton:%s stub=%v#init", sk.ID, stub)
			named := containerNamed(sk, stub)
			if named == nil {
				e.R.Violate(rule, key, "the container type is not declared under the configured name "+sk.CType, nil)
				continue
			}
			var iface *types.Interface
			panics := 0
			for _, d := range f.Decls {
				fd, ok := d.(*ast.FuncDecl)
				if !ok || fd.Name.Name != "init" || fd.Recv != nil {
					continue
				}
				ast.Inspect(fd.Body, func(n ast.Node) bool {
					switch x := n.(type) {
					case *ast.InterfaceType:
						if t, ok := sk.Info[stub].Types[x]; ok && iface == nil {
							iface, _ = t.Type.Underlying().(*types.Interface)
						}
					case *ast.CallExpr:
						if id, ok := x.Fun.(*ast.Ident); ok && id.Name == "panic" {
							panics++
						}
					}
					return true
				})
			}
			if iface == nil {
				e.R.Hold(rule, key, "no interface assertion in init()")
				continue
			}
			ok := types.Implements(types.NewPointer(named), iface)
			if !ok {
				missing, _ := types.MissingMethod(types.NewPointer(named), iface, true)
				name := "?"
				if missing != nil {
					name = missing.Name()
				}
				e.R.Violate(rule, key, "package initialisation panics: *"+sk.CType+" does not implement the interface asserted in init(); first missing or mismatching method: "+name, nil)
			} else {
				e.R.Hold(rule, key, fmt.Sprintf("*%s implements the asserted interface (%d methods)", sk.CType, iface.NumMethods()))
			}
			_ = panics
		}
	}
}

func coverageRule(e *Env, b *skelBuilder, rule string) {
	un := b.rd.Uncovered()
	if len(un) == 0 {
		e.R.Hold(rule, "templates#branch-coverage", fmt.Sprintf("every branch of the %d template files was instantiated; %d actions typed against template.data", len(b.te.Body.Files)+len(b.te.Head.Files), b.te.Actions))
	}
	for _, u := range un {
		e.R.Undecide(rule, "templates#uncovered: "+u, "a template branch that no valuation instantiates: its well-typedness is not decided")
	}
}

// formatGate: R01.4 on SSA.
func formatGate(e *Env, rule string) {
	r := e.R
	key := tplRelRules + ".CodeFormatter.Format"
	fn := e.P.Func(tplRelRules, "CodeFormatter.Format")
	if fn == nil {
		r.Undecide(rule, key, "anchor not found")
		return
	}
	fn = coreOf(fn)
	procs := findCalls(fn, "golang.org/x/tools/imports.Process", false)
	srcs := findCalls(fn, "go/format.Source", false)
	if len(procs) != 1 || len(srcs) != 1 {
		r.Violate(rule, key+"#calls", fmt.Sprintf("%d calls of imports.Process and %d of format.Source, expected one each", len(procs), len(srcs)), nil)
		return
	}
	// the import pass must prune: options are nil (defaults) or do not set FormatOnly
	opt := procs[0].Common().Args[2]
	okOpt := isNilConst(opt)
	if !okOpt {
		okOpt = true
		if al, isAl := opt.(*ssa.Alloc); isAl {
			for _, ref := range *al.Referrers() {
				if fa, isFa := ref.(*ssa.FieldAddr); isFa && fieldName(fa) == "FormatOnly" {
					for _, r2 := range *fa.Referrers() {
						if st, isSt := r2.(*ssa.Store); isSt {
							if c, isC := st.Val.(*ssa.Const); !isC || c.Value == nil || c.Value.String() != "false" {
								okOpt = false
							}
						}
					}
				}
			}
		} else {
			okOpt = false
		}
	}
	r.Check(okOpt, rule, key+"#process-prunes", "imports.Process runs with pruning enabled (nil options, or options without FormatOnly): unused aliases registered by the compiler are removed", e.P.Pos(procs[0].Pos()))
	pout := extractOf(procs[0], 0)
	sout := extractOf(srcs[0], 0)
	// Process input derives from format.Source output
	r.Check(sout != nil && taintFrom(fn, sout).has(procs[0].Common().Args[1]), rule, key+"#process-after-format", "imports.Process is applied to (a rewrite of) the output of format.Source", e.P.Pos(procs[0].Pos()))
	// Process runs on every success path: it is reachable only past the format error check and every non-error return comes after it
	okRet := true
	nret := 0
	for _, b := range fn.Blocks {
		for _, ins := range b.Instrs {
			ret, ok := ins.(*ssa.Return)
			if !ok {
				continue
			}
			// named results with defer: returned values are loads of the result cells; find stores
			nret++
			_ = ret
		}
	}
	// the string result cell: every store into it is either "" or string(<Process output>)
	var resCells []*ssa.Alloc
	for _, b := range fn.Blocks {
		for _, ins := range b.Instrs {
			if al, ok := ins.(*ssa.Alloc); ok && isStringType(al.Type().(*types.Pointer).Elem()) {
				resCells = append(resCells, al)
			}
		}
	}
	checked := 0
	checkVal := func(v ssa.Value, pos token.Pos) {
		if s, ok := constString(v); ok && s == "" {
			return
		}
		checked++
		cv, ok := v.(*ssa.Convert)
		if !ok || cv.X != pout {
			okRet = false
			r.Violate(rule, key+"#returns-process-output", "the formatted source that is returned is not exactly the output of imports.Process (something runs after the import pass, or the pass is skipped on some path)", nil, e.P.Pos(pos))
		}
	}
	for _, al := range resCells {
		for _, ref := range *al.Referrers() {
			if st, ok := ref.(*ssa.Store); ok && st.Addr == al {
				checkVal(st.Val, st.Pos())
			}
		}
	}
	if len(resCells) == 0 {
		for _, b := range fn.Blocks {
			for _, ins := range b.Instrs {
				if ret, ok := ins.(*ssa.Return); ok && len(ret.Results) == 2 {
					checkVal(ret.Results[0], ret.Pos())
				}
			}
		}
	}
	if okRet && checked > 0 {
		r.Hold(rule, key+"#returns-process-output", "the returned source is string(<output of imports.Process>)")
	} else if checked == 0 {
		r.Undecide(rule, key+"#returns-process-output", "no non-empty result value found")
	}
	// Builder.Build
	bk := tplRelRules + ".Builder.Build"
	bf := e.P.Func(tplRelRules, "Builder.Build")
	if bf == nil {
		r.Undecide(rule, bk, "anchor not found")
		return
	}
	fm := findInvokes(bf, "Format", false)
	if len(fm) != 1 {
		r.Violate(rule, bk+"#format", fmt.Sprintf("%d calls of formatter.Format, expected 1", len(fm)), nil)
		return
	}
	okB := true
	for _, b := range bf.Blocks {
		for _, ins := range b.Instrs {
			if ret, ok := ins.(*ssa.Return); ok && len(ret.Results) == 2 {
				if s, ok := constString(ret.Results[0]); ok && s == "" {
					continue
				}
				ex, ok := ret.Results[0].(*ssa.Extract)
				if !ok || ex.Tuple != fm[0].Value() {
					okB = false
				}
			}
		}
	}
	r.Check(okB, rule, bk+"#returns-formatted", "Build returns the formatter's result unchanged", e.P.Pos(fm[0].Pos()))
	// argument is head + body
	arg := fm[0].Common().Args[0]
	bo, isAdd := arg.(*ssa.BinOp)
	r.Check(isAdd && bo.Op == token.ADD, rule, bk+"#head-then-body", "the formatter receives head followed by body", e.P.Pos(fm[0].Pos()))
	if isAdd {
		// which template produced each half: the `name` of the tpl value whose exec() result it is
		tplNameOf := func(v ssa.Value) string {
			ex, ok := v.(*ssa.Extract)
			if !ok || ex.Index != 0 {
				return ""
			}
			c, ok := ex.Tuple.(*ssa.Call)
			if !ok || len(c.Call.Args) == 0 {
				return ""
			}
			recv := c.Call.Args[0]
			if ld, isLd := recv.(*ssa.UnOp); isLd && ld.Op == token.MUL {
				recv = ld.X
			}
			al, ok := recv.(*ssa.Alloc)
			if !ok {
				return ""
			}
			for _, ref := range *al.Referrers() {
				if fa, isFa := ref.(*ssa.FieldAddr); isFa && fieldName(fa) == "name" {
					for _, r2 := range *fa.Referrers() {
						if st, isSt := r2.(*ssa.Store); isSt {
							if s, isS := constString(st.Val); isS {
								return s
							}
						}
					}
				}
			}
			return ""
		}
		hn, bn := tplNameOf(bo.X), tplNameOf(bo.Y)
		if hn != "" || bn != "" {
			r.Check(strings.HasPrefix(hn, "head") && strings.HasPrefix(bn, "body"), rule, bk+"#halves", fmt.Sprintf("the first half is the output of the head template and the second that of the body template (found %q + %q)", hn, bn), e.P.Pos(fm[0].Pos()))
		}
	}
	// unconditional: Format is not behind the stub flag
	r.Check(!dominatedByAnyFieldTest(bf, fm[0], "stub"), rule, bk+"#format-unconditional", "formatting does not depend on the stub flag")
}

const tplRelRules = "internal/pkg/template"

func dominatedByAnyFieldTest(fn *ssa.Function, ins ssa.Instruction, field string) bool {
	for _, b := range fn.Blocks {
		iff, ok := b.Instrs[len(b.Instrs)-1].(*ssa.If)
		if !ok {
			continue
		}
		cond := iff.Cond
		if u, ok := cond.(*ssa.UnOp); ok && u.Op == token.NOT {
			cond = u.X
		}
		mentions := false
		var walk func(v ssa.Value, d int)
		walk = func(v ssa.Value, d int) {
			if d > 6 {
				return
			}
			switch x := v.(type) {
			case *ssa.UnOp:
				walk(x.X, d+1)
			case *ssa.FieldAddr:
				if fieldName(x) == field {
					mentions = true
				}
			case *ssa.Field:
				if s, ok := x.X.Type().Underlying().(*types.Struct); ok && s.Field(x.Field).Name() == field {
					mentions = true
				}
				walk(x.X, d+1)
			case *ssa.BinOp:
				walk(x.X, d+1)
				walk(x.Y, d+1)
			}
		}
		walk(cond, 0)
		if mentions && (edgeDominates(b, true, ins) || edgeDominates(b, false, ins)) {
			return true
		}
	}
	return false
}

// ---- R01.6 ----

type getterRejection struct {
	reserved map[string]bool
	prefixes []string
	suffixes []string
	full     bool // the reflection loop covers the whole method set
	problems []string
}

func readGetterRejection(e *Env) *getterRejection {
	g := &getterRejection{reserved: map[string]bool{}}
	pk := e.P.Pkg(inputRel)
	if pk == nil {
		g.problems = append(g.problems, "package input not found")
		return g
	}
	info := pk.TypesInfo
	resObj := pk.Types.Scope().Lookup("reservedGetters")
	if resObj == nil {
		g.problems = append(g.problems, "variable reservedGetters not found")
		return g
	}
	// every store into reservedGetters
	for _, f := range pk.Syntax {
		ast.Inspect(f, func(n ast.Node) bool {
			switch x := n.(type) {
			case *ast.ForStmt:
				// for i := 0; i < r.NumMethod(); i++ { reservedGetters[r.Method(i).Name] = true }
				if loopFillsFromMethods(info, x, resObj) {
					if fullMethodLoop(info, x) {
						g.full = true
					} else {
						g.problems = append(g.problems, "the reflection loop does not visit every method (bounds are not 0 .. NumMethod())")
					}
				}
			case *ast.AssignStmt:
				for i, l := range x.Lhs {
					ix, ok := ast.Unparen(l).(*ast.IndexExpr)
					if !ok {
						continue
					}
					id, ok := ast.Unparen(ix.X).(*ast.Ident)
					if !ok || info.ObjectOf(id) != resObj {
						continue
					}
					if s, ok := load.StringOf(info, ix.Index); ok && i < len(x.Rhs) {
						if tv, ok := info.Types[x.Rhs[i]]; ok && tv.Value != nil && tv.Value.String() == "true" {
							g.reserved[s] = true
						}
					}
				}
			case *ast.CompositeLit:
				if t := info.TypeOf(x); t != nil {
					if _, ok := t.Underlying().(*types.Map); ok {
						// literal assigned to reservedGetters?
						for _, el := range x.Elts {
							if kv, ok := el.(*ast.KeyValueExpr); ok {
								if s, ok := load.StringOf(info, kv.Key); ok {
									if tv, ok := info.Types[kv.Value]; ok && tv.Value != nil && tv.Value.String() == "true" && literalAssignedTo(info, f, x, resObj) {
										g.reserved[s] = true
									}
								}
							}
						}
					}
				}
			}
			return true
		})
	}
	if g.full {
		// the loop's subject: reflect.TypeOf(container.New()) -> exported method set of *container.Container
		if cp := e.P.All[load.RuntimeMod+"/container"]; cp != nil {
			if o := cp.Types.Scope().Lookup("Container"); o != nil {
				ms := types.NewMethodSet(types.NewPointer(o.Type()))
				for i := 0; i < ms.Len(); i++ {
					if ms.At(i).Obj().Exported() {
						g.reserved[ms.At(i).Obj().Name()] = true
					}
				}
			}
		}
	}
	// the validator: reserved lookup must lead to an error; prefix / suffix tests
	fd, _ := e.P.Decl(inputRel, "ValidateServiceGetter")
	if fd == nil {
		g.problems = append(g.problems, "ValidateServiceGetter not found")
		return g
	}
	usesReserved := false
	ast.Inspect(fd.Body, func(n ast.Node) bool {
		switch x := n.(type) {
		case *ast.IfStmt:
			if ix, ok := ast.Unparen(x.Cond).(*ast.IndexExpr); ok {
				if id, ok := ast.Unparen(ix.X).(*ast.Ident); ok && info.ObjectOf(id) == resObj && blockRaisesError(info, x.Body) {
					usesReserved = true
				}
			}
			if call, ok := ast.Unparen(x.Cond).(*ast.CallExpr); ok && blockRaisesError(info, x.Body) {
				name := calleeName(load.Callee(info, call))
				if len(call.Args) == 2 {
					if s, ok := load.StringOf(info, call.Args[1]); ok {
						switch name {
						case "strings.HasPrefix":
							g.prefixes = append(g.prefixes, s)
						case "strings.HasSuffix":
							g.suffixes = append(g.suffixes, s)
						}
					}
				}
			}
		}
		return true
	})
	if !usesReserved {
		g.problems = append(g.problems, "ValidateServiceGetter does not reject names found in reservedGetters")
		g.reserved = map[string]bool{}
	}
	return g
}

func literalAssignedTo(info *types.Info, f *ast.File, lit *ast.CompositeLit, obj types.Object) bool {
	found := false
	ast.Inspect(f, func(n ast.Node) bool {
		switch x := n.(type) {
		case *ast.AssignStmt:
			for i, l := range x.Lhs {
				if id, ok := ast.Unparen(l).(*ast.Ident); ok && info.ObjectOf(id) == obj && i < len(x.Rhs) && ast.Unparen(x.Rhs[i]) == ast.Expr(lit) {
					found = true
				}
			}
		case *ast.ValueSpec:
			for i, nm := range x.Names {
				if info.ObjectOf(nm) == obj && i < len(x.Values) && ast.Unparen(x.Values[i]) == ast.Expr(lit) {
					found = true
				}
			}
		}
		return true
	})
	return found
}

func blockRaisesError(info *types.Info, b *ast.BlockStmt) bool {
	raises := false
	ast.Inspect(b, func(n ast.Node) bool {
		if call, ok := n.(*ast.CallExpr); ok {
			name := calleeName(load.Callee(info, call))
			if name == "fmt.Errorf" || name == "errors.New" {
				raises = true
			}
		}
		return true
	})
	return raises
}

func loopFillsFromMethods(info *types.Info, fs *ast.ForStmt, resObj types.Object) bool {
	ok := false
	ast.Inspect(fs.Body, func(n ast.Node) bool {
		as, isA := n.(*ast.AssignStmt)
		if !isA || len(as.Lhs) != 1 {
			return true
		}
		ix, isIx := ast.Unparen(as.Lhs[0]).(*ast.IndexExpr)
		if !isIx {
			return true
		}
		id, isId := ast.Unparen(ix.X).(*ast.Ident)
		if !isId || info.ObjectOf(id) != resObj {
			return true
		}
		if se, isSel := ast.Unparen(ix.Index).(*ast.SelectorExpr); isSel && se.Sel.Name == "Name" {
			if call, isCall := ast.Unparen(se.X).(*ast.CallExpr); isCall && calleeName(load.Callee(info, call)) == "reflect.(Type).Method" {
				ok = true
			}
		}
		return true
	})
	return ok
}

func fullMethodLoop(info *types.Info, fs *ast.ForStmt) bool {
	init, ok := fs.Init.(*ast.AssignStmt)
	if !ok || len(init.Rhs) != 1 {
		return false
	}
	if tv, ok := info.Types[init.Rhs[0]]; !ok || tv.Value == nil || tv.Value.String() != "0" {
		return false
	}
	cond, ok := fs.Cond.(*ast.BinaryExpr)
	if !ok || cond.Op != token.LSS {
		return false
	}
	call, ok := ast.Unparen(cond.Y).(*ast.CallExpr)
	if !ok || calleeName(load.Callee(info, call)) != "reflect.(Type).NumMethod" {
		return false
	}
	post, ok := fs.Post.(*ast.IncDecStmt)
	if !ok || post.Tok != token.INC {
		return false
	}
	// no continue / break / condition around the store
	plain := true
	ast.Inspect(fs.Body, func(n ast.Node) bool {
		switch n.(type) {
		case *ast.IfStmt, *ast.BranchStmt, *ast.SwitchStmt:
			plain = false
		}
		return true
	})
	return plain
}

func (g *getterRejection) rejects(name string) bool {
	if g.reserved[name] {
		return true
	}
	for _, p := range g.prefixes {
		if strings.HasPrefix(name, p) {
			return true
		}
	}
	for _, s := range g.suffixes {
		if strings.HasSuffix(name, s) {
			return true
		}
	}
	return false
}

func collisionRule(e *Env, rule string) {
	r := e.R
	g := readGetterRejection(e)
	for _, p := range g.problems {
		r.Undecide(rule, inputRel+".ValidateServiceGetter#derivation", p)
	}
	// the collision set: exported methods promoted from *container.Container + the embedded field's name
	coll := map[string]string{}
	if cp := e.P.All[load.RuntimeMod+"/container"]; cp != nil {
		if o := cp.Types.Scope().Lookup("Container"); o != nil {
			ms := types.NewMethodSet(types.NewPointer(o.Type()))
			for i := 0; i < ms.Len(); i++ {
				if ms.At(i).Obj().Exported() {
					coll[ms.At(i).Obj().Name()] = "method promoted from *container.Container"
				}
			}
			coll[o.Name()] = "name of the embedded field"
		}
	}
	if len(coll) < 10 {
		r.Undecide(rule, "container.Container#method-set", fmt.Sprintf("only %d names in the collision set", len(coll)))
	}
	var names []string
	for n := range coll {
		names = append(names, n)
	}
	sort.Strings(names)
	for _, n := range names {
		// every getter G that would generate a member named n
		cands := map[string]string{n: "G"}
		if strings.HasSuffix(n, "InContext") {
			cands[strings.TrimSuffix(n, "InContext")] = "GInContext"
		}
		if strings.HasPrefix(n, "Must") {
			cands[strings.TrimPrefix(n, "Must")] = "MustG"
			if strings.HasSuffix(n, "InContext") {
				cands[strings.TrimSuffix(strings.TrimPrefix(n, "Must"), "InContext")] = "MustGInContext"
			}
		}
		for gname, via := range cands {
			if gname == "" || !isGoIdent(gname) {
				continue
			}
			key := fmt.Sprintf("getter %q -> generated %s collides with %s (%s)", gname, via, n, coll[n])
			if g.rejects(gname) {
				r.Hold(rule, key, "rejected by ValidateServiceGetter")
			} else {
				r.Violate(rule, key, "the validator accepts this getter although the generated code cannot compile (duplicate field/method name)", nil)
			}
		}
	}
}

func isGoIdent(s string) bool {
	for i, c := range s {
		if !(c == '_' || c >= 'a' && c <= 'z' || c >= 'A' && c <= 'Z' || i > 0 && c >= '0' && c <= '9') {
			return false
		}
	}
	return s != ""
}

// dupGetterRule: R01.7 — a map keyed by the getter value and an error guarded by a read of that map,
// in a function reachable from NewDefaultValidator.
// countAtLeastTwo: on the given outcome, cond (a comparison of a count with a constant) means count >= 2.
func countAtLeastTwo(cond ssa.Value, onTrue bool) bool {
	bo, ok := cond.(*ssa.BinOp)
	if !ok {
		return false
	}
	op, l, r := bo.Op, bo.X, bo.Y
	if _, isK := constInt(l); isK { // k OP x -> x OP' k
		l, r = r, l
		switch op {
		case token.LSS:
			op = token.GTR
		case token.LEQ:
			op = token.GEQ
		case token.GTR:
			op = token.LSS
		case token.GEQ:
			op = token.LEQ
		}
	}
	_ = l
	k, isK := constInt(r)
	if !isK {
		return false
	}
	if !onTrue {
		switch op {
		case token.LSS:
			op = token.GEQ
		case token.LEQ:
			op = token.GTR
		case token.GTR:
			op = token.LEQ
		case token.GEQ:
			op = token.LSS
		case token.EQL:
			op = token.NEQ
		case token.NEQ:
			op = token.EQL
		}
	}
	switch op {
	case token.GTR:
		return k == 1
	case token.GEQ:
		return k == 2
	case token.NEQ:
		return k == 1 // the lists are never empty
	case token.EQL:
		return k == 2 // a counter tested right after its increment
	}
	return false
}

func dupGetterRule(e *Env, rule string) {
	r := e.R
	root := e.P.Func(inputRel, "NewDefaultValidator")
	if root == nil {
		r.Undecide(rule, inputRel+".NewDefaultValidator", "anchor not found")
		return
	}
	// functions of package input reachable from the default validator (static calls + function values)
	seen := map[*ssa.Function]bool{}
	var walk func(f *ssa.Function)
	walk = func(f *ssa.Function) {
		if f == nil || seen[f] || f.Pkg != root.Pkg || len(f.Blocks) == 0 {
			return
		}
		seen[f] = true
		allInstrs(f, func(_ *ssa.Function, ins ssa.Instruction) {
			for _, op := range ins.Operands(nil) {
				if op == nil || *op == nil {
					continue
				}
				switch x := (*op).(type) {
				case *ssa.Function:
					walk(x)
				case *ssa.MakeClosure:
					walk(x.Fn.(*ssa.Function))
				}
			}
		})
		for _, a := range f.AnonFuncs {
			walk(a)
		}
	}
	walk(root)
	found, weak, weakFlag := "", "", ""
	for f := range seen {
		var maps []ssa.Value
		allInstrs(f, func(_ *ssa.Function, ins ssa.Instruction) {
			if mu, ok := ins.(*ssa.MapUpdate); ok && derivesFromField(mu.Key, "Getter", 0) {
				maps = append(maps, mu.Map)
			}
		})
		if len(maps) == 0 {
			continue
		}
		// the only services left out of the count are todo services (which are not generated): a flag read
		// through ptr.Dereference in this function is the todo flag
		allInstrs(f, func(_ *ssa.Function, ins ssa.Instruction) {
			c, ok := ins.(*ssa.Call)
			if !ok {
				return
			}
			g := c.Call.StaticCallee()
			if g == nil || g.Origin() == nil || g.Origin().Name() != "Dereference" || len(c.Call.Args) == 0 {
				return
			}
			if !derivesFromField(c.Call.Args[0], "Todo", 0) {
				weakFlag = "a service is left out of the duplicate count on a flag other than todo: " + e.P.Pos(c.Pos())
			}
		})
		// an error site guarded by a condition that reads one of these maps
		rf := rootFn(f)
		for _, s := range errorSites(append([]*ssa.Function{rf}, rf.AnonFuncs...)) {
			for d := s.call.Block(); d != nil; d = d.Idom() {
				id := d.Idom()
				if id == nil {
					break
				}
				iff, ok := id.Instrs[len(id.Instrs)-1].(*ssa.If)
				if !ok {
					continue
				}
				for _, m := range maps {
					if condReadsMap(iff.Cond, m, 0) {
						onTrue := id.Succs[0].Dominates(s.call.Block()) && len(id.Succs[0].Preds) == 1
						if countAtLeastTwo(iff.Cond, onTrue) {
							found = e.P.FuncKey(f)
						} else {
							weak = fmt.Sprintf("the test %s does not mean 'used by two or more services' on the edge of the error", iff.Cond.String())
						}
					}
				}
			}
		}
	}
	if weakFlag != "" {
		found, weak = "", weakFlag
	}
	if found != "" {
		r.Hold(rule, inputRel+"#duplicate-getter-detection", "equal getters are counted per getter value and reported in "+found)
	} else {
		why := "no validator detects two services with the same getter: the generated file declares the method twice and does not compile"
		if weak != "" {
			why += " (" + weak + ")"
		}
		r.Violate(rule, inputRel+"#duplicate-getter-detection", why, nil)
	}
	e.R.Analysed["validator_functions_reachable"] = len(seen)
}

func derivesFromField(v ssa.Value, field string, d int) bool {
	if d > 8 || v == nil {
		return false
	}
	switch x := v.(type) {
	case *ssa.UnOp:
		return derivesFromField(x.X, field, d+1)
	case *ssa.FieldAddr:
		if fieldName(x) == field {
			return true
		}
		return derivesFromField(x.X, field, d+1)
	case *ssa.Field:
		if s, ok := x.X.Type().Underlying().(*types.Struct); ok && s.Field(x.Field).Name() == field {
			return true
		}
		return derivesFromField(x.X, field, d+1)
	case *ssa.Phi:
		for _, ed := range x.Edges {
			if derivesFromField(ed, field, d+1) {
				return true
			}
		}
	case *ssa.Alloc:
		for _, ref := range *x.Referrers() {
			if st, ok := ref.(*ssa.Store); ok && st.Addr == x && derivesFromField(st.Val, field, d+1) {
				return true
			}
		}
	case *ssa.ChangeType:
		return derivesFromField(x.X, field, d+1)
	case *ssa.Convert:
		return derivesFromField(x.X, field, d+1)
	case *ssa.MakeInterface:
		return derivesFromField(x.X, field, d+1)
	case *ssa.ChangeInterface:
		return derivesFromField(x.X, field, d+1)
	case *ssa.BinOp:
		return derivesFromField(x.X, field, d+1) || derivesFromField(x.Y, field, d+1)
	case *ssa.Call:
		for _, a := range x.Call.Args {
			if derivesFromField(a, field, d+1) {
				return true
			}
		}
	}
	return false
}

func condReadsMap(v ssa.Value, m ssa.Value, d int) bool {
	if d > 8 || v == nil {
		return false
	}
	switch x := v.(type) {
	case *ssa.Lookup:
		return x.X == m || sameCell(x.X, m)
	case *ssa.BinOp:
		return condReadsMap(x.X, m, d+1) || condReadsMap(x.Y, m, d+1)
	case *ssa.UnOp:
		return condReadsMap(x.X, m, d+1)
	case *ssa.Extract:
		return condReadsMap(x.Tuple, m, d+1)
	case *ssa.Call:
		for _, a := range x.Call.Args {
			if condReadsMap(a, m, d+1) {
				return true
			}
		}
	case *ssa.Phi:
		for _, ed := range x.Edges {
			if condReadsMap(ed, m, d+1) {
				return true
			}
		}
	}
	return false
}

func sameCell(a, b ssa.Value) bool {
	la, ok1 := a.(*ssa.UnOp)
	lb, ok2 := b.(*ssa.UnOp)
	return ok1 && ok2 && la.X == lb.X
}
