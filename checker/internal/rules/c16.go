package rules

import (
	"fmt"
	"go/ast"
	"go/token"
	"go/types"
	"strings"

	"gverif/internal/load"
	"gverif/internal/wiring"

	"golang.org/x/tools/go/ssa"
)

func init() { Register("C16", C16) }

const outputRel = "internal/pkg/output"

type ignoreFlag struct {
	flag, payload, getter, validator, class string
	depField                                map[string]bool
}

var ignoreFlags = []ignoreFlag{
	{"ignore-missing-params", "paramsExistActive", "MustGetStepValidateParamsExist", "ValidateParamsExist", "missing parameter", map[string]bool{"DependsOnParams": true, "DependsOn": true}},
	{"ignore-missing-services", "servicesExistActive", "MustGetStepValidateServicesExist", "ValidateServicesExist", "missing service", map[string]bool{"DependsOnServices": true}},
}

func C16(e *Env) {
	r := e.R
	e.analysedBase()
	cliSurfaceRule(e, "R16.0")
	e.R.Rule("R16.0", "documented command line (sub-command build, flags and shorthands) exists", 7)
	r.Rule("R16.1", "link 1: the flag literal is bound to its own variable by BoolVar(P)", 2)
	r.Rule("R16.2", "link 2: the runner payload's *Active field is the negation of exactly that flag variable (one negation)", 2)
	r.Rule("R16.3", "link 3: buildRunner calls Active(payload field) on the step returned by the matching getter, unconditionally", 2)
	r.Rule("R16.4", "links 4-5: that getter returns the service whose constructor receives the matching output validator (and nothing else that validates)", 2)
	r.Rule("R16.6", "link 6: the validator reports its own class and nothing else — every error site reachable from it lies behind the failed edge of a comma-ok lookup in its `existing` map, keyed by the dependency field of its class; no other output validator raises an error behind a failed lookup", 4)
	r.Rule("R16.7", "link 7: an inactive switchable step returns nil before its parent runs; an active one returns the parent's error unchanged", 2)
	r.Rule("R16.8", "link 8: Active has exactly these two call sites and the active field is written only by Active and the constructor (initially true); no other getter exposes a switchable step", 3)
	r.Rule("R16.9", "link 9: the output validators, BuildDependencyGraph and AllArgs do not write through their argument (slices of the Output are shared), so the generated file cannot depend on which validators ran", 6)

	c10Amalgamated(e, "R10.4")
	r.Rule("R10.4", "every other diagnostic is reported unchanged: the amalgamated validation step runs every sub-step and joins all their errors, so switching one validator off neither hides nor uncovers the diagnostics of the others (shared with C10)", 3)
	c05Validator(e)
	loopExitRule(e, "R05.3", outputRel, "a later dependency is never inspected, so its diagnostic disappears or depends on an unrelated defect", "ValidateServicesScopes", "Output.BuildDependencyGraph", "Service.AllArgs")
	r.Rule("R05.3", "every other diagnostic is reported unchanged: the scope validator and the dependency graph visit every dependency whatever else is wrong with the configuration (no early loop exit on a missing name) (shared with C05/C07)", 6)
	c16Flags(e)
	c16Wiring(e)
	c16Validators(e)
	c16Switch(e)
	c16Purity(e)
	r.NotCovered = append(r.NotCovered,
		"byte identity of the output under all four flag combinations as such (follows from links 7-9; not executed)",
		"the wording of the diagnostics")
}

// c16Flags: links 1-3 on the AST of cmd_build.go / runner_builder.go.
func c16Flags(e *Env) {
	r := e.R
	fd, pk := e.P.Decl("internal/cmd", "NewBuildCmd")
	if fd == nil {
		r.Undecide("R16.1", "internal/cmd.NewBuildCmd", "anchor not found")
		return
	}
	info := pk.TypesInfo
	flagVar := map[string]types.Object{}
	ast.Inspect(fd.Body, func(n ast.Node) bool {
		call, ok := n.(*ast.CallExpr)
		if !ok {
			return true
		}
		name := calleeName(load.Callee(info, call))
		if !strings.HasPrefix(name, "github.com/spf13/pflag.(FlagSet).BoolVar") || len(call.Args) < 2 {
			return true
		}
		lit, ok := load.StringOf(info, call.Args[1])
		if !ok {
			return true
		}
		if u, ok := ast.Unparen(call.Args[0]).(*ast.UnaryExpr); ok && u.Op == token.AND {
			if id, ok := ast.Unparen(u.X).(*ast.Ident); ok {
				if prev, dup := flagVar[lit]; dup && prev != info.ObjectOf(id) {
					r.Violate("R16.1", "internal/cmd.NewBuildCmd#flag:"+lit, "flag bound twice", nil, e.P.Pos(call.Pos()))
				}
				flagVar[lit] = info.ObjectOf(id)
				// default must be false
				if len(call.Args) >= 3 {
					if tv, ok := info.Types[call.Args[len(call.Args)-2]]; ok && tv.Value != nil && tv.Value.String() != "false" {
						r.Violate("R16.1", "internal/cmd.NewBuildCmd#flag:"+lit+"#default", "flag does not default to false", nil, e.P.Pos(call.Pos()))
					}
				}
			}
		}
		return true
	})
	// two flags must not share a variable
	seenVar := map[types.Object]string{}
	for f, v := range flagVar {
		if o, dup := seenVar[v]; dup {
			r.Violate("R16.1", "internal/cmd.NewBuildCmd#shared-variable", fmt.Sprintf("flags %s and %s share one variable", f, o), nil)
		}
		seenVar[v] = f
	}
	for _, f := range ignoreFlags {
		v, ok := flagVar[f.flag]
		k := "internal/cmd.NewBuildCmd#flag:" + f.flag
		if !ok {
			r.Violate("R16.1", k, "flag is not registered", nil)
			continue
		}
		r.Hold("R16.1", k, "bound to variable "+v.Name())
		// link 2
		found, okNeg := false, false
		ast.Inspect(fd.Body, func(n ast.Node) bool {
			kv, ok := n.(*ast.KeyValueExpr)
			if !ok {
				return true
			}
			if id, ok := kv.Key.(*ast.Ident); ok && id.Name == f.payload {
				found = true
				if u, ok := ast.Unparen(kv.Value).(*ast.UnaryExpr); ok && u.Op == token.NOT {
					if vid, ok := ast.Unparen(u.X).(*ast.Ident); ok && info.ObjectOf(vid) == v {
						okNeg = true
					}
				}
			}
			return true
		})
		r.Check(found && okNeg, "R16.2", "internal/cmd.NewBuildCmd$RunE#"+f.payload, fmt.Sprintf("runnerPayload.%s = !<variable of --%s>", f.payload, f.flag))
	}
	// the other two switches of the command exist as flags and are what RunE reads
	for _, f := range []struct{ flag, payload string }{{"quiet", ""}, {"stub", "stub"}} {
		v, ok := flagVar[f.flag]
		k := "internal/cmd.NewBuildCmd#flag:" + f.flag
		if !ok {
			r.Violate("R16.1", k, "flag is not registered: the documented switch --"+f.flag+" is an unknown flag", nil)
			continue
		}
		okUse := f.payload == ""
		used := false
		ast.Inspect(fd.Body, func(n ast.Node) bool {
			if id, isId := n.(*ast.Ident); isId && info.Uses[id] == v {
				used = true
			}
			if kv, isKv := n.(*ast.KeyValueExpr); isKv && f.payload != "" {
				if kid, isK := kv.Key.(*ast.Ident); isK && kid.Name == f.payload {
					if vid, isV := ast.Unparen(kv.Value).(*ast.Ident); isV && info.ObjectOf(vid) == v {
						okUse = true
					}
				}
			}
			return true
		})
		r.Check(okUse && used, "R16.1", k, "--"+f.flag+" is registered and bound to the variable RunE reads")
	}
	// link 3 on SSA of buildRunner
	br := e.P.Func("internal/cmd", "buildRunner")
	if br == nil {
		r.Undecide("R16.3", "internal/cmd.buildRunner", "anchor not found")
		return
	}
	actName := e.P.ModPath + "/internal/cmd/runner.(StepVerboseSwitchable).Active"
	acts := findCalls(br, actName, true)
	for _, f := range ignoreFlags {
		k := "internal/cmd.buildRunner#Active:" + f.getter
		var hit ssa.CallInstruction
		for _, a := range acts {
			if recv, ok := a.Common().Args[0].(*ssa.Call); ok && strings.HasSuffix(callName(&recv.Call), ")."+f.getter) {
				hit = a
			}
		}
		if hit == nil {
			r.Violate("R16.3", k, "no Active(...) call on the step returned by "+f.getter, nil)
			continue
		}
		arg := hit.Common().Args[1]
		okArg := false
		switch x := arg.(type) {
		case *ssa.UnOp:
			if fa, ok := x.X.(*ssa.FieldAddr); ok && fieldName(fa) == f.payload {
				okArg = true
			}
		case *ssa.Field:
			if s, ok := x.X.Type().Underlying().(*types.Struct); ok && s.Field(x.Field).Name() == f.payload {
				okArg = true
			}
		}
		r.Check(okArg, "R16.3", k, "Active receives payload."+f.payload+" (not another field, not negated again)", e.P.Pos(hit.Pos()))
		// unconditional: the call's block dominates every return
		uncond := true
		for _, b := range br.Blocks {
			for _, ins := range b.Instrs {
				if _, ok := ins.(*ssa.Return); ok && !hit.Block().Dominates(b) {
					uncond = false
				}
			}
		}
		r.Check(uncond, "R16.3", k+"#unconditional", "the switch is set on every path through buildRunner (the two flags are independent)", e.P.Pos(hit.Pos()))
	}
	// link 8: Active call sites in the whole module
	n := 0
	for _, c := range moduleCalls(e.P) {
		if c.name == actName {
			n++
			if c.fn != br {
				r.Violate("R16.8", c.fnKey+" -> Active", "a step is switched outside buildRunner", nil, e.P.Pos(c.ins.Pos()))
			}
		}
	}
	r.Check(n == 2, "R16.8", "module#Active-call-sites", fmt.Sprintf("%d call sites of StepVerboseSwitchable.Active, expected exactly the two of buildRunner", n))
}

// c16Wiring: links 4-5 on the wiring model.
func c16Wiring(e *Env) {
	r := e.R
	gm, _, ok := e.models()
	if !ok {
		return
	}
	valOf := func(s *wiring.Service) []string {
		var out []string
		for _, a := range s.Args {
			if a.Kind == "value" && a.Obj != nil && a.Obj.Pkg() != nil && a.Obj.Pkg().Path() == e.P.ModPath+"/"+outputRel {
				out = append(out, a.Obj.Name())
			}
		}
		return out
	}
	for _, f := range ignoreFlags {
		k := selfRel + "#getter:" + f.getter
		var g *wiring.Getter
		for i := range gm.Getters {
			if gm.Getters[i].Method == f.getter {
				g = &gm.Getters[i]
			}
		}
		if g == nil {
			r.Violate("R16.4", k, "getter not found in gontainer.go", nil)
			continue
		}
		s := gm.Service(g.Service)
		if s == nil {
			r.Violate("R16.4", k, "getter returns unknown service "+g.Service, nil)
			continue
		}
		vals := valOf(s)
		okV := len(vals) == 1 && vals[0] == f.validator && len(s.Args) == 2
		// and the service holds no other steps (it must be a single validation rule, not a composite)
		for _, a := range s.Args {
			if a.Kind == "service" || a.Kind == "tag" {
				okV = false
			}
		}
		r.Check(okV, "R16.4", k, fmt.Sprintf("--%s switches service %q, whose constructor arguments hold exactly the validator output.%s (found validators %v, %d arguments)", f.flag, g.Service, f.validator, vals, len(s.Args)), e.P.Pos(g.Pos))
		// the validator is wired nowhere else
		cnt := 0
		for i := range gm.Services {
			for _, v := range valOf(&gm.Services[i]) {
				if v == f.validator {
					cnt++
				}
			}
		}
		r.Check(cnt == 1, "R16.4", k+"#validator-wired-once", fmt.Sprintf("output.%s is wired into exactly one step (found %d)", f.validator, cnt))
	}
	// link 8: no other getter exposes a switchable step
	for _, g := range gm.Getters {
		if g.Type != nil && strings.Contains(g.Type.String(), "StepVerboseSwitchable") {
			base := strings.TrimSuffix(strings.TrimPrefix(g.Method, "Must"), "InContext")
			okG := false
			for _, f := range ignoreFlags {
				if "Must"+base == f.getter {
					okG = true
				}
			}
			r.Check(okG, "R16.8", selfRel+"#getter:"+g.Method, "only the two documented steps are exposed as switchable", e.P.Pos(g.Pos))
		}
	}
}

// pkgCallees returns fn and every function of the same package reachable by static calls.
func pkgCallees(fn *ssa.Function) []*ssa.Function {
	seen := map[*ssa.Function]bool{}
	var out []*ssa.Function
	var walk func(f *ssa.Function)
	walk = func(f *ssa.Function) {
		if f == nil || seen[f] || f.Pkg != fn.Pkg || len(f.Blocks) == 0 {
			return
		}
		seen[f] = true
		out = append(out, f)
		for _, c := range callsIn(f, true) {
			walk(c.Common().StaticCallee())
		}
		for _, a := range f.AnonFuncs {
			walk(a)
		}
	}
	walk(fn)
	return out
}

type errSite struct {
	fn   *ssa.Function
	call *ssa.Call
}

func errorSites(fns []*ssa.Function) []errSite {
	var out []errSite
	for _, f := range fns {
		if isErrorCtorHelper(f) {
			continue // accounted for at its call sites
		}
		for _, b := range f.Blocks {
			for _, ins := range b.Instrs {
				if c, ok := ins.(*ssa.Call); ok {
					n := callName(&c.Call)
					if n == "fmt.Errorf" || n == "errors.New" || isErrorCtorHelper(c.Call.StaticCallee()) {
						out = append(out, errSite{f, c})
					}
				}
			}
		}
	}
	return out
}

// isErrorCtorHelper: a straight-line function of the module that returns exactly one value, an error it
// creates with fmt.Errorf / errors.New (a "newErrXxx" helper): calling it is an error site of the caller.
func isErrorCtorHelper(g *ssa.Function) bool {
	if g == nil || len(g.Blocks) != 1 || g.Signature.Results().Len() != 1 || !isErrorType(g.Signature.Results().At(0).Type()) {
		return false
	}
	if load.Current == nil || !load.Current.InModule(g) {
		return false
	}
	ret, ok := g.Blocks[0].Instrs[len(g.Blocks[0].Instrs)-1].(*ssa.Return)
	if !ok {
		return false
	}
	v := ret.Results[0]
	if mi, ok := v.(*ssa.MakeInterface); ok {
		v = mi.X
	}
	c, ok := v.(*ssa.Call)
	if !ok {
		return false
	}
	n := callName(&c.Call)
	return n == "fmt.Errorf" || n == "errors.New"
}

// failedLookup: is ins behind the false edge of `_, ok := m[k]`? returns the lookup.
func failedLookup(fn *ssa.Function, ins ssa.Instruction) *ssa.Lookup {
	for _, b := range fn.Blocks {
		iff, ok := b.Instrs[len(b.Instrs)-1].(*ssa.If)
		if !ok {
			continue
		}
		cond := iff.Cond
		neg := false
		if u, ok := cond.(*ssa.UnOp); ok && u.Op == token.NOT {
			cond, neg = u.X, true
		}
		ex, ok := cond.(*ssa.Extract)
		if !ok || ex.Index != 1 {
			continue
		}
		lk, ok := ex.Tuple.(*ssa.Lookup)
		if !ok || !lk.CommaOk {
			continue
		}
		if _, isMap := lk.X.Type().Underlying().(*types.Map); !isMap {
			continue
		}
		if edgeDominates(b, neg, ins) {
			return lk
		}
	}
	return nil
}

// elemSourceField: v is an element of a slice loaded from a field; returns the field's name.
func elemSourceField(v ssa.Value) string {
	ld, ok := v.(*ssa.UnOp)
	if !ok || ld.Op != token.MUL {
		return ""
	}
	ia, ok := ld.X.(*ssa.IndexAddr)
	if !ok {
		return ""
	}
	switch s := ia.X.(type) {
	case *ssa.UnOp:
		if fa, ok := s.X.(*ssa.FieldAddr); ok {
			return fieldName(fa)
		}
	case *ssa.Field:
		if st, ok := s.X.Type().Underlying().(*types.Struct); ok {
			return st.Field(s.Field).Name()
		}
	}
	return ""
}

func c16Validators(e *Env) {
	r := e.R
	for _, f := range ignoreFlags {
		key := outputRel + "." + f.validator
		fn := e.P.Func(outputRel, f.validator)
		if fn == nil {
			r.Undecide("R16.6", key, "validator not found")
			continue
		}
		sites := errorSites(pkgCallees(fn))
		if len(sites) == 0 {
			r.Violate("R16.6", key, "the validator has no error site at all", nil)
		}
		for i, s := range sites {
			k := fmt.Sprintf("%s#error-site-%d(%s)", key, i+1, strings.TrimPrefix(e.P.FuncKey(s.fn), outputRel+"."))
			_, namesV, _, okM := missingNameAt(s.fn, s.call)
			if !okM {
				r.Violate("R16.6", k, "error site that is not guarded by a failed lookup of a declared name: --"+f.flag+" would hide a diagnostic of another class", nil, e.P.Pos(s.call.Pos()))
				continue
			}
			src := sliceSourceField(namesV)
			r.Check(f.depField[src], "R16.6", k, fmt.Sprintf("reports a %s: failed lookup keyed by an element of %q", f.class, src), e.P.Pos(s.call.Pos()))
		}
	}
	// the non-switchable validators never report a failed lookup
	for _, v := range []string{"ValidateServicesScopes", "ValidateCircularDeps"} {
		fn := e.P.Func(outputRel, v)
		key := outputRel + "." + v
		if fn == nil {
			r.Undecide("R16.6", key, "validator not found")
			continue
		}
		bad := 0
		for _, s := range errorSites(pkgCallees(fn)) {
			if _, _, _, okM := missingNameAt(s.fn, s.call); okM {
				bad++
				r.Violate("R16.6", key+"#missing-name-report", "a validator that cannot be switched off reports a missing name: the ignore flags no longer suppress that class", nil, e.P.Pos(s.call.Pos()))
			}
		}
		if bad == 0 {
			r.Hold("R16.6", key+"#no-missing-name-report", "raises no error behind a failed lookup")
		}
	}
}

func c16Switch(e *Env) {
	r := e.R
	key := "internal/cmd/runner.StepVerboseSwitchable.Run"
	fn := e.P.Func("internal/cmd/runner", "StepVerboseSwitchable.Run")
	if fn == nil {
		r.Undecide("R16.7", key, "anchor not found")
		return
	}
	inv := findInvokes(fn, "Run", true)
	if len(inv) != 1 {
		r.Undecide("R16.7", key, fmt.Sprintf("%d invocations of parent.Run", len(inv)))
		return
	}
	// the invocation (possibly inside the closure) is reachable only when active is true
	var site ssa.Instruction = inv[0]
	if inv[0].Parent() != fn {
		// find the call of the closure in fn
		for _, c := range callsIn(fn, false) {
			if mc, ok := c.Common().Value.(*ssa.MakeClosure); ok && mc.Fn == ssa.Value(inv[0].Parent()) {
				site = c
			}
		}
	}
	okActive := false
	for _, b := range fn.Blocks {
		iff, ok := b.Instrs[len(b.Instrs)-1].(*ssa.If)
		if !ok {
			continue
		}
		cond := iff.Cond
		neg := false
		if u, ok := cond.(*ssa.UnOp); ok && u.Op == token.NOT {
			cond, neg = u.X, true
		}
		if ld, ok := cond.(*ssa.UnOp); ok && ld.Op == token.MUL {
			if fa, ok := ld.X.(*ssa.FieldAddr); ok && fieldName(fa) == "active" {
				if edgeDominates(b, !neg, site) {
					okActive = true
				}
			}
		}
	}
	r.Check(okActive, "R16.7", key+"#inactive-skips-parent", "the decorated step runs only behind the active == true edge", e.P.Pos(inv[0].Pos()))
	// nil return when inactive, parent's error otherwise: shared with R10.4
	perr := errOf(inv[0])
	if perr != nil {
		ts := taintFrom(fn, perr)
		okRet := true
		for _, b := range fn.Blocks {
			for _, ins := range b.Instrs {
				if ret, ok := ins.(*ssa.Return); ok {
					v := ret.Results[0]
					if isNilConst(v) {
						if !dominatedByFieldTest(fn, ret, "active") && !successEdge(fn, perr, ret) && !successEdgeViaCell(fn, perr, ret) {
							okRet = false
						}
					} else if !ts.has(v) || passesThroughCall(v, ts) {
						okRet = false
					}
				}
			}
		}
		r.Check(okRet, "R16.7", key+"#returns", "inactive: nil; active: the parent's error, unchanged")
	}
	// link 8: writers of the active field
	writers := 0
	okWriters := true
	for _, f := range e.P.Funcs() {
		for _, b := range f.Blocks {
			for _, ins := range b.Instrs {
				st, ok := ins.(*ssa.Store)
				if !ok {
					continue
				}
				fa, ok := st.Addr.(*ssa.FieldAddr)
				if !ok || fieldName(fa) != "active" || !isNamed(fa.X.Type(), e.P.ModPath+"/internal/cmd/runner", "StepVerboseSwitchable") {
					continue
				}
				writers++
				switch e.P.FuncKey(f) {
				case "(*internal/cmd/runner.StepVerboseSwitchable).Active":
					if _, isParam := st.Val.(*ssa.Parameter); !isParam {
						okWriters = false
					}
				case "internal/cmd/runner.NewStepVerboseSwitchable":
					if c, ok := st.Val.(*ssa.Const); !ok || c.Value == nil || c.Value.String() != "true" {
						okWriters = false
					}
				default:
					okWriters = false
				}
			}
		}
	}
	r.Check(okWriters && writers == 2, "R16.8", "internal/cmd/runner.StepVerboseSwitchable#active-writers", fmt.Sprintf("the active field is written by Active (its parameter) and by the constructor (true) only; found %d writers", writers))
}

// c16Purity: no store through shared backing arrays of the argument.
func c16Purity(e *Env) {
	r := e.R
	pk := e.P.Pkg(outputRel)
	if pk == nil {
		r.Undecide("R16.9", outputRel, "package not found")
		return
	}
	sp := e.P.SSAPkg[pk.PkgPath]
	targets := []string{"ValidateParamsExist", "ValidateServicesExist", "ValidateServicesScopes", "ValidateCircularDeps", "Output.BuildDependencyGraph", "Service.AllArgs"}
	for _, t := range targets {
		fn := e.P.Func(outputRel, t)
		key := outputRel + "." + t
		if fn == nil {
			r.Undecide("R16.9", key, "function not found")
			continue
		}
		bad := ""
		for _, f := range pkgCallees(fn) {
			for _, b := range f.Blocks {
				for _, ins := range b.Instrs {
					switch x := ins.(type) {
					case *ssa.Store:
						if writesShared(x.Addr, 0) {
							bad = e.P.Pos(x.Pos())
						}
					case *ssa.MapUpdate:
						if fromParam(x.Map, 0) {
							bad = e.P.Pos(x.Pos())
						}
					}
				}
			}
		}
		r.Check(bad == "", "R16.9", key, "does not write through its argument (no store into an element of a slice or map reachable from a parameter)", bad)
	}
	_ = sp
}

// writesShared: the address goes through an element of a slice that derives from a parameter.
func writesShared(addr ssa.Value, depth int) bool {
	if depth > 10 {
		return false
	}
	switch x := addr.(type) {
	case *ssa.IndexAddr:
		if _, isSlice := x.X.Type().Underlying().(*types.Slice); isSlice && fromParam(x.X, 0) {
			return true
		}
		return writesShared(x.X, depth+1)
	case *ssa.FieldAddr:
		return writesShared(x.X, depth+1)
	case *ssa.UnOp:
		if x.Op == token.MUL { // pointer loaded from somewhere: writing through a pointer field of the argument
			return fromParam(x.X, 0)
		}
	case *ssa.Parameter:
		_, isPtr := x.Type().Underlying().(*types.Pointer)
		return isPtr
	}
	return false
}

// fromParam: does the value derive from a function parameter through loads, fields, indexing, slicing?
func fromParam(v ssa.Value, depth int) bool {
	if depth > 12 {
		return false
	}
	switch x := v.(type) {
	case *ssa.Parameter:
		return true
	case *ssa.UnOp:
		if x.Op == token.MUL {
			if al, ok := x.X.(*ssa.Alloc); ok {
				// local spill of a parameter or of a range element of one
				for _, ref := range *al.Referrers() {
					if st, ok := ref.(*ssa.Store); ok && st.Addr == al && fromParam(st.Val, depth+1) {
						return true
					}
				}
				return false
			}
			return fromParam(x.X, depth+1)
		}
	case *ssa.FieldAddr:
		return fromParam(x.X, depth+1)
	case *ssa.Field:
		return fromParam(x.X, depth+1)
	case *ssa.IndexAddr:
		return fromParam(x.X, depth+1)
	case *ssa.Index:
		return fromParam(x.X, depth+1)
	case *ssa.Slice:
		return fromParam(x.X, depth+1)
	case *ssa.Alloc:
		for _, ref := range *x.Referrers() {
			if st, ok := ref.(*ssa.Store); ok && st.Addr == x && fromParam(st.Val, depth+1) {
				return true
			}
		}
	case *ssa.Phi:
		for _, ed := range x.Edges {
			if fromParam(ed, depth+1) {
				return true
			}
		}
	case *ssa.Lookup:
		return fromParam(x.X, depth+1)
	}
	return false
}

// cliSurfaceRule: the documented command line exists — sub-command `build`, flags --input/-i, --output/-o,
// --quiet/-q, --stub, --ignore-missing-params, --ignore-missing-services (README.md, `gontainer build --help`).
// A misspelt name compiles and passes the suite (no test runs the command) and makes every documented
// invocation fail with "unknown command" / "unknown shorthand flag".
func cliSurfaceRule(e *Env, rule string) {
	r := e.R
	fd, pk := e.P.Decl("internal/cmd", "NewBuildCmd")
	key := "internal/cmd.NewBuildCmd"
	if fd == nil {
		r.Undecide(rule, key, "anchor not found")
		return
	}
	info := pk.TypesInfo
	use := ""
	flags := map[string]string{} // name -> shorthand
	ast.Inspect(fd.Body, func(n ast.Node) bool {
		switch x := n.(type) {
		case *ast.CompositeLit:
			if t := info.TypeOf(x); t != nil && strings.HasSuffix(t.String(), "cobra.Command") {
				for _, el := range x.Elts {
					if kv, ok := el.(*ast.KeyValueExpr); ok {
						if id, ok := kv.Key.(*ast.Ident); ok && id.Name == "Use" {
							use, _ = load.StringOf(info, kv.Value)
						}
					}
				}
			}
		case *ast.CallExpr:
			name := calleeName(load.Callee(info, x))
			if !strings.HasPrefix(name, "github.com/spf13/pflag.(FlagSet).") || !strings.Contains(name, "Var") || len(x.Args) < 3 {
				return true
			}
			long, ok := load.StringOf(info, x.Args[1])
			if !ok {
				return true
			}
			short := ""
			if strings.HasSuffix(name, "P") {
				short, _ = load.StringOf(info, x.Args[2])
			}
			flags[long] = short
		}
		return true
	})
	r.Check(len(strings.Fields(use)) > 0 && strings.Fields(use)[0] == "build", rule, key+"#use", fmt.Sprintf("the sub-command is `build` (Use: %q)", use))
	for _, f := range []struct{ long, short string }{{"input", "i"}, {"output", "o"}, {"quiet", "q"}, {"stub", ""}, {"ignore-missing-params", ""}, {"ignore-missing-services", ""}} {
		s, ok := flags[f.long]
		r.Check(ok && (f.short == "" || s == f.short), rule, key+"#flag:--"+f.long, fmt.Sprintf("the documented flag --%s (shorthand %q) is registered (found: registered=%v shorthand %q)", f.long, f.short, ok, s))
	}
}
