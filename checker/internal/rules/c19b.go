package rules

import (
	"bytes"
	"fmt"
	"go/ast"
	"go/format"
	"go/printer"
	"go/token"
	"go/types"
	"os"
	"path/filepath"
	"regexp"
	"strconv"
	"strings"

	"gverif/internal/load"
	"gverif/internal/tplabs"
	"gverif/internal/wiring"

	"golang.org/x/tools/imports"
)

// R19.2 — re-instantiation: the current templates, instantiated (by the checker's own interpreter)
// on the model extracted from the checked-in gontainer.go, must reproduce that file.

func init() {
	reinstantiate = func(e *Env) {
		e.R.Rule("R19.2", "re-instantiation: the current templates, abstractly instantiated on the model extracted from gontainer.go (code fragments and aliases taken verbatim from the file) and passed through the repository's formatting recipe (gofmt, blank-line squeeze, import pass with the repository's LocalPrefix), reproduce gontainer.go except the version comment line: detects a stale generated file after a template or formatter edit and a hand edit of the file", 1)
		r192(e)
	}
}

func nodeSrc(fset *token.FileSet, n ast.Node) string {
	var b bytes.Buffer
	_ = printer.Fprint(&b, fset, n)
	return b.String()
}

// unexport parses back what the exporter printed for a YAML scalar.
func unexport(s string) (any, bool) {
	s = strings.TrimSpace(s)
	switch {
	case s == "nil":
		return nil, true
	case s == "true":
		return true, true
	case s == "false":
		return false, true
	case strings.HasPrefix(s, `"`):
		u, err := strconv.Unquote(s)
		return u, err == nil
	}
	if i := strings.Index(s, "("); i > 0 && strings.HasSuffix(s, ")") {
		kind, lit := s[:i], s[i+1:len(s)-1]
		switch kind {
		case "int":
			v, err := strconv.Atoi(lit)
			return v, err == nil
		case "int64":
			v, err := strconv.ParseInt(lit, 10, 64)
			return v, err == nil
		case "uint64":
			v, err := strconv.ParseUint(lit, 10, 64)
			return v, err == nil
		case "float64":
			v, err := strconv.ParseFloat(lit, 64)
			return v, err == nil
		}
	}
	return nil, false
}

func r192(e *Env) {
	r := e.R
	key := selfRel + "/gontainer.go#re-instantiation"
	gm, _, ok := e.models()
	if !ok {
		return
	}
	te := tplabs.NewEnv(e.P)
	for _, p := range te.Problems {
		r.Undecide("R19.2", key, "template environment: "+p)
		return
	}
	fset := e.P.Fset
	path := filepath.Join(e.P.Dir, selfRel, "gontainer.go")
	orig, err := os.ReadFile(path)
	if err != nil {
		r.Undecide("R19.2", key, err.Error())
		return
	}
	// build info
	buildInfo := ""
	for _, l := range strings.Split(string(orig), "\n") {
		if strings.HasPrefix(l, "// gontainer version: ") {
			buildInfo = strings.TrimPrefix(l, "// gontainer version: ")
		}
	}
	// comment block: per-parameter "GO:" code and "Raw:", per-service declared type
	paramCode, paramRaw := map[string]string{}, map[string]string{}
	svcType := map[string]string{}
	section, cur := "", ""
	for _, cg := range gm.File.Comments {
		if cg.Pos() > gm.File.Decls[1].Pos() && len(gm.File.Decls) > 1 {
			// only the leading blocks (before the type declaration)
		}
		for _, c := range cg.List {
			t := strings.TrimPrefix(c.Text, "//")
			switch {
			case strings.Contains(t, "·PARAMS·"):
				section = "params"
			case strings.Contains(t, "·SERVICES·"):
				section = "services"
			case strings.HasPrefix(t, " #### "):
				cur = strings.TrimPrefix(t, " #### ")
			case section == "params" && strings.HasPrefix(t, " Raw: "):
				paramRaw[cur] = strings.TrimPrefix(t, " Raw: ")
			case section == "params" && strings.HasPrefix(t, " GO:  "):
				paramCode[cur] = strings.TrimPrefix(t, " GO:  ")
			case section == "services" && strings.HasPrefix(t, " var service "):
				svcType[cur] = strings.TrimPrefix(t, " var service ")
			}
		}
	}
	scopeOf := func(call string) *types.Const {
		name := strings.TrimPrefix(call, "Set")
		if pk := e.P.Pkg(outputRel); pk != nil {
			if c, ok := pk.Types.Scope().Lookup(name).(*types.Const); ok {
				return c
			}
		}
		return nil
	}
	depSpec := func(d wiring.Dep) (map[string]any, bool) {
		raw, ok := unexport(d.Raw)
		if !d.RawOK {
			// decorator arguments are not echoed above the call: their raw form follows from the dependency kind
			ok = true
			switch d.Kind {
			case "service":
				raw = "@" + d.Name
			case "tag":
				raw = "!tagged " + d.Name
			case "param":
				raw = "%" + d.Name + "%"
			case "string":
				raw = strings.ReplaceAll(d.Name, "%", "%%")
			case "container":
				raw = "$gontainer"
			default:
				raw, ok = nil, false
			}
		}
		return map[string]any{"Code": nodeSrc(fset, d.Expr0()), "Raw": raw}, ok
	}
	depSpecs := func(ds []wiring.Dep) ([]any, bool) {
		var out []any
		okAll := true
		for _, d := range ds {
			m, ok := depSpec(d)
			okAll = okAll && ok
			out = append(out, m)
		}
		return out, okAll
	}
	getterOf := map[string]wiring.Getter{}
	mustOf := map[string]bool{}
	for _, g := range gm.Getters {
		if !g.Must && !g.InContext {
			getterOf[g.Service] = g
		}
		if g.Must {
			mustOf[g.Service] = true
		}
	}
	getterTypeSrc := func(g wiring.Getter) string {
		for _, d := range gm.File.Decls {
			if fd, ok := d.(*ast.FuncDecl); ok && fd.Recv != nil && fd.Name.Name == g.Method && fd.Type.Results != nil {
				return nodeSrc(fset, fd.Type.Results.List[0].Type)
			}
		}
		return ""
	}
	okRaw := true
	var params []any
	for _, p := range gm.Params {
		code := paramCode[p.Name]
		if code == "" {
			code = nodeSrc(fset, p.Dep.Expr0())
		}
		raw, ok := unexport(paramRaw[p.Name])
		okRaw = okRaw && ok
		params = append(params, map[string]any{"Name": p.Name, "Code": code, "Raw": raw})
	}
	var svcs []any
	for i := range gm.Services {
		s := &gm.Services[i]
		spec := map[string]any{"Name": s.Name}
		if s.CtorKind == "todo" {
			spec["Todo"] = true
			svcs = append(svcs, spec)
			continue
		}
		typ := svcType[s.Name]
		switch s.CtorKind {
		case "func":
			spec["Constructor"] = nodeSrc(fset, s.Ctor)
			a, ok := depSpecs(s.Args)
			okRaw = okRaw && ok
			spec["Args"] = a
		case "value":
			spec["Value"] = nodeSrc(fset, s.CtorLit.Body.List[0].(*ast.ReturnStmt).Results[0])
			typ = nodeSrc(fset, s.CtorLit.Type.Results.List[0].Type)
		case "type":
			typ = nodeSrc(fset, s.CtorLit.Type.Results.List[0].Type)
		}
		if g, ok := getterOf[s.Name]; ok {
			spec["Getter"] = g.Method
			spec["MustGetter"] = mustOf[s.Name]
			if t := getterTypeSrc(g); t != "" {
				typ = t
			}
		}
		if typ == "" {
			typ = "interface{}"
		}
		spec["Type"] = typ
		var fl, cl, tl []any
		for _, f := range s.Fields {
			m, ok := depSpec(f.Val)
			okRaw = okRaw && ok
			fl = append(fl, map[string]any{"Name": f.Name, "Value": m})
		}
		for _, c := range s.Calls {
			a, ok := depSpecs(c.Args)
			okRaw = okRaw && ok
			cl = append(cl, map[string]any{"Method": c.Method, "Args": a, "Immutable": c.Immutable})
		}
		for _, t := range s.Tags {
			tl = append(tl, map[string]any{"Name": t.Name, "Priority": t.Prio})
		}
		spec["Fields"], spec["Calls"], spec["Tags"] = fl, cl, tl
		if c := scopeOf(s.ScopeCall); c != nil {
			spec["Scope"] = c
		} else {
			r.Undecide("R19.2", key, fmt.Sprintf("service %q: scope call %q does not correspond to an output.Scope constant", s.Name, s.ScopeCall))
			return
		}
		svcs = append(svcs, spec)
	}
	var decs []any
	for _, d := range gm.Decorators {
		a, ok := depSpecs(d.Args)
		okRaw = okRaw && ok
		decs = append(decs, map[string]any{"Tag": d.Tag, "Decorator": nodeSrc(fset, d.Fn), "Args": a})
	}
	if !okRaw {
		r.Undecide("R19.2", key, "a raw value echoed in a comment of gontainer.go could not be read back")
		return
	}
	out := map[string]any{
		"Meta":       map[string]any{"Pkg": gm.PkgName, "ContainerType": gm.TypeName, "ContainerConstructor": gm.CtorName},
		"Params":     params,
		"Services":   svcs,
		"Decorators": decs,
	}
	al := &tplabs.FixedAliaser{Table: map[string]string{}}
	for name, p := range gm.Imports {
		al.Table[p] = name
	}
	rd := te.NewRenderer()
	src, err := rd.Render(out, al, false, buildInfo)
	if err != nil {
		r.Violate("R19.2", key, "the templates cannot be instantiated on the model of gontainer.go: "+err.Error(), nil)
		return
	}
	if len(al.Missing) > 0 {
		r.Violate("R19.2", key, fmt.Sprintf("the templates import %v, which gontainer.go does not import: the file was generated by other templates", al.Missing), nil)
		return
	}
	got, err := repoFormat(e, src)
	if err != nil {
		r.Violate("R19.2", key, "the re-instantiated source does not format: "+err.Error(), nil)
		return
	}
	strip := func(s string) string {
		var out []string
		for _, l := range strings.Split(s, "\n") {
			if strings.HasPrefix(l, "// gontainer version:") {
				continue
			}
			out = append(out, l)
		}
		return strings.Join(out, "\n")
	}
	a, b := strip(string(orig)), strip(got)
	if a == b {
		r.Hold("R19.2", key, fmt.Sprintf("the %d lines of gontainer.go are reproduced by the current templates and formatter recipe", strings.Count(a, "\n")+1))
		return
	}
	// first differing line
	la, lb := strings.Split(a, "\n"), strings.Split(b, "\n")
	i := 0
	for i < len(la) && i < len(lb) && la[i] == lb[i] {
		i++
	}
	x, y := "<end of file>", "<end of file>"
	if i < len(la) {
		x = la[i]
	}
	if i < len(lb) {
		y = lb[i]
	}
	if d := os.Getenv("GV_DUMP"); d != "" {
		_ = os.WriteFile(filepath.Join(d, "r192_got.go"), []byte(got), 0o644)
	}
	r.Violate("R19.2", key, fmt.Sprintf("the checked-in file is not what the current templates produce for its own model; first difference at line %d: file has %q, templates give %q", i+1, strings.TrimSpace(x), strings.TrimSpace(y)),
		map[string]any{"line": i + 1, "file": x, "templates": y})
}

// repoFormat applies the repository's formatting recipe with the constants read from its source:
// format.Source, the blank-line squeeze (pattern and replacement of CodeFormatter.Format), imports.Process
// with the LocalPrefix assigned in the package's init.
func repoFormat(e *Env, src string) (string, error) {
	b, err := format.Source([]byte(src))
	if err != nil {
		return "", err
	}
	// squeeze
	pat, repl := "", ""
	for _, v := range regexVars(e) {
		if v.Key == tplRelRules+".reEmptyNewLines" {
			pat = v.Pattern
		}
	}
	// the replacement text of the squeeze: the ReplaceAll call on that expression, wherever in the package the
	// formatter keeps it (Format itself or a helper it delegates to)
	if pk := e.P.Pkg(tplRelRules); pk != nil {
		for _, f := range pk.Syntax {
			ast.Inspect(f, func(n ast.Node) bool {
				c, ok := n.(*ast.CallExpr)
				if !ok || calleeName(load.Callee(pk.TypesInfo, c)) != "regexp.(Regexp).ReplaceAll" || len(c.Args) != 2 {
					return true
				}
				if se, ok := ast.Unparen(c.Fun).(*ast.SelectorExpr); ok {
					if id, ok := ast.Unparen(se.X).(*ast.Ident); !ok || id.Name != "reEmptyNewLines" {
						return true
					}
				}
				if conv, ok := ast.Unparen(c.Args[1]).(*ast.CallExpr); ok && len(conv.Args) == 1 {
					repl, _ = load.StringOf(pk.TypesInfo, conv.Args[0])
				}
				return true
			})
		}
	}
	if pat != "" {
		re, err := regexp.Compile(pat)
		if err != nil {
			return "", err
		}
		b = re.ReplaceAll(b, []byte(repl))
	}
	// LocalPrefix
	prefix := ""
	if tp := e.P.Pkg(tplRelRules); tp != nil {
		for _, f := range tp.Syntax {
			ast.Inspect(f, func(n ast.Node) bool {
				as, ok := n.(*ast.AssignStmt)
				if !ok || len(as.Lhs) != 1 || len(as.Rhs) != 1 {
					return true
				}
				if se, ok := ast.Unparen(as.Lhs[0]).(*ast.SelectorExpr); ok && se.Sel.Name == "LocalPrefix" {
					prefix, _ = load.StringOf(tp.TypesInfo, as.Rhs[0])
				}
				return true
			})
		}
	}
	old := imports.LocalPrefix
	imports.LocalPrefix = prefix
	defer func() { imports.LocalPrefix = old }()
	out, err := imports.Process("", b, nil)
	if err != nil {
		return "", err
	}
	return string(out), nil
}
