package rules

import (
	"fmt"
	"go/ast"
	"go/token"
	"go/types"

	"gverif/internal/load"

	"golang.org/x/tools/go/packages"
	"golang.org/x/tools/go/ssa"
)

// ---- loop-exit lint ("report everything", "visit every element") ----

type LoopExit struct {
	Key  string
	Pos  string
	Kind string
}

// LoopExits lists break / return / goto statements that leave a loop early in the given
// functions (a return inside a function literal is local to the literal and is not an exit;
// a break inside a switch/select leaves only that statement).
func LoopExits(p *load.Program, rel string, names ...string) (exits []LoopExit, loops int) {
	for _, name := range names {
		fd, _ := p.Decl(rel, name)
		if fd == nil || fd.Body == nil {
			exits = append(exits, LoopExit{Key: rel + "." + name, Kind: "missing"})
			continue
		}
		n := 0
		var walk func(nd ast.Node, inLoop, inSwitch bool)
		walk = func(nd ast.Node, inLoop, inSwitch bool) {
			ast.Inspect(nd, func(x ast.Node) bool {
				if x == nd {
					return true
				}
				switch s := x.(type) {
				case *ast.FuncLit:
					walk(s.Body, false, false)
					return false
				case *ast.ForStmt:
					loops++
					walk(s.Body, true, false)
					return false
				case *ast.RangeStmt:
					loops++
					walk(s.Body, true, false)
					return false
				case *ast.SwitchStmt:
					walk(s.Body, inLoop, true)
					return false
				case *ast.TypeSwitchStmt:
					walk(s.Body, inLoop, true)
					return false
				case *ast.SelectStmt:
					walk(s.Body, inLoop, true)
					return false
				case *ast.ReturnStmt:
					if inLoop {
						n++
						exits = append(exits, LoopExit{Key: fmt.Sprintf("%s.%s#loop-exit-%d", rel, name, n), Pos: p.Pos(s.Pos()), Kind: "return"})
					}
				case *ast.BranchStmt:
					if inLoop && (s.Tok == token.GOTO || s.Tok == token.BREAK && (!inSwitch || s.Label != nil)) {
						n++
						exits = append(exits, LoopExit{Key: fmt.Sprintf("%s.%s#loop-exit-%d", rel, name, n), Pos: p.Pos(s.Pos()), Kind: s.Tok.String()})
					}
				}
				return true
			})
		}
		walk(fd.Body, false, false)
	}
	return
}

func loopExitRule(e *Env, rule, rel string, why string, names ...string) {
	exits, loops := LoopExits(e.P, rel, names...)
	bad := map[string]bool{}
	for _, x := range exits {
		if x.Kind == "missing" {
			e.R.Undecide(rule, x.Key, "function not found")
			continue
		}
		e.R.Violate(rule, x.Key, x.Kind+" leaves the loop before every element was visited: "+why, nil, x.Pos)
		bad[x.Key] = true
	}
	for _, n := range names {
		k := rel + "." + n + "#visits-every-element"
		ok := true
		for x := range bad {
			if len(x) > len(rel+"."+n) && x[:len(rel+"."+n)+1] == rel+"."+n+"#" {
				ok = false
			}
		}
		if ok {
			e.R.Hold(rule, k, "no early exit from its loops")
		}
	}
	_ = loops
}

// ---- order-preservation lint ----

// OrderSite is an element store / append inside a range loop.
type OrderSite struct {
	Key string
	Pos string
	OK  bool
	Why string
}

// OrderSites checks, in the named functions, that (a) X[idx] = v inside `for i, x := range S` uses
// idx == i, (b) r = append(r, elem) keeps r as the first operand, (c) the loop is a range (ascending).
func OrderSites(p *load.Program, rel string, names ...string) []OrderSite {
	var out []OrderSite
	for _, name := range names {
		fd, pk := p.Decl(rel, name)
		if fd == nil || fd.Body == nil {
			out = append(out, OrderSite{Key: rel + "." + name, Why: "function not found"})
			continue
		}
		info := pk.TypesInfo
		n := 0
		ast.Inspect(fd.Body, func(nd ast.Node) bool {
			switch loop := nd.(type) {
			case *ast.ForStmt:
				// a counted loop over a slice is accepted only in the ascending form i := 0; i < n; i++
				if !ascendingFor(info, loop) {
					n++
					out = append(out, OrderSite{Key: fmt.Sprintf("%s.%s#for-%d", rel, name, n), Pos: p.Pos(loop.Pos()), Why: "counted loop that is not of the form i := 0; i < n; i++ (elements may be visited in another order)"})
				}
			case *ast.RangeStmt:
				if _, isSlice := info.TypeOf(loop.X).Underlying().(*types.Slice); !isSlice {
					return true
				}
				var idx types.Object
				if id, ok := loop.Key.(*ast.Ident); ok && id.Name != "_" {
					idx = info.ObjectOf(id)
				}
				ast.Inspect(loop.Body, func(m ast.Node) bool {
					if _, isLit := m.(*ast.FuncLit); isLit {
						return false
					}
					if inner, isR := m.(*ast.RangeStmt); isR && inner != loop {
						return false
					}
					as, ok := m.(*ast.AssignStmt)
					if !ok {
						return true
					}
					for i, l := range as.Lhs {
						// element store
						if ix, ok := elemIndex(l); ok {
							if _, isSlice := info.TypeOf(ix.X).Underlying().(*types.Slice); isSlice {
								n++
								s := OrderSite{Key: fmt.Sprintf("%s.%s#store-%d", rel, name, n), Pos: p.Pos(as.Pos())}
								if id, ok := ast.Unparen(ix.Index).(*ast.Ident); ok && idx != nil && info.ObjectOf(id) == idx {
									s.OK = true
								} else {
									s.Why = "element written at an index other than the index of the element it was computed from: " + types.ExprString(ix.Index)
								}
								out = append(out, s)
							}
						}
						// append
						if i < len(as.Rhs) {
							if call, ok := ast.Unparen(as.Rhs[i]).(*ast.CallExpr); ok {
								if fid, ok := ast.Unparen(call.Fun).(*ast.Ident); ok && fid.Name == "append" && len(call.Args) >= 1 {
									n++
									s := OrderSite{Key: fmt.Sprintf("%s.%s#append-%d", rel, name, n), Pos: p.Pos(as.Pos())}
									lid, ok1 := ast.Unparen(l).(*ast.Ident)
									aid, ok2 := ast.Unparen(call.Args[0]).(*ast.Ident)
									if ok1 && ok2 && info.ObjectOf(lid) == info.ObjectOf(aid) {
										s.OK = true
									} else if sel1, ok := ast.Unparen(l).(*ast.SelectorExpr); ok {
										if sel2, ok := ast.Unparen(call.Args[0]).(*ast.SelectorExpr); ok && types.ExprString(sel1) == types.ExprString(sel2) {
											s.OK = true
										}
									}
									if !s.OK {
										s.Why = "append whose first operand is not the slice being built (elements are prepended or the result is rebuilt in another order)"
									}
									out = append(out, s)
								}
							}
						}
					}
					return true
				})
			}
			return true
		})
	}
	return out
}

func elemIndex(e ast.Expr) (*ast.IndexExpr, bool) {
	for {
		switch x := ast.Unparen(e).(type) {
		case *ast.IndexExpr:
			return x, true
		case *ast.SelectorExpr:
			e = x.X
		default:
			return nil, false
		}
	}
}

func ascendingFor(info *types.Info, fs *ast.ForStmt) bool {
	init, ok := fs.Init.(*ast.AssignStmt)
	if !ok || len(init.Rhs) != 1 {
		return false
	}
	if tv, ok := info.Types[init.Rhs[0]]; !ok || tv.Value == nil || tv.Value.String() != "0" {
		return false
	}
	cond, ok := fs.Cond.(*ast.BinaryExpr)
	if !ok || cond.Op != token.LSS {
		return false
	}
	post, ok := fs.Post.(*ast.IncDecStmt)
	return ok && post.Tok == token.INC
}

func orderRule(e *Env, rule, rel string, names ...string) {
	for _, s := range OrderSites(e.P, rel, names...) {
		if s.OK {
			e.R.Hold(rule, s.Key, "index-/order-preserving", s.Pos)
		} else if s.Why == "function not found" {
			e.R.Undecide(rule, s.Key, s.Why)
		} else {
			e.R.Violate(rule, s.Key, s.Why, nil, s.Pos)
		}
	}
}

// ---- receiver-state lint ----

// ReceiverWrites lists stores through a method's receiver (fields, maps and slices reachable
// from it) in the given packages: such state survives from one resolved argument / token to the next.
func ReceiverWrites(p *load.Program, rels ...string) []struct{ Key, Pos, What string } {
	var out []struct{ Key, Pos, What string }
	want := map[string]bool{}
	for _, r := range rels {
		want[p.ModPath+"/"+r] = true
	}
	for _, fn := range p.Funcs() {
		root := rootFn(fn)
		if root.Signature.Recv() == nil || root.Pkg == nil || !want[root.Pkg.Pkg.Path()] {
			continue
		}
		if len(root.Params) == 0 {
			continue
		}
		recv := root.Params[0]
		fromRecv := func(v ssa.Value) bool { return derivesFromValue(v, recv, fn, 0) }
		for _, b := range fn.Blocks {
			for _, ins := range b.Instrs {
				switch x := ins.(type) {
				case *ssa.Store:
					if _, isAlloc := x.Addr.(*ssa.Alloc); isAlloc {
						continue
					}
					if fromRecv(x.Addr) && !isLocalCopy(x.Addr, recv) {
						out = append(out, struct{ Key, Pos, What string }{p.FuncKey(root), p.Pos(x.Pos()), "store through the receiver"})
					}
				case *ssa.MapUpdate:
					if fromRecv(x.Map) {
						out = append(out, struct{ Key, Pos, What string }{p.FuncKey(root), p.Pos(x.Pos()), "map update through the receiver"})
					}
				case *ssa.Call:
					// a mutating method of a synchronised container held by the receiver (sync.Map, atomic values)
					if callee := x.Call.StaticCallee(); callee != nil && callee.Pkg != nil && len(x.Call.Args) > 0 {
						pp := callee.Pkg.Pkg.Path()
						if (pp == "sync" || pp == "sync/atomic") && fromRecv(x.Call.Args[0]) {
							switch callee.Name() {
							case "Load", "Range", "Lock", "Unlock", "RLock", "RUnlock", "Do", "Wait":
							default:
								out = append(out, struct{ Key, Pos, What string }{p.FuncKey(root), p.Pos(x.Pos()), "write to a synchronised container held by the receiver (" + callee.Name() + ")"})
							}
						}
					}
				}
			}
		}
	}
	return out
}

// isLocalCopy: the address is inside the local spill of a value receiver (writing the copy is harmless).
func isLocalCopy(addr ssa.Value, recv *ssa.Parameter) bool {
	if _, isPtr := recv.Type().Underlying().(*types.Pointer); isPtr {
		return false
	}
	for i := 0; i < 10; i++ {
		switch x := addr.(type) {
		case *ssa.FieldAddr:
			addr = x.X
		case *ssa.Alloc:
			return true
		default:
			return false
		}
	}
	return false
}

func derivesFromValue(v ssa.Value, src ssa.Value, fn *ssa.Function, d int) bool {
	if d > 12 || v == nil {
		return false
	}
	if v == src {
		return true
	}
	switch x := v.(type) {
	case *ssa.FieldAddr:
		return derivesFromValue(x.X, src, fn, d+1)
	case *ssa.Field:
		return derivesFromValue(x.X, src, fn, d+1)
	case *ssa.IndexAddr:
		return derivesFromValue(x.X, src, fn, d+1)
	case *ssa.Index:
		return derivesFromValue(x.X, src, fn, d+1)
	case *ssa.UnOp:
		if al, ok := x.X.(*ssa.Alloc); ok {
			for _, ref := range *al.Referrers() {
				if st, ok := ref.(*ssa.Store); ok && st.Addr == al && derivesFromValue(st.Val, src, fn, d+1) {
					return true
				}
			}
			return false
		}
		return derivesFromValue(x.X, src, fn, d+1)
	case *ssa.Slice:
		return derivesFromValue(x.X, src, fn, d+1)
	case *ssa.Alloc:
		for _, ref := range *x.Referrers() {
			if st, ok := ref.(*ssa.Store); ok && st.Addr == x && derivesFromValue(st.Val, src, fn, d+1) {
				return true
			}
		}
	case *ssa.FreeVar:
		// closure over the receiver
		if fn.Parent() != nil {
			for i, fv := range fn.FreeVars {
				if fv == x {
					for _, b := range fn.Parent().Blocks {
						for _, ins := range b.Instrs {
							if mc, ok := ins.(*ssa.MakeClosure); ok && mc.Fn == ssa.Value(fn) && i < len(mc.Bindings) {
								return derivesFromValue(mc.Bindings[i], src, fn.Parent(), d+1)
							}
						}
					}
				}
			}
		}
	case *ssa.Phi:
		for _, ed := range x.Edges {
			if derivesFromValue(ed, src, fn, d+1) {
				return true
			}
		}
	}
	return false
}

var receiverWriteAllowed = map[string]string{
	"(*internal/pkg/token.StrategyFactory).Prepend": "registering a function factory is the documented way functions are added (once per meta.functions entry, before any token is created)",
}

func statelessRule(e *Env, rule string, rels ...string) {
	ws := ReceiverWrites(e.P, rels...)
	seen := map[string]bool{}
	for _, w := range ws {
		if why, ok := receiverWriteAllowed[w.Key]; ok {
			e.R.Hold(rule, w.Key+"#receiver-write", "reviewed: "+why, w.Pos)
			continue
		}
		seen[w.Key] = true
		e.R.Violate(rule, w.Key+"#receiver-write", w.What+": a resolver/factory that remembers something from one argument to the next makes the generated code depend on the order and repetition of arguments", nil, w.Pos)
	}
	n := 0
	for _, fn := range e.P.Funcs() {
		root := rootFn(fn)
		if root == fn && root.Signature.Recv() != nil && root.Pkg != nil {
			for _, r := range rels {
				if root.Pkg.Pkg.Path() == e.P.ModPath+"/"+r {
					n++
				}
			}
		}
	}
	e.R.Hold(rule, "methods-scanned", fmt.Sprintf("%d methods of %v scanned for writes through the receiver", n, rels))
	// the same for a cache that lives in a local variable of a step: a map whose values are compiled results
	// (types of package output, resolver.ArgExpr, token.Token) and that is read back — results keyed by a part
	// of the element (a name, the printed value) are reused for another element that differs elsewhere
	memo := 0
	for _, fn := range e.P.Funcs() {
		root := rootFn(fn)
		in := false
		if root.Pkg != nil {
			for _, rel := range rels {
				if root.Pkg.Pkg.Path() == e.P.ModPath+"/"+rel {
					in = true
				}
			}
		}
		if !in || isGeneratedFn(e.P, root) {
			continue
		}
		for _, b := range fn.Blocks {
			for _, ins := range b.Instrs {
				lk, ok := ins.(*ssa.Lookup)
				if !ok {
					continue
				}
				mt, ok := lk.X.Type().Underlying().(*types.Map)
				if !ok {
					continue
				}
				el := mt.Elem()
				if pt, isP := el.Underlying().(*types.Pointer); isP {
					el = pt.Elem()
				}
				nt, ok := el.(*types.Named)
				if !ok || nt.Obj().Pkg() == nil {
					continue
				}
				pp := nt.Obj().Pkg().Path()
				isResult := pp == e.P.ModPath+"/"+outputRel || (pp == e.P.ModPath+"/internal/pkg/resolver" && nt.Obj().Name() == "ArgExpr") || (pp == e.P.ModPath+"/internal/pkg/token" && (nt.Obj().Name() == "Token" || nt.Obj().Name() == "Tokens"))
				if !isResult {
					continue
				}
				// a cache is a map that the same function (or its closures) also fills; a constant table is not
				filled := false
				allInstrs(rootFn(fn), func(_ *ssa.Function, i2 ssa.Instruction) {
					if mu, isMu := i2.(*ssa.MapUpdate); isMu && (mu.Map == lk.X || sameLoad(mu.Map, lk.X) || sameCell(mu.Map, lk.X)) {
						filled = true
					}
				})
				if !filled {
					continue
				}
				memo++
				e.R.Violate(rule, e.P.FuncKey(fn)+"#memoised-result", fmt.Sprintf("a compiled result (%s) is read back from a map: an element that agrees with an earlier one on the key but differs elsewhere gets the earlier one's result", nt.Obj().Name()), nil, e.P.Pos(lk.Pos()))
			}
		}
	}
	if memo == 0 {
		e.R.Hold(rule, "no-memoised-results", fmt.Sprintf("no function of %v reads a compiled result back from a map", rels))
	}
}

var _ = packages.NeedName

// reachableNames: the named functions and every function of the same package they reach by static
// calls, as "Func" / "Type.Method" names (so that helper functions are found by reachability, not by name).
func reachableNames(e *Env, rel string, roots ...string) []string {
	seen := map[string]bool{}
	var out []string
	for _, r := range roots {
		fn := e.P.Func(rel, r)
		if fn == nil {
			if !seen[r] {
				seen[r] = true
				out = append(out, r)
			}
			continue
		}
		for _, f := range pkgCallees(fn) {
			if f.Parent() != nil || f.Syntax() == nil {
				continue
			}
			name := f.Name()
			if f.Signature.Recv() != nil {
				if n := namedOf(f.Signature.Recv().Type()); n != nil {
					name = n.Obj().Name() + "." + f.Name()
				}
			}
			if !seen[name] {
				seen[name] = true
				out = append(out, name)
			}
		}
	}
	return out
}
