package rules

import (
	"fmt"
	"go/token"
	"go/types"
	"gverif/internal/load"
	"sort"
	"strings"

	"golang.org/x/tools/go/ssa"
)

func init() { Register("C18", C18) }

const semverPkg = "golang.org/x/mod/semver"

func C18(e *Env) {
	r := e.R
	e.analysedBase()
	yamlKeysRule(e, "R11.12", "version")
	e.R.Rule("R11.12", "key table (shared with C11): `version` is recognised under its documented spelling (an ignored key switches the gate off)", 1)
	r.Rule("R18.1", "v-prefix typestate: every argument of a golang.org/x/mod/semver function is provably 'v'-prefixed on all paths (a constant starting with v, \"v\"+x, the true edge of strings.HasPrefix(x,\"v\"), a result of another semver function, or the validator's version field under its valid flag); semver answers \"\"/false for anything else, which would silently turn the gate into accept-or-reject-everything", 5)
	r.Rule("R18.2", "patch, prerelease and build metadata cannot matter: every branch condition of ValidateVersion that depends on the build or the configured version does so only through semver.Major or semver.MajorMinor", 3)
	r.Rule("R18.3", "skip conditions: every version comparison and every error site lies behind 'configuration has a version' and 'build version is valid'; valid is true exactly on the edge where semver.IsValid(\"v\"+version) held and version was stored prefixed", 3)
	r.Rule("R18.4", "decision structure over operand provenance (B = build, V = configuration): major(B)==v0 ∧ majorminor(B)≠majorminor(V) → error; major(B)≠v0 ∧ major(B)≠major(V) → error; major equal ∧ Compare(mm(B),mm(V))<0 → error; no other error site", 3)
	r.Rule("R18.5", "Version.UnmarshalYAML rejects non-strings, tests validity on \"v\"+s and stores s; main strips a leading v from the injected build version only under HasPrefix ∧ IsValid; the build version reaches the validator unchanged (NewBuildCmd → payload → container parameter)", 4)

	vfn := e.P.Func(inputRel, "VersionValidator.ValidateVersion")
	ctor := e.P.Func(inputRel, "NewVersionValidator")
	if vfn == nil || ctor == nil {
		r.Undecide("R18.1", inputRel+".VersionValidator", "anchor functions not found")
		return
	}
	c18Unit = buildUnit(vfn)
	// --- R18.3 constructor correlation
	validOK := c18Ctor(e, ctor)

	// --- R18.1 all semver call sites in the module
	n := 0
	for _, fn := range e.P.Funcs() {
		for _, b := range fn.Blocks {
			for _, ins := range b.Instrs {
				c, ok := ins.(ssa.CallInstruction)
				if !ok {
					continue
				}
				name := callName(c.Common())
				if !strings.HasPrefix(name, semverPkg+".") {
					continue
				}
				for ai, a := range c.Common().Args {
					if !isStringType(a.Type()) {
						continue
					}
					n++
					key := fmt.Sprintf("%s -> %s arg%d #%d", e.P.FuncKey(fn), strings.TrimPrefix(name, semverPkg+"."), ai, n)
					key = stableSemverKey(e, fn, c, ai)
					why, ok := isV(e, fn, a, c, validOK, 0)
					if ok {
						r.Hold("R18.1", key, "argument is v-prefixed: "+why, e.P.Pos(c.Pos()))
					} else {
						r.Violate("R18.1", key, "argument of a semver function is not provably v-prefixed ("+why+"); semver returns \"\"/false/0 for it, so the comparison degenerates", nil, e.P.Pos(c.Pos()))
					}
				}
			}
		}
	}
	r.Analysed["semver_arguments"] = n

	c18Decision(e, vfn)
	c18Unmarshal(e)
	c18Main(e)
	wiringC18(e)
	r.NotCovered = append(r.NotCovered,
		"the semantics of golang.org/x/mod/semver itself (Major, MajorMinor, Compare, IsValid are trusted)",
		"the texts of the three diagnostics")
}

// wiringC18: the validator is built from the build version, and from nothing that was derived from it.
var wiringC18 = func(e *Env) {
	r := e.R
	gm, _, ok := e.models()
	if ok {
		iv := gm.Service("inputValidator")
		okW := ctorIs(e, iv, inputRel, "NewDefaultValidator") && len(iv.Args) == 1 && depIs(iv.Args[0], "param", "version")
		r.Check(okW, "R18.5", selfRel+"#service:inputValidator", "the input validator is NewDefaultValidator(%version%): the bare version, not the display string that carries commit and build date")
		if ov := buildRunnerOverrides(e); ov != nil {
			r.Check(ov.params["version"] == "version", "R18.5", "internal/cmd.buildRunner#param:version", "the version parameter is the payload's version field")
		} else {
			r.Undecide("R18.5", "internal/cmd.buildRunner", "anchor not found")
		}
	}
	// the version string reaches NewVersionValidator as it was received, through every function on the way
	// from the wiring (NewDefaultValidator, called by the generated container) down to the constructor
	n := 0
	var follow func(target *ssa.Function, idx int, depth int)
	seenT := map[string]bool{}
	follow = func(target *ssa.Function, idx int, depth int) {
		k := fmt.Sprintf("%s#%d", target.String(), idx)
		if depth > 6 || seenT[k] {
			return
		}
		seenT[k] = true
		for _, fn := range e.P.Funcs() {
			if isGeneratedFn(e.P, rootFn(fn)) {
				continue
			}
			for _, c := range callsIn(fn, false) {
				if c.Common().StaticCallee() != target || idx >= len(c.Common().Args) {
					continue
				}
				n++
				arg := c.Common().Args[idx]
				prm, isParam := arg.(*ssa.Parameter)
				r.Check(isParam, "R18.5", e.P.FuncKey(fn)+" -> "+target.Name()+"#version-unchanged", "the version handed on towards NewVersionValidator is the caller's own parameter, on every path (not rewritten, cleared or defaulted for some shapes of version)", e.P.Pos(c.Pos()))
				if isParam {
					for i, q := range fn.Params {
						if q == prm {
							follow(fn, i, depth+1)
						}
					}
				}
			}
		}
	}
	if nv := e.P.Func(inputRel, "NewVersionValidator"); nv != nil {
		follow(nv, 0, 0)
	}
	r.Check(n >= 1, "R18.5", inputRel+".NewVersionValidator#called", fmt.Sprintf("the version validator is constructed in module code (%d call sites)", n))
}

// The version decision may be split over ValidateVersion and helpers of its package it calls directly
// (e.g. a wrapper that prefixes the error and a function that compares). The rules treat them as one
// unit: a helper's parameter has the provenance / typestate of the actual arguments at its call sites,
// and a site inside a helper is also guarded by whatever guards its call sites.
type unitT struct {
	fns     []*ssa.Function
	callers map[*ssa.Function][]ssa.CallInstruction
}

var c18Unit *unitT

func buildUnit(entry *ssa.Function) *unitT {
	u := &unitT{callers: map[*ssa.Function][]ssa.CallInstruction{}}
	seen := map[*ssa.Function]bool{}
	var add func(fn *ssa.Function, depth int)
	add = func(fn *ssa.Function, depth int) {
		if seen[fn] || depth > 2 {
			return
		}
		seen[fn] = true
		u.fns = append(u.fns, fn)
		for _, c := range callsIn(fn, false) {
			g := c.Common().StaticCallee()
			if g == nil || g.Pkg == nil || g.Pkg != entry.Pkg || len(g.Blocks) == 0 || g == fn {
				continue
			}
			u.callers[g] = append(u.callers[g], c)
			add(g, depth+1)
		}
	}
	add(entry, 0)
	return u
}

func (u *unitT) has(fn *ssa.Function) bool {
	if u == nil {
		return false
	}
	for _, f := range u.fns {
		if f == fn {
			return true
		}
	}
	return false
}

// actuals: the arguments passed for parameter p of a helper of the unit, with their call sites.
func (u *unitT) actuals(p *ssa.Parameter) (vals []ssa.Value, sites []ssa.CallInstruction) {
	if u == nil || p.Parent() == nil {
		return nil, nil
	}
	fn := p.Parent()
	idx := -1
	for i, q := range fn.Params {
		if q == p {
			idx = i
		}
	}
	for _, c := range u.callers[fn] {
		if idx >= 0 && idx < len(c.Common().Args) {
			vals = append(vals, c.Common().Args[idx])
			sites = append(sites, c)
		}
	}
	return
}

func isStringType(t types.Type) bool {
	b, ok := t.Underlying().(*types.Basic)
	return ok && b.Kind() == types.String
}

var semverKeyCount = map[string]int{}

func stableSemverKey(e *Env, fn *ssa.Function, c ssa.CallInstruction, ai int) string {
	base := fmt.Sprintf("%s -> %s(arg%d:%s)", e.P.FuncKey(fn), strings.TrimPrefix(callName(c.Common()), semverPkg+"."), ai, describeVal(c.Common().Args[ai]))
	semverKeyCount[base]++
	if semverKeyCount[base] > 1 {
		return fmt.Sprintf("%s#%d", base, semverKeyCount[base])
	}
	return base
}

// describeVal gives a short, line-free description of where a value comes from.
func describeVal(v ssa.Value) string {
	switch x := v.(type) {
	case *ssa.Const:
		return "const"
	case *ssa.Parameter:
		return "param " + x.Name()
	case *ssa.BinOp:
		return describeVal(x.X) + x.Op.String() + describeVal(x.Y)
	case *ssa.Call:
		n := callName(&x.Call)
		if i := strings.LastIndex(n, "."); i >= 0 {
			n = n[i+1:]
		}
		return n + "(…)"
	case *ssa.ChangeType:
		return describeVal(x.X)
	case *ssa.Convert:
		return describeVal(x.X)
	case *ssa.Phi:
		return "phi " + x.Comment
	case *ssa.UnOp:
		if x.Op == token.MUL {
			if fa, ok := x.X.(*ssa.FieldAddr); ok {
				return "field " + fieldName(fa)
			}
			if u2, ok := x.X.(*ssa.UnOp); ok {
				return "*" + describeVal(u2)
			}
			return "load"
		}
	}
	return v.Name()
}

func fieldName(fa *ssa.FieldAddr) string {
	if p, ok := fa.X.Type().Underlying().(*types.Pointer); ok {
		if s, ok := p.Elem().Underlying().(*types.Struct); ok {
			return load.Current.BaselineField(p.Elem(), s.Field(fa.Field).Name())
		}
	}
	return "?"
}

// c18Ctor checks the correlated store version/valid; returns true when the field is V whenever valid.
func c18Ctor(e *Env, ctor *ssa.Function) bool {
	r := e.R
	key := inputRel + ".NewVersionValidator"
	var ver, val ssa.Value
	for _, b := range ctor.Blocks {
		for _, ins := range b.Instrs {
			if st, ok := ins.(*ssa.Store); ok {
				if fa, ok := st.Addr.(*ssa.FieldAddr); ok {
					switch fieldName(fa) {
					case "version":
						ver = st.Val
					case "valid":
						val = st.Val
					}
				}
			}
		}
	}
	if ver == nil || val == nil {
		r.Undecide("R18.3", key, "stores of the version/valid fields not found")
		return false
	}
	ok := false
	vp, isP1 := ver.(*ssa.Phi)
	bp, isP2 := val.(*ssa.Phi)
	switch {
	case isP1 && isP2 && vp.Block() == bp.Block():
		ok = true
		sawTrue := false
		for i := range bp.Edges {
			c, isC := bp.Edges[i].(*ssa.Const)
			if !isC {
				ok = false
				continue
			}
			if c.Value != nil && c.Value.String() == "true" {
				sawTrue = true
				pred := bp.Block().Preds[i]
				_, okv := isV(e, ctor, vp.Edges[i], nil, false, 0)
				// and this edge is only taken when IsValid("v"+param) held
				if !okv || !behindIsValid(e, ctor, pred) {
					ok = false
				}
			}
		}
		ok = ok && sawTrue
	default:
		if c, isC := val.(*ssa.Const); isC && c.Value != nil && c.Value.String() == "false" {
			ok = true // never valid: the gate is always skipped (still sound)
		}
	}
	r.Check(ok, "R18.3", key+"#valid-implies-prefixed", "on every edge where valid becomes true, IsValid(\"v\"+version) held and the stored version is \"v\"+version")
	// no other writer of the fields
	other := 0
	for _, fn := range e.P.Funcs() {
		if fn == ctor {
			continue
		}
		for _, b := range fn.Blocks {
			for _, ins := range b.Instrs {
				if st, isSt := ins.(*ssa.Store); isSt {
					if fa, isFa := st.Addr.(*ssa.FieldAddr); isFa && isNamed(fa.X.Type(), e.P.ModPath+"/"+inputRel, "VersionValidator") {
						other++
					}
				}
			}
		}
	}
	r.Check(other == 0, "R18.3", key+"#single-writer", "the version/valid fields are written by the constructor only")
	return ok
}

func behindIsValid(e *Env, fn *ssa.Function, b *ssa.BasicBlock) bool {
	for _, blk := range fn.Blocks {
		iff, ok := blk.Instrs[len(blk.Instrs)-1].(*ssa.If)
		if !ok {
			continue
		}
		c, ok := iff.Cond.(*ssa.Call)
		if !ok || callName(&c.Call) != semverPkg+".IsValid" {
			continue
		}
		if _, okv := isV(e, fn, c.Call.Args[0], nil, false, 0); !okv {
			continue
		}
		s := blk.Succs[0]
		if len(s.Preds) == 1 && (s == b || s.Dominates(b)) {
			return true
		}
	}
	return false
}

// isV decides the v-prefix typestate of a string value at a use site.
func isV(e *Env, fn *ssa.Function, v ssa.Value, at ssa.Instruction, fieldOK bool, depth int) (string, bool) {
	if depth > 12 {
		return "depth limit", false
	}
	switch x := v.(type) {
	case *ssa.Const:
		if s, ok := constString(x); ok && strings.HasPrefix(s, "v") {
			return "constant", true
		}
		return "constant without v", false
	case *ssa.BinOp:
		if x.Op == token.ADD {
			if why, ok := isV(e, fn, x.X, at, fieldOK, depth+1); ok {
				return "concatenation starting with " + why, true
			}
		}
		return "expression", false
	case *ssa.ChangeType:
		return isV(e, fn, x.X, at, fieldOK, depth+1)
	case *ssa.Convert:
		return isV(e, fn, x.X, at, fieldOK, depth+1)
	case *ssa.Parameter:
		vals, sites := c18Unit.actuals(x)
		if len(vals) == 0 {
			return "parameter " + x.Name() + " of a function outside the decision unit", false
		}
		for i, a := range vals {
			if why, ok := isV(e, sites[i].Parent(), a, sites[i], fieldOK, depth+1); !ok {
				return "argument passed for " + x.Name() + ": " + why, false
			}
		}
		return "every argument passed for " + x.Name() + " is v-prefixed", true
	case *ssa.Call:
		n := callName(&x.Call)
		if n == semverPkg+".Major" || n == semverPkg+".MajorMinor" || n == semverPkg+".Canonical" {
			return "result of semver." + n[strings.LastIndex(n, ".")+1:], true
		}
		return "result of " + n, false
	case *ssa.Phi:
		for i, ed := range x.Edges {
			if _, ok := isV(e, fn, ed, at, fieldOK, depth+1); ok {
				continue
			}
			// the edge taken when strings.HasPrefix(ed, "v") is true
			pred := x.Block().Preds[i]
			if !hasPrefixEdge(pred, x.Block(), ed) {
				return "a path reaches the call with an unprefixed value", false
			}
		}
		return "v-prefixed on every incoming path", true
	case *ssa.UnOp:
		if x.Op != token.MUL {
			return "expression", false
		}
		if fa, ok := x.X.(*ssa.FieldAddr); ok {
			if fieldName(fa) == "version" && isNamed(fa.X.Type(), e.P.ModPath+"/"+inputRel, "VersionValidator") {
				if !fieldOK {
					return "the validator's version field is not shown to be prefixed when valid", false
				}
				if at != nil && behindValid(fn, at) {
					return "validator.version under the valid flag", true
				}
				return "validator.version read without the valid guard", false
			}
			// main: i.GitVersion under HasPrefix(i.GitVersion, "v")
			if at != nil && underHasPrefixOfField(fn, fa, at) {
				return "field under strings.HasPrefix(field, \"v\")", true
			}
		}
		return "unprefixed value (" + describeVal(v) + ")", false
	}
	return "unknown value", false
}

func hasPrefixEdge(pred, succ *ssa.BasicBlock, val ssa.Value) bool {
	if len(pred.Instrs) == 0 {
		return false
	}
	iff, ok := pred.Instrs[len(pred.Instrs)-1].(*ssa.If)
	if !ok {
		return false
	}
	cond := iff.Cond
	neg := false
	if u, ok := cond.(*ssa.UnOp); ok && u.Op == token.NOT {
		cond, neg = u.X, true
	}
	c, ok := cond.(*ssa.Call)
	if !ok || callName(&c.Call) != "strings.HasPrefix" || c.Call.Args[0] != val {
		return false
	}
	if s, ok := constString(c.Call.Args[1]); !ok || s != "v" {
		return false
	}
	trueSucc := pred.Succs[0]
	if neg {
		trueSucc = pred.Succs[1]
	}
	return trueSucc == succ
}

// behindValid: ins is reachable only when the receiver's valid field was tested true.
func behindValid(fn *ssa.Function, ins ssa.Instruction) bool {
	if behindValidLocal(fn, ins) {
		return true
	}
	// a helper of the decision unit: every call site lies behind the valid flag
	if c18Unit.has(fn) && len(c18Unit.callers[fn]) > 0 {
		for _, c := range c18Unit.callers[fn] {
			if c.Parent() == fn || !behindValid(c.Parent(), c) {
				return false
			}
		}
		return true
	}
	return false
}

func behindValidLocal(fn *ssa.Function, ins ssa.Instruction) bool {
	for _, blk := range fn.Blocks {
		iff, ok := blk.Instrs[len(blk.Instrs)-1].(*ssa.If)
		if !ok {
			continue
		}
		cond := iff.Cond
		neg := false
		if u, ok := cond.(*ssa.UnOp); ok && u.Op == token.NOT {
			cond, neg = u.X, true
		}
		ld, ok := cond.(*ssa.UnOp)
		if !ok || ld.Op != token.MUL {
			continue
		}
		fa, ok := ld.X.(*ssa.FieldAddr)
		if !ok || fieldName(fa) != "valid" {
			continue
		}
		if edgeDominates(blk, !neg, ins) {
			return true
		}
	}
	return false
}

func underHasPrefixOfField(fn *ssa.Function, fa *ssa.FieldAddr, at ssa.Instruction) bool {
	for _, blk := range fn.Blocks {
		iff, ok := blk.Instrs[len(blk.Instrs)-1].(*ssa.If)
		if !ok {
			continue
		}
		c, ok := iff.Cond.(*ssa.Call)
		if !ok || callName(&c.Call) != "strings.HasPrefix" {
			continue
		}
		if s, ok := constString(c.Call.Args[1]); !ok || s != "v" {
			continue
		}
		ld, ok := c.Call.Args[0].(*ssa.UnOp)
		if !ok {
			continue
		}
		fa2, ok := ld.X.(*ssa.FieldAddr)
		if !ok || fa2.Field != fa.Field || fa2.X != fa.X {
			continue
		}
		if edgeDominates(blk, true, at) {
			return true
		}
	}
	return false
}

// ---- R18.2 / R18.4 provenance of conditions ----

type prov struct{ root, via string }

func provOf(e *Env, v ssa.Value, seen map[ssa.Value]bool) map[prov]bool {
	out := map[prov]bool{}
	if seen[v] {
		return out
	}
	seen[v] = true
	add := func(m map[prov]bool) {
		for k := range m {
			out[k] = true
		}
	}
	switch x := v.(type) {
	case *ssa.Call:
		n := callName(&x.Call)
		if n == semverPkg+".Major" || n == semverPkg+".MajorMinor" {
			for k := range provOf(e, x.Call.Args[0], seen) {
				via := n[strings.LastIndex(n, ".")+1:]
				if k.via != "raw" && k.via != via { // Major(MajorMinor(x)) is still only major/minor information
					via = k.via
					if n == semverPkg+".Major" {
						via = "Major"
					}
				}
				out[prov{k.root, via}] = true
			}
			return out
		}
		if n == "strings.HasPrefix" {
			if pfx, ok := constString(x.Call.Args[1]); ok && pfx == "v" {
				return out // prefix normalisation: tells nothing about major/minor/patch
			}
		}
		for _, a := range x.Call.Args {
			add(provOf(e, a, seen))
		}
	case *ssa.BinOp:
		add(provOf(e, x.X, seen))
		add(provOf(e, x.Y, seen))
	case *ssa.Parameter:
		vals, _ := c18Unit.actuals(x)
		for _, a := range vals {
			add(provOf(e, a, seen))
		}
	case *ssa.Phi:
		for _, ed := range x.Edges {
			add(provOf(e, ed, seen))
		}
	case *ssa.ChangeType:
		add(provOf(e, x.X, seen))
	case *ssa.Convert:
		add(provOf(e, x.X, seen))
	case *ssa.MakeInterface:
		add(provOf(e, x.X, seen))
	case *ssa.Extract:
		add(provOf(e, x.Tuple, seen))
	case *ssa.UnOp:
		if x.Op == token.MUL {
			if fa, ok := x.X.(*ssa.FieldAddr); ok && fieldName(fa) == "version" && isNamed(fa.X.Type(), e.P.ModPath+"/"+inputRel, "VersionValidator") {
				out[prov{"B", "raw"}] = true
				return out
			}
			// *(*Version): deref of a pointer whose element type is input.Version
			if p, ok := x.X.Type().Underlying().(*types.Pointer); ok && isNamed(p.Elem(), e.P.ModPath+"/"+inputRel, "Version") {
				if _, isPtrPtr := p.Elem().Underlying().(*types.Pointer); !isPtrPtr {
					out[prov{"V", "raw"}] = true
					return out
				}
			}
			// loads of locals: follow stores
			if al, ok := x.X.(*ssa.Alloc); ok {
				for _, ref := range *al.Referrers() {
					if st, ok := ref.(*ssa.Store); ok && st.Addr == al {
						add(provOf(e, st.Val, seen))
					}
				}
			}
		} else {
			add(provOf(e, x.X, seen))
		}
	}
	return out
}

func provString(m map[prov]bool) string {
	var s []string
	for k := range m {
		s = append(s, k.root+":"+k.via)
	}
	sort.Strings(s)
	return strings.Join(s, ",")
}

type guard struct {
	kind string // "major0", "mm-differs", "major-differs", "b-lt-v", "other"
	val  bool
}

// classifyCond normalises a branch condition; edgeTrue tells which edge is meant.
func classifyCond(e *Env, cond ssa.Value, edgeTrue bool) guard {
	neg := false
	for {
		if u, ok := cond.(*ssa.UnOp); ok && u.Op == token.NOT {
			cond = u.X
			neg = !neg
			continue
		}
		break
	}
	if neg {
		edgeTrue = !edgeTrue
	}
	b, ok := cond.(*ssa.BinOp)
	if !ok {
		return guard{"other", edgeTrue}
	}
	only := func(v ssa.Value, root, via string) bool {
		m := provOf(e, v, map[ssa.Value]bool{})
		return len(m) == 1 && m[prov{root, via}]
	}
	switch b.Op {
	case token.EQL, token.NEQ:
		eq := b.Op == token.EQL
		for _, p := range [][2]ssa.Value{{b.X, b.Y}, {b.Y, b.X}} {
			if s, ok := constString(p[1]); ok && s == "v0" && only(p[0], "B", "Major") {
				return guard{"major0", eq == edgeTrue}
			}
			if only(p[0], "B", "MajorMinor") && only(p[1], "V", "MajorMinor") {
				return guard{"mm-differs", eq != edgeTrue}
			}
			if only(p[0], "B", "Major") && only(p[1], "V", "Major") {
				return guard{"major-differs", eq != edgeTrue}
			}
		}
	case token.LSS, token.GTR, token.GEQ, token.LEQ:
		c, ok := b.X.(*ssa.Call)
		k, isK := constInt(b.Y)
		if ok && isK && k == 0 && callName(&c.Call) == semverPkg+".Compare" {
			x, y := c.Call.Args[0], c.Call.Args[1]
			bFirst := only(x, "B", "MajorMinor") && only(y, "V", "MajorMinor")
			vFirst := only(x, "V", "MajorMinor") && only(y, "B", "MajorMinor")
			if bFirst || vFirst {
				// result sign: Compare(first, second) OP 0
				var firstLess, known bool
				switch b.Op {
				case token.LSS:
					firstLess, known = edgeTrue, true
				case token.GEQ:
					firstLess, known = !edgeTrue, true
				}
				if known && bFirst {
					return guard{"b-lt-v", firstLess}
				}
				var firstGreater bool
				known = false
				switch b.Op {
				case token.GTR:
					firstGreater, known = edgeTrue, true
				case token.LEQ:
					firstGreater, known = !edgeTrue, true
				}
				if known && vFirst {
					return guard{"b-lt-v", firstGreater}
				}
			}
		}
	}
	return guard{"other", edgeTrue}
}

func c18Decision(e *Env, fn *ssa.Function) {
	r := e.R
	key := inputRel + ".VersionValidator.ValidateVersion"
	// R18.2: conditions
	nc := 0
	var unitBlocks []*ssa.BasicBlock
	for _, f := range c18Unit.fns {
		unitBlocks = append(unitBlocks, f.Blocks...)
	}
	for _, blk := range unitBlocks {
		iff, ok := blk.Instrs[len(blk.Instrs)-1].(*ssa.If)
		if !ok {
			continue
		}
		m := provOf(e, iff.Cond, map[ssa.Value]bool{})
		if len(m) == 0 {
			continue
		}
		nc++
		raw := false
		for k := range m {
			if k.via == "raw" {
				raw = true
			}
		}
		ck := fmt.Sprintf("%s#cond[%s]", key, provString(m))
		if raw {
			r.Violate("R18.2", ck, "a branch condition reads a version other than through semver.Major/MajorMinor: patch, prerelease or build metadata can change the verdict", nil, e.P.Pos(iff.Cond.Pos()))
		} else {
			r.Hold("R18.2", ck, "condition depends on the versions only through Major/MajorMinor", e.P.Pos(iff.Cond.Pos()))
		}
	}
	// error sites
	type site struct {
		call   *ssa.Call
		guards []guard
	}
	var sites []site
	// guards along the dominator chain of a block, continued at the call sites of a helper of the unit
	var guardsOf func(blk *ssa.BasicBlock, depth int) []guard
	guardsOf = func(blk *ssa.BasicBlock, depth int) []guard {
		var gs []guard
		for d := blk; d != nil; d = d.Idom() {
			id := d.Idom()
			if id == nil {
				break
			}
			iff, ok := id.Instrs[len(id.Instrs)-1].(*ssa.If)
			if !ok {
				continue
			}
			if len(d.Preds) != 1 {
				continue
			}
			switch d {
			case id.Succs[0]:
				gs = append(gs, classifyCond(e, iff.Cond, true))
			case id.Succs[1]:
				gs = append(gs, classifyCond(e, iff.Cond, false))
			}
		}
		if cs := c18Unit.callers[blk.Parent()]; len(cs) == 1 && depth < 3 {
			gs = append(gs, guardsOf(cs[0].Block(), depth+1)...)
		}
		return gs
	}
	for _, blk := range unitBlocks {
		for _, ins := range blk.Instrs {
			c, ok := ins.(*ssa.Call)
			if !ok {
				continue
			}
			n := callName(&c.Call)
			if n != "errors.New" && n != "fmt.Errorf" {
				continue
			}
			sites = append(sites, site{call: c, guards: guardsOf(blk, 0)})
		}
	}
	has := func(s site, k string, v bool) bool {
		for _, g := range s.guards {
			if g.kind == k && g.val == v {
				return true
			}
		}
		return false
	}
	count := func(s site) int {
		n := 0
		for _, g := range s.guards {
			if g.kind != "other" {
				n++
			}
		}
		return n
	}
	found := map[string]bool{}
	for _, s := range sites {
		// R18.3: behind version != nil and valid
		r.Check(behindValid(s.call.Parent(), s.call), "R18.3", fmt.Sprintf("%s#error-site-%d-behind-valid", key, len(found)+1), "an error can only be raised when the build version is a semantic version", e.P.Pos(s.call.Pos()))
		kind := ""
		switch {
		case has(s, "major0", true) && has(s, "mm-differs", true) && count(s) == 2:
			kind = "v0: major.minor differs"
		case has(s, "major0", false) && has(s, "major-differs", true) && count(s) == 2:
			kind = ">=1: major differs"
		case has(s, "major0", false) && has(s, "major-differs", false) && has(s, "b-lt-v", true) && count(s) == 3:
			kind = ">=1: configuration minor newer than build"
		}
		sk := fmt.Sprintf("%s#error-site[%s]", key, guardString(s.guards))
		if kind == "" {
			r.Violate("R18.4", sk, "an error site whose guards are none of the three documented rejection rules", nil, e.P.Pos(s.call.Pos()))
		} else {
			found[kind] = true
			r.Hold("R18.4", sk, "rejection rule: "+kind, e.P.Pos(s.call.Pos()))
		}
	}
	for _, k := range []string{"v0: major.minor differs", ">=1: major differs", ">=1: configuration minor newer than build"} {
		if !found[k] {
			r.Violate("R18.4", key+"#missing["+k+"]", "no error site implements the documented rejection rule", nil)
		}
	}
	r.Analysed["version_conditions"] = nc
	r.Analysed["version_error_sites"] = len(sites)
}

func guardString(gs []guard) string {
	var s []string
	for _, g := range gs {
		if g.kind == "other" {
			continue
		}
		s = append(s, fmt.Sprintf("%s=%v", g.kind, g.val))
	}
	sort.Strings(s)
	return strings.Join(s, ",")
}

func c18Unmarshal(e *Env) {
	r := e.R
	key := inputRel + ".Version.UnmarshalYAML"
	fn := e.P.Func(inputRel, "Version.UnmarshalYAML")
	if fn == nil {
		r.Undecide("R18.5", key, "anchor not found")
		return
	}
	// the stored value *v = Version(s) where s is the asserted string, and IsValid("v"+s) guards it; the work
	// may be done by helpers of the package (a converter that returns (Version, error), a validity predicate)
	unit := unitFns(fn, 2)
	var assert *ssa.TypeAssert
	for _, f := range unit {
		for _, b := range f.Blocks {
			for _, ins := range b.Instrs {
				if ta, ok := ins.(*ssa.TypeAssert); ok && ta.CommaOk && isStringType(ta.AssertedType) {
					assert = ta
				}
			}
		}
	}
	if assert == nil {
		r.Violate("R18.5", key+"#string-only", "no comma-ok assertion to string: a non-string version is not a parse error", nil)
		return
	}
	var sval, okval ssa.Value
	for _, ref := range *assert.Referrers() {
		if ex, ok := ref.(*ssa.Extract); ok {
			if ex.Index == 0 {
				sval = ex
			} else {
				okval = ex
			}
		}
	}
	// failing assertion returns an error
	okErr := false
	if okval != nil {
		for _, ref := range *okval.Referrers() {
			if iff, ok := ref.(*ssa.If); ok {
				if pathReturnsError(iff.Block().Succs[1]) {
					okErr = true
				}
			}
		}
	}
	r.Check(okErr, "R18.5", key+"#string-only", "a version that is not a YAML string is a parse error")
	// "v"+s reaches semver.IsValid, directly or as the argument of a one-line predicate that prefixes its parameter
	vPlus := func(v ssa.Value, of ssa.Value) bool {
		bo, ok := v.(*ssa.BinOp)
		if !ok || bo.Op != token.ADD || bo.Y != of {
			return false
		}
		s, ok := constString(bo.X)
		return ok && s == "v"
	}
	okValid, okStore := false, false
	for _, f := range unit {
		for _, b := range f.Blocks {
			for _, ins := range b.Instrs {
				switch x := ins.(type) {
				case *ssa.Call:
					if callName(&x.Call) == semverPkg+".IsValid" {
						if vPlus(x.Call.Args[0], sval) {
							okValid = true
						}
						// inside a predicate: IsValid("v"+param), and the predicate is called with s
						if bo, ok := x.Call.Args[0].(*ssa.BinOp); ok {
							if prm, isP := bo.Y.(*ssa.Parameter); isP && vPlus(x.Call.Args[0], prm) {
								for _, g := range unit {
									for _, c := range callsIn(g, false) {
										if c.Common().StaticCallee() == f {
											for i, a := range c.Common().Args {
												if a == sval && i < len(f.Params) && f.Params[i] == prm {
													okValid = true
												}
											}
										}
									}
								}
							}
						}
					}
				case *ssa.ChangeType:
					if x.X == sval {
						for _, ref := range *x.Referrers() {
							switch ref.(type) {
							case *ssa.Store, *ssa.Return:
								okStore = true
							}
						}
					}
				}
			}
		}
	}
	r.Check(okValid, "R18.5", key+"#validity", "validity is tested on \"v\"+s, so a value with a leading v (\"vv1.0.0\") or a non-semver is a parse error")
	r.Check(okStore, "R18.5", key+"#stores-unprefixed", "the stored version is the string as written (without v)")
}

func c18Main(e *Env) {
	r := e.R
	key := "main.buildVersion"
	// the function that post-processes the version info: a literal inside buildVersion or a named function
	// buildVersion passes on — found by what it does (it writes GitVersion) and by being used by buildVersion
	var fn *ssa.Function
	bv := e.P.Func(".", "buildVersion")
	writesGitVersion := func(f *ssa.Function) bool {
		for _, b := range f.Blocks {
			for _, ins := range b.Instrs {
				if st, ok := ins.(*ssa.Store); ok {
					if fa, ok := st.Addr.(*ssa.FieldAddr); ok && fieldName(fa) == "GitVersion" {
						return true
					}
				}
			}
		}
		return false
	}
	if bv != nil {
		for _, a := range bv.AnonFuncs {
			if writesGitVersion(a) {
				fn = a
			}
		}
		if fn == nil {
			allInstrs(bv, func(_ *ssa.Function, ins ssa.Instruction) {
				for _, op := range ins.Operands(nil) {
					if op == nil || *op == nil {
						continue
					}
					if f, ok := (*op).(*ssa.Function); ok && f.Pkg == bv.Pkg && writesGitVersion(f) {
						fn = f
					}
				}
			})
		}
	}
	if fn == nil {
		r.Undecide("R18.5", key, "the function that sets the build version (used by buildVersion) was not found")
		return
	}
	// every store of TrimPrefix(GitVersion, "v") into GitVersion is behind HasPrefix ∧ IsValid
	n := 0
	for _, b := range fn.Blocks {
		for _, ins := range b.Instrs {
			st, ok := ins.(*ssa.Store)
			if !ok {
				continue
			}
			fa, ok := st.Addr.(*ssa.FieldAddr)
			if !ok || fieldName(fa) != "GitVersion" {
				continue
			}
			c, ok := st.Val.(*ssa.Call)
			if !ok || callName(&c.Call) != "strings.TrimPrefix" {
				continue
			}
			n++
			// TrimPrefix(<the build version>, "v"), in this order
			okArgs := false
			if len(c.Call.Args) == 2 {
				if pfx, isC := constString(c.Call.Args[1]); isC && pfx == "v" && derivesFromField(c.Call.Args[0], "GitVersion", 0) {
					okArgs = true
				}
			}
			r.Check(okArgs, "R18.5", key+"#strip-v-arguments", "the strip is strings.TrimPrefix(<build version>, \"v\") — value first, prefix second", e.P.Pos(st.Pos()))
			guardedP := underHasPrefixOfField(fn, fa, st)
			guardedV := false
			for _, blk := range fn.Blocks {
				if iff, ok := blk.Instrs[len(blk.Instrs)-1].(*ssa.If); ok {
					if cc, ok := iff.Cond.(*ssa.Call); ok && callName(&cc.Call) == semverPkg+".IsValid" && edgeDominates(blk, true, st) {
						guardedV = true
					}
				}
			}
			// nothing overwrites the build version after the strip
			last := true
			for _, b2 := range fn.Blocks {
				for _, in2 := range b2.Instrs {
					if st2, ok := in2.(*ssa.Store); ok && st2 != st {
						if fa2, ok := st2.Addr.(*ssa.FieldAddr); ok && fieldName(fa2) == "GitVersion" && reachableFrom(st, st2) {
							last = false
						}
					}
				}
			}
			r.Check(last, "R18.5", key+"#strip-v-last", "the strip is the last write of the build version (the ldflags value is assigned before it, not after)", e.P.Pos(st.Pos()))
			r.Check(guardedP && guardedV, "R18.5", key+"#strip-v", "the leading v of an injected build version is stripped only when the value has that prefix and is a valid semantic version", e.P.Pos(st.Pos()))
		}
	}
	// the version injected with -ldflags "-X main.version=…" becomes the build version whenever it is given
	okLd, whyLd := false, "no assignment of the package variable `version` to GitVersion"
	for _, b := range fn.Blocks {
		for _, ins := range b.Instrs {
			st, ok := ins.(*ssa.Store)
			if !ok {
				continue
			}
			fa, ok := st.Addr.(*ssa.FieldAddr)
			if !ok || fieldName(fa) != "GitVersion" {
				continue
			}
			ld, ok := st.Val.(*ssa.UnOp)
			if !ok {
				continue
			}
			g, ok := ld.X.(*ssa.Global)
			if !ok || g.Name() != "version" {
				continue
			}
			// guards: none, or `version != ""` on its true edge only
			okG := true
			for _, blk := range fn.Blocks {
				iff, isIf := blk.Instrs[len(blk.Instrs)-1].(*ssa.If)
				if !isIf {
					continue
				}
				for _, onTrue := range []bool{true, false} {
					if !edgeDominates(blk, onTrue, st) {
						continue
					}
					good := false
					if bo, isB := iff.Cond.(*ssa.BinOp); isB {
						if k, isK := constString(bo.Y); isK && k == "" {
							if l2, isL := bo.X.(*ssa.UnOp); isL && l2.X == g {
								good = (bo.Op == token.NEQ) == onTrue
							}
						}
					}
					if !good {
						okG = false
						whyLd = "the assignment of the injected version depends on " + iff.Cond.String()
					}
				}
			}
			if okG {
				okLd = true
			}
		}
	}
	// the same through a setter helper: set(&i.GitVersion, version) with set(dst, val) { if val != "" { *dst = val } }
	if !okLd {
		for _, c := range callsIn(fn, false) {
			g := c.Common().StaticCallee()
			if g == nil || !e.P.InModule(g) || len(g.Params) != len(c.Common().Args) {
				continue
			}
			di, vi := -1, -1
			for i, a := range c.Common().Args {
				if fa, isFa := a.(*ssa.FieldAddr); isFa && fieldName(fa) == "GitVersion" {
					di = i
				}
				if ld, isLd := a.(*ssa.UnOp); isLd {
					if gl, isG := ld.X.(*ssa.Global); isG && gl.Name() == "version" {
						vi = i
					}
				}
			}
			if di < 0 || vi < 0 {
				continue
			}
			for _, b := range g.Blocks {
				for _, ins := range b.Instrs {
					st, isSt := ins.(*ssa.Store)
					if !isSt || st.Addr != ssa.Value(g.Params[di]) || st.Val != ssa.Value(g.Params[vi]) {
						continue
					}
					okG := true
					for _, blk := range g.Blocks {
						iff, isIf := blk.Instrs[len(blk.Instrs)-1].(*ssa.If)
						if !isIf {
							continue
						}
						for _, onTrue := range []bool{true, false} {
							if !edgeDominates(blk, onTrue, st) {
								continue
							}
							good := false
							if bo, isB := iff.Cond.(*ssa.BinOp); isB && bo.X == ssa.Value(g.Params[vi]) {
								if k, isK := constString(bo.Y); isK && k == "" {
									good = (bo.Op == token.NEQ) == onTrue
								}
							}
							if !good {
								okG = false
							}
						}
					}
					// and the call itself is unconditional in fn
					for _, blk := range fn.Blocks {
						if _, isIf := blk.Instrs[len(blk.Instrs)-1].(*ssa.If); isIf && (edgeDominates(blk, true, c) || edgeDominates(blk, false, c)) {
							okG = false
						}
					}
					if okG {
						okLd = true
					}
				}
			}
		}
	}
	r.Check(okLd, "R18.5", key+"#ldflags-version-used", "the injected version (package variable version) is assigned to the build version whenever it is non-empty ("+whyLd+")")
	c18Chain(e)
	if n == 0 {
		r.Violate("R18.5", key+"#strip-v", "main no longer strips the v that ldflags inject: NewVersionValidator would test \"vv1.2.3\", find it invalid, and skip the gate for every release build", nil)
	}
}

// c18Chain: buildVersion().GitVersion -> NewBuildCmd(version) -> runnerPayload.version -> OverrideParam("version").
func c18Chain(e *Env) {
	r := e.R
	mainFn := e.P.Func(".", "main")
	if mainFn == nil {
		r.Undecide("R18.5", "main.main", "anchor not found")
		return
	}
	ok1 := false
	// the call may live in a helper of package main that main (transitively) calls
	var ncalls []ssa.CallInstruction
	for _, f := range unitFns(mainFn, 2) {
		ncalls = append(ncalls, findCalls(f, e.P.ModPath+"/internal/cmd.NewBuildCmd", false)...)
	}
	for _, c := range ncalls {
		a := c.Common().Args[0]
		if ld, ok := a.(*ssa.UnOp); ok {
			if fa, ok := ld.X.(*ssa.FieldAddr); ok && fieldName(fa) == "GitVersion" {
				ok1 = true
			}
		}
		if f, ok := a.(*ssa.Field); ok {
			if s, ok := f.X.Type().Underlying().(*types.Struct); ok && s.Field(f.Field).Name() == "GitVersion" {
				ok1 = true
			}
		}
	}
	r.Check(ok1, "R18.5", "main.main#version-argument", "NewBuildCmd receives the (stripped) GitVersion of buildVersion()")
	ok2 := false
	if fn := runEClosure(e); fn != nil {
		for _, b := range fn.Blocks {
			for _, ins := range b.Instrs {
				if st, ok := ins.(*ssa.Store); ok {
					if fa, ok := st.Addr.(*ssa.FieldAddr); ok && fieldName(fa) == "version" {
						if ld, ok := st.Val.(*ssa.UnOp); ok {
							if fv, ok := ld.X.(*ssa.FreeVar); ok && fv.Name() == "version" {
								ok2 = true
							}
						}
					}
				}
			}
		}
	}
	r.Check(ok2, "R18.5", "internal/cmd.NewBuildCmd$RunE#payload-version", "runnerPayload.version is NewBuildCmd's version parameter")
	ok3 := false
	if ov := buildRunnerOverrides(e); ov != nil {
		ok3 = ov.params["version"] == "version"
	}
	r.Check(ok3, "R18.5", "internal/cmd.buildRunner#param-version", "the container parameter \"version\" is overridden with payload.version")
}

// pathReturnsError: every return reachable from block fb (entered only through the failing edge) carries a
// non-nil error on the paths that come through fb: the returned value is a non-nil error expression, or a
// phi whose edges from predecessors dominated by fb are all non-nil.
func pathReturnsError(fb *ssa.BasicBlock) bool {
	if len(fb.Preds) != 1 {
		return false
	}
	var nonNil func(v ssa.Value, at *ssa.BasicBlock, depth int) bool
	nonNil = func(v ssa.Value, at *ssa.BasicBlock, depth int) bool {
		if depth > 4 || isNilConst(v) {
			return false
		}
		phi, isPhi := v.(*ssa.Phi)
		if !isPhi {
			_, isCall := unwrap(v).(*ssa.Call)
			_, isMI := v.(*ssa.MakeInterface)
			return isCall || isMI
		}
		any := false
		for i, pred := range phi.Block().Preds {
			if fb.Dominates(pred) {
				any = true
				if !nonNil(phi.Edges[i], pred, depth+1) {
					return false
				}
			}
		}
		return any
	}
	found := false
	for b := range reach(fb, true) {
		ret, ok := b.Instrs[len(b.Instrs)-1].(*ssa.Return)
		if !ok {
			continue
		}
		okRet := false
		for _, rv := range ret.Results {
			if isErrorType(rv.Type()) {
				if fb.Dominates(b) {
					okRet = !isNilConst(rv) && (nonNilSimple(rv) || nonNil(rv, b, 0))
				} else {
					okRet = nonNil(rv, b, 0)
				}
			}
		}
		if !okRet {
			return false
		}
		found = true
	}
	return found
}

func nonNilSimple(v ssa.Value) bool {
	if _, isPhi := v.(*ssa.Phi); isPhi {
		return false
	}
	return !isNilConst(v)
}
