package rules

import (
	"fmt"
	"go/ast"
	"go/token"
	"go/types"
	"sort"
	"strings"

	"gverif/internal/load"
	"gverif/internal/rx"

	"golang.org/x/tools/go/packages"
	"golang.org/x/tools/go/ssa"
)

func init() { Register("C11", C11) }

// ---- reference grammars, written from docs/*.md in a form independent of regex/consts.go ----

const (
	gIdent = `[A-Za-z][A-Za-z0-9_]*`
	gName  = `[A-Za-z]([._-]?[A-Za-z0-9])*`
	gPath  = `[A-Za-z](/?[A-Za-z0-9._-])*`
	gImp   = `(` + gPath + `|"` + gPath + `"|"\.")`
	gFunc  = `(` + gImp + `\.)?` + gIdent
	gType  = `\*?(` + gImp + `\.)?` + gIdent
	gValue = `([&*]?(` + gImp + `\.)?` + gIdent + `(\.` + gIdent + `)*|&?(` + gImp + `\.)?` + gIdent + `\{\})`
)

type refGrammar struct {
	expr string
	mode rx.Mode
	what string
}

// keyed by "<module-relative package>.<variable>"
var refGrammars = map[string]refGrammar{
	"internal/pkg/input.regexpMetaPkg":                  {gIdent, rx.Full, "meta.pkg: Go identifier"},
	"internal/pkg/input.regexpMetaContainerType":        {gIdent, rx.Full, "meta.container_type: Go identifier"},
	"internal/pkg/input.regexpMetaContainerConstructor": {gIdent, rx.Full, "meta.container_constructor: Go identifier"},
	"internal/pkg/input.regexMetaImport":                {gImp, rx.Full, "meta.imports value: import path, quoted or not, or \".\""},
	"internal/pkg/input.regexMetaImportAlias":           {gName, rx.Full, "meta.imports key: name"},
	"internal/pkg/input.regexMetaFn":                    {gIdent, rx.Full, "meta.functions key: Go identifier"},
	"internal/pkg/input.regexMetaGoFn":                  {gFunc, rx.Full, "meta.functions value: [import.]func"},
	"internal/pkg/input.regexParamName":                 {gName, rx.Full, "parameter name"},
	"internal/pkg/input.regexServiceName":               {gName, rx.Full, "service name"},
	"internal/pkg/input.regexServiceGetter":             {gIdent, rx.Full, "getter: Go identifier"},
	"internal/pkg/input.regexServiceType":               {gType, rx.Full, "type: [*][import.]Type"},
	"internal/pkg/input.regexServiceValue":              {gValue, rx.Full, "value: the forms listed in docs/SERVICES.md"},
	"internal/pkg/input.regexServiceConstructor":        {gFunc, rx.Full, "constructor: [import.]func"},
	"internal/pkg/input.regexServiceCallName":           {gIdent, rx.Full, "call method: Go identifier"},
	"internal/pkg/input.regexServiceFieldName":          {gIdent, rx.Full, "field name: Go identifier"},
	"internal/pkg/input.regexServiceTag":                {gName, rx.Full, "tag name"},
	"internal/pkg/input.regexDecoratorsTag":             {`(\*|` + gName + `)`, rx.Full, "decorator tag: * or a tag name"},
	"internal/pkg/input.regexDecoratorMethod":           {gFunc, rx.Full, "decorator: [import.]func"},
	"internal/pkg/compiler.regexDecoratorMethod":        {gFunc, rx.Full, "decorator (compiler side)"},
	"internal/pkg/compiler.regexMetaGoFn":               {gFunc, rx.Full, "meta.functions value (compiler side)"},
	"internal/pkg/compiler.regexServiceType":            {gType, rx.Full, "type (compiler side)"},
	"internal/pkg/compiler.regexServiceConstructor":     {gFunc, rx.Full, "constructor (compiler side)"},
	"internal/pkg/syntax.regexServiceValue":             {gValue, rx.Full, "value (compiler side)"},
	"internal/pkg/token.regexTokenRef":                  {gName, rx.Full, "%reference%: parameter name"},
	"internal/pkg/token.regexSimpleFn":                  {gIdent + `\(.*\)`, rx.Full, "%fn(args)%: identifier, parenthesised raw arguments on one line"},
	"internal/pkg/resolver.serviceRegex":                {`@` + gName, rx.Full, "@service"},
	"internal/pkg/resolver.taggedRegex":                 {`!tagged\s+` + gName, rx.Full, "!tagged tag"},
	"internal/pkg/resolver.valueRegex":                  {`!value\s+` + gValue, rx.Full, "!value expr"},
	"internal/pkg/resolver.servicePrefixRegex":          {`\A@`, rx.Prefix, "prefix @"},
	"internal/pkg/resolver.taggedPrefixRegex":           {`\A!tagged\s+`, rx.Prefix, "prefix !tagged"},
	"internal/pkg/resolver.valuePrefixRegex":            {`\A!value\s+`, rx.Prefix, "prefix !value"},
}

// non-validating regular expressions (reviewed): name -> reason
var nonGrammarRegex = map[string]string{
	"internal/pkg/imports.regexNoAlphaNum":  "replacement class of the alias sanitiser (decided by R14.5)",
	"internal/pkg/template.reEmptyNewLines": "cosmetic blank-line squeeze of the formatter",
}

type RegexVar struct {
	Key     string // rel.name
	Rel     string
	Name    string
	Pattern string // as compiled (wrapper applied)
	Inner   string // the constant handed to the wrapper
	Az      bool
	Pos     token.Pos
	Obj     types.Object
}

// azWrapper reads regex.MustCompileAz: prefix and suffix put around its argument. Decided on SSA: the
// argument of regexp.MustCompile is a concatenation of constants around exactly one occurrence of the
// function's parameter, written inline or through a helper of the package (wrapAz(r)), with literals or
// named constants.
func azWrapper(e *Env) (pre, suf string, ok bool) {
	fn := e.P.Func("internal/pkg/regex", "MustCompileAz")
	if fn == nil || len(fn.Params) != 1 {
		return
	}
	// flatten a string expression into constant pieces and the marker "\x00" for the parameter
	var flat func(f *ssa.Function, v ssa.Value, param ssa.Value, d int) (string, bool)
	flat = func(f *ssa.Function, v ssa.Value, param ssa.Value, d int) (string, bool) {
		if d > 6 {
			return "", false
		}
		if v == param {
			return "\x00", true
		}
		switch x := v.(type) {
		case *ssa.Const:
			if s, ok := constString(x); ok {
				return s, true
			}
		case *ssa.BinOp:
			if x.Op == token.ADD {
				l, ok1 := flat(f, x.X, param, d+1)
				r, ok2 := flat(f, x.Y, param, d+1)
				return l + r, ok1 && ok2
			}
		case *ssa.Call:
			if callName(&x.Call) == "strings.(Builder).String" && len(x.Call.Args) == 1 {
				// the builder's content: its WriteString calls in program order (straight-line code)
				type wr struct {
					pos token.Pos
					s   string
				}
				var ws []wr
				okB := true
				if refs := x.Call.Args[0].Referrers(); refs != nil {
					for _, ref := range *refs {
						wc, isCall := ref.(*ssa.Call)
						if !isCall || wc == x {
							continue
						}
						switch callName(&wc.Call) {
						case "strings.(Builder).WriteString":
							part, okP := flat(f, wc.Call.Args[1], param, d+1)
							if !okP || wc.Block() != x.Block() {
								okB = false
							}
							ws = append(ws, wr{wc.Pos(), part})
						case "strings.(Builder).Grow", "strings.(Builder).Len":
						default:
							okB = false
						}
					}
				}
				if okB {
					sort.Slice(ws, func(i, j int) bool { return ws[i].pos < ws[j].pos })
					out := ""
					for _, w := range ws {
						out += w.s
					}
					return out, true
				}
				return "", false
			}
			g := x.Call.StaticCallee()
			if g != nil && g.Pkg == fn.Pkg && len(g.Blocks) == 1 && len(g.Params) == 1 && len(x.Call.Args) == 1 {
				if ret, isRet := g.Blocks[0].Instrs[len(g.Blocks[0].Instrs)-1].(*ssa.Return); isRet && len(ret.Results) == 1 {
					inner, ok1 := flat(g, ret.Results[0], g.Params[0], d+1)
					arg, ok2 := flat(f, x.Call.Args[0], param, d+1)
					if ok1 && ok2 {
						return strings.ReplaceAll(inner, "\x00", arg), true
					}
				}
			}
		}
		return "", false
	}
	for _, c := range findCalls(fn, "regexp.MustCompile", false) {
		if s, okF := flat(fn, c.Common().Args[0], fn.Params[0], 0); okF && strings.Count(s, "\x00") == 1 {
			i := strings.Index(s, "\x00")
			pre, suf, ok = s[:i], s[i+1:], true
		}
	}
	return
}

func regexVars(e *Env) []RegexVar {
	pre, suf, okAz := azWrapper(e)
	if !okAz {
		e.R.Undecide("R11.2", "internal/pkg/regex.MustCompileAz", "the anchoring wrapper could not be read (expected regexp.MustCompile(<literal> + r + <literal>))")
	}
	var out []RegexVar
	for _, pk := range e.P.Roots {
		rel := e.P.Rel(pk.PkgPath)
		for _, f := range pk.Syntax {
			for _, d := range f.Decls {
				gd, ok := d.(*ast.GenDecl)
				if !ok || gd.Tok != token.VAR {
					continue
				}
				for _, sp := range gd.Specs {
					vs := sp.(*ast.ValueSpec)
					for i, n := range vs.Names {
						if i >= len(vs.Values) {
							continue
						}
						t := pk.TypesInfo.TypeOf(n)
						if t == nil || t.String() != "*regexp.Regexp" {
							continue
						}
						call, ok := ast.Unparen(vs.Values[i]).(*ast.CallExpr)
						if !ok || len(call.Args) != 1 {
							continue
						}
						v := RegexVar{Key: rel + "." + n.Name, Rel: rel, Name: n.Name, Pos: n.Pos(), Obj: pk.TypesInfo.ObjectOf(n)}
						arg, okc := load.StringOf(pk.TypesInfo, call.Args[0])
						if !okc {
							e.R.Undecide("R11.2", v.Key, "pattern is not a compile-time constant")
							continue
						}
						switch calleeName(load.Callee(pk.TypesInfo, call)) {
						case e.P.ModPath + "/internal/pkg/regex.MustCompileAz":
							v.Az, v.Inner, v.Pattern = true, arg, pre+arg+suf
						case "regexp.MustCompile":
							v.Inner, v.Pattern = arg, arg
						default:
							continue
						}
						out = append(out, v)
					}
				}
			}
		}
	}
	sort.Slice(out, func(i, j int) bool { return out[i].Key < out[j].Key })
	return out
}

func C11(e *Env) {
	r := e.R
	e.analysedBase()
	yamlKeysRule(e, "R11.12")
	e.R.Rule("R11.12", "key table: the YAML keys each mapping of the input model recognises (struct tags) and the Go types behind them equal the documented ones; the decoder ignores unknown keys, so a misspelt tag drops a documented attribute silently", 25)
	r.Rule("R11.1", "validation coverage: every string, *string, map-key and interface{} leaf of the input model is read by a validator of package input and reaches a sink (a regular-expression match, types.IsPrimitive or an enum lookup in its unmarshaler)", 24)
	r.Rule("R11.2", "language equality, for ALL strings: the language of every validating/recognising regular expression as compiled (anchoring wrapper included) equals the reference grammar written from the documentation; a difference is reported with a shortest distinguishing string", 28)
	r.Rule("R11.3", "lemmas independent of the reference transcription: identifier positions admit only Go identifiers; no name/identifier/type/constructor/import language admits whitespace, a newline, a backslash, a quote outside the \"import\" form or an unbalanced quote; the three argument prefixes are pairwise disjoint and do not contain $gontainer", 20)
	r.Rule("R11.4", "report everything: validators and compile steps visit every element and call every sibling validator (no early loop exit; every function of the validator signature is in its list); all results are collected (rule E)", 25)
	r.Rule("R11.5", "todo exemption: attribute validators run behind !todo, the service-name validator does not depend on todo", 2)
	r.Rule("R11.6", "getter rules (reserved, Must prefix, InContext suffix, duplicates — shared with C01) and duplicate tags (count per tag name, error when > 1)", 3)
	r.Rule("R11.8", "creation-method rules: exactly three error sites in ValidateConstructorType, guarded by (no constructor ∧ no value ∧ no type), (constructor ∧ value), (arguments non-empty ∧ no constructor)", 3)
	r.Rule("R11.9", "node-kind rules of the custom unmarshalers: Call is a sequence of 1–3 elements (string, sequence, bool); Tag is a string or a mapping with name:string and optional priority:int; Scope is one of the three keywords; Version is a string; every failed assertion is an error; IsPrimitive accepts exactly the 14 scalar kinds and nil", 8)

	vars := regexVars(e)
	r.Analysed["regular_expressions"] = len(vars)
	c11Languages(e, vars)
	c11Lemmas(e, vars)
	c11Coverage(e, vars)
	c11ReportAll(e)
	c11Todo(e)
	collisionRule(e, "R11.6")
	dupGetterRule(e, "R11.6")
	c11DupTags(e)
	c11Creation(e)
	c11Unmarshal(e)
	ruleE(e, "R11.4")
	errorFlattenRule(e, "R11.10")
	r.Rule("R11.10", "report every violation separately: no module code formats an error value into the text of another (fmt.Errorf/Sprintf/Sprint with an error operand, err.Error() outside panic); the only wrapper is grouperror.Prefix, which keeps a group of violations a group", 1)
	c11Sanitise(e)
	c03ToExpr(e)
	r.Rule("R03.2", "toExpr strips exactly the two delimiters, in runes (shared with C03): otherwise a documented %…% token with non-ASCII text is rejected as unexpected", 1)
	mergeLiteralRule(e, "mergeService", "Service")
	r.Rule("R09.1", "the todo flag (which exempts a service from validation) is merged like every scalar attribute, later non-nil wins (shared with C09)", 11)
	r.Rule("R09.1c", "behaviour classes of the merge combinators (shared with C09)", 2)
	dereferenceRule(e, "R13.7")
	r.Rule("R13.7", "ptr.Dereference: an explicit todo: false is not mistaken for unset (shared with C13)", 1)
	c02ResolverChain(e, "R02.1")
	c03ParamRules(e, "R03.4")
	r.Rule("R02.1", "which grammar applies in which position is wiring: the argument chain recognises every documented form once, the primitive chain (used for parameters) none of the service/tag/value/container forms (shared with C02)", 8)
	r.Rule("R03.4", "parameter values are resolved by the primitive chain, so a parameter string that merely looks like @service, !tagged, !value or $gontainer is accepted as text; a parameter that does reference a service or tag is rejected (shared with C03)", 4)
	r.NotCovered = append(r.NotCovered,
		"the exact wording of each diagnostic and the key it names",
		"YAML-level errors raised by yaml.v3 itself for wrong node kinds in typed positions (bool, int, maps) — the decoder is trusted",
		"Go keywords and predeclared names are identifiers for these grammars (the property assumes configured identifiers do not shadow them)")
}

func c11Languages(e *Env, vars []RegexVar) {
	seen := c11LanguagesOf(e, vars)
	for k := range refGrammars {
		if !seen[k] {
			e.R.Undecide("R11.2", k, "the regular expression this reference grammar is bound to no longer exists under this name")
		}
	}
}

func c11LanguagesOf(e *Env, vars []RegexVar) map[string]bool {
	r := e.R
	seen := map[string]bool{}
	for _, v := range vars {
		if why, ok := nonGrammarRegex[v.Key]; ok {
			r.Hold("R11.2", v.Key, "not a grammar: "+why, e.P.Pos(v.Pos))
			continue
		}
		ref, ok := refGrammars[v.Key]
		if !ok {
			r.Undecide("R11.2", v.Key, "a regular expression without a reference grammar: extend the table with the documented language it must accept", e.P.Pos(v.Pos))
			continue
		}
		seen[v.Key] = true
		got, mode, err := compiledLang(v)
		if err != nil {
			r.Undecide("R11.2", v.Key, "pattern outside the decidable subset: "+err.Error(), e.P.Pos(v.Pos))
			continue
		}
		var want *rx.Lang
		if ref.mode == rx.Full {
			want = rx.MustParse(ref.expr, true)
		} else {
			want, _ = rx.Parse(ref.expr, false)
		}
		w, diff, err := rx.Search(got, want, mode, ref.mode, func(a, b bool) bool { return a != b })
		if err != nil {
			r.Undecide("R11.2", v.Key, err.Error(), e.P.Pos(v.Pos))
			continue
		}
		if diff {
			_, inGot, _ := rx.Search(got, want, mode, ref.mode, func(a, b bool) bool { return a && !b })
			side := "rejected although documented"
			if inGot {
				w2, _, _ := rx.Search(got, want, mode, ref.mode, func(a, b bool) bool { return a && !b })
				if w2 == w {
					side = "accepted although not in the documented grammar"
				}
			}
			r.Violate("R11.2", v.Key, fmt.Sprintf("%s: the compiled language differs from the documented one; shortest distinguishing string %q is %s", ref.what, w, side),
				map[string]any{"pattern": v.Pattern, "reference": ref.expr, "witness": w}, e.P.Pos(v.Pos))
		} else {
			r.Hold("R11.2", v.Key, ref.what+": language equals the reference for all strings", e.P.Pos(v.Pos))
		}
	}
	return seen
}

// compiledLang gives the language a regular expression accepts the way the code uses it:
// MatchString searches for a match anywhere, so without the anchoring wrapper the language is
// Σ*·L·Σ* (for a pattern starting with \A this is "has a prefix in L").
func compiledLang(v RegexVar) (*rx.Lang, rx.Mode, error) {
	if v.Az {
		l, err := rx.Parse(v.Pattern, false) // the wrapper anchors both ends
		return l, rx.Full, err
	}
	l, err := rx.Parse(`(?s:.*?)(?:`+v.Pattern+`)`, false)
	return l, rx.Prefix, err
}

func c11Lemmas(e *Env, vars []RegexVar) {
	r := e.R
	byKey := map[string]RegexVar{}
	for _, v := range vars {
		byKey[v.Key] = v
	}
	lang := func(k string) *rx.Lang {
		v, ok := byKey[k]
		if !ok {
			return nil
		}
		l, _, err := compiledLang(v)
		if err != nil {
			return nil
		}
		return l
	}
	goIdent := rx.MustParse(`[A-Za-z_][A-Za-z0-9_]*`, true)
	idents := []string{"internal/pkg/input.regexpMetaPkg", "internal/pkg/input.regexpMetaContainerType", "internal/pkg/input.regexpMetaContainerConstructor",
		"internal/pkg/input.regexServiceGetter", "internal/pkg/input.regexServiceCallName", "internal/pkg/input.regexServiceFieldName", "internal/pkg/input.regexMetaFn"}
	for _, k := range idents {
		l := lang(k)
		if l == nil {
			r.Undecide("R11.3", k+"#identifier", "expression not available")
			continue
		}
		w, bad, _ := rx.NotIncluded(l, goIdent)
		if bad {
			r.Violate("R11.3", k+"#identifier", fmt.Sprintf("printed in an identifier position but admits %q, which is not a Go identifier", w), nil)
		} else {
			r.Hold("R11.3", k+"#identifier", "every admitted string is a Go identifier")
		}
	}
	// no whitespace / backslash / quote-imbalance in any name, type, constructor, value, import language
	badChars := rx.MustParse("(?s).*[\\s\\\\'`;].*", true)
	evenQuotes := rx.MustParse(`(?s)[^"]*("[^"]*"[^"]*)*`, true)
	clean := []string{}
	for k := range refGrammars {
		if strings.Contains(k, "Prefix") || k == "internal/pkg/token.regexSimpleFn" || strings.HasSuffix(k, "taggedRegex") || strings.HasSuffix(k, "valueRegex") {
			continue // reviewed exceptions: raw Go arguments of a function token; the \s+ separator of !tagged / !value
		}
		clean = append(clean, k)
	}
	sort.Strings(clean)
	for _, k := range clean {
		l := lang(k)
		if l == nil {
			continue
		}
		w, bad, _ := rx.Search(l, badChars, rx.Full, rx.Full, func(a, b bool) bool { return a && b })
		if bad {
			r.Violate("R11.3", k+"#no-space-newline-backslash", fmt.Sprintf("admits %q: whitespace, newline, backslash, quote or semicolon reaches generated source unescaped", w), nil)
		} else {
			r.Hold("R11.3", k+"#no-space-newline-backslash", "no admitted string contains whitespace, a newline, a backslash, a single/back quote or a semicolon")
		}
		w, bad, _ = rx.NotIncluded(l, evenQuotes)
		if bad {
			r.Violate("R11.3", k+"#balanced-quotes", fmt.Sprintf("admits %q with an unbalanced double quote", w), nil)
		} else {
			r.Hold("R11.3", k+"#balanced-quotes", "double quotes only occur in pairs (the quoted-import form)")
		}
	}
	// the separator exceptions still exclude newlines inside the payload
	for _, k := range []string{"internal/pkg/token.regexSimpleFn"} {
		if l := lang(k); l != nil {
			w, bad, _ := rx.Search(l, rx.MustParse(`(?s).*\n.*`, true), rx.Full, rx.Full, func(a, b bool) bool { return a && b })
			if bad {
				r.Violate("R11.3", k+"#single-line", fmt.Sprintf("the raw Go argument list may contain a newline (%q): it is echoed into a line comment and would leave it", w), nil)
			} else {
				r.Hold("R11.3", k+"#single-line", "the raw argument list cannot contain a newline")
			}
		}
	}
	// prefixes pairwise disjoint, and $gontainer is in none of them
	pfx := []string{"internal/pkg/resolver.servicePrefixRegex", "internal/pkg/resolver.taggedPrefixRegex", "internal/pkg/resolver.valuePrefixRegex"}
	special, _ := e.P.ConstString("internal/pkg/consts", "SpecialGontainerID")
	for i := 0; i < len(pfx); i++ {
		li := lang(pfx[i])
		if li == nil {
			r.Undecide("R11.3", pfx[i]+"#disjoint", "expression not available")
			continue
		}
		for j := i + 1; j < len(pfx); j++ {
			lj := lang(pfx[j])
			if lj == nil {
				continue
			}
			w, both, _ := rx.Search(li, lj, rx.Prefix, rx.Prefix, func(a, b bool) bool { return a && b })
			k := pfx[i] + " ∩ " + pfx[j]
			if both {
				r.Violate("R11.3", k, fmt.Sprintf("two argument resolvers claim %q: which one wins depends on their order", w), nil)
			} else {
				r.Hold("R11.3", k, "disjoint: their relative order is irrelevant")
			}
		}
		sp := rx.MustParse(rxQuote(special), true)
		_, both, _ := rx.Search(li, sp, rx.Prefix, rx.Full, func(a, b bool) bool { return a && b })
		r.Check(!both, "R11.3", pfx[i]+" ∌ "+special, "the container keyword is not claimed by a prefix resolver")
	}
}

func rxQuote(s string) string {
	var b strings.Builder
	for _, c := range s {
		if strings.ContainsRune(`\.+*?()|[]{}^$`, c) {
			b.WriteByte('\\')
		}
		b.WriteRune(c)
	}
	return b.String()
}

// ---- R11.1: leaves of the input model and their sinks (package input, AST + types) ----

type leafSink struct {
	leaf string
	sink string
}

func inputLeaves(e *Env) []string {
	pk := e.P.Pkg(inputRel)
	root := pk.Types.Scope().Lookup("Input")
	var out []string
	seen := map[string]bool{}
	var walk func(t types.Type, owner string)
	walk = func(t types.Type, owner string) {
		n := namedOf(t)
		if n == nil || seen[n.Obj().Name()] {
			return
		}
		st, ok := n.Underlying().(*types.Struct)
		if !ok {
			return
		}
		seen[n.Obj().Name()] = true
		for i := 0; i < st.NumFields(); i++ {
			f := st.Field(i)
			name := n.Obj().Name() + "." + f.Name()
			switch u := f.Type().Underlying().(type) {
			case *types.Basic:
				if u.Kind() == types.String {
					out = append(out, name)
				}
			case *types.Pointer:
				if b, ok := u.Elem().Underlying().(*types.Basic); ok && b.Kind() == types.String {
					out = append(out, name)
				}
				walk(u.Elem(), name)
			case *types.Interface:
				out = append(out, name)
			case *types.Slice:
				if _, isI := u.Elem().Underlying().(*types.Interface); isI {
					out = append(out, name+"[*]")
				}
				walk(u.Elem(), name)
			case *types.Map:
				out = append(out, name+"(key)")
				switch ev := u.Elem().Underlying().(type) {
				case *types.Interface:
					out = append(out, name+"[*]")
				case *types.Basic:
					if ev.Kind() == types.String {
						out = append(out, name+"[*]")
					}
				}
				walk(u.Elem(), name)
			case *types.Struct:
				walk(f.Type(), name)
			}
		}
	}
	walk(root.Type(), "")
	sort.Strings(out)
	return out
}

// sinkCalls finds, in package input, every call that validates a value and describes what it validates.
func c11Coverage(e *Env, vars []RegexVar) {
	r := e.R
	pk := e.P.Pkg(inputRel)
	info := pk.TypesInfo
	regexObj := map[types.Object]string{}
	for _, v := range vars {
		regexObj[v.Obj] = v.Name
	}
	covered := map[string][]string{}
	// summaries: package functions whose parameter goes straight into a sink
	type psink struct {
		idx  int
		sink string
	}
	summ := map[types.Object][]psink{}
	sinkOf := func(call *ast.CallExpr) (ast.Expr, string) {
		name := calleeName(load.Callee(info, call))
		switch {
		case name == e.P.ModPath+"/internal/pkg/input.validateRegexField" && len(call.Args) == 3:
			return call.Args[1], regexName(info, call.Args[2], regexObj)
		case name == e.P.ModPath+"/internal/pkg/input.validateOptionalPtrField" && len(call.Args) == 3:
			return call.Args[1], regexName(info, call.Args[2], regexObj)
		case name == "regexp.(Regexp).MatchString" && len(call.Args) == 1:
			if se, ok := ast.Unparen(call.Fun).(*ast.SelectorExpr); ok {
				return call.Args[0], regexName(info, se.X, regexObj)
			}
		case name == e.P.ModPath+"/internal/pkg/types.IsPrimitive" && len(call.Args) == 1:
			return call.Args[0], "IsPrimitive"
		}
		return nil, ""
	}
	for _, f := range pk.Syntax {
		for _, d := range f.Decls {
			fd, ok := d.(*ast.FuncDecl)
			if !ok || fd.Body == nil || fd.Recv != nil {
				continue
			}
			ps := paramObjs(info, fd)
			ast.Inspect(fd.Body, func(n ast.Node) bool {
				call, ok := n.(*ast.CallExpr)
				if !ok {
					return true
				}
				val, sink := sinkOf(call)
				if val == nil || sink == "" {
					return true
				}
				if st, ok := ast.Unparen(val).(*ast.StarExpr); ok {
					val = st.X
				}
				if id, ok := ast.Unparen(val).(*ast.Ident); ok {
					for i, po := range ps {
						if info.ObjectOf(id) == po {
							summ[info.ObjectOf(fd.Name)] = append(summ[info.ObjectOf(fd.Name)], psink{i, sink})
						}
					}
				}
				return true
			})
		}
	}
	// transitive closure: a parameter handed to a summarised callee's validated parameter is validated too
	for changed, round := true, 0; changed && round < 5; round++ {
		changed = false
		for _, f := range pk.Syntax {
			for _, d := range f.Decls {
				fd, ok := d.(*ast.FuncDecl)
				if !ok || fd.Body == nil || fd.Recv != nil {
					continue
				}
				self := info.ObjectOf(fd.Name)
				ps := paramObjs(info, fd)
				ast.Inspect(fd.Body, func(n ast.Node) bool {
					call, ok := n.(*ast.CallExpr)
					if !ok {
						return true
					}
					callee := load.Callee(info, call)
					if callee == nil || callee == self {
						return true
					}
					for _, cs := range summ[callee] {
						if cs.idx >= len(call.Args) {
							continue
						}
						a := ast.Unparen(call.Args[cs.idx])
						if st, ok := a.(*ast.StarExpr); ok {
							a = st.X
						}
						id, ok := ast.Unparen(a).(*ast.Ident)
						if !ok {
							continue
						}
						for i, po := range ps {
							if info.ObjectOf(id) != po {
								continue
							}
							dup := false
							for _, have := range summ[self] {
								if have.idx == i && have.sink == cs.sink {
									dup = true
								}
							}
							if !dup {
								summ[self] = append(summ[self], psink{i, cs.sink})
								changed = true
							}
						}
					}
					return true
				})
			}
		}
	}
	for _, f := range pk.Syntax {
		for _, d := range f.Decls {
			fd, ok := d.(*ast.FuncDecl)
			if !ok || fd.Body == nil {
				continue
			}
			env := leafEnv(info, fd)
			ast.Inspect(fd.Body, func(n ast.Node) bool {
				call, ok := n.(*ast.CallExpr)
				if !ok {
					return true
				}
				if callee := load.Callee(info, call); callee != nil {
					for _, ps := range summ[callee] {
						if ps.idx < len(call.Args) {
							for _, leaf := range leafOf(info, env, call.Args[ps.idx], 0) {
								covered[leaf] = append(covered[leaf], ps.sink)
							}
						}
					}
				}
				name := calleeName(load.Callee(info, call))
				var val ast.Expr
				sink := ""
				switch {
				case name == e.P.ModPath+"/internal/pkg/input.validateRegexField" && len(call.Args) == 3:
					val, sink = call.Args[1], regexName(info, call.Args[2], regexObj)
				case name == e.P.ModPath+"/internal/pkg/input.validateOptionalPtrField" && len(call.Args) == 3:
					val, sink = call.Args[1], regexName(info, call.Args[2], regexObj)
				case name == "regexp.(Regexp).MatchString" && len(call.Args) == 1:
					if se, ok := ast.Unparen(call.Fun).(*ast.SelectorExpr); ok {
						val, sink = call.Args[0], regexName(info, se.X, regexObj)
					}
				case name == e.P.ModPath+"/internal/pkg/types.IsPrimitive" && len(call.Args) == 1:
					val, sink = call.Args[0], "IsPrimitive"
				}
				if val == nil || sink == "" {
					return true
				}
				for _, leaf := range leafOf(info, env, val, 0) {
					covered[leaf] = append(covered[leaf], sink)
				}
				return true
			})
		}
	}
	// leaves typed by their own unmarshaler
	enum := map[string]string{"Input.Version": "Version.UnmarshalYAML (semver)", "Service.Scope": "Scope.UnmarshalYAML (keyword lookup)",
		"Call.Method": "", "Tag.Name": ""}
	leaves := inputLeaves(e)
	r.Analysed["input_leaves"] = leaves
	for _, l := range leaves {
		if s := covered[l]; len(s) > 0 {
			sort.Strings(s)
			r.Hold("R11.1", "leaf "+l, "validated by "+strings.Join(dedupStr(s), ", "))
			continue
		}
		if why, ok := enum[l]; ok && why != "" {
			r.Hold("R11.1", "leaf "+l, "typed by "+why)
			continue
		}
		r.Violate("R11.1", "leaf "+l, "no validator of package input passes this value to a regular expression, to IsPrimitive or to an enum lookup: any string is accepted here and reaches the compiler", nil)
	}
}

func dedupStr(s []string) []string {
	var out []string
	for i, x := range s {
		if i == 0 || x != s[i-1] {
			out = append(out, x)
		}
	}
	return out
}

func regexName(info *types.Info, e ast.Expr, m map[types.Object]string) string {
	if id, ok := ast.Unparen(e).(*ast.Ident); ok {
		if n, ok := m[info.ObjectOf(id)]; ok {
			return n
		}
	}
	return ""
}

// leafEnv maps local variables of a function to the leaf they denote.
type leafBinding struct {
	expr ast.Expr
	kind string // "elem" | "key" | "alias" | "mapelem"
}

func leafEnv(info *types.Info, fd *ast.FuncDecl) map[types.Object]leafBinding {
	env := map[types.Object]leafBinding{}
	ast.Inspect(fd.Body, func(n ast.Node) bool {
		switch x := n.(type) {
		case *ast.RangeStmt:
			// for _, n := range maps.Keys(X)  -> key of X ; for i, a := range X -> elem of X (slice) / key,value (map)
			src := x.X
			kind := "elem"
			if call, ok := ast.Unparen(src).(*ast.CallExpr); ok && len(call.Args) == 1 {
				if o := load.Callee(info, call); o != nil && o.Name() == "Keys" {
					src, kind = call.Args[0], "key"
				}
			}
			if kid, isId := ast.Unparen(src).(*ast.Ident); isId {
				if kb, bound := env[info.ObjectOf(kid)]; bound && kb.kind == "keyslice" {
					src, kind = kb.expr, "key"
				}
			}
			if isMapType(info.TypeOf(src)) && kind == "elem" {
				if id, ok := x.Key.(*ast.Ident); ok && id.Name != "_" {
					env[info.ObjectOf(id)] = leafBinding{src, "key"}
				}
				if id, ok := x.Value.(*ast.Ident); ok && id.Name != "_" {
					env[info.ObjectOf(id)] = leafBinding{src, "mapelem"}
				}
				return true
			}
			if id, ok := x.Value.(*ast.Ident); ok && id.Name != "_" {
				env[info.ObjectOf(id)] = leafBinding{src, kind}
			}
		case *ast.CallExpr:
			// maps.Iterate(X, func(k, v) {...}): the callback's parameters are key and element of X
			if o := load.Callee(info, x); o != nil && o.Name() == "Iterate" && len(x.Args) == 2 {
				if fl, ok := ast.Unparen(x.Args[1]).(*ast.FuncLit); ok {
					var ps []*ast.Ident
					for _, f := range fl.Type.Params.List {
						ps = append(ps, f.Names...)
					}
					if len(ps) == 2 {
						env[info.ObjectOf(ps[0])] = leafBinding{x.Args[0], "key"}
						env[info.ObjectOf(ps[1])] = leafBinding{x.Args[0], "mapelem"}
					}
				}
			}
		case *ast.AssignStmt:
			if len(x.Lhs) == 1 && len(x.Rhs) == 1 && x.Tok == token.DEFINE {
				if id, ok := x.Lhs[0].(*ast.Ident); ok {
					switch rhs := ast.Unparen(x.Rhs[0]).(type) {
					case *ast.CallExpr:
						// keys := maps.Keys(X): the sorted keys of X
						if o := load.Callee(info, rhs); o != nil && o.Name() == "Keys" && len(rhs.Args) == 1 {
							env[info.ObjectOf(id)] = leafBinding{rhs.Args[0], "keyslice"}
						}
					case *ast.IndexExpr:
						if kid, isId := ast.Unparen(rhs.X).(*ast.Ident); isId {
							if kb, bound := env[info.ObjectOf(kid)]; bound && kb.kind == "keyslice" {
								env[info.ObjectOf(id)] = leafBinding{kb.expr, "key"}
								break
							}
						}
						if isMapType(info.TypeOf(rhs.X)) {
							env[info.ObjectOf(id)] = leafBinding{rhs.X, "mapelem"}
						} else {
							env[info.ObjectOf(id)] = leafBinding{rhs.X, "elem"}
						}
					case *ast.SelectorExpr:
						env[info.ObjectOf(id)] = leafBinding{rhs, "alias"}
					}
				}
			}
		}
		return true
	})
	return env
}

// leafOf names the input leaf an expression denotes: "Type.Field", "Type.Field[*]", "Type.Field(key)".
func leafOf(info *types.Info, env map[types.Object]leafBinding, e ast.Expr, depth int) []string {
	if depth > 6 {
		return nil
	}
	switch x := ast.Unparen(e).(type) {
	case *ast.StarExpr:
		return leafOf(info, env, x.X, depth+1)
	case *ast.SelectorExpr:
		if n := namedOf(info.TypeOf(x.X)); n != nil {
			if _, isStruct := n.Underlying().(*types.Struct); isStruct {
				return []string{n.Obj().Name() + "." + x.Sel.Name}
			}
		}
	case *ast.Ident:
		if b, ok := env[info.ObjectOf(x)]; ok {
			base := leafOf(info, env, b.expr, depth+1)
			var out []string
			for _, l := range base {
				switch b.kind {
				case "elem", "mapelem":
					out = append(out, l+"[*]")
				case "key":
					out = append(out, l+"(key)")
				case "alias":
					out = append(out, l)
				}
			}
			return out
		}
	case *ast.IndexExpr:
		if kid, isId := ast.Unparen(x.X).(*ast.Ident); isId {
			if kb, bound := env[info.ObjectOf(kid)]; bound && kb.kind == "keyslice" {
				var out []string
				for _, l := range leafOf(info, env, kb.expr, depth+1) {
					out = append(out, l+"(key)")
				}
				return out
			}
		}
		base := leafOf(info, env, x.X, depth+1)
		var out []string
		for _, l := range base {
			out = append(out, l+"[*]")
		}
		return out
	}
	return nil
}

// ---- R11.4 ----

func c11ReportAll(e *Env) {
	pk := e.P.Pkg(inputRel)
	var names []string
	for _, f := range pk.Syntax {
		for _, d := range f.Decls {
			if fd, ok := d.(*ast.FuncDecl); ok && fd.Body != nil && (strings.HasPrefix(fd.Name.Name, "Validate") || fd.Name.Name == "validateUniqueGetters") {
				if fd.Recv != nil {
					names = append(names, recvNameOf(fd)+"."+fd.Name.Name)
				} else {
					names = append(names, fd.Name.Name)
				}
			}
		}
	}
	sort.Strings(names)
	// ValidateVersion's early returns are skip conditions, not loop exits; the lint only looks inside loops
	loopExitRule(e, "R11.4", inputRel, "a later violation is not reported in the same run", names...)
	loopExitRule(e, "R11.4", compilerRel, "a later violation is not reported in the same run", "resolveArgs", "StepCompileServices.serviceCalls", "StepCompileServices.serviceFields", "StepCompileServices.Process", "StepCompileParams.Process", "StepCompileDecorators.Process", "StepCompileMeta.handleImports")
	loopExitRule(e, "R11.4", outputRel, "a later violation is not reported in the same run", reachableNames(e, outputRel, "ValidateParamsExist", "ValidateServicesExist", "ValidateServicesScopes")...)
	loopExitRule(e, "R11.4", "internal/pkg/token", "a later malformed token is not reported", "Tokenizer.Tokenize")
	c10Amalgamated(e, "R11.4")
	// sibling completeness: every function of a validator signature is in its list
	siblingLists(e, pk)
}

func recvNameOf(fd *ast.FuncDecl) string {
	if fd.Recv == nil || len(fd.Recv.List) != 1 {
		return ""
	}
	t := fd.Recv.List[0].Type
	if s, ok := t.(*ast.StarExpr); ok {
		t = s.X
	}
	if id, ok := t.(*ast.Ident); ok {
		return id.Name
	}
	return ""
}

// siblingLists: ValidateServices lists every func(Service) error named Validate*, ValidateMeta every
// func(Meta) error, ValidateDecorators every func(Decorator) error, NewDefaultValidator every Default*Validators.
func siblingLists(e *Env, pk *packages.Package) {
	r := e.R
	info := pk.TypesInfo
	type group struct {
		holder string
		param  string
	}
	groups := []group{{"ValidateServices", "Service"}, {"ValidateMeta", "Meta"}, {"ValidateDecorators", "Decorator"}}
	for _, g := range groups {
		fd, _ := e.P.Decl(inputRel, g.holder)
		if fd == nil {
			r.Undecide("R11.4", inputRel+"."+g.holder+"#siblings", "holder not found")
			continue
		}
		used := map[string]bool{}
		ast.Inspect(fd.Body, func(n ast.Node) bool {
			if id, ok := n.(*ast.Ident); ok {
				if f, ok := info.ObjectOf(id).(*types.Func); ok && f.Pkg() == pk.Types {
					used[f.Name()] = true
				}
			}
			return true
		})
		for _, n := range pk.Types.Scope().Names() {
			f, ok := pk.Types.Scope().Lookup(n).(*types.Func)
			if !ok || !strings.HasPrefix(n, "Validate") {
				continue
			}
			sig := f.Type().(*types.Signature)
			if sig.Params().Len() != 1 || sig.Results().Len() != 1 || !isErrorType(sig.Results().At(0).Type()) {
				continue
			}
			pn := namedOf(sig.Params().At(0).Type())
			if pn == nil || pn.Obj().Name() != g.param {
				continue
			}
			r.Check(used[n], "R11.4", inputRel+"."+g.holder+"#calls:"+n, fmt.Sprintf("%s runs the %s validator %s", g.holder, g.param, n))
		}
	}
	// NewDefaultValidator
	fd, _ := e.P.Decl(inputRel, "NewDefaultValidator")
	if fd != nil {
		used := map[string]bool{}
		ast.Inspect(fd.Body, func(n ast.Node) bool {
			if id, ok := n.(*ast.Ident); ok {
				if f, ok := info.ObjectOf(id).(*types.Func); ok {
					used[f.Name()] = true
				}
			}
			return true
		})
		for _, n := range pk.Types.Scope().Names() {
			if strings.HasPrefix(n, "Default") && strings.HasSuffix(n, "Validators") {
				r.Check(used[n], "R11.4", inputRel+".NewDefaultValidator#includes:"+n, "the default validator includes the group "+n)
				// and the group returns the validators of its section
			}
		}
	}
	// each Default*Validators group returns its section's top-level validator(s)
	for _, pair := range [][2]string{{"DefaultMetaValidators", "ValidateMeta"}, {"DefaultParamsValidators", "ValidateParams"}, {"DefaultServicesValidators", "ValidateServices"}, {"DefaultDecoratorsValidators", "ValidateDecorators"}, {"DefaultVersionValidators", "ValidateVersion"}} {
		fd, _ := e.P.Decl(inputRel, pair[0])
		okk := false
		if fd != nil {
			ast.Inspect(fd.Body, func(n ast.Node) bool {
				switch x := n.(type) {
				case *ast.Ident:
					if x.Name == pair[1] {
						okk = true
					}
				case *ast.SelectorExpr:
					if x.Sel.Name == pair[1] {
						okk = true
					}
				}
				return true
			})
		}
		r.Check(okk, "R11.4", inputRel+"."+pair[0]+"#returns:"+pair[1], pair[0]+" contains "+pair[1])
	}
	// the compiler validates before anything else (first step)
	gm, _, ok := e.models()
	if ok {
		c := gm.Service("compiler")
		first := c != nil && len(c.Args) > 0 && depIs(c.Args[0], "service", "stepValidateInput")
		r.Check(first, "R11.4", selfRel+"#compiler-first-step", "input validation is the first compile step (later steps see validated fields)")
		si := gm.Service("stepValidateInput")
		r.Check(si != nil && len(si.Args) == 1 && depIs(si.Args[0], "service", "inputValidator"), "R11.4", selfRel+"#stepValidateInput", "the validation step uses the default input validator")
		iv := gm.Service("inputValidator")
		r.Check(ctorIs(e, iv, inputRel, "NewDefaultValidator"), "R11.4", selfRel+"#inputValidator", "the input validator is input.NewDefaultValidator")
	}
}

// ---- R11.5 ----

func c11Todo(e *Env) {
	r := e.R
	key := inputRel + ".ValidateServices"
	fn := e.P.Func(inputRel, "ValidateServices")
	if fn == nil {
		r.Undecide("R11.5", key, "anchor not found")
		return
	}
	var todoIf *ssa.BasicBlock
	trueMeansTodo := true
	// the per-service work may live in a helper of the package that ValidateServices calls for every service
	cands := []*ssa.Function{fn}
	for _, c := range callsIn(fn, true) {
		if g := c.Common().StaticCallee(); g != nil && g.Pkg == fn.Pkg && g != fn && len(g.Blocks) > 0 {
			cands = append(cands, g)
		}
	}
	for _, cand := range cands {
		for _, b := range cand.Blocks {
			iff, ok := b.Instrs[len(b.Instrs)-1].(*ssa.If)
			if !ok {
				continue
			}
			cond := iff.Cond
			neg := false
			if u, ok := cond.(*ssa.UnOp); ok && u.Op == token.NOT {
				cond, neg = u.X, true
			}
			if isTodoTest(cond) {
				// the dynamic validator calls must be in the same function as the test
				dyn := 0
				for _, dc := range callsIn(cand, false) {
					if dc.Common().StaticCallee() == nil && !dc.Common().IsInvoke() {
						if _, isB := dc.Common().Value.(*ssa.Builtin); !isB {
							dyn++
						}
					}
				}
				if dyn > 0 && todoIf == nil {
					todoIf, trueMeansTodo = b, !neg
					if cand != fn {
						// the helper is reached for every service: its call in ValidateServices is not behind a todo test
						fn = cand
					}
				}
			}
		}
	}
	if todoIf == nil {
		r.Violate("R11.5", key+"#todo-test", "no branch on the service's todo flag: todo services are not exempt", nil)
		return
	}
	nameCalls := findCalls(fn, e.P.ModPath+"/"+inputRel+".ValidateServiceName", false)
	okName := len(nameCalls) == 1 && !edgeDominates(todoIf, true, nameCalls[0]) && !edgeDominates(todoIf, false, nameCalls[0])
	r.Check(okName, "R11.5", key+"#name-always-validated", "the service name is validated whether or not the service is todo")
	// the dynamic validator calls are behind !todo
	okAttr, n := true, 0
	for _, c := range callsIn(fn, false) {
		if c.Common().StaticCallee() == nil && !c.Common().IsInvoke() {
			if _, isB := c.Common().Value.(*ssa.Builtin); isB {
				continue
			}
			n++
			if !edgeDominates(todoIf, !trueMeansTodo, c) {
				okAttr = false
			}
		}
	}
	r.Check(okAttr && n >= 1, "R11.5", key+"#attributes-behind-not-todo", fmt.Sprintf("the attribute validators run only when the service is not todo (%d dynamic validator calls)", n))
}

// isTodoTest: cond is ptr.Dereference(<x>.Todo, …), written out or through a one-line predicate of the
// package (`func isTodoService(s Service) bool { return ptr.Dereference(s.Todo, Default) }`).
func isTodoTest(cond ssa.Value) bool {
	c, ok := cond.(*ssa.Call)
	if !ok || c.Call.StaticCallee() == nil {
		return false
	}
	g := c.Call.StaticCallee()
	if o := g.Origin(); o != nil && o.Name() == "Dereference" && len(c.Call.Args) > 0 && derivesFromField(c.Call.Args[0], "Todo", 0) {
		return true
	}
	if len(g.Blocks) == 1 {
		if ret, isRet := g.Blocks[0].Instrs[len(g.Blocks[0].Instrs)-1].(*ssa.Return); isRet && len(ret.Results) == 1 {
			return isTodoTest(ret.Results[0])
		}
	}
	return false
}

func c11DupTags(e *Env) {
	r := e.R
	key := inputRel + ".ValidateServiceTags#duplicate-tags"
	fn := e.P.Func(inputRel, "ValidateServiceTags")
	if fn == nil {
		r.Undecide("R11.6", key, "anchor not found")
		return
	}
	var maps []ssa.Value
	// the counting may live in a helper that returns the counter map
	helperMaps := map[*ssa.Function]bool{}
	for _, f := range unitFns(fn, 1) {
		allInstrs(f, func(_ *ssa.Function, ins ssa.Instruction) {
			if mu, ok := ins.(*ssa.MapUpdate); ok && derivesFromField(mu.Key, "Name", 0) {
				if f == fn {
					maps = append(maps, mu.Map)
				} else {
					for _, b := range f.Blocks {
						if ret, isRet := b.Instrs[len(b.Instrs)-1].(*ssa.Return); isRet && len(ret.Results) == 1 && ret.Results[0] == mu.Map {
							helperMaps[f] = true
						}
					}
				}
			}
		})
	}
	for _, c := range callsIn(fn, true) {
		if g := c.Common().StaticCallee(); g != nil && helperMaps[g] && c.Value() != nil {
			maps = append(maps, c.Value())
		}
	}
	// values that are "the count of one name": a lookup in the map, or the value parameter of a callback that
	// maps.Iterate runs over the map
	countParam := map[ssa.Value]bool{}
	for _, c := range callsIn(fn, true) {
		g := c.Common().StaticCallee()
		if g == nil || len(c.Common().Args) != 2 {
			continue
		}
		nm := g.Name()
		if o := g.Origin(); o != nil {
			nm = o.Name()
		}
		if nm != "Iterate" {
			continue
		}
		isCounter := false
		for _, m := range maps {
			if c.Common().Args[0] == m || sameCell(c.Common().Args[0], m) {
				isCounter = true
			}
		}
		if !isCounter {
			continue
		}
		var cb *ssa.Function
		switch f := c.Common().Args[1].(type) {
		case *ssa.MakeClosure:
			cb, _ = f.Fn.(*ssa.Function)
		case *ssa.Function:
			cb = f
		}
		if cb != nil && len(cb.Params) == 2 {
			countParam[cb.Params[1]] = true
		}
	}
	readsCount := func(cond ssa.Value) bool {
		for _, m := range maps {
			if condReadsMap(cond, m, 0) {
				return true
			}
		}
		if bo, ok := cond.(*ssa.BinOp); ok && (countParam[bo.X] || countParam[bo.Y]) {
			return true
		}
		return false
	}
	found := false
	for _, s := range errorSites(append([]*ssa.Function{fn}, fn.AnonFuncs...)) {
		for d := s.call.Block(); d != nil; d = d.Idom() {
			id := d.Idom()
			if id == nil {
				break
			}
			if iff, ok := id.Instrs[len(id.Instrs)-1].(*ssa.If); ok && readsCount(iff.Cond) {
				found = true
			}
		}
	}
	r.Check(found, "R11.6", key, "tags are counted per name and a count above one is an error")
}

// ---- R11.8 ----

func fieldAtoms(cond ssa.Value, edge bool) []string {
	neg := false
	for {
		if u, ok := cond.(*ssa.UnOp); ok && u.Op == token.NOT {
			cond, neg = u.X, !neg
			continue
		}
		break
	}
	if neg {
		edge = !edge
	}
	b, ok := cond.(*ssa.BinOp)
	if !ok {
		return []string{"?"}
	}
	fieldOf := func(v ssa.Value) string {
		switch x := v.(type) {
		case *ssa.UnOp:
			if fa, ok := x.X.(*ssa.FieldAddr); ok {
				return fieldName(fa)
			}
		case *ssa.Field:
			if s, ok := x.X.Type().Underlying().(*types.Struct); ok {
				return s.Field(x.Field).Name()
			}
		case *ssa.Call:
			if bi, ok := x.Call.Value.(*ssa.Builtin); ok && bi.Name() == "len" {
				switch y := x.Call.Args[0].(type) {
				case *ssa.UnOp:
					if fa, ok := y.X.(*ssa.FieldAddr); ok {
						return "len(" + fieldName(fa) + ")"
					}
				case *ssa.Field:
					if s, ok := y.X.Type().Underlying().(*types.Struct); ok {
						return "len(" + s.Field(y.Field).Name() + ")"
					}
				}
			}
		}
		return ""
	}
	switch b.Op {
	case token.EQL, token.NEQ:
		eq := (b.Op == token.EQL) == edge
		if k, ok := constInt(b.Y); ok && k == 0 {
			if f := fieldOf(b.X); strings.HasPrefix(f, "len(") {
				if eq {
					return []string{f + "==0"}
				}
				return []string{f + ">0"}
			}
		}
		if isNilConst(b.Y) {
			if f := fieldOf(b.X); f != "" {
				if eq {
					return []string{f + "==nil"}
				}
				return []string{f + "!=nil"}
			}
		}
	case token.GTR:
		if k, ok := constInt(b.Y); ok && k == 0 {
			if f := fieldOf(b.X); f != "" {
				if edge {
					return []string{f + ">0"}
				}
				return []string{f + "==0"}
			}
		}
	}
	return []string{"?"}
}

func c11Creation(e *Env) {
	r := e.R
	key := inputRel + ".ValidateConstructorType"
	fn := e.P.Func(inputRel, "ValidateConstructorType")
	if fn == nil {
		r.Undecide("R11.8", key, "anchor not found")
		return
	}
	want := map[string]string{
		"Constructor==nil,Type==nil,Value==nil": "missing creation method",
		"Constructor!=nil,Value!=nil":           "constructor and value together",
		"Constructor==nil,len(Args)>0":          "arguments without constructor",
	}
	got := map[string]bool{}
	for _, s := range errorSites([]*ssa.Function{fn}) {
		var atoms []string
		for d := s.call.Block(); d != nil; d = d.Idom() {
			id := d.Idom()
			if id == nil {
				break
			}
			iff, ok := id.Instrs[len(id.Instrs)-1].(*ssa.If)
			if !ok || len(d.Preds) != 1 {
				continue
			}
			atoms = append(atoms, fieldAtoms(iff.Cond, d == id.Succs[0])...)
		}
		sort.Strings(atoms)
		k := strings.Join(atoms, ",")
		if what, ok := want[k]; ok {
			got[k] = true
			r.Hold("R11.8", key+"#"+what, "guarded by "+k, e.P.Pos(s.call.Pos()))
		} else {
			r.Violate("R11.8", key+"#unexpected-site["+k+"]", "an error site whose guards are none of the three documented creation-method rules", nil, e.P.Pos(s.call.Pos()))
		}
	}
	for k, what := range want {
		if !got[k] {
			r.Violate("R11.8", key+"#"+what, "no error site with the guards "+k, nil)
		}
	}
}

// ---- R11.9 ----

func c11Unmarshal(e *Env) {
	r := e.R
	// Call
	fn := e.P.Func(inputRel, "Call.UnmarshalYAML")
	key := inputRel + ".Call.UnmarshalYAML"
	if fn == nil {
		r.Undecide("R11.9", key, "anchor not found")
	} else {
		asserts := map[string]bool{}
		for _, b := range unitBlocks(fn, 2) {
			for _, ins := range b.Instrs {
				if ta, ok := ins.(*ssa.TypeAssert); ok && ta.CommaOk {
					idx := "?"
					if ld, ok := ta.X.(*ssa.UnOp); ok {
						if ia, ok := ld.X.(*ssa.IndexAddr); ok {
							if k, ok := constInt(ia.Index); ok {
								idx = fmt.Sprint(k)
							}
						}
					}
					asserts[idx+":"+ta.AssertedType.String()] = true
				}
			}
		}
		okA := asserts["0:string"] && (asserts["1:[]any"] || asserts["1:[]interface{}"]) && asserts["2:bool"] && len(asserts) == 3
		r.Check(okA, "R11.9", key+"#element-kinds", fmt.Sprintf("element 0 is a string, 1 a sequence, 2 a bool, each by a checked assertion (found %v)", keysOf(asserts)))
		sites := errorSites(unitFns(fn, 2))
		r.Check(len(sites) >= 4, "R11.9", key+"#errors", fmt.Sprintf("arity and every failed assertion are errors (%d error sites)", len(sites)))
		// arity 1..3
		lo, hi := false, false
		for _, b := range unitBlocks(fn, 2) {
			if iff, ok := b.Instrs[len(b.Instrs)-1].(*ssa.If); ok {
				if bo, ok := iff.Cond.(*ssa.BinOp); ok {
					if k, ok := constInt(bo.Y); ok {
						if bo.Op == token.EQL && k == 0 {
							lo = true
						}
						if bo.Op == token.GTR && k == 3 {
							hi = true
						}
						if bo.Op == token.LSS && k == 1 {
							lo = true
						}
						if bo.Op == token.GEQ && k == 4 {
							hi = true
						}
					}
				}
			}
		}
		r.Check(lo && hi, "R11.9", key+"#arity", "a call has 1 to 3 elements")
	}
	// Tag
	if fn := e.P.Func(inputRel, "Tag.UnmarshalYAML"); fn != nil {
		key := inputRel + ".Tag.UnmarshalYAML"
		asserts := map[string]bool{}
		for _, b := range unitBlocks(fn, 2) {
			for _, ins := range b.Instrs {
				if ta, ok := ins.(*ssa.TypeAssert); ok && ta.CommaOk {
					asserts[ta.AssertedType.String()] = true
				}
			}
		}
		okT := asserts["string"] && asserts["int"] && (asserts["map[string]interface{}"] || asserts["map[string]any"])
		r.Check(okT, "R11.9", key+"#shapes", fmt.Sprintf("a tag is a string or a mapping; name is a string, priority an int (assertions %v)", keysOf(asserts)))
		sites := errorSites(unitFns(fn, 2))
		r.Check(len(sites) >= 4, "R11.9", key+"#errors", fmt.Sprintf("missing name, wrong kinds and unknown node kinds are errors (%d error sites)", len(sites)))
	} else {
		r.Undecide("R11.9", inputRel+".Tag.UnmarshalYAML", "anchor not found")
	}
	c05Keywords(e)
	isPrimitiveRule(e, "R11.9")
}

func keysOf(m map[string]bool) []string {
	var s []string
	for k := range m {
		s = append(s, k)
	}
	sort.Strings(s)
	return s
}

// c11Sanitise: R11.7 / R14.3 — every import reference handed to the alias table was sanitised.
var c11Sanitise = func(e *Env) {}

// isPrimitiveRule: types.IsPrimitive returns true for nil and exactly the scalar kinds YAML produces.
func isPrimitiveRule(e *Env, rule string) {
	r := e.R
	key := ""
	// IsPrimitive kinds
	fd, pk := e.P.Decl("internal/pkg/types", "IsPrimitive")
	key = "internal/pkg/types.IsPrimitive"
	if fd == nil {
		r.Undecide(rule, key, "anchor not found")
		return
	}
	want := map[string]bool{"String": true, "Bool": true, "Int": true, "Int8": true, "Int16": true, "Int32": true, "Int64": true,
		"Uint": true, "Uint8": true, "Uint16": true, "Uint32": true, "Uint64": true, "Float32": true, "Float64": true}
	got := map[string]bool{}
	nilOK := false
	// the function and the helpers of its package it calls (isPrimitiveKind(k))
	bodies := []*ast.BlockStmt{fd.Body}
	ast.Inspect(fd.Body, func(n ast.Node) bool {
		if call, ok := n.(*ast.CallExpr); ok {
			if callee, ok := load.Callee(pk.TypesInfo, call).(*types.Func); ok && callee.Pkg() == pk.Types {
				if hd, _ := e.P.DeclOf(callee); hd != nil && hd.Body != nil && hd != fd {
					bodies = append(bodies, hd.Body)
				}
			}
		}
		return true
	})
	// `return v == nil || …`
	ast.Inspect(fd.Body, func(n ast.Node) bool {
		if rs, ok := n.(*ast.ReturnStmt); ok && len(rs.Results) == 1 {
			if be, ok := ast.Unparen(rs.Results[0]).(*ast.BinaryExpr); ok && be.Op == token.LOR {
				if l, ok := ast.Unparen(be.X).(*ast.BinaryExpr); ok && l.Op == token.EQL {
					if id, ok := ast.Unparen(l.Y).(*ast.Ident); ok && id.Name == "nil" {
						nilOK = true
					}
				}
			}
		}
		return true
	})
	for _, body := range bodies {
		ast.Inspect(body, func(n ast.Node) bool {
			switch x := n.(type) {
			case *ast.CaseClause:
				returnsTrue := false
				for _, s := range x.Body {
					if rs, ok := s.(*ast.ReturnStmt); ok && len(rs.Results) == 1 {
						if tv, ok := pk.TypesInfo.Types[rs.Results[0]]; ok && tv.Value != nil && tv.Value.String() == "true" {
							returnsTrue = true
						}
					}
				}
				if returnsTrue {
					for _, c := range x.List {
						if se, ok := ast.Unparen(c).(*ast.SelectorExpr); ok {
							got[se.Sel.Name] = true
						}
					}
				}
			case *ast.IfStmt:
				if be, ok := ast.Unparen(x.Cond).(*ast.BinaryExpr); ok && be.Op == token.EQL {
					if id, ok := ast.Unparen(be.Y).(*ast.Ident); ok && id.Name == "nil" {
						for _, s := range x.Body.List {
							if rs, ok := s.(*ast.ReturnStmt); ok && len(rs.Results) == 1 {
								if tv, ok := pk.TypesInfo.Types[rs.Results[0]]; ok && tv.Value != nil && tv.Value.String() == "true" {
									nilOK = true
								}
							}
						}
					}
				}
			}
			return true
		})
	}
	for k := range want {
		r.Check(got[k], rule, key+"#kind:"+k, "reflect."+k+" is a primitive (YAML scalars of this kind are accepted as parameters and arguments)")
	}
	for k := range got {
		if !want[k] {
			r.Violate(rule, key+"#kind:"+k, "a non-scalar kind is accepted as primitive: it reaches the exporter / token code unvalidated", nil)
		}
	}
	r.Check(nilOK, rule, key+"#nil", "null is a primitive")
}
