package rx

import "testing"

func TestBasics(t *testing.T) {
	cases := []struct {
		a, b string
		same bool
	}{
		{`[a-z]+`, `[a-z][a-z]*`, true},
		{`a|b`, `a`, false},
		{`[A-Za-z]((\.|-|_)?[A-Za-z0-9])*`, `[A-Za-z]([._-]?[A-Za-z0-9])*`, true},
		{`[A-Za-z]((\.|-|_)?[A-Za-z0-9])*\.?`, `[A-Za-z]([._-]?[A-Za-z0-9])*`, false},
		{`x.*y`, `x[^\n]*y`, true},
		{`(\&)?a`, `[&*]?a`, false},
	}
	for _, c := range cases {
		w, diff, err := Diff(MustParse(c.a, true), MustParse(c.b, true))
		if err != nil {
			t.Fatal(err)
		}
		if diff == c.same {
			t.Errorf("%q vs %q: diff=%v witness %q", c.a, c.b, diff, w)
		} else {
			t.Logf("%q vs %q: diff=%v witness %q", c.a, c.b, diff, w)
		}
	}
	// $ vs \z
	l1, _ := Parse(`\A(ab)$`, false)
	l2, _ := Parse(`\A(ab)\z`, false)
	if w, d, _ := Search(l1, l2, Full, Full, func(a, b bool) bool { return a != b }); d {
		t.Errorf("$ vs \\z differ on %q", w)
	}
	// prefix mode
	p, _ := Parse(`\A(@)`, false)
	q := MustParse(`(?s)@.*`, true)
	if w, d, _ := Search(p, q, Prefix, Full, func(a, b bool) bool { return a != b }); d {
		t.Errorf("prefix @ vs @.* differ on %q", w)
	}
	if s, ok := Shortest(MustParse(`[0-9]{2}x`, true)); !ok || len(s) != 3 {
		t.Errorf("shortest %q", s)
	}
}
