// Package rx is engine R: decisions about regular languages (equality, inclusion,
// emptiness of an intersection, shortest members) over ALL strings, by on-the-fly
// determinisation of the Thompson programs regexp/syntax compiles.
package rx

import (
	"fmt"
	"regexp/syntax"
	"sort"
	"strings"
)

type Lang struct {
	Src  string
	prog *syntax.Prog
}

// Parse compiles a Go (RE2) regular expression. The language is the set of strings s for which
// the expression matches s *entirely* when full is true (the expression is wrapped in \A(?:…)\z),
// otherwise the set of strings in which the expression matches at position 0 (prefix match):
// callers must pass expressions that are anchored with \A themselves for that mode.
func Parse(expr string, full bool) (*Lang, error) {
	src := expr
	if full {
		src = `\A(?:` + expr + `)\z`
	}
	re, err := syntax.Parse(src, syntax.Perl)
	if err != nil {
		return nil, err
	}
	re = re.Simplify()
	p, err := syntax.Compile(re)
	if err != nil {
		return nil, err
	}
	for _, in := range p.Inst {
		switch in.Op {
		case syntax.InstEmptyWidth:
			if syntax.EmptyOp(in.Arg)&^(syntax.EmptyBeginText|syntax.EmptyEndText) != 0 {
				return nil, fmt.Errorf("empty-width operator other than \\A, \\z (line or word boundary) is outside the supported subset")
			}
		case syntax.InstRune, syntax.InstRune1:
			if syntax.Flags(in.Arg)&syntax.FoldCase != 0 {
				return nil, fmt.Errorf("case folding is outside the supported subset")
			}
		}
	}
	return &Lang{Src: expr, prog: p}, nil
}

// MustParse panics on error (for the checker's own reference grammars).
func MustParse(expr string, full bool) *Lang {
	l, err := Parse(expr, full)
	if err != nil {
		panic(fmt.Sprintf("reference grammar %q: %v", expr, err))
	}
	return l
}

// state of the subset construction: sorted pcs; pcs of rune instructions and of pending \z assertions.
type state struct {
	pcs    []uint32
	accept bool // some thread reaches Match if the input ends here
	prefix bool // prefix mode: a Match was already reached (everything is accepted from now on)
}

func (s state) key() string {
	var b strings.Builder
	for _, p := range s.pcs {
		fmt.Fprintf(&b, "%d,", p)
	}
	if s.prefix {
		b.WriteString("P")
	}
	return b.String()
}

// closure follows ε-moves from the given pcs. atStart enables \A. Threads blocked on \z are kept
// (they can only continue at the end of the input); accept is computed by additionally following them.
func (l *Lang) closure(start []uint32, atStart bool) state {
	seen := map[uint32]bool{}
	var runePCs []uint32
	var endPCs []uint32
	var visit func(pc uint32, atEnd bool, out *[]uint32, acc *bool, seen map[uint32]bool)
	visit = func(pc uint32, atEnd bool, out *[]uint32, acc *bool, seen map[uint32]bool) {
		if seen[pc] {
			return
		}
		seen[pc] = true
		in := &l.prog.Inst[pc]
		switch in.Op {
		case syntax.InstAlt, syntax.InstAltMatch:
			visit(in.Out, atEnd, out, acc, seen)
			visit(in.Arg, atEnd, out, acc, seen)
		case syntax.InstCapture, syntax.InstNop:
			visit(in.Out, atEnd, out, acc, seen)
		case syntax.InstEmptyWidth:
			op := syntax.EmptyOp(in.Arg)
			if op&syntax.EmptyBeginText != 0 && !atStart {
				return
			}
			if op&syntax.EmptyEndText != 0 && !atEnd {
				endPCs = append(endPCs, pc)
				return
			}
			visit(in.Out, atEnd, out, acc, seen)
		case syntax.InstMatch:
			*acc = true
		case syntax.InstFail:
		default:
			*out = append(*out, pc)
		}
	}
	midAcc := false
	for _, pc := range start {
		visit(pc, false, &runePCs, &midAcc, seen)
	}
	// acceptance at end of input: follow the blocked \z threads, with atStart still valid only for the empty input
	endAcc := midAcc
	if !endAcc {
		seen2 := map[uint32]bool{}
		var dummy []uint32
		for _, pc := range start {
			visit2(l, pc, atStart, &dummy, &endAcc, seen2)
		}
	}
	st := state{accept: endAcc, prefix: midAcc}
	all := append(append([]uint32{}, runePCs...), endPCs...)
	sort.Slice(all, func(i, j int) bool { return all[i] < all[j] })
	st.pcs = dedup(all)
	return st
}

// visit2 is the end-of-input closure (all assertions that hold at the end are followed).
func visit2(l *Lang, pc uint32, atStart bool, out *[]uint32, acc *bool, seen map[uint32]bool) {
	if seen[pc] {
		return
	}
	seen[pc] = true
	in := &l.prog.Inst[pc]
	switch in.Op {
	case syntax.InstAlt, syntax.InstAltMatch:
		visit2(l, in.Out, atStart, out, acc, seen)
		visit2(l, in.Arg, atStart, out, acc, seen)
	case syntax.InstCapture, syntax.InstNop:
		visit2(l, in.Out, atStart, out, acc, seen)
	case syntax.InstEmptyWidth:
		op := syntax.EmptyOp(in.Arg)
		if op&syntax.EmptyBeginText != 0 && !atStart {
			return
		}
		visit2(l, in.Out, atStart, out, acc, seen)
	case syntax.InstMatch:
		*acc = true
	}
}

func dedup(s []uint32) []uint32 {
	var out []uint32
	for i, x := range s {
		if i == 0 || x != s[i-1] {
			out = append(out, x)
		}
	}
	return out
}

func (l *Lang) start() state { return l.closure([]uint32{uint32(l.prog.Start)}, true) }

func (l *Lang) step(s state, r rune) state {
	var next []uint32
	for _, pc := range s.pcs {
		in := &l.prog.Inst[pc]
		switch in.Op {
		case syntax.InstRune, syntax.InstRune1, syntax.InstRuneAny, syntax.InstRuneAnyNotNL:
			if in.MatchRune(r) {
				next = append(next, in.Out)
			}
		}
	}
	ns := l.closure(next, false)
	return ns
}

// boundaries returns representative runes: one per interval of the partition induced by every
// rune range of the given programs.
func boundaries(ls ...*Lang) []rune {
	cut := map[rune]bool{0: true, '\n': true, '\n' + 1: true}
	for _, l := range ls {
		for _, in := range l.prog.Inst {
			switch in.Op {
			case syntax.InstRune, syntax.InstRune1:
				if len(in.Rune) == 1 {
					cut[in.Rune[0]] = true
					cut[in.Rune[0]+1] = true
					continue
				}
				for i := 0; i+1 < len(in.Rune); i += 2 {
					cut[in.Rune[i]] = true
					cut[in.Rune[i+1]+1] = true
				}
			}
		}
	}
	var rs []rune
	for r := range cut {
		if r >= 0 && r <= 0x10FFFF {
			rs = append(rs, r)
		}
	}
	sort.Slice(rs, func(i, j int) bool { return rs[i] < rs[j] })
	// prefer printable representatives: order so that letters come first (shortest witnesses read better)
	sort.SliceStable(rs, func(i, j int) bool { return rank(rs[i]) < rank(rs[j]) })
	return rs
}

func rank(r rune) int {
	switch {
	case r >= 'a' && r <= 'z':
		return 0
	case r >= 'A' && r <= 'Z':
		return 1
	case r >= '0' && r <= '9':
		return 2
	case r > ' ' && r < 127:
		return 3
	}
	return 4
}

// Mode of acceptance per language: full (accept at end) or prefix (accept once a match was reached).
type Mode int

const (
	Full Mode = iota
	Prefix
)

func accepts(s state, m Mode) bool {
	if m == Prefix {
		return s.prefix || s.accept
	}
	return s.accept
}

// Search explores the product automaton breadth-first and returns the shortest string w with
// pred(w ∈ L1, w ∈ L2) true, or ok=false if none exists. limit bounds the explored product states.
func Search(l1, l2 *Lang, m1, m2 Mode, pred func(a, b bool) bool) (witness string, ok bool, err error) {
	alpha := boundaries(l1, l2)
	type node struct {
		s1, s2 state
		p1, p2 bool // sticky prefix acceptance
		prev   int
		r      rune
	}
	s1, s2 := l1.start(), l2.start()
	nodes := []node{{s1: s1, s2: s2, p1: m1 == Prefix && accepts(s1, m1), p2: m2 == Prefix && accepts(s2, m2), prev: -1}}
	seen := map[string]bool{}
	keyOf := func(n node) string { return fmt.Sprintf("%s|%v|%s|%v", n.s1.key(), n.p1, n.s2.key(), n.p2) }
	seen[keyOf(nodes[0])] = true
	for i := 0; i < len(nodes); i++ {
		n := nodes[i]
		a := n.p1 || accepts(n.s1, m1)
		b := n.p2 || accepts(n.s2, m2)
		if pred(a, b) {
			var rs []rune
			for j := i; nodes[j].prev >= 0; j = nodes[j].prev {
				rs = append(rs, nodes[j].r)
			}
			for x, y := 0, len(rs)-1; x < y; x, y = x+1, y-1 {
				rs[x], rs[y] = rs[y], rs[x]
			}
			return string(rs), true, nil
		}
		if len(nodes) > 200000 {
			return "", false, fmt.Errorf("product automaton exceeds 200000 states")
		}
		for _, r := range alpha {
			t1, t2 := l1.step(n.s1, r), l2.step(n.s2, r)
			nn := node{s1: t1, s2: t2, p1: n.p1 || (m1 == Prefix && accepts(n.s1, m1)), p2: n.p2 || (m2 == Prefix && accepts(n.s2, m2)), prev: i, r: r}
			// dead in both and no sticky acceptance: prune
			if len(t1.pcs) == 0 && len(t2.pcs) == 0 && !nn.p1 && !nn.p2 && !t1.accept && !t2.accept {
				continue
			}
			k := keyOf(nn)
			if seen[k] {
				continue
			}
			seen[k] = true
			nodes = append(nodes, nn)
		}
	}
	return "", false, nil
}

// Diff returns a shortest string that is in exactly one of the two languages.
func Diff(l1, l2 *Lang) (string, bool, error) {
	return Search(l1, l2, Full, Full, func(a, b bool) bool { return a != b })
}

// NotIncluded returns a shortest string in L1 \ L2.
func NotIncluded(l1, l2 *Lang) (string, bool, error) {
	return Search(l1, l2, Full, Full, func(a, b bool) bool { return a && !b })
}

// Shortest returns a shortest member of L.
func Shortest(l *Lang) (string, bool) {
	w, ok, _ := Search(l, l, Full, Full, func(a, b bool) bool { return a })
	return w, ok
}

// Group returns the sub-expression of the named capture group of expr.
func Group(expr, name string) (string, error) {
	re, err := syntax.Parse(expr, syntax.Perl)
	if err != nil {
		return "", err
	}
	var found *syntax.Regexp
	var walk func(r *syntax.Regexp)
	walk = func(r *syntax.Regexp) {
		if r.Op == syntax.OpCapture && r.Name == name && found == nil {
			found = r
		}
		for _, s := range r.Sub {
			walk(s)
		}
	}
	walk(re)
	if found == nil {
		return "", fmt.Errorf("no capture group %q", name)
	}
	return found.Sub[0].String(), nil
}

// GroupNames lists the named capture groups of expr.
func GroupNames(expr string) []string {
	re, err := syntax.Parse(expr, syntax.Perl)
	if err != nil {
		return nil
	}
	var out []string
	var walk func(r *syntax.Regexp)
	walk = func(r *syntax.Regexp) {
		if r.Op == syntax.OpCapture && r.Name != "" {
			out = append(out, r.Name)
		}
		for _, s := range r.Sub {
			walk(s)
		}
	}
	walk(re)
	return out
}
