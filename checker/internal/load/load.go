// Package load is engine L: it loads the repository under analysis with
// go/packages (syntax + types for the module and all dependencies), builds
// go/ssa with instantiated generics and offers lookup helpers keyed by
// package-relative paths and names (never by line or text).
package load

import (
	"fmt"
	"go/ast"
	"go/token"
	"go/types"
	"os"
	"path/filepath"
	"sort"
	"strings"

	"golang.org/x/tools/go/packages"
	"golang.org/x/tools/go/ssa"
	"golang.org/x/tools/go/ssa/ssautil"
)

const RuntimeMod = "github.com/gontainer/gontainer-helpers/v3"

type Program struct {
	Dir     string
	ModPath string
	Fset    *token.FileSet
	Roots   []*packages.Package          // packages of the module under analysis
	All     map[string]*packages.Package // every loaded package by import path
	SSA     *ssa.Program
	SSAPkg  map[string]*ssa.Package
	funcs   []*ssa.Function // source functions of the module (incl. anonymous, instantiations)
	RTDir   string          // directory of the pinned runtime module
	base    *Baseline       // names/signatures of the tree the rules were confirmed on (rename recovery)
	cur     *Baseline
	Renamed map[string]string // baseline anchor -> current name, for every recovery that was applied
}

// RepoExtra are the packages the templates import (runtime + std), loaded with the repository.
var RepoExtra = []string{
	RuntimeMod + "/caller", RuntimeMod + "/copier", RuntimeMod + "/container",
	RuntimeMod + "/exporter", RuntimeMod + "/grouperror", RuntimeMod + "/container/graph",
	"context", "errors", "fmt", "os", "reflect", "strconv"}

// Load loads ./... of dir plus the extra patterns.
func Load(dir string, withSSA bool, extra ...string) (*Program, error) {
	env := append(os.Environ(),
		"GOFLAGS=-mod=mod", "GOPROXY=off", "GOSUMDB=off", "GOWORK=off", "GOTOOLCHAIN=local")
	fset := token.NewFileSet()
	cfg := &packages.Config{
		Mode: packages.NeedName | packages.NeedFiles | packages.NeedCompiledGoFiles |
			packages.NeedImports | packages.NeedDeps | packages.NeedTypes | packages.NeedSyntax |
			packages.NeedTypesInfo | packages.NeedTypesSizes | packages.NeedModule,
		Dir:   dir,
		Env:   env,
		Fset:  fset,
		Tests: false,
	}
	patterns := append([]string{"./..."}, extra...)
	pkgs, err := packages.Load(cfg, patterns...)
	if err != nil {
		return nil, fmt.Errorf("packages.Load: %w", err)
	}
	p := &Program{Dir: dir, Fset: fset, All: map[string]*packages.Package{}, SSAPkg: map[string]*ssa.Package{}}
	var errs []string
	packages.Visit(pkgs, nil, func(pk *packages.Package) {
		p.All[pk.PkgPath] = pk
		for _, e := range pk.Errors {
			errs = append(errs, pk.PkgPath+": "+e.Error())
		}
	})
	if len(errs) > 0 {
		sort.Strings(errs)
		if len(errs) > 10 {
			errs = errs[:10]
		}
		return nil, fmt.Errorf("load/type errors: %s", strings.Join(errs, "; "))
	}
	for _, pk := range pkgs {
		if pk.Module != nil && pk.Module.Main {
			p.Roots = append(p.Roots, pk)
			p.ModPath = pk.Module.Path
		}
		if pk.Module != nil && pk.Module.Path == RuntimeMod {
			p.RTDir = pk.Module.Dir
		}
	}
	sort.Slice(p.Roots, func(i, j int) bool { return p.Roots[i].PkgPath < p.Roots[j].PkgPath })
	if len(p.Roots) == 0 {
		return nil, fmt.Errorf("no module packages loaded from %s", dir)
	}
	if withSSA {
		var all []*packages.Package
		for _, pk := range p.All {
			all = append(all, pk)
		}
		sort.Slice(all, func(i, j int) bool { return all[i].PkgPath < all[j].PkgPath })
		prog, spkgs := ssautil.AllPackages(all, ssa.InstantiateGenerics)
		prog.Build()
		p.SSA = prog
		for i, sp := range spkgs {
			if sp != nil {
				p.SSAPkg[all[i].PkgPath] = sp
			}
		}
		for fn := range ssautil.AllFunctions(prog) {
			if p.InModule(fn) && fn.Syntax() != nil {
				p.funcs = append(p.funcs, fn)
			}
		}
		sort.Slice(p.funcs, func(i, j int) bool {
			a, b := p.funcs[i], p.funcs[j]
			if a.String() != b.String() {
				return a.String() < b.String()
			}
			return a.Pos() < b.Pos()
		})
	}
	return p, nil
}

// InModule reports whether fn (or, for an instantiation or closure, its origin /
// enclosing function) is declared in the module under analysis.
func (p *Program) InModule(fn *ssa.Function) bool {
	for fn.Parent() != nil {
		fn = fn.Parent()
	}
	if o := fn.Origin(); o != nil {
		fn = o
	}
	if fn.Pkg == nil || fn.Pkg.Pkg == nil {
		return false
	}
	return p.IsModPath(fn.Pkg.Pkg.Path())
}

func (p *Program) IsModPath(path string) bool {
	return path == p.ModPath || strings.HasPrefix(path, p.ModPath+"/")
}

// Rel returns the module-relative path of a package path ("" for the root).
func (p *Program) Rel(path string) string {
	if path == p.ModPath {
		return "."
	}
	return strings.TrimPrefix(path, p.ModPath+"/")
}

// Funcs returns all source functions of the module in a stable order.
func (p *Program) Funcs() []*ssa.Function { return p.funcs }

// Pkg returns the module package with the given module-relative path.
func (p *Program) Pkg(rel string) *packages.Package {
	if rel == "." || rel == "" {
		return p.All[p.ModPath]
	}
	return p.All[p.ModPath+"/"+rel]
}

// Obj looks up a package-level object.
func (p *Program) Obj(rel, name string) types.Object {
	name = p.Resolve(rel, name)
	pk := p.Pkg(rel)
	if pk == nil || pk.Types == nil {
		return nil
	}
	return pk.Types.Scope().Lookup(name)
}

// Func returns the SSA function for a package-level function or "Type.Method".
func (p *Program) Func(rel, name string) *ssa.Function {
	name = p.Resolve(rel, name)
	pk := p.Pkg(rel)
	if pk == nil {
		return nil
	}
	sp := p.SSAPkg[pk.PkgPath]
	if sp == nil {
		return nil
	}
	if i := strings.Index(name, "."); i >= 0 {
		tn, mn := name[:i], name[i+1:]
		obj := pk.Types.Scope().Lookup(tn)
		if obj == nil {
			return nil
		}
		for _, t := range []types.Type{obj.Type(), types.NewPointer(obj.Type())} {
			ms := p.SSA.MethodSets.MethodSet(t)
			for j := 0; j < ms.Len(); j++ {
				if ms.At(j).Obj().Name() == mn {
					fn := p.SSA.MethodValue(ms.At(j))
					// unwrap pointer-receiver wrappers of value methods
					if fn != nil && fn.Synthetic != "" {
						continue
					}
					return fn
				}
			}
		}
		return nil
	}
	return sp.Func(name)
}

// Decl returns the AST declaration of a function given by rel + name ("F" or "T.M").
func (p *Program) Decl(rel, name string) (*ast.FuncDecl, *packages.Package) {
	name = p.Resolve(rel, name)
	pk := p.Pkg(rel)
	if pk == nil {
		return nil, nil
	}
	tn, mn := "", name
	if i := strings.Index(name, "."); i >= 0 {
		tn, mn = name[:i], name[i+1:]
	}
	for _, f := range pk.Syntax {
		for _, d := range f.Decls {
			fd, ok := d.(*ast.FuncDecl)
			if !ok || fd.Name.Name != mn {
				continue
			}
			if tn == "" && fd.Recv == nil {
				return fd, pk
			}
			if tn != "" && fd.Recv != nil && len(fd.Recv.List) == 1 && recvName(fd.Recv.List[0].Type) == tn {
				return fd, pk
			}
		}
	}
	return nil, pk
}

func recvName(e ast.Expr) string {
	switch x := e.(type) {
	case *ast.StarExpr:
		return recvName(x.X)
	case *ast.Ident:
		return x.Name
	case *ast.IndexExpr:
		return recvName(x.X)
	case *ast.IndexListExpr:
		return recvName(x.X)
	case *ast.ParenExpr:
		return recvName(x.X)
	}
	return ""
}

// FuncKey returns a stable, line-free key for a function: rel/pkg.(Recv).Name[$n].
func (p *Program) FuncKey(fn *ssa.Function) string {
	if fn == nil {
		return "<nil>"
	}
	s := fn.String()
	s = strings.ReplaceAll(s, p.ModPath+"/", "")
	s = strings.ReplaceAll(s, p.ModPath, ".")
	return s
}

// DeclKey gives a stable key for an AST function declaration.
func DeclKey(rel string, fd *ast.FuncDecl) string {
	if fd.Recv != nil && len(fd.Recv.List) == 1 {
		return rel + "." + recvName(fd.Recv.List[0].Type) + "." + fd.Name.Name
	}
	return rel + "." + fd.Name.Name
}

// Pos renders a position relative to the repository directory.
func (p *Program) Pos(pos token.Pos) string {
	if !pos.IsValid() {
		return ""
	}
	ps := p.Fset.Position(pos)
	f := ps.Filename
	if r, err := filepath.Rel(p.Dir, f); err == nil && !strings.HasPrefix(r, "..") {
		f = r
	}
	return fmt.Sprintf("%s:%d", f, ps.Line)
}

// EachModFile calls fn for every non-test syntax file of the module.
func (p *Program) EachModFile(fn func(pk *packages.Package, f *ast.File)) {
	for _, pk := range p.Roots {
		for _, f := range pk.Syntax {
			fn(pk, f)
		}
	}
}

// EachFuncDecl calls fn for every function declaration of the module.
func (p *Program) EachFuncDecl(fn func(pk *packages.Package, rel string, fd *ast.FuncDecl)) {
	for _, pk := range p.Roots {
		for _, f := range pk.Syntax {
			for _, d := range f.Decls {
				if fd, ok := d.(*ast.FuncDecl); ok {
					fn(pk, p.Rel(pk.PkgPath), fd)
				}
			}
		}
	}
}

// ConstString returns the folded string value of a package-level constant.
func (p *Program) ConstString(rel, name string) (string, bool) {
	o := p.Obj(rel, name)
	c, ok := o.(*types.Const)
	if !ok {
		return "", false
	}
	return constStr(c)
}
