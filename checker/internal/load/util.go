package load

import (
	"go/ast"
	"go/constant"
	"go/types"
	"strings"

	"golang.org/x/tools/go/packages"
)

func constStr(c *types.Const) (string, bool) {
	if c.Val().Kind() != constant.String {
		return "", false
	}
	return constant.StringVal(c.Val()), true
}

// StringOf returns the constant string value of an expression, if it has one.
func StringOf(info *types.Info, e ast.Expr) (string, bool) {
	tv, ok := info.Types[e]
	if !ok || tv.Value == nil || tv.Value.Kind() != constant.String {
		return "", false
	}
	return constant.StringVal(tv.Value), true
}

// Callee resolves the static callee object of a call (function, method, or nil).
func Callee(info *types.Info, call *ast.CallExpr) types.Object {
	fun := ast.Unparen(call.Fun)
	switch f := fun.(type) {
	case *ast.Ident:
		return info.Uses[f]
	case *ast.SelectorExpr:
		if sel, ok := info.Selections[f]; ok {
			return sel.Obj()
		}
		return info.Uses[f.Sel]
	case *ast.IndexExpr:
		if id, ok := ast.Unparen(f.X).(*ast.Ident); ok {
			return info.Uses[id]
		}
		if se, ok := ast.Unparen(f.X).(*ast.SelectorExpr); ok {
			return info.Uses[se.Sel]
		}
	case *ast.IndexListExpr:
		if id, ok := ast.Unparen(f.X).(*ast.Ident); ok {
			return info.Uses[id]
		}
		if se, ok := ast.Unparen(f.X).(*ast.SelectorExpr); ok {
			return info.Uses[se.Sel]
		}
	}
	return nil
}

// IsFunc reports whether obj is the function pkgPath.name (package-level) or,
// when recv != "", the method recv.name declared in pkgPath.
func IsFunc(obj types.Object, pkgPath, recv, name string) bool {
	fn, ok := obj.(*types.Func)
	if !ok || fn.Name() != name || fn.Pkg() == nil || fn.Pkg().Path() != pkgPath {
		return false
	}
	sig := fn.Type().(*types.Signature)
	if recv == "" {
		return sig.Recv() == nil
	}
	if sig.Recv() == nil {
		return false
	}
	t := sig.Recv().Type()
	if p, ok := t.(*types.Pointer); ok {
		t = p.Elem()
	}
	if n, ok := t.(*types.Named); ok {
		return n.Obj().Name() == recv
	}
	return false
}

// FileOf returns the *ast.File of pk that contains node n.
func FileOf(pk *packages.Package, n ast.Node) *ast.File {
	for _, f := range pk.Syntax {
		if f.Pos() <= n.Pos() && n.End() <= f.End() {
			return f
		}
	}
	return nil
}

// InModulePath reports whether a package path belongs to the module under analysis.
func (p *Program) InModulePath(path string) bool {
	return path == p.ModPath || strings.HasPrefix(path, p.ModPath+"/")
}

// DeclOf returns the AST declaration of a module function given by its types object.
func (p *Program) DeclOf(f *types.Func) (*ast.FuncDecl, *packages.Package) {
	if f == nil || f.Pkg() == nil {
		return nil, nil
	}
	for _, pk := range p.Roots {
		if pk.Types != f.Pkg() {
			continue
		}
		for _, file := range pk.Syntax {
			for _, d := range file.Decls {
				if fd, ok := d.(*ast.FuncDecl); ok && pk.TypesInfo.Defs[fd.Name] == f {
					return fd, pk
				}
			}
		}
	}
	return nil, nil
}
