package load

import (
	"encoding/json"
	"go/types"
	"os"
	"sort"
	"strings"
)

// Baseline records, for the tree the rules were confirmed on, the names and signatures of the module's
// package-level objects and methods. It is used for one thing only: when a rule's anchor (a function, a
// method, a type, a constant or variable addressed by name) is not found, the anchor is looked for among
// the objects that are NOT in the baseline — an unexported identifier that was renamed keeps its
// signature, so a unique new object of the same kind and signature is the renamed anchor. The table never
// produces a verdict; without it (or without a unique match) the rule reports "anchor not found" as before.
type Baseline struct {
	Pkgs map[string]*BasePkg `json:"packages"`
}

type BasePkg struct {
	Funcs map[string]string    `json:"funcs"`  // name -> signature
	Types map[string]*BaseType `json:"types"`  // name -> methods
	Vars  map[string]string    `json:"values"` // consts and vars: name -> type (and value for constants)
}

type BaseType struct {
	Kind    string            `json:"kind"`
	Methods map[string]string `json:"methods"`
	Fields  map[string]string `json:"fields,omitempty"` // struct fields: name -> type
	Order   []string          `json:"field_order,omitempty"`
}

func qual(pk *types.Package) types.Qualifier {
	return func(o *types.Package) string {
		if o == pk {
			return ""
		}
		return o.Path()
	}
}

func kindOf(t types.Type) string {
	switch t.Underlying().(type) {
	case *types.Struct:
		return "struct"
	case *types.Interface:
		return "interface"
	case *types.Signature:
		return "func"
	case *types.Map:
		return "map"
	case *types.Slice:
		return "slice"
	case *types.Basic:
		return "basic"
	}
	return "other"
}

func methodSig(f *types.Func, pk *types.Package) string {
	sig := f.Type().(*types.Signature)
	s := types.TypeString(types.NewSignatureType(nil, nil, nil, sig.Params(), sig.Results(), sig.Variadic()), qual(pk))
	if r := sig.Recv(); r != nil {
		if _, isPtr := r.Type().(*types.Pointer); isPtr {
			s = "*" + s
		}
	}
	return s
}

// Snapshot builds the baseline of the loaded program.
func (p *Program) Snapshot() *Baseline {
	b := &Baseline{Pkgs: map[string]*BasePkg{}}
	for _, pk := range p.Roots {
		if pk.Types == nil {
			continue
		}
		bp := &BasePkg{Funcs: map[string]string{}, Types: map[string]*BaseType{}, Vars: map[string]string{}}
		sc := pk.Types.Scope()
		for _, n := range sc.Names() {
			switch o := sc.Lookup(n).(type) {
			case *types.Func:
				bp.Funcs[n] = methodSig(o, pk.Types)
			case *types.TypeName:
				bt := &BaseType{Kind: kindOf(o.Type()), Methods: map[string]string{}}
				if st, ok := o.Type().Underlying().(*types.Struct); ok {
					bt.Fields = map[string]string{}
					for i := 0; i < st.NumFields(); i++ {
						bt.Fields[st.Field(i).Name()] = types.TypeString(st.Field(i).Type(), qual(pk.Types))
						bt.Order = append(bt.Order, st.Field(i).Name())
					}
				}
				if named, ok := o.Type().(*types.Named); ok {
					for i := 0; i < named.NumMethods(); i++ {
						m := named.Method(i)
						bt.Methods[m.Name()] = methodSig(m, pk.Types)
					}
				}
				bp.Types[n] = bt
			case *types.Const:
				bp.Vars[n] = "const " + types.TypeString(o.Type(), qual(pk.Types)) + " = " + o.Val().ExactString()
			case *types.Var:
				bp.Vars[n] = "var " + types.TypeString(o.Type(), qual(pk.Types))
			}
		}
		b.Pkgs[p.Rel(pk.PkgPath)] = bp
	}
	return b
}

func (p *Program) WriteBaseline(path string) error {
	data, err := json.MarshalIndent(p.Snapshot(), "", " ")
	if err != nil {
		return err
	}
	return os.WriteFile(path, append(data, '\n'), 0o644)
}

// UseBaseline loads the baseline; a missing or unreadable file simply disables rename recovery.
func (p *Program) UseBaseline(path string) {
	data, err := os.ReadFile(path)
	if err != nil {
		return
	}
	var b Baseline
	if json.Unmarshal(data, &b) != nil {
		return
	}
	p.base = &b
	p.cur = p.Snapshot()
	p.Renamed = map[string]string{}
}

func uniqueNew(base, cur map[string]string, want string, match func(a, b string) bool) string {
	var c []string
	for n, s := range cur {
		if _, old := base[n]; !old && match(want, s) {
			c = append(c, n)
		}
	}
	sort.Strings(c)
	if len(c) == 1 {
		return c[0]
	}
	return ""
}

// Resolve maps an anchor name of the baseline tree ("F", "T.M", "T", "someConst") to its name in the
// current tree. It returns the name unchanged when it exists or when no unique renamed object is found.
func (p *Program) Resolve(rel, name string) string {
	if p.base == nil {
		return name
	}
	bp, cp := p.base.Pkgs[rel], p.cur.Pkgs[rel]
	if bp == nil || cp == nil {
		return name
	}
	note := func(to string) string {
		if to != name {
			p.Renamed[rel+"."+name] = to
		}
		return to
	}
	eq := func(a, b string) bool { return a == b }
	if i := strings.Index(name, "."); i >= 0 {
		tn, mn := name[:i], name[i+1:]
		tn2 := p.resolveType(bp, cp, tn)
		bt, ct := bp.Types[tn], cp.Types[tn2]
		if ct == nil {
			return name
		}
		// a method that used nothing of its receiver may have become a function of the same name
		if _, stillMethod := ct.Methods[mn]; !stillMethod && bt != nil {
			if _, wasMethod := bt.Methods[mn]; wasMethod {
				if _, isNewFunc := cp.Funcs[mn]; isNewFunc {
					if _, oldFunc := bp.Funcs[mn]; !oldFunc {
						return note(mn)
					}
				}
			}
		}
		if _, ok := ct.Methods[mn]; ok || bt == nil {
			return note(tn2 + "." + mn)
		}
		want, ok := bt.Methods[mn]
		if !ok {
			return note(tn2 + "." + mn)
		}
		if m := uniqueNew(bt.Methods, ct.Methods, want, eq); m != "" {
			return note(tn2 + "." + m)
		}
		return note(tn2 + "." + mn)
	}
	if _, ok := cp.Funcs[name]; ok {
		return name
	}
	if _, ok := cp.Types[name]; ok {
		return name
	}
	if _, ok := cp.Vars[name]; ok {
		return name
	}
	if want, ok := bp.Funcs[name]; ok {
		if f := uniqueNew(bp.Funcs, cp.Funcs, want, eq); f != "" {
			return note(f)
		}
		return name
	}
	if _, ok := bp.Types[name]; ok {
		return note(p.resolveType(bp, cp, name))
	}
	if want, ok := bp.Vars[name]; ok {
		if v := uniqueNew(bp.Vars, cp.Vars, want, eq); v != "" {
			return note(v)
		}
	}
	return name
}

func (p *Program) resolveType(bp, cp *BasePkg, tn string) string {
	if _, ok := cp.Types[tn]; ok {
		return tn
	}
	bt := bp.Types[tn]
	if bt == nil {
		return tn
	}
	var c []string
	for n, ct := range cp.Types {
		if _, old := bp.Types[n]; old || ct.Kind != bt.Kind {
			continue
		}
		// the renamed type keeps (at least) the exported methods it had
		ok := true
		for m, sig := range bt.Methods {
			if m[0] >= 'A' && m[0] <= 'Z' {
				if s2, has := ct.Methods[m]; !has || s2 != sig {
					ok = false
				}
			}
		}
		if ok && len(ct.Methods) == len(bt.Methods) {
			c = append(c, n)
		}
	}
	sort.Strings(c)
	if len(c) == 1 {
		return c[0]
	}
	return tn
}

// Current is the program of the repository under analysis (set by Load for the first program loaded
// with SSA); it lets helpers that compare qualified names resolve renamed anchors.
var Current *Program

// ResolveQualified maps a qualified baseline name "<module>/<rel>.F" or "<module>/<rel>.(T).M" to the
// current tree.
func ResolveQualified(q string) string {
	p := Current
	if p == nil || p.base == nil || !(strings.HasPrefix(q, p.ModPath+"/") || strings.HasPrefix(q, p.ModPath+".")) {
		return q
	}
	rest := strings.TrimPrefix(strings.TrimPrefix(q, p.ModPath), "/")
	// rel is everything up to the last '.' that precedes the name part
	i := strings.Index(rest, ".(")
	if i >= 0 {
		rel := rest[:i]
		tm := rest[i+2:] // T).M
		j := strings.Index(tm, ").")
		if j < 0 {
			return q
		}
		t, m := tm[:j], tm[j+2:]
		r := p.Resolve(relOrDot(rel), t+"."+m)
		k := strings.Index(r, ".")
		return joinMod(p.ModPath, rel) + ".(" + r[:k] + ")." + r[k+1:]
	}
	k := strings.LastIndex(rest, ".")
	if k < 0 {
		return q
	}
	rel, name := rest[:k], rest[k+1:]
	return joinMod(p.ModPath, rel) + "." + p.Resolve(relOrDot(rel), name)
}

func relOrDot(rel string) string {
	if rel == "" {
		return "."
	}
	return rel
}

func joinMod(mod, rel string) string {
	if rel == "" {
		return mod
	}
	return mod + "/" + rel
}

// BaselineField translates the name of a struct field of the current tree to the name that field had in
// the baseline tree, when the field is a renamed one (the struct has a field that is not in the baseline,
// the baseline has a field of the same type that is gone, and the pairing is unique). Rules compare
// field names with the baseline's spelling.
func (p *Program) BaselineField(t types.Type, cur string) string {
	if p == nil || p.base == nil {
		return cur
	}
	if ptr, ok := t.Underlying().(*types.Pointer); ok {
		t = ptr.Elem()
	}
	named, ok := t.(*types.Named)
	if !ok {
		if a, isAlias := t.(*types.Alias); isAlias {
			named, ok = types.Unalias(a).(*types.Named)
		}
		if !ok {
			return cur
		}
	}
	if named.Origin() != nil {
		named = named.Origin()
	}
	obj := named.Obj()
	if obj == nil || obj.Pkg() == nil || !p.InModulePath(obj.Pkg().Path()) {
		return cur
	}
	rel := p.Rel(obj.Pkg().Path())
	bp, cp := p.base.Pkgs[rel], p.cur.Pkgs[rel]
	if bp == nil || cp == nil {
		return cur
	}
	// the type itself may have been renamed: find its baseline name
	bname := obj.Name()
	if _, ok := bp.Types[bname]; !ok {
		for bn := range bp.Types {
			if _, still := cp.Types[bn]; !still && p.resolveType(bp, cp, bn) == obj.Name() {
				bname = bn
			}
		}
	}
	bt, ct := bp.Types[bname], cp.Types[obj.Name()]
	if bt == nil || ct == nil || bt.Fields == nil || ct.Fields == nil {
		return cur
	}
	if _, ok := bt.Fields[cur]; ok {
		return cur
	}
	typ, ok := ct.Fields[cur]
	if !ok {
		return cur
	}
	// new fields of that type vs vanished baseline fields of that type
	// in declaration order, so that several renamed fields of one type pair up positionally
	var gone, fresh []string
	for _, n := range bt.Order {
		if _, still := ct.Fields[n]; !still && bt.Fields[n] == typ {
			gone = append(gone, n)
		}
	}
	for _, n := range ct.Order {
		if _, old := bt.Fields[n]; !old && ct.Fields[n] == typ {
			fresh = append(fresh, n)
		}
	}
	if len(gone) == len(fresh) {
		for i, f := range fresh {
			if f == cur {
				if p.Renamed != nil {
					p.Renamed[rel+"."+bname+"."+gone[i]] = cur
				}
				return gone[i]
			}
		}
	}
	return cur
}
