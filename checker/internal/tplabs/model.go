package tplabs

import (
	"fmt"
	"go/ast"
	"go/token"
	"go/types"
	"golang.org/x/tools/go/packages"
	"os"
	"path/filepath"
	"regexp"
	"sort"
	"strconv"
	"strings"
	"text/template/parse"

	"gverif/internal/load"
)

const (
	tplRel   = "internal/pkg/template"
	tplDir   = "internal/pkg/template/templates"
	outRel   = "internal/pkg/output"
	impRel   = "internal/pkg/imports"
	dataName = "data"
)

type FuncModel struct {
	Name    string
	Kind    string // export | aliasArg | aliasConst | isString | isTagged
	Path    string // aliasConst
	TagArg  int    // isTagged: index of the tag argument
	SvcArg  int    // isTagged: index of the service-id argument
	Pos     token.Pos
	Problem string
}

type TplSet struct {
	Name  string   // main template
	Files []string // file names, in ParseFS order
	Trees map[string]*parse.Tree
}

type Env struct {
	subst     map[types.Object]string // parameters of a local factory bound to constants (see applyFactory)
	P         *load.Program
	Body      *TplSet
	Head      *TplSet
	BodyFirst bool
	Funcs     map[string]*FuncModel
	DataType  types.Type
	ImportT   types.Type              // imports.Import
	Methods   map[string]*types.Const // "Scope.IsShared" -> constant compared with
	Problems  []string
	Actions   int
}

// Aliaser is the model of the import-alias table shared by compiler and templates.
type Aliaser interface {
	Alias(path string) string
	Imports() [][2]string // (alias, path), sorted by path
}

// CounterAliaser mirrors the repository's naming scheme (any injective identifier map would do).
type CounterAliaser struct {
	n     int
	table map[string]string
}

var reNoAlnum = regexp.MustCompile("[^a-zA-Z0-9]")

func NewCounterAliaser() *CounterAliaser { return &CounterAliaser{table: map[string]string{}} }

func (a *CounterAliaser) Alias(path string) string {
	if v, ok := a.table[path]; ok {
		return v
	}
	parts := strings.Split(path, "/")
	al := "i" + strconv.FormatInt(int64(a.n), 16) + "_" + reNoAlnum.ReplaceAllString(parts[len(parts)-1], "_")
	a.table[path] = al
	a.n++
	return al
}

func (a *CounterAliaser) Imports() [][2]string {
	var out [][2]string
	for p, al := range a.table {
		out = append(out, [2]string{al, p})
	}
	sort.Slice(out, func(i, j int) bool { return out[i][1] < out[j][1] })
	return out
}

// FixedAliaser serves aliases taken verbatim from an existing file (concrete mode, C19).
type FixedAliaser struct {
	Table   map[string]string // path -> alias
	Missing []string
	used    map[string]bool
}

func (a *FixedAliaser) Alias(path string) string {
	if a.used == nil {
		a.used = map[string]bool{}
	}
	a.used[path] = true
	if v, ok := a.Table[path]; ok {
		return v
	}
	a.Missing = append(a.Missing, path)
	return "missing_alias_" + reNoAlnum.ReplaceAllString(path, "_")
}

func (a *FixedAliaser) Imports() [][2]string {
	var out [][2]string
	for p, al := range a.Table {
		out = append(out, [2]string{al, p})
	}
	sort.Slice(out, func(i, j int) bool { return out[i][1] < out[j][1] })
	return out
}

func (e *Env) problem(format string, a ...any) {
	e.Problems = append(e.Problems, fmt.Sprintf(format, a...))
}

// NewEnv reads templates, FuncMap and method models from the repository.
func NewEnv(p *load.Program) *Env {
	e := &Env{P: p, Funcs: map[string]*FuncModel{}, Methods: map[string]*types.Const{}}
	tp := p.Pkg(tplRel)
	if tp == nil {
		e.problem("package %s not loaded", tplRel)
		return e
	}
	if o := tp.Types.Scope().Lookup(dataName); o != nil {
		e.DataType = o.Type()
	} else {
		e.problem("type %s.%s not found", tplRel, dataName)
	}
	if ip := p.Pkg(impRel); ip != nil {
		if o := ip.Types.Scope().Lookup("Import"); o != nil {
			e.ImportT = o.Type()
		}
	}
	if e.ImportT == nil {
		e.problem("type imports.Import not found")
	}
	e.readBuild(tp.Syntax, tp.TypesInfo)
	e.readFuncMap(tp.Syntax, tp.TypesInfo)
	e.readMethods()
	return e
}

// readBuild finds the tpl{...} literals of Builder.Build: names, patterns, and which executes first.
func (e *Env) readBuild(files []*ast.File, info *types.Info) {
	fd, _ := e.P.Decl(tplRel, "Builder.Build")
	if fd == nil {
		e.problem("Builder.Build not found")
		return
	}
	type tl struct {
		name     string
		patterns []string
		fsys     string
		obj      types.Object
	}
	var lits []tl
	ast.Inspect(fd.Body, func(n ast.Node) bool {
		as, ok := n.(*ast.AssignStmt)
		if !ok || len(as.Rhs) != 1 || len(as.Lhs) != 1 {
			return true
		}
		cl, ok := ast.Unparen(as.Rhs[0]).(*ast.CompositeLit)
		if !ok {
			return true
		}
		t := tl{}
		for _, el := range cl.Elts {
			kv, ok := el.(*ast.KeyValueExpr)
			if !ok {
				continue
			}
			k, _ := kv.Key.(*ast.Ident)
			if k == nil {
				continue
			}
			// the fields are recognised by their types, not their names: the string is the set's name,
			// the []string the patterns, the fs.FS the embedded file system
			role := ""
			switch ft := info.TypeOf(kv.Value); {
			case ft == nil:
			case types.TypeString(ft, nil) == "string" || types.TypeString(ft, nil) == "untyped string":
				role = "name"
			case types.TypeString(ft, nil) == "[]string":
				role = "patterns"
			case types.TypeString(ft, nil) == "embed.FS" || types.TypeString(ft, nil) == "io/fs.FS":
				role = "fsys"
			}
			switch role {
			case "name":
				t.name, _ = load.StringOf(info, kv.Value)
			case "patterns":
				if pl, ok := ast.Unparen(kv.Value).(*ast.CompositeLit); ok {
					for _, pe := range pl.Elts {
						if s, ok := load.StringOf(info, pe); ok {
							t.patterns = append(t.patterns, s)
						}
					}
				}
			case "fsys":
				if se, ok := ast.Unparen(kv.Value).(*ast.SelectorExpr); ok {
					t.fsys = se.Sel.Name
				}
			}
		}
		if t.name != "" && len(t.patterns) > 0 {
			if id, ok := as.Lhs[0].(*ast.Ident); ok {
				t.obj = info.ObjectOf(id)
			}
			lits = append(lits, t)
		}
		return true
	})
	execPos := map[types.Object]token.Pos{}
	if len(lits) == 0 {
		// the sets are built by a local factory: f := func(fsys fs.FS, name string, patterns ...string) T { return T{…} };
		// every call f(templates.X, "name", "pattern"…) is one set, executed in the order of the calls
		var factory types.Object
		var fparams []*ast.Field
		ast.Inspect(fd.Body, func(n ast.Node) bool {
			as, ok := n.(*ast.AssignStmt)
			if !ok || len(as.Lhs) != 1 || len(as.Rhs) != 1 {
				return true
			}
			fl, ok := ast.Unparen(as.Rhs[0]).(*ast.FuncLit)
			if !ok || len(fl.Body.List) != 1 {
				return true
			}
			rs, ok := fl.Body.List[0].(*ast.ReturnStmt)
			if !ok || len(rs.Results) != 1 {
				return true
			}
			if _, ok := ast.Unparen(rs.Results[0]).(*ast.CompositeLit); !ok {
				return true
			}
			if id, ok := as.Lhs[0].(*ast.Ident); ok {
				factory = info.ObjectOf(id)
				fparams = fl.Type.Params.List
			}
			return true
		})
		if factory != nil {
			ast.Inspect(fd.Body, func(n ast.Node) bool {
				call, ok := n.(*ast.CallExpr)
				if !ok {
					return true
				}
				id, ok := ast.Unparen(call.Fun).(*ast.Ident)
				if !ok || info.ObjectOf(id) != factory {
					return true
				}
				t := tl{obj: types.NewVar(call.Pos(), nil, fmt.Sprintf("set@%d", call.Pos()), nil)}
				ai := 0
				for _, f := range fparams {
					names := len(f.Names)
					if names == 0 {
						names = 1
					}
					for k := 0; k < names; k++ {
						ts := types.TypeString(info.TypeOf(f.Type), nil)
						_, variadic := f.Type.(*ast.Ellipsis)
						switch {
						case variadic:
							for ; ai < len(call.Args); ai++ {
								if s, ok := load.StringOf(info, call.Args[ai]); ok {
									t.patterns = append(t.patterns, s)
								}
							}
						case ai < len(call.Args) && ts == "string":
							t.name, _ = load.StringOf(info, call.Args[ai])
							ai++
						case ai < len(call.Args) && (ts == "io/fs.FS" || ts == "embed.FS"):
							if se, ok := ast.Unparen(call.Args[ai]).(*ast.SelectorExpr); ok {
								t.fsys = se.Sel.Name
							}
							ai++
						default:
							ai++
						}
					}
				}
				if t.name != "" && len(t.patterns) > 0 {
					lits = append(lits, t)
					execPos[t.obj] = call.Pos()
				}
				return true
			})
		}
	}
	if len(lits) != 2 {
		e.problem("Builder.Build: expected two template sets (body, head), found %d", len(lits))
		return
	}
	// execution order: positions of the .exec() calls on the two variables
	ast.Inspect(fd.Body, func(n ast.Node) bool {
		call, ok := n.(*ast.CallExpr)
		if !ok {
			return true
		}
		if se, ok := ast.Unparen(call.Fun).(*ast.SelectorExpr); ok {
			// the first method call on a template-set variable executes it
			if id, ok := ast.Unparen(se.X).(*ast.Ident); ok {
				if _, seen := execPos[info.ObjectOf(id)]; !seen {
					execPos[info.ObjectOf(id)] = call.Pos()
				}
			}
		}
		return true
	})
	embeds := e.readEmbeds()
	for _, t := range lits {
		set := &TplSet{Name: t.name, Trees: map[string]*parse.Tree{}}
		dir := filepath.Join(e.P.Dir, tplDir)
		seen := map[string]bool{}
		for _, pat := range t.patterns {
			ms, _ := filepath.Glob(filepath.Join(dir, pat))
			sort.Strings(ms)
			if len(ms) == 0 {
				e.problem("template pattern %q matches no file", pat)
			}
			for _, m := range ms {
				if seen[m] {
					continue
				}
				seen[m] = true
				base := filepath.Base(m)
				if !embedded(embeds[t.fsys], base) {
					e.problem("template file %s is not covered by the go:embed patterns of templates.%s %v", base, t.fsys, embeds[t.fsys])
				}
				set.Files = append(set.Files, base)
				b, err := os.ReadFile(m)
				if err != nil {
					e.problem("%v", err)
					continue
				}
				tr := parse.New(base)
				tr.Mode = parse.SkipFuncCheck | parse.ParseComments
				trees := map[string]*parse.Tree{}
				if _, err := tr.Parse(string(b), "", "", trees); err != nil {
					e.problem("template %s does not parse: %v", base, err)
					continue
				}
				for name, tt := range trees {
					if old, dup := set.Trees[name]; dup && old.Root != nil && tt.Root != nil && len(tt.Root.Nodes) > 0 && !parse.IsEmptyTree(old.Root) && !parse.IsEmptyTree(tt.Root) {
						e.problem("template %q is defined twice", name)
					}
					if _, dup := set.Trees[name]; !dup || !parse.IsEmptyTree(tt.Root) {
						set.Trees[name] = tt
					}
				}
			}
		}
		switch {
		case strings.HasPrefix(t.name, "body"):
			e.Body = set
		case strings.HasPrefix(t.name, "head"):
			e.Head = set
		}
		_ = execPos
	}
	if e.Body == nil || e.Head == nil {
		e.problem("Builder.Build: body/head template sets not identified")
		return
	}
	var bodyPos, headPos token.Pos
	for _, t := range lits {
		if strings.HasPrefix(t.name, "body") {
			bodyPos = execPos[t.obj]
		} else {
			headPos = execPos[t.obj]
		}
	}
	if bodyPos == token.NoPos || headPos == token.NoPos {
		e.problem("Builder.Build: exec calls of the two template sets not found")
	}
	e.BodyFirst = bodyPos < headPos
	for _, s := range []*TplSet{e.Body, e.Head} {
		for _, t := range s.Trees {
			if t.Root != nil {
				countActions(t.Root, &e.Actions)
			}
		}
	}
}

func countActions(n parse.Node, c *int) {
	switch x := n.(type) {
	case *parse.ListNode:
		if x == nil {
			return
		}
		for _, k := range x.Nodes {
			countActions(k, c)
		}
	case *parse.ActionNode, *parse.TemplateNode:
		*c++
	case *parse.IfNode:
		*c++
		countActions(x.List, c)
		if x.ElseList != nil {
			countActions(x.ElseList, c)
		}
	case *parse.RangeNode:
		*c++
		countActions(x.List, c)
		if x.ElseList != nil {
			countActions(x.ElseList, c)
		}
	case *parse.WithNode:
		*c++
		countActions(x.List, c)
		if x.ElseList != nil {
			countActions(x.ElseList, c)
		}
	}
}

func embedded(patterns []string, file string) bool {
	for _, p := range patterns {
		if ok, _ := filepath.Match(p, file); ok {
			return true
		}
	}
	return false
}

// readEmbeds parses the //go:embed directives of the templates package: var name -> patterns.
func (e *Env) readEmbeds() map[string][]string {
	out := map[string][]string{}
	pk := e.P.Pkg(tplDir)
	if pk == nil {
		e.problem("package %s not loaded", tplDir)
		return out
	}
	for _, f := range pk.Syntax {
		for _, d := range f.Decls {
			gd, ok := d.(*ast.GenDecl)
			if !ok || gd.Tok != token.VAR {
				continue
			}
			for _, sp := range gd.Specs {
				vs := sp.(*ast.ValueSpec)
				doc := vs.Doc
				if doc == nil {
					doc = gd.Doc
				}
				if doc == nil {
					continue
				}
				for _, c := range doc.List {
					if strings.HasPrefix(c.Text, "//go:embed ") {
						for _, n := range vs.Names {
							out[n.Name] = append(out[n.Name], strings.Fields(strings.TrimPrefix(c.Text, "//go:embed "))...)
						}
					}
				}
			}
		}
	}
	return out
}

func (e *Env) readFuncMap(files []*ast.File, info *types.Info) {
	fd, _ := e.P.Decl(tplRel, "createDefaultFunctions")
	if fd == nil {
		e.problem("createDefaultFunctions not found")
		return
	}
	params := map[types.Object]int{}
	i := 0
	for _, f := range fd.Type.Params.List {
		for _, n := range f.Names {
			params[info.ObjectOf(n)] = i
			i++
		}
	}
	var fm *ast.CompositeLit
	ast.Inspect(fd.Body, func(n ast.Node) bool {
		if cl, ok := n.(*ast.CompositeLit); ok {
			if t := info.TypeOf(cl); t != nil && strings.HasSuffix(t.String(), "text/template.FuncMap") {
				fm = cl
			}
		}
		return true
	})
	if fm == nil {
		e.problem("FuncMap literal not found in createDefaultFunctions")
		return
	}
	for _, el := range fm.Elts {
		kv, ok := el.(*ast.KeyValueExpr)
		if !ok {
			continue
		}
		name, ok := load.StringOf(info, kv.Key)
		if !ok {
			e.problem("FuncMap key is not a constant string")
			continue
		}
		m := &FuncModel{Name: name, Pos: kv.Pos()}
		e.subst = nil
		fl, ok := ast.Unparen(kv.Value).(*ast.FuncLit)
		if !ok {
			// a local factory applied to constants: f := func(p string) func() string { return func() string { … p … } }; "x": f("c")
			fl = e.applyFactory(info, fd, kv.Value)
		}
		if fl == nil {
			m.Problem = "value is not a function literal (nor a local factory of one applied to constants)"
		} else {
			e.classifyFunc(info, fd, fl, m)
		}
		e.subst = nil
		if m.Problem != "" {
			e.problem("FuncMap entry %q has no model: %s", name, m.Problem)
		}
		e.Funcs[name] = m
	}
}

// applyFactory: value is `f(c1, …)` with f a local variable bound once to a function literal whose body is
// `return func(…) … { … }` and c_i constant strings; returns the inner literal and records the
// substitution parameter -> constant for strEval.
func (e *Env) applyFactory(info *types.Info, outer *ast.FuncDecl, value ast.Expr) *ast.FuncLit {
	call, ok := ast.Unparen(value).(*ast.CallExpr)
	if !ok {
		return nil
	}
	id, ok := ast.Unparen(call.Fun).(*ast.Ident)
	if !ok {
		return nil
	}
	obj := info.ObjectOf(id)
	var factory *ast.FuncLit
	n := 0
	ast.Inspect(outer.Body, func(nd ast.Node) bool {
		as, isA := nd.(*ast.AssignStmt)
		if !isA {
			return true
		}
		for i, l := range as.Lhs {
			if lid, isI := l.(*ast.Ident); isI && info.ObjectOf(lid) == obj && i < len(as.Rhs) {
				n++
				factory, _ = ast.Unparen(as.Rhs[i]).(*ast.FuncLit)
			}
		}
		return true
	})
	if n != 1 || factory == nil || len(factory.Body.List) != 1 {
		return nil
	}
	rs, ok := factory.Body.List[0].(*ast.ReturnStmt)
	if !ok || len(rs.Results) != 1 {
		return nil
	}
	inner, ok := ast.Unparen(rs.Results[0]).(*ast.FuncLit)
	if !ok {
		return nil
	}
	subst := map[types.Object]string{}
	i := 0
	for _, f := range factory.Type.Params.List {
		for _, nm := range f.Names {
			if i >= len(call.Args) {
				return nil
			}
			s, isConst := load.StringOf(info, call.Args[i])
			if !isConst {
				return nil
			}
			subst[info.ObjectOf(nm)] = s
			i++
		}
	}
	e.subst = subst
	return inner
}

// strEval folds a string expression made of constants, + and factory parameters bound to constants.
func (e *Env) strEval(info *types.Info, x ast.Expr) (string, bool) {
	if s, ok := load.StringOf(info, x); ok {
		return s, true
	}
	switch v := ast.Unparen(x).(type) {
	case *ast.Ident:
		if s, ok := e.subst[info.ObjectOf(v)]; ok {
			return s, true
		}
	case *ast.BinaryExpr:
		if v.Op == token.ADD {
			a, ok1 := e.strEval(info, v.X)
			b, ok2 := e.strEval(info, v.Y)
			if ok1 && ok2 {
				return a + b, true
			}
		}
	}
	return "", false
}

func (e *Env) classifyFunc(info *types.Info, outer *ast.FuncDecl, fl *ast.FuncLit, m *FuncModel) {
	var ps []types.Object
	for _, f := range fl.Type.Params.List {
		for _, n := range f.Names {
			ps = append(ps, info.ObjectOf(n))
		}
	}
	isParam := func(x ast.Expr, i int) bool {
		id, ok := ast.Unparen(x).(*ast.Ident)
		return ok && i < len(ps) && info.ObjectOf(id) == ps[i]
	}
	body := fl.Body.List
	if len(body) == 1 {
		if rs, ok := body[0].(*ast.ReturnStmt); ok && len(rs.Results) == 1 {
			if call, ok := ast.Unparen(rs.Results[0]).(*ast.CallExpr); ok {
				callee := load.Callee(info, call)
				if callee != nil && callee.Name() == "Export" && callee.Pkg() != nil && callee.Pkg().Path() == load.RuntimeMod+"/exporter" && len(call.Args) == 1 && isParam(call.Args[0], 0) {
					m.Kind = "export"
					return
				}
				if callee != nil && callee.Name() == "Alias" && len(call.Args) == 1 {
					if isParam(call.Args[0], 0) {
						m.Kind = "aliasArg"
						return
					}
					if s, ok := e.strEval(info, call.Args[0]); ok {
						m.Kind, m.Path = "aliasConst", s
						return
					}
				}
			}
		}
	}
	if len(body) == 2 {
		as, ok1 := body[0].(*ast.AssignStmt)
		rs, ok2 := body[1].(*ast.ReturnStmt)
		if ok1 && ok2 && len(as.Lhs) == 2 && len(as.Rhs) == 1 && len(rs.Results) == 1 {
			okId, isId := as.Lhs[1].(*ast.Ident)
			rid, isRid := ast.Unparen(rs.Results[0]).(*ast.Ident)
			if isId && isRid && info.ObjectOf(okId) == info.ObjectOf(rid) {
				switch x := ast.Unparen(as.Rhs[0]).(type) {
				case *ast.TypeAssertExpr:
					if t := info.TypeOf(x.Type); t != nil && isParam(x.X, 0) {
						if b, ok := t.Underlying().(*types.Basic); ok && b.Kind() == types.String {
							m.Kind = "isString"
							return
						}
					}
				case *ast.IndexExpr:
					// M[p_i][p_j]
					if inner, ok := ast.Unparen(x.X).(*ast.IndexExpr); ok {
						ti, tj := -1, -1
						for k := range ps {
							if isParam(inner.Index, k) {
								ti = k
							}
							if isParam(x.Index, k) {
								tj = k
							}
						}
						if mid, ok := ast.Unparen(inner.X).(*ast.Ident); ok && ti >= 0 && tj >= 0 {
							if e.tagMapFill(info, outer, info.ObjectOf(mid)) {
								m.Kind, m.TagArg, m.SvcArg = "isTagged", ti, tj
								return
							}
							m.Problem = "the looked-up map is not filled as M[tag.Name][service.Name] over all services and tags"
							return
						}
					}
				}
			}
		}
	}
	m.Problem = "body matches none of the modelled idioms (export, alias of argument, alias of constant, string test, tag membership)"
}

// tagMapFill checks that map M is filled by M[t.Name][s.Name] = … inside range o.Services / range s.Tags.
func (e *Env) tagMapFill(info *types.Info, outer *ast.FuncDecl, M types.Object) bool {
	// The index is filled as M[tag.Name][service.Name] = … for every tag of every service, in one step or
	// through a local inner map (loaded from M[tag.Name], stored back when created). Expressions are
	// recognised by their types (output.Tag / output.Service), loops by what they walk (.Services, .Tags),
	// whatever their form (range, index loop, locals for the element or its name).
	isNamedT := func(t types.Type, name string) bool {
		if t == nil {
			return false
		}
		if p, ok := t.Underlying().(*types.Pointer); ok {
			t = p.Elem()
		}
		n, ok := t.(*types.Named)
		return ok && n.Obj().Name() == name && n.Obj().Pkg() != nil && strings.HasSuffix(n.Obj().Pkg().Path(), "/"+outRel)
	}
	// locals bound to <Tag>.Name / <Service>.Name
	nameOf := map[types.Object]string{}
	var nameKind func(x ast.Expr) string
	nameKind = func(x ast.Expr) string {
		switch v := ast.Unparen(x).(type) {
		case *ast.SelectorExpr:
			if v.Sel.Name == "Name" {
				switch {
				case isNamedT(info.TypeOf(v.X), "Tag"):
					return "tag"
				case isNamedT(info.TypeOf(v.X), "Service"):
					return "service"
				}
			}
		case *ast.Ident:
			return nameOf[info.ObjectOf(v)]
		}
		return ""
	}
	ast.Inspect(outer.Body, func(n ast.Node) bool {
		if as, ok := n.(*ast.AssignStmt); ok && len(as.Lhs) == 1 && len(as.Rhs) == 1 {
			if id, ok := as.Lhs[0].(*ast.Ident); ok {
				if k := nameKind(as.Rhs[0]); k != "" {
					nameOf[info.ObjectOf(id)] = k
				}
			}
		}
		return true
	})
	isMTag := func(x ast.Expr) bool {
		ix, ok := ast.Unparen(x).(*ast.IndexExpr)
		if !ok {
			return false
		}
		mid, ok := ast.Unparen(ix.X).(*ast.Ident)
		return ok && info.ObjectOf(mid) == M && nameKind(ix.Index) == "tag"
	}
	walks := func(loop ast.Node, field string) bool {
		var x ast.Expr
		switch l := loop.(type) {
		case *ast.RangeStmt:
			x = l.X
		case *ast.ForStmt:
			// i < len(X)
			if be, ok := l.Cond.(*ast.BinaryExpr); ok && be.Op == token.LSS {
				if c, ok := ast.Unparen(be.Y).(*ast.CallExpr); ok && len(c.Args) == 1 {
					if id, ok := ast.Unparen(c.Fun).(*ast.Ident); ok && id.Name == "len" {
						x = c.Args[0]
					}
				}
			}
		}
		se, ok := ast.Unparen(x).(*ast.SelectorExpr)
		return ok && se.Sel.Name == field
	}
	loaded, storedBack := map[types.Object]bool{}, map[types.Object]bool{}
	ast.Inspect(outer.Body, func(n ast.Node) bool {
		as, ok := n.(*ast.AssignStmt)
		if !ok || len(as.Rhs) != 1 {
			return true
		}
		if isMTag(as.Rhs[0]) && len(as.Lhs) >= 1 {
			if id, ok := as.Lhs[0].(*ast.Ident); ok {
				loaded[info.ObjectOf(id)] = true
			}
		}
		if len(as.Lhs) == 1 && isMTag(as.Lhs[0]) {
			if id, ok := ast.Unparen(as.Rhs[0]).(*ast.Ident); ok {
				storedBack[info.ObjectOf(id)] = true
			}
		}
		return true
	})
	ok := false
	var stack []ast.Node
	ast.Inspect(outer.Body, func(n ast.Node) bool {
		if n == nil {
			stack = stack[:len(stack)-1]
			return true
		}
		stack = append(stack, n)
		as, isA := n.(*ast.AssignStmt)
		if !isA || len(as.Lhs) != 1 {
			return true
		}
		ix, isIx := ast.Unparen(as.Lhs[0]).(*ast.IndexExpr)
		if !isIx || nameKind(ix.Index) != "service" {
			return true
		}
		target := false
		if isMTag(ix.X) {
			target = true
		} else if id, isId := ast.Unparen(ix.X).(*ast.Ident); isId && loaded[info.ObjectOf(id)] && storedBack[info.ObjectOf(id)] {
			target = true
		}
		if !target {
			return true
		}
		// enclosing statements: a loop over .Services around a loop over .Tags, and no conditional
		svcLoop, tagLoop, cond := false, false, false
		for _, anc := range stack[:len(stack)-1] {
			switch anc.(type) {
			case *ast.RangeStmt, *ast.ForStmt:
				if walks(anc, "Services") {
					svcLoop = true
				}
				if walks(anc, "Tags") && svcLoop {
					tagLoop = true
				}
			case *ast.IfStmt, *ast.SwitchStmt, *ast.CaseClause:
				cond = true
			}
		}
		if svcLoop && tagLoop && !cond {
			ok = true
		}
		return true
	})
	return ok
}

// readMethods models value-receiver predicates of the output types: `return s == Const`.
func (e *Env) readMethods() {
	pk := e.P.Pkg(outRel)
	if pk == nil {
		e.problem("package %s not loaded", outRel)
		return
	}
	for _, f := range pk.Syntax {
		for _, d := range f.Decls {
			fd, ok := d.(*ast.FuncDecl)
			if !ok || fd.Recv == nil || fd.Body == nil || len(fd.Recv.List) != 1 || len(fd.Recv.List[0].Names) != 1 {
				continue
			}
			rt, ok := fd.Recv.List[0].Type.(*ast.Ident)
			if !ok || fd.Type.Params.NumFields() != 0 || len(fd.Body.List) != 1 {
				continue
			}
			rs, ok := fd.Body.List[0].(*ast.ReturnStmt)
			if !ok || len(rs.Results) != 1 {
				continue
			}
			recv := pk.TypesInfo.ObjectOf(fd.Recv.List[0].Names[0])
			// `return recv.eq(Const)` with eq a method of the same type whose body is `return recv == param`
			if call, isCall := ast.Unparen(rs.Results[0]).(*ast.CallExpr); isCall && len(call.Args) == 1 {
				if se, isSel := ast.Unparen(call.Fun).(*ast.SelectorExpr); isSel {
					if id, isId := ast.Unparen(se.X).(*ast.Ident); isId && pk.TypesInfo.ObjectOf(id) == recv && e.isEqualityMethod(pk, rt.Name, se.Sel.Name) {
						if cid, isC := ast.Unparen(call.Args[0]).(*ast.Ident); isC {
							if c, isConst := pk.TypesInfo.ObjectOf(cid).(*types.Const); isConst {
								e.Methods[rt.Name+"."+fd.Name.Name] = c
							}
						}
					}
				}
				continue
			}
			be, ok := ast.Unparen(rs.Results[0]).(*ast.BinaryExpr)
			if !ok || be.Op != token.EQL {
				continue
			}
			var other ast.Expr
			if id, ok := ast.Unparen(be.X).(*ast.Ident); ok && pk.TypesInfo.ObjectOf(id) == recv {
				other = be.Y
			} else if id, ok := ast.Unparen(be.Y).(*ast.Ident); ok && pk.TypesInfo.ObjectOf(id) == recv {
				other = be.X
			}
			if other == nil {
				continue
			}
			if id, ok := ast.Unparen(other).(*ast.Ident); ok {
				if c, ok := pk.TypesInfo.ObjectOf(id).(*types.Const); ok {
					e.Methods[rt.Name+"."+fd.Name.Name] = c
				}
			}
		}
	}
}

// isEqualityMethod: type T has a method m(x T) bool whose body is `return recv == x` (either order).
func (e *Env) isEqualityMethod(pk *packages.Package, tname, mname string) bool {
	for _, f := range pk.Syntax {
		for _, d := range f.Decls {
			fd, ok := d.(*ast.FuncDecl)
			if !ok || fd.Recv == nil || fd.Body == nil || fd.Name.Name != mname || len(fd.Recv.List) != 1 || len(fd.Recv.List[0].Names) != 1 {
				continue
			}
			if rt, ok := fd.Recv.List[0].Type.(*ast.Ident); !ok || rt.Name != tname {
				continue
			}
			if fd.Type.Params.NumFields() != 1 || len(fd.Type.Params.List[0].Names) != 1 || len(fd.Body.List) != 1 {
				continue
			}
			rs, ok := fd.Body.List[0].(*ast.ReturnStmt)
			if !ok || len(rs.Results) != 1 {
				continue
			}
			be, ok := ast.Unparen(rs.Results[0]).(*ast.BinaryExpr)
			if !ok || be.Op != token.EQL {
				continue
			}
			recv := pk.TypesInfo.ObjectOf(fd.Recv.List[0].Names[0])
			prm := pk.TypesInfo.ObjectOf(fd.Type.Params.List[0].Names[0])
			x, ok1 := ast.Unparen(be.X).(*ast.Ident)
			y, ok2 := ast.Unparen(be.Y).(*ast.Ident)
			if ok1 && ok2 {
				ox, oy := pk.TypesInfo.ObjectOf(x), pk.TypesInfo.ObjectOf(y)
				if (ox == recv && oy == prm) || (ox == prm && oy == recv) {
					return true
				}
			}
		}
	}
	return false
}

// ConstsOf returns the constants of the named type rel.name in declaration order of value.
func (e *Env) ConstsOf(rel, name string) []*types.Const {
	pk := e.P.Pkg(rel)
	if pk == nil {
		return nil
	}
	t := pk.Types.Scope().Lookup(name)
	if t == nil {
		return nil
	}
	var out []*types.Const
	for _, n := range pk.Types.Scope().Names() {
		if c, ok := pk.Types.Scope().Lookup(n).(*types.Const); ok && types.Identical(c.Type(), t.Type()) {
			out = append(out, c)
		}
	}
	sort.Slice(out, func(i, j int) bool { return out[i].Val().String() < out[j].Val().String() })
	return out
}
