// Package tplabs is engine T: an abstract interpreter over the AST of the repository's
// text/template files. It never calls text/template.Execute and never uses the
// repository's FuncMap closures; data values are built by the checker, typed by go/types.
package tplabs

import (
	"fmt"
	"go/types"
	"math"
	"sort"
	"strconv"
)

type Kind int

const (
	KNil Kind = iota
	KString
	KBool
	KInt
	KAny    // a value held in an interface{}-typed field (YAML scalar)
	KStruct // struct typed by go/types
	KSlice
	KConst // value of a named constant type (e.g. output.Scope)
	KIface // interface-typed field with modelled methods (the import provider)
)

type Value struct {
	K      Kind
	S      string
	B      bool
	I      int64
	A      any // KAny payload: nil, string, bool, int, int64, uint64, float64
	Fields map[string]*Value
	Elems  []*Value
	T      types.Type
	Const  *types.Const // KConst
	Meth   map[string]func(args []*Value) (*Value, error)
	Origin string
}

func Str(s string) *Value     { return &Value{K: KString, S: s} }
func Bool(b bool) *Value      { return &Value{K: KBool, B: b} }
func Int(i int64) *Value      { return &Value{K: KInt, I: i} }
func Any(a any) *Value        { return &Value{K: KAny, A: a} }
func Nil() *Value             { return &Value{K: KNil} }
func List(e ...*Value) *Value { return &Value{K: KSlice, Elems: e} }

func (v *Value) Truth() bool {
	if v == nil {
		return false
	}
	switch v.K {
	case KString:
		return v.S != ""
	case KBool:
		return v.B
	case KInt:
		return v.I != 0
	case KSlice:
		return len(v.Elems) > 0
	case KStruct, KIface:
		return true
	case KConst:
		return v.Const != nil && v.Const.Val().String() != "0"
	case KAny:
		switch a := v.A.(type) {
		case nil:
			return false
		case string:
			return a != ""
		case bool:
			return a
		case int:
			return a != 0
		case int64:
			return a != 0
		case uint64:
			return a != 0
		case float64:
			return a != 0
		}
		return true
	}
	return false
}

// Print renders a value the way text/template prints it (fmt.Fprint).
func (v *Value) Print() (string, error) {
	switch v.K {
	case KString:
		return v.S, nil
	case KBool:
		return strconv.FormatBool(v.B), nil
	case KInt:
		return strconv.FormatInt(v.I, 10), nil
	case KAny:
		if v.A == nil {
			return "<nil>", nil // text/template prints <no value> / <nil>
		}
		return fmt.Sprint(v.A), nil
	case KConst:
		return v.Const.Val().String(), nil
	case KNil:
		return "<no value>", nil
	}
	return "", fmt.Errorf("printing a composite value (%v)", v.K)
}

// Export models exporter.Export of the pinned runtime on YAML scalars (trusted model,
// transcribed from gontainer-helpers/v3/exporter/exporters.go).
func Export(v *Value) (string, error) {
	switch v.K {
	case KString:
		return fmt.Sprintf("%+q", v.S), nil
	case KBool:
		return strconv.FormatBool(v.B), nil
	case KInt:
		return fmt.Sprintf("int(%d)", v.I), nil
	case KAny:
		return ExportAny(v.A)
	case KNil:
		return "nil", nil
	}
	return "", fmt.Errorf("export of unsupported value kind %d", v.K)
}

func ExportAny(a any) (string, error) {
	switch x := a.(type) {
	case nil:
		return "nil", nil
	case bool:
		return strconv.FormatBool(x), nil
	case string:
		return fmt.Sprintf("%+q", x), nil
	case int:
		return fmt.Sprintf("int(%d)", x), nil
	case int64:
		return fmt.Sprintf("int64(%d)", x), nil
	case uint64:
		return fmt.Sprintf("uint64(%d)", x), nil
	case uint:
		return fmt.Sprintf("uint(%d)", x), nil
	case float64:
		return fmt.Sprintf("float64(%s)", strconv.FormatFloat(x, 'f', -1, 64)), nil
	case float32:
		return fmt.Sprintf("float32(%s)", strconv.FormatFloat(float64(x), 'f', -1, 32)), nil
	}
	return "", fmt.Errorf("type %T is not supported", a)
}

// Scalars is the YAML scalar domain fed to export (what yaml.v3 decodes into interface{}).
func Scalars() []any {
	return []any{nil, true, false, 0, -7, 42, int64(math.MinInt64), uint64(math.MaxUint64), 1.5, -0.25, 1e21,
		math.Inf(1), math.Inf(-1), math.NaN(), "", "plain", "with \"quotes\" and \\ and \n newline", "*/ // %% `"}
}

// Build constructs a Value of Go type t from a plain description: map[string]any for
// structs (missing fields are zero), []any for slices, scalars for basic types,
// *Value to pass a ready value through.
func Build(t types.Type, spec any, origin string) (*Value, error) {
	if v, ok := spec.(*Value); ok {
		if v.T == nil {
			v.T = t
		}
		return v, nil
	}
	switch u := t.Underlying().(type) {
	case *types.Struct:
		m, _ := spec.(map[string]any)
		v := &Value{K: KStruct, T: t, Fields: map[string]*Value{}, Origin: origin}
		known := map[string]bool{}
		for i := 0; i < u.NumFields(); i++ {
			f := u.Field(i)
			known[f.Name()] = true
			fv, err := Build(f.Type(), m[f.Name()], origin+"."+f.Name())
			if err != nil {
				return nil, err
			}
			v.Fields[f.Name()] = fv
		}
		var unknown []string
		for k := range m {
			if !known[k] {
				unknown = append(unknown, k)
			}
		}
		if len(unknown) > 0 {
			sort.Strings(unknown)
			return nil, fmt.Errorf("%s: the checker's valuation sets fields %v that type %s does not have (the data model changed)", origin, unknown, t)
		}
		return v, nil
	case *types.Slice:
		v := &Value{K: KSlice, T: t, Origin: origin}
		l, _ := spec.([]any)
		for i, e := range l {
			ev, err := Build(u.Elem(), e, fmt.Sprintf("%s[%d]", origin, i))
			if err != nil {
				return nil, err
			}
			v.Elems = append(v.Elems, ev)
		}
		return v, nil
	case *types.Basic:
		switch {
		case u.Info()&types.IsString != 0:
			s, _ := spec.(string)
			return &Value{K: KString, S: s, T: t, Origin: origin}, nil
		case u.Info()&types.IsBoolean != 0:
			b, _ := spec.(bool)
			return &Value{K: KBool, B: b, T: t, Origin: origin}, nil
		case u.Info()&types.IsInteger != 0:
			if c, ok := spec.(*types.Const); ok {
				return &Value{K: KConst, Const: c, T: t, Origin: origin}, nil
			}
			var i int64
			switch x := spec.(type) {
			case int:
				i = int64(x)
			case int64:
				i = x
			}
			if _, named := t.(*types.Named); named {
				// a named integer type: find the constant with that value, if any
				return &Value{K: KInt, I: i, T: t, Origin: origin}, nil
			}
			return &Value{K: KInt, I: i, T: t, Origin: origin}, nil
		}
	case *types.Interface:
		if u.Empty() {
			return &Value{K: KAny, A: spec, T: t, Origin: origin}, nil
		}
		return &Value{K: KIface, T: t, Origin: origin, Meth: map[string]func([]*Value) (*Value, error){}}, nil
	}
	return nil, fmt.Errorf("%s: cannot build a value of type %s", origin, t)
}
