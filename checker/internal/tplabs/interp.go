package tplabs

import (
	"fmt"
	"go/types"
	"strings"
	"text/template/parse"
)

// Func is a model of one FuncMap entry.
type Func func(args []*Value) (*Value, error)

// MethodModel evaluates a method of a data type (e.g. output.Scope.IsShared).
type MethodModel func(recv *Value, name string, args []*Value) (*Value, bool, error)

type Interp struct {
	Trees   map[string]*parse.Tree
	Funcs   map[string]Func
	Method  MethodModel
	Covered map[parse.Node]bool // nodes executed at least once (over all runs)
	// Trace of data actions: where the output of a data-valued action was written
	OnAction func(tree string, n *parse.ActionNode, v *Value, printed string)
	OnFunc   func(tree, name string, node parse.Node, args []*Value)
	depth    int
}

type state struct {
	in   *Interp
	out  *strings.Builder
	vars []variable
	tree string
}

type variable struct {
	name string
	val  *Value
}

func (s *state) push(name string, v *Value) { s.vars = append(s.vars, variable{name, v}) }
func (s *state) mark() int                  { return len(s.vars) }
func (s *state) pop(m int)                  { s.vars = s.vars[:m] }
func (s *state) setVar(name string, v *Value) error {
	for i := len(s.vars) - 1; i >= 0; i-- {
		if s.vars[i].name == name {
			s.vars[i].val = v
			return nil
		}
	}
	return fmt.Errorf("undefined variable %s", name)
}
func (s *state) varValue(name string) (*Value, error) {
	for i := len(s.vars) - 1; i >= 0; i-- {
		if s.vars[i].name == name {
			return s.vars[i].val, nil
		}
	}
	return nil, fmt.Errorf("undefined variable %s", name)
}

type ExecError struct {
	Tree string
	Node parse.Node
	Msg  string
}

func (e *ExecError) Error() string {
	return fmt.Sprintf("template %s: %s: %s", e.Tree, nodeCtx(e.Node), e.Msg)
}

func nodeCtx(n parse.Node) string {
	if n == nil {
		return ""
	}
	s := n.String()
	if len(s) > 80 {
		s = s[:80] + "…"
	}
	return s
}

// Execute renders template name on data.
func (in *Interp) Execute(name string, data *Value) (string, error) {
	t, ok := in.Trees[name]
	if !ok || t.Root == nil {
		return "", fmt.Errorf("template %q not found", name)
	}
	if in.Covered == nil {
		in.Covered = map[parse.Node]bool{}
	}
	var b strings.Builder
	s := &state{in: in, out: &b, tree: name}
	s.push("$", data)
	if err := s.walk(data, t.Root); err != nil {
		return b.String(), err
	}
	return b.String(), nil
}

func (s *state) errf(n parse.Node, format string, a ...any) error {
	return &ExecError{Tree: s.tree, Node: n, Msg: fmt.Sprintf(format, a...)}
}

func (s *state) walk(dot *Value, node parse.Node) error {
	s.in.Covered[node] = true
	switch n := node.(type) {
	case *parse.ListNode:
		for _, c := range n.Nodes {
			if err := s.walk(dot, c); err != nil {
				return err
			}
		}
	case *parse.TextNode:
		s.out.Write(n.Text)
	case *parse.CommentNode:
	case *parse.ActionNode:
		v, err := s.evalPipeline(dot, n.Pipe)
		if err != nil {
			return err
		}
		if len(n.Pipe.Decl) == 0 {
			p, err := v.Print()
			if err != nil {
				return s.errf(n, "%v", err)
			}
			s.out.WriteString(p)
			if s.in.OnAction != nil {
				s.in.OnAction(s.tree, n, v, p)
			}
		}
	case *parse.IfNode:
		return s.walkIfOrWith(parse.NodeIf, dot, n.Pipe, n.List, n.ElseList)
	case *parse.WithNode:
		return s.walkIfOrWith(parse.NodeWith, dot, n.Pipe, n.List, n.ElseList)
	case *parse.RangeNode:
		return s.walkRange(dot, n)
	case *parse.TemplateNode:
		t, ok := s.in.Trees[n.Name]
		if !ok || t.Root == nil {
			return s.errf(n, "template %q not defined", n.Name)
		}
		nd := dot
		if n.Pipe != nil {
			v, err := s.evalPipeline(dot, n.Pipe)
			if err != nil {
				return err
			}
			nd = v
		}
		s.in.depth++
		if s.in.depth > 50 {
			return s.errf(n, "template recursion too deep")
		}
		ns := &state{in: s.in, out: s.out, tree: n.Name}
		ns.push("$", nd)
		err := ns.walk(nd, t.Root)
		s.in.depth--
		return err
	case *parse.BreakNode:
		return errBreak
	case *parse.ContinueNode:
		return errContinue
	default:
		return s.errf(node, "node kind %T is outside the supported template subset", node)
	}
	return nil
}

func (s *state) walkIfOrWith(typ parse.NodeType, dot *Value, pipe *parse.PipeNode, list, elseList *parse.ListNode) error {
	m := s.mark()
	defer s.pop(m)
	v, err := s.evalPipeline(dot, pipe)
	if err != nil {
		return err
	}
	if v.Truth() {
		if typ == parse.NodeWith {
			return s.walk(v, list)
		}
		return s.walk(dot, list)
	} else if elseList != nil {
		return s.walk(dot, elseList)
	}
	return nil
}

func (s *state) walkRange(dot *Value, r *parse.RangeNode) error {
	m := s.mark()
	defer s.pop(m)
	// the pipeline's declarations are the iteration variables: evaluate the commands only
	v, err := s.evalPipelineNoDecl(dot, r.Pipe)
	if err != nil {
		return err
	}
	if v.K != KSlice {
		if v.K == KNil || (v.K == KAny && v.A == nil) {
			if r.ElseList != nil {
				return s.walk(dot, r.ElseList)
			}
			return nil
		}
		return s.errf(r, "range over a non-slice value (kind %d) is outside the supported subset", v.K)
	}
	if len(v.Elems) == 0 {
		if r.ElseList != nil {
			return s.walk(dot, r.ElseList)
		}
		return nil
	}
	for i, el := range v.Elems {
		mm := s.mark()
		switch len(r.Pipe.Decl) {
		case 1:
			s.push(r.Pipe.Decl[0].Ident[0], el)
		case 2:
			s.push(r.Pipe.Decl[0].Ident[0], Int(int64(i)))
			s.push(r.Pipe.Decl[1].Ident[0], el)
		}
		err := s.walk(el, r.List)
		s.pop(mm)
		if err == errContinue {
			continue
		}
		if err == errBreak {
			break
		}
		if err != nil {
			return err
		}
	}
	return nil
}

// control-flow signals of {{break}} and {{continue}} (unwound to the innermost range)
var errBreak = fmt.Errorf("break")
var errContinue = fmt.Errorf("continue")

func (s *state) evalPipelineNoDecl(dot *Value, pipe *parse.PipeNode) (*Value, error) {
	s.in.Covered[pipe] = true
	var val *Value
	for _, cmd := range pipe.Cmds {
		v, err := s.evalCommand(dot, cmd, val)
		if err != nil {
			return nil, err
		}
		val = v
	}
	return val, nil
}

func (s *state) evalPipeline(dot *Value, pipe *parse.PipeNode) (*Value, error) {
	if pipe == nil {
		return Nil(), nil
	}
	val, err := s.evalPipelineNoDecl(dot, pipe)
	if err != nil {
		return nil, err
	}
	for _, d := range pipe.Decl {
		if pipe.IsAssign {
			if err := s.setVar(d.Ident[0], val); err != nil {
				return nil, s.errf(pipe, "%v", err)
			}
		} else {
			s.push(d.Ident[0], val)
		}
	}
	return val, nil
}

func (s *state) evalCommand(dot *Value, cmd *parse.CommandNode, final *Value) (*Value, error) {
	s.in.Covered[cmd] = true
	first := cmd.Args[0]
	switch n := first.(type) {
	case *parse.FieldNode:
		return s.evalFieldChain(dot, dot, n, n.Ident, cmd.Args, final)
	case *parse.ChainNode:
		if len(cmd.Args) > 1 || final != nil {
			return nil, s.errf(n, "chain with arguments is outside the supported subset")
		}
		base, err := s.evalArg(dot, n.Node)
		if err != nil {
			return nil, err
		}
		return s.evalFieldChain(dot, base, n, n.Field, nil, nil)
	case *parse.IdentifierNode:
		return s.evalFunction(dot, n, cmd, cmd.Args, final)
	case *parse.PipeNode:
		if len(cmd.Args) > 1 || final != nil {
			return nil, s.errf(n, "parenthesised pipeline with arguments")
		}
		return s.evalPipeline(dot, n)
	case *parse.VariableNode:
		return s.evalVariable(dot, n, cmd.Args, final)
	}
	if len(cmd.Args) > 1 || final != nil {
		return nil, s.errf(first, "can't give argument to non-function %s", first)
	}
	switch n := first.(type) {
	case *parse.BoolNode:
		return Bool(n.True), nil
	case *parse.DotNode:
		return dot, nil
	case *parse.NilNode:
		return nil, s.errf(n, "nil is not a command")
	case *parse.NumberNode:
		if n.IsInt {
			return Int(n.Int64), nil
		}
		return nil, s.errf(n, "non-integer number constants are outside the supported subset")
	case *parse.StringNode:
		return Str(n.Text), nil
	}
	return nil, s.errf(first, "can't evaluate command %q", first)
}

func (s *state) evalArg(dot *Value, n parse.Node) (*Value, error) {
	s.in.Covered[n] = true
	switch a := n.(type) {
	case *parse.DotNode:
		return dot, nil
	case *parse.NilNode:
		return Nil(), nil
	case *parse.FieldNode:
		return s.evalFieldChain(dot, dot, a, a.Ident, []parse.Node{n}, nil)
	case *parse.VariableNode:
		return s.evalVariable(dot, a, nil, nil)
	case *parse.PipeNode:
		return s.evalPipeline(dot, a)
	case *parse.IdentifierNode:
		return s.evalFunction(dot, a, a, nil, nil)
	case *parse.ChainNode:
		base, err := s.evalArg(dot, a.Node)
		if err != nil {
			return nil, err
		}
		return s.evalFieldChain(dot, base, a, a.Field, nil, nil)
	case *parse.BoolNode:
		return Bool(a.True), nil
	case *parse.NumberNode:
		if a.IsInt {
			return Int(a.Int64), nil
		}
		return nil, s.errf(a, "non-integer number")
	case *parse.StringNode:
		return Str(a.Text), nil
	}
	return nil, s.errf(n, "can't evaluate argument %T", n)
}

func (s *state) evalVariable(dot *Value, v *parse.VariableNode, args []parse.Node, final *Value) (*Value, error) {
	val, err := s.varValue(v.Ident[0])
	if err != nil {
		return nil, s.errf(v, "%v", err)
	}
	if len(v.Ident) == 1 {
		if len(args) > 1 || final != nil {
			return nil, s.errf(v, "can't give argument to non-function %s", v)
		}
		return val, nil
	}
	return s.evalFieldChain(dot, val, v, v.Ident[1:], args, final)
}

func (s *state) evalFieldChain(dot, recv *Value, node parse.Node, ident []string, args []parse.Node, final *Value) (*Value, error) {
	n := len(ident)
	for i := 0; i < n-1; i++ {
		v, err := s.evalField(dot, ident[i], node, nil, nil, recv)
		if err != nil {
			return nil, err
		}
		recv = v
	}
	return s.evalField(dot, ident[n-1], node, args, final, recv)
}

func (s *state) evalField(dot *Value, name string, node parse.Node, args []parse.Node, final *Value, recv *Value) (*Value, error) {
	if recv == nil {
		return nil, s.errf(node, "nil pointer evaluating .%s", name)
	}
	hasArgs := len(args) > 1 || final != nil
	if recv.K == KIface {
		if f, ok := recv.Meth[name]; ok {
			if hasArgs {
				return nil, s.errf(node, "modelled interface method %s takes no arguments", name)
			}
			v, err := f(nil)
			if err != nil {
				return nil, s.errf(node, "%v", err)
			}
			return v, nil
		}
		return nil, s.errf(node, "can't evaluate field %s in interface value of type %s: no model", name, recv.T)
	}
	// method?
	if recv.T != nil && s.in.Method != nil {
		if hasMethod(recv.T, name) {
			var av []*Value
			for _, a := range args[min(1, len(args)):] {
				x, err := s.evalArg(dot, a)
				if err != nil {
					return nil, err
				}
				av = append(av, x)
			}
			if final != nil {
				av = append(av, final)
			}
			v, ok, err := s.in.Method(recv, name, av)
			if err != nil {
				return nil, s.errf(node, "%v", err)
			}
			if !ok {
				return nil, s.errf(node, "method %s of %s has no model (undecided)", name, recv.T)
			}
			return v, nil
		}
	}
	if recv.K == KIface {
		if f, ok := recv.Meth[name]; ok {
			v, err := f(nil)
			if err != nil {
				return nil, s.errf(node, "%v", err)
			}
			return v, nil
		}
		return nil, s.errf(node, "can't evaluate field %s in interface value of type %s", name, recv.T)
	}
	if recv.K != KStruct {
		return nil, s.errf(node, "can't evaluate field %s in a value of kind %d (type %v)", name, recv.K, recv.T)
	}
	if hasArgs {
		return nil, s.errf(node, "%s is a field, not a method; it can't take arguments", name)
	}
	f, ok := recv.Fields[name]
	if !ok {
		return nil, s.errf(node, "can't evaluate field %s in type %s: no such field or method", name, recv.T)
	}
	return f, nil
}

func hasMethod(t types.Type, name string) bool {
	for _, tt := range []types.Type{t, types.NewPointer(t)} {
		ms := types.NewMethodSet(tt)
		for i := 0; i < ms.Len(); i++ {
			if ms.At(i).Obj().Name() == name && ms.At(i).Obj().Exported() {
				return true
			}
		}
	}
	return false
}

func (s *state) evalFunction(dot *Value, node *parse.IdentifierNode, cmd parse.Node, args []parse.Node, final *Value) (*Value, error) {
	name := node.Ident
	// short-circuit builtins
	switch name {
	case "and", "or":
		var last *Value
		rest := args
		if len(rest) > 0 {
			rest = rest[1:]
		}
		var all []*Value
		for _, a := range rest {
			v, err := s.evalArg(dot, a)
			if err != nil {
				return nil, err
			}
			all = append(all, v)
			last = v
			if name == "and" && !v.Truth() || name == "or" && v.Truth() {
				return v, nil
			}
		}
		if final != nil {
			return final, nil
		}
		if last == nil {
			return nil, s.errf(cmd, "%s without arguments", name)
		}
		return last, nil
	}
	var av []*Value
	if len(args) > 1 {
		for _, a := range args[1:] {
			v, err := s.evalArg(dot, a)
			if err != nil {
				return nil, err
			}
			av = append(av, v)
		}
	}
	if final != nil {
		av = append(av, final)
	}
	switch name {
	case "not":
		if len(av) != 1 {
			return nil, s.errf(cmd, "not takes one argument")
		}
		return Bool(!av[0].Truth()), nil
	case "eq", "ne":
		if len(av) < 2 {
			return nil, s.errf(cmd, "%s needs two arguments", name)
		}
		eq := false
		for _, o := range av[1:] {
			e, err := basicEq(av[0], o)
			if err != nil {
				return nil, s.errf(cmd, "%v", err)
			}
			if e {
				eq = true
			}
		}
		if name == "ne" {
			if len(av) != 2 {
				return nil, s.errf(cmd, "ne takes two arguments")
			}
			return Bool(!eq), nil
		}
		return Bool(eq), nil
	case "len":
		if len(av) != 1 {
			return nil, s.errf(cmd, "len takes one argument")
		}
		switch av[0].K {
		case KSlice:
			return Int(int64(len(av[0].Elems))), nil
		case KString:
			return Int(int64(len(av[0].S))), nil
		}
		return nil, s.errf(cmd, "len of a value of kind %d", av[0].K)
	case "print":
		var b strings.Builder
		for _, a := range av {
			p, err := a.Print()
			if err != nil {
				return nil, s.errf(cmd, "%v", err)
			}
			b.WriteString(p)
		}
		return Str(b.String()), nil
	}
	if s.in.OnFunc != nil {
		s.in.OnFunc(s.tree, name, cmd, av)
	}
	f, ok := s.in.Funcs[name]
	if !ok {
		return nil, s.errf(cmd, "function %q is not defined in the FuncMap (or is a builtin outside the supported subset)", name)
	}
	v, err := f(av)
	if err != nil {
		return nil, s.errf(cmd, "%s: %v", name, err)
	}
	return v, nil
}

func basicEq(a, b *Value) (bool, error) {
	norm := func(v *Value) *Value {
		if v.K == KAny {
			switch x := v.A.(type) {
			case string:
				return Str(x)
			case bool:
				return Bool(x)
			case int:
				return Int(int64(x))
			}
		}
		return v
	}
	a, b = norm(a), norm(b)
	if a.K != b.K {
		return false, fmt.Errorf("incompatible types for comparison (%d vs %d)", a.K, b.K)
	}
	switch a.K {
	case KString:
		return a.S == b.S, nil
	case KBool:
		return a.B == b.B, nil
	case KInt:
		return a.I == b.I, nil
	case KConst:
		return a.Const == b.Const, nil
	}
	return false, fmt.Errorf("non-comparable type in eq")
}
