package tplabs

import (
	"fmt"
	"go/types"
	"sort"
	"text/template/parse"
)

// ActionTrace records one data action that printed into the output.
type ActionTrace struct {
	Tree    string
	Node    *parse.ActionNode
	Value   *Value
	Printed string
	Export  bool // the pipeline's last command is the export function
}

type Renderer struct {
	E         *Env
	Covered   map[parse.Node]bool
	Trace     []ActionTrace
	Exported  map[string]string // "tree: node" -> origin, for export calls on interface{}-typed data
	KeepTrace bool
}

func (e *Env) NewRenderer() *Renderer {
	return &Renderer{E: e, Covered: map[parse.Node]bool{}, Exported: map[string]string{}}
}

// Render instantiates head+body for the given Output description.
func (r *Renderer) Render(output any, al Aliaser, stub bool, buildInfo string) (string, error) {
	e := r.E
	if e.DataType == nil || e.Body == nil || e.Head == nil {
		return "", fmt.Errorf("template environment incomplete: %v", e.Problems)
	}
	data, err := Build(e.DataType, map[string]any{"Output": output, "BuildInfo": buildInfo, "Stub": stub}, "data")
	if err != nil {
		return "", err
	}
	ic := data.Fields["ImportCollection"]
	if ic == nil || ic.K != KIface {
		return "", fmt.Errorf("data.ImportCollection is not an interface-typed field")
	}
	ic.Meth["Imports"] = func([]*Value) (*Value, error) {
		l := &Value{K: KSlice}
		for _, im := range al.Imports() {
			v, err := Build(e.ImportT, map[string]any{"Alias": im[0], "Path": im[1]}, "import")
			if err != nil {
				return nil, err
			}
			l.Elems = append(l.Elems, v)
		}
		return l, nil
	}
	out := data.Fields["Output"]
	funcs := map[string]Func{}
	for name, m := range e.Funcs {
		m := m
		switch m.Kind {
		case "export":
			funcs[name] = func(a []*Value) (*Value, error) {
				if len(a) != 1 {
					return nil, fmt.Errorf("export takes one argument")
				}
				s, err := Export(a[0])
				if err != nil {
					return nil, err
				}
				return Str(s), nil
			}
		case "aliasArg":
			funcs[name] = func(a []*Value) (*Value, error) {
				if len(a) != 1 || a[0].K != KString {
					return nil, fmt.Errorf("alias function takes one string")
				}
				return Str(al.Alias(a[0].S)), nil
			}
		case "aliasConst":
			funcs[name] = func(a []*Value) (*Value, error) {
				if len(a) != 0 {
					return nil, fmt.Errorf("%s takes no argument", m.Name)
				}
				return Str(al.Alias(m.Path)), nil
			}
		case "isString":
			funcs[name] = func(a []*Value) (*Value, error) {
				if len(a) != 1 {
					return nil, fmt.Errorf("isString takes one argument")
				}
				switch a[0].K {
				case KString:
					return Bool(true), nil
				case KAny:
					_, ok := a[0].A.(string)
					return Bool(ok), nil
				}
				return Bool(false), nil
			}
		case "isTagged":
			funcs[name] = func(a []*Value) (*Value, error) {
				if len(a) != 2 || a[0].K != KString || a[1].K != KString {
					return nil, fmt.Errorf("isTagged takes two strings")
				}
				tag, svc := a[m.TagArg].S, a[m.SvcArg].S
				for _, s := range out.Fields["Services"].Elems {
					if s.Fields["Name"].S != svc {
						continue
					}
					for _, t := range s.Fields["Tags"].Elems {
						if t.Fields["Name"].S == tag {
							return Bool(true), nil
						}
					}
				}
				return Bool(false), nil
			}
		}
	}
	method := func(recv *Value, name string, args []*Value) (*Value, bool, error) {
		n, ok := recv.T.(*types.Named)
		if !ok {
			return nil, false, nil
		}
		c, ok := e.Methods[n.Obj().Name()+"."+name]
		if !ok {
			return nil, false, nil
		}
		if recv.K != KConst {
			return nil, false, fmt.Errorf("method %s on a non-constant receiver", name)
		}
		return Bool(recv.Const == c), true, nil
	}
	run := func(set *TplSet) (string, error) {
		in := &Interp{Trees: set.Trees, Funcs: funcs, Method: method, Covered: r.Covered}
		if r.KeepTrace {
			in.OnFunc = func(tree, name string, node parse.Node, args []*Value) {
				if m, ok := e.Funcs[name]; ok && m.Kind == "export" && len(args) == 1 && args[0].K == KAny {
					r.Exported[tree+": "+node.String()] = args[0].Origin
				}
			}
			in.OnAction = func(tree string, n *parse.ActionNode, v *Value, printed string) {
				exp := false
				if c := n.Pipe.Cmds[len(n.Pipe.Cmds)-1]; len(c.Args) > 0 {
					if id, ok := c.Args[0].(*parse.IdentifierNode); ok {
						if m, ok := e.Funcs[id.Ident]; ok && m.Kind == "export" {
							exp = true
						}
					}
				}
				r.Trace = append(r.Trace, ActionTrace{tree, n, v, printed, exp})
			}
		}
		return in.Execute(set.Name, data)
	}
	var head, body string
	if e.BodyFirst {
		if body, err = run(e.Body); err != nil {
			return "", err
		}
		if head, err = run(e.Head); err != nil {
			return "", err
		}
	} else {
		if head, err = run(e.Head); err != nil {
			return "", err
		}
		if body, err = run(e.Body); err != nil {
			return "", err
		}
	}
	return head + body, nil
}

// Uncovered lists template control/action nodes never executed by any render so far.
func (r *Renderer) Uncovered() []string {
	var out []string
	for _, set := range []*TplSet{r.E.Body, r.E.Head} {
		if set == nil {
			continue
		}
		// only trees reachable from the main template through {{template}} calls
		reach := map[string]bool{}
		var visit func(name string)
		visit = func(name string) {
			if reach[name] {
				return
			}
			t, ok := set.Trees[name]
			if !ok || t.Root == nil {
				return
			}
			reach[name] = true
			var w func(n parse.Node)
			w = func(n parse.Node) {
				switch x := n.(type) {
				case *parse.ListNode:
					if x != nil {
						for _, k := range x.Nodes {
							w(k)
						}
					}
				case *parse.TemplateNode:
					visit(x.Name)
				case *parse.IfNode:
					w(x.List)
					w(x.ElseList)
				case *parse.RangeNode:
					w(x.List)
					w(x.ElseList)
				case *parse.WithNode:
					w(x.List)
					w(x.ElseList)
				}
			}
			w(t.Root)
		}
		visit(set.Name)
		var names []string
		for n := range reach {
			names = append(names, n)
		}
		sort.Strings(names)
		for _, name := range names {
			t := set.Trees[name]
			if t.Root == nil {
				continue
			}
			var walk func(n parse.Node)
			walk = func(n parse.Node) {
				switch x := n.(type) {
				case *parse.ListNode:
					if x == nil {
						return
					}
					if !r.Covered[x] && len(x.Nodes) > 0 {
						out = append(out, fmt.Sprintf("%s: branch starting with %q", name, short(x.Nodes[0].String())))
						return
					}
					for _, k := range x.Nodes {
						walk(k)
					}
				case *parse.IfNode:
					walk(x.List)
					if x.ElseList != nil {
						walk(x.ElseList)
					}
				case *parse.RangeNode:
					walk(x.List)
					if x.ElseList != nil {
						walk(x.ElseList)
					}
				case *parse.WithNode:
					walk(x.List)
					if x.ElseList != nil {
						walk(x.ElseList)
					}
				}
			}
			walk(t.Root)
		}
	}
	return out
}

func short(s string) string {
	if len(s) > 60 {
		return s[:60] + "…"
	}
	return s
}
