// Package report collects obligations, matches them against the committed
// known-findings file, writes the evidence and replay files and prints the
// VIOLATION / KNOWN-FINDING lines of the harness interface.
package report

import (
	"encoding/json"
	"fmt"
	"os"
	"path/filepath"
	"sort"
	"strings"
	"time"
)

type Verdict string

const (
	Holds     Verdict = "holds"
	Violated  Verdict = "violated"
	Undecided Verdict = "undecided"
)

type Ob struct {
	Rule    string  `json:"rule"`
	Key     string  `json:"construct"`
	Verdict Verdict `json:"verdict"`
	Detail  string  `json:"detail,omitempty"`
	Pos     string  `json:"pos,omitempty"`
	Witness any     `json:"witness,omitempty"`
}

type RuleDoc struct {
	ID   string `json:"id"`
	Text string `json:"text"`
	Min  int    `json:"min_instances,omitempty"`
	N    int    `json:"instances"`
}

type Finding struct {
	Property  string `json:"property"`
	Rule      string `json:"rule"`
	Construct string `json:"construct"`
	What      string `json:"what"`
	Status    string `json:"status"` // "known" | "fixed"
	Commit    string `json:"commit,omitempty"`
}

type Ctx struct {
	Prop, Tier, Level string
	OutDir            string
	FindingsDir       string // where known_findings.json lives (default OutDir)
	Seed              int64
	obs               []Ob
	seen              map[string]bool
	rules             []*RuleDoc
	ruleIx            map[string]*RuleDoc
	Analysed          map[string]any
	NotCovered        []string
	Assumptions       []string
	Trusted           []string
	Extra             map[string]any
	start             time.Time
}

func New(prop, tier, outDir string) *Ctx {
	return &Ctx{Prop: prop, Tier: tier, Level: "other", OutDir: outDir, seen: map[string]bool{},
		NotCovered: []string{}, Assumptions: []string{}, Trusted: []string{},
		ruleIx: map[string]*RuleDoc{}, Analysed: map[string]any{}, Extra: map[string]any{}, start: time.Now()}
}

// Rule registers a rule with its description and minimum instance count.
func (c *Ctx) Rule(id, text string, min int) {
	if r, ok := c.ruleIx[id]; ok {
		r.Text, r.Min = text, min
		return
	}
	r := &RuleDoc{ID: id, Text: text, Min: min}
	c.rules = append(c.rules, r)
	c.ruleIx[id] = r
}

func (c *Ctx) add(o Ob) {
	k := o.Rule + "\x00" + o.Key
	if c.seen[k] {
		// keep the worst verdict for a duplicate key
		for i := range c.obs {
			if c.obs[i].Rule == o.Rule && c.obs[i].Key == o.Key {
				if c.obs[i].Verdict == Holds && o.Verdict != Holds {
					c.obs[i] = o
				}
				return
			}
		}
	}
	c.seen[k] = true
	c.obs = append(c.obs, o)
	if r, ok := c.ruleIx[o.Rule]; ok {
		r.N++
	} else {
		c.Rule(o.Rule, "", 0)
		c.ruleIx[o.Rule].N++
	}
}

func (c *Ctx) Hold(rule, key, detail string, pos ...string) {
	c.add(Ob{Rule: rule, Key: key, Verdict: Holds, Detail: detail, Pos: first(pos)})
}
func (c *Ctx) Violate(rule, key, detail string, witness any, pos ...string) {
	c.add(Ob{Rule: rule, Key: key, Verdict: Violated, Detail: detail, Pos: first(pos), Witness: witness})
}
func (c *Ctx) Undecide(rule, key, detail string, pos ...string) {
	c.add(Ob{Rule: rule, Key: key, Verdict: Undecided, Detail: detail, Pos: first(pos)})
}

// Check is a convenience: holds if ok, else violated.
func (c *Ctx) Check(ok bool, rule, key, detail string, pos ...string) bool {
	if ok {
		c.Hold(rule, key, detail, pos...)
	} else {
		c.Violate(rule, key, detail, nil, pos...)
	}
	return ok
}

func first(s []string) string {
	if len(s) > 0 {
		return s[0]
	}
	return ""
}

func (c *Ctx) Obs() []Ob { return c.obs }

func loadFindings(dir string) ([]Finding, error) {
	b, err := os.ReadFile(filepath.Join(dir, "known_findings.json"))
	if err != nil {
		if os.IsNotExist(err) {
			return nil, nil
		}
		return nil, err
	}
	var f struct {
		Findings []Finding `json:"findings"`
	}
	if err := json.Unmarshal(b, &f); err != nil {
		return nil, err
	}
	return f.Findings, nil
}

// Finish evaluates minimum counts, writes evidence and replay files, prints the
// interface lines and returns the process exit code.
func (c *Ctx) Finish() int {
	for _, r := range c.rules {
		if r.Min > 0 && r.N < r.Min {
			c.add(Ob{Rule: r.ID, Key: "instance-count", Verdict: Undecided,
				Detail: fmt.Sprintf("rule matched %d instances, fewer than the %d confirmed by hand: the anchor moved or the rule passes vacuously", r.N, r.Min)})
		}
	}
	fd := c.FindingsDir
	if fd == "" {
		fd = c.OutDir
	}
	findings, ferr := loadFindings(fd)
	if ferr != nil {
		c.add(Ob{Rule: "known-findings", Key: "known_findings.json", Verdict: Undecided, Detail: ferr.Error()})
	}
	known := map[string]Finding{}
	for _, f := range findings {
		if f.Status == "known" && f.Property == c.Prop {
			known[f.Rule+"\x00"+f.Construct] = f
		}
	}
	sort.SliceStable(c.obs, func(i, j int) bool {
		if c.obs[i].Rule != c.obs[j].Rule {
			return c.obs[i].Rule < c.obs[j].Rule
		}
		return c.obs[i].Key < c.obs[j].Key
	})
	_ = os.MkdirAll(filepath.Join(c.OutDir, "replay"), 0o755)
	_ = os.MkdirAll(filepath.Join(c.OutDir, "evidence"), 0o755)
	old, _ := filepath.Glob(filepath.Join(c.OutDir, "replay", c.Prop+"-*.json"))
	for _, f := range old {
		_ = os.Remove(f)
	}
	var lines []string
	discharged, violations, knownHits := 0, 0, 0
	var bad []Ob
	for _, o := range c.obs {
		if o.Verdict == Holds {
			discharged++
			continue
		}
		if f, ok := known[o.Rule+"\x00"+o.Key]; ok && o.Verdict == Violated {
			knownHits++
			lines = append(lines, fmt.Sprintf("KNOWN-FINDING: property=%s %s [%s %s]", c.Prop, f.What, o.Rule, o.Key))
			continue
		}
		violations++
		bad = append(bad, o)
		name := fmt.Sprintf("%s-%s-%d.json", c.Prop, sanitize(o.Rule), violations)
		path := filepath.Join(c.OutDir, "replay", name)
		rep := map[string]any{"property": c.Prop, "rule": o.Rule, "rule_text": c.ruleText(o.Rule), "construct": o.Key, "verdict": o.Verdict,
			"detail": o.Detail, "pos": o.Pos, "witness": o.Witness,
			"rerun": fmt.Sprintf("/verif/scripts/check.sh %s %s", c.Prop, c.Tier)}
		b, _ := json.MarshalIndent(rep, "", " ")
		_ = os.WriteFile(path, b, 0o644)
		fmt.Printf("%s rule=%s construct=%s at %s: %s\n", strings.ToUpper(string(o.Verdict)), o.Rule, o.Key, o.Pos, o.Detail)
		lines = append(lines, fmt.Sprintf("VIOLATION property=%s replay=%s", c.Prop, path))
	}
	// evidence
	samples := []any{}
	for _, o := range bad {
		samples = append(samples, o)
	}
	perRule := map[string]int{}
	for _, o := range c.obs {
		if o.Verdict == Holds && perRule[o.Rule] < 3 && len(samples) < 60 {
			perRule[o.Rule]++
			samples = append(samples, o)
		}
	}
	var expl []string
	for _, r := range c.rules {
		if r.Text != "" {
			expl = append(expl, fmt.Sprintf("%s (%d instances): %s", r.ID, r.N, r.Text))
		}
	}
	keys := map[string]bool{}
	for _, o := range c.obs {
		keys[o.Key] = true
	}
	cov := map[string]any{
		"explanation":         "Static analysis of /repo's current working tree; no repository code is executed. Rules applied — " + strings.Join(expl, " | "),
		"obligations":         len(c.obs),
		"discharged":          discharged + knownHits,
		"evaluations":         len(c.obs),
		"distinct_nontrivial": len(keys),
		"rule":                "one obligation per (rule, resolved construct); distinct = distinct construct keys; every obligation is a resolved program fact (call site, field, loop, regex, template valuation), none is a constant of the checker",
		"samples":             samples,
		"rules":               c.rules,
		"analysed":            c.Analysed,
		"not_covered":         c.NotCovered,
		"known_findings_hit":  knownHits,
		"checker_cmd":         fmt.Sprintf("/verif/scripts/check.sh %s %s", c.Prop, c.Tier),
		"trusted_base":        append([]string{"go/types", "go/ssa (x/tools v0.29.0)", "go/packages"}, c.Trusted...),
		"exhaustive":          true,
	}
	for k, v := range c.Extra {
		cov[k] = v
	}
	ev := map[string]any{
		"property_id": c.Prop, "tier": c.Tier, "seed": c.Seed, "level": c.Level,
		"coverage": cov, "assumptions": c.Assumptions,
		"wall_s":     time.Since(c.start).Seconds(),
		"violations": violations,
	}
	b, _ := json.MarshalIndent(ev, "", " ")
	if err := os.WriteFile(filepath.Join(c.OutDir, "evidence", c.Prop+".json"), b, 0o644); err != nil {
		fmt.Println("cannot write evidence:", err)
		return 1
	}
	fmt.Printf("property=%s tier=%s obligations=%d discharged=%d known=%d violations=%d wall=%.1fs\n",
		c.Prop, c.Tier, len(c.obs), discharged, knownHits, violations, time.Since(c.start).Seconds())
	for _, l := range lines {
		fmt.Println(l)
	}
	if violations > 0 {
		return 1
	}
	return 0
}

func (c *Ctx) ruleText(id string) string {
	if r, ok := c.ruleIx[id]; ok {
		return r.Text
	}
	return ""
}

func sanitize(s string) string {
	var b strings.Builder
	for _, r := range s {
		if r >= 'a' && r <= 'z' || r >= 'A' && r <= 'Z' || r >= '0' && r <= '9' || r == '.' || r == '_' {
			b.WriteRune(r)
		} else {
			b.WriteByte('_')
		}
	}
	return b.String()
}
