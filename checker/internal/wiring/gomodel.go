// Package wiring is engine W: a model of the self-hosted container, extracted on one
// side from the checked-in generated file (internal/gontainer/gontainer.go, by AST and
// types) and on the other from the YAML files the Makefile feeds to `gontainer build`.
package wiring

import (
	"fmt"
	"go/ast"
	"go/constant"
	"go/token"
	"go/types"
	"strconv"
	"strings"

	"gverif/internal/load"

	"golang.org/x/tools/go/packages"
)

type Tok struct {
	Kind  string // "param" | "string" | "func" | "percent" | "unknown"
	Name  string // param name, string value
	Fn    ast.Expr
	FnObj types.Object
	Args  []ast.Expr
	Lit   *ast.FuncLit
}

type Dep struct {
	Kind   string // "service" | "tag" | "value" | "container" | "param" | "string" | "func" | "concat" | "unknown"
	Name   string // service / tag / param name, or the string literal
	Expr   ast.Expr
	Full   ast.Expr     // the whole argument expression as written in the file
	Obj    types.Object // for value: the object the expression denotes (var, const, func, type name of T{})
	Form   string       // for value: "ident", "&ident", "T{}", "&T{}", "literal"
	Val    constant.Value
	Toks   []Tok // for concat / single provider
	Code   string
	Raw    string // text of the "// raw" comment above the argument, if any
	RawOK  bool
	Pos    token.Pos
	Single Tok
}

type Call struct {
	Method    string
	Immutable bool
	Args      []Dep
}

type Field struct {
	Name string
	Val  Dep
}

type Tag struct {
	Name string
	Prio int
}

type Service struct {
	Name      string
	CtorKind  string // "func" | "value" | "type" | "todo" | "none"
	Ctor      ast.Expr
	CtorObj   types.Object
	CtorLit   *ast.FuncLit
	Args      []Dep
	Fields    []Field
	Calls     []Call
	Tags      []Tag
	ScopeCall string // method name called on s, "" if none
	Pos       token.Pos
	Order     []string // sequence of method names called on s, then "OverrideService"
	Comment   string
}

type Decorator struct {
	Tag   string
	Fn    ast.Expr
	FnObj types.Object
	Args  []Dep
	Pos   token.Pos
}

type Getter struct {
	Method    string // e.g. GetRunner
	Service   string // id passed to c.Get
	InContext bool
	Must      bool
	Type      types.Type
	Calls     string // for Must*: the getter it calls
	Pos       token.Pos
}

type Param struct {
	Name string
	Dep  Dep
	Raw  string
}

type GoModel struct {
	Pkg        *packages.Package
	File       *ast.File
	Ctor       *ast.FuncDecl
	TypeName   string
	CtorName   string
	PkgName    string
	Params     []Param
	Services   []Service
	Decorators []Decorator
	Getters    []Getter
	Helpers    map[types.Object]string // local helper variable -> kind
	RootAssign token.Pos               // position of `rootGontainer = c`
	Problems   []string
	Imports    map[string]string // local name -> path
	fset       *token.FileSet
	posFn      func(token.Pos) string
}

func (m *GoModel) byName(name string) *Service {
	for i := range m.Services {
		if m.Services[i].Name == name {
			return &m.Services[i]
		}
	}
	return nil
}

// Service returns the service registered under name. The checker's rules address the services of the
// self-hosting container by the role they play; the names below are the ids the pinned tree gives those
// roles. A service id is private to the YAML files, so when an id was renamed the role is found through
// the constructor that defines it (unique per role).
func (m *GoModel) Service(name string) *Service { return m.byName(m.RoleID(name)) }

var roleCtor = map[string][2]string{
	"inputValidator":         {"internal/pkg/input", "NewDefaultValidator"},
	"stepValidateInput":      {"internal/pkg/compiler", "NewStepValidateInput"},
	"stepCompileMeta":        {"internal/pkg/compiler", "NewStepCompileMeta"},
	"stepCompileParams":      {"internal/pkg/compiler", "NewStepCompileParams"},
	"stepCompileServices":    {"internal/pkg/compiler", "NewStepCompileServices"},
	"stepCompileDecorators":  {"internal/pkg/compiler", "NewStepCompileDecorators"},
	"compiler":               {"internal/pkg/compiler", "New"},
	"imports":                {"internal/pkg/imports", "New"},
	"tokenChunker":           {"internal/pkg/token", "NewChunker"},
	"tokenizer":              {"internal/pkg/token", "NewTokenizer"},
	"tokenStrategyFactory":   {"internal/pkg/token", "NewStrategyFactory"},
	"fnRegisterer":           {"internal/pkg/token", "NewFuncRegisterer"},
	"gontainerValueResolver": {"internal/pkg/resolver", "NewFixedValueResolver"},
	"patternResolver":        {"internal/pkg/resolver", "NewPatternResolver"},
	"paramResolver":          {"internal/pkg/resolver", "NewParamResolver"},
	"serviceResolver":        {"internal/pkg/resolver", "NewServiceResolver"},
	"taggedResolver":         {"internal/pkg/resolver", "NewTaggedResolver"},
	"valueResolver":          {"internal/pkg/resolver", "NewValueResolver"},
	"printer":                {"internal/cmd/runner", "NewPrinter"},
	"stepReadConfig":         {"internal/cmd/runner", "NewStepReadConfig"},
	"stepCompile":            {"internal/cmd/runner", "NewStepCompile"},
	"stepValidateOutput":     {"internal/cmd/runner", "NewStepAmalgamated"},
	"stepCodeGenerator":      {"internal/cmd/runner", "NewStepCodeGenerator"},
	"runner":                 {"internal/cmd/runner", "NewRunner"},
	"codeFormatter":          {"internal/pkg/template", "NewCodeFormatter"},
	"templateBuilder":        {"internal/pkg/template", "NewBuilder"},
	"argResolver":            {"internal/pkg/resolver", "NewArgResolver"},
	"primitiveArgResolver":   {"internal/pkg/resolver", "NewArgResolver"},
}

func ctorMatches(s *Service, want [2]string) bool {
	if s == nil || s.CtorKind != "func" || s.CtorObj == nil || s.CtorObj.Pkg() == nil {
		return false
	}
	return s.CtorObj.Name() == want[1] && strings.HasSuffix(s.CtorObj.Pkg().Path(), "/"+want[0])
}

// RoleID maps a role (the id the pinned tree uses) to the id the current tree uses.
func (m *GoModel) RoleID(role string) string {
	want, ok := roleCtor[role]
	if !ok {
		return role
	}
	if s := m.byName(role); s != nil && ctorMatches(s, want) && want[1] != "NewArgResolver" {
		return role
	}
	var cands []*Service
	for i := range m.Services {
		if ctorMatches(&m.Services[i], want) {
			cands = append(cands, &m.Services[i])
		}
	}
	if want[1] == "NewArgResolver" {
		// two chains share the constructor: the full one contains the @service strategy
		var out []*Service
		for _, c := range cands {
			full := false
			for _, a := range c.Args {
				if a.Kind == "service" && ctorMatches(m.byName(a.Name), roleCtor["serviceResolver"]) {
					full = true
				}
			}
			if full == (role == "argResolver") {
				out = append(out, c)
			}
		}
		cands = out
	}
	if len(cands) == 1 {
		return cands[0].Name
	}
	return role
}

var helperKinds = map[string]string{
	"NewDependencyService": "service", "NewDependencyValue": "value", "NewDependencyTag": "tag",
	"NewDependencyProvider": "provider", "NewService": "newService",
	"_concatenateChunks": "concat", "_paramTodo": "paramTodo", "_getEnv": "getEnv", "_getEnvInt": "getEnvInt",
	"GetParam": "getParam", "_callProvider": "callProvider",
}

// FromGo extracts the model from the generated file of rel (module-relative package path).
func FromGo(p *load.Program, rel string) (*GoModel, error) {
	pk := p.Pkg(rel)
	if pk == nil {
		return nil, fmt.Errorf("package %s not loaded", rel)
	}
	var file *ast.File
	for _, f := range pk.Syntax {
		if ast.IsGenerated(f) {
			file = f
		}
	}
	if file == nil {
		return nil, fmt.Errorf("no generated file in %s", rel)
	}
	return FromFile(p.Fset, p.Pos, pk, file)
}

// FromFile extracts the model from one generated file of a type-checked package.
func FromFile(fset *token.FileSet, posFn func(token.Pos) string, pk *packages.Package, file *ast.File) (*GoModel, error) {
	m := &GoModel{Pkg: pk, Helpers: map[types.Object]string{}, Imports: map[string]string{}, File: file, fset: fset, posFn: posFn}
	m.PkgName = m.File.Name.Name
	for _, im := range m.File.Imports {
		path, _ := strconv.Unquote(im.Path.Value)
		name := ""
		if im.Name != nil {
			name = im.Name.Name
		} else {
			name = path[strings.LastIndex(path, "/")+1:]
		}
		m.Imports[name] = path
	}
	info := pk.TypesInfo
	// container type: the struct embedding *container.Container
	for _, d := range m.File.Decls {
		gd, ok := d.(*ast.GenDecl)
		if !ok || gd.Tok != token.TYPE {
			continue
		}
		for _, sp := range gd.Specs {
			ts := sp.(*ast.TypeSpec)
			if st, ok := ts.Type.(*ast.StructType); ok && len(st.Fields.List) >= 1 && len(st.Fields.List[0].Names) == 0 {
				m.TypeName = ts.Name.Name
			}
		}
	}
	for _, d := range m.File.Decls {
		fd, ok := d.(*ast.FuncDecl)
		if !ok || fd.Body == nil {
			continue
		}
		if fd.Recv == nil && fd.Type.Results != nil && len(fd.Type.Results.List) == 1 && fd.Name.Name != "init" {
			m.Ctor = fd
			m.CtorName = fd.Name.Name
		}
	}
	if m.Ctor == nil || m.TypeName == "" {
		return nil, fmt.Errorf("constructor or container type not found in generated file")
	}
	m.parseCtor(info)
	m.parseGetters(info)
	return m, nil
}

func (m *GoModel) problem(pos token.Pos, format string, a ...any) {
	m.Problems = append(m.Problems, m.posFn(pos)+": "+fmt.Sprintf(format, a...))
}

// commentBefore returns the text of the line comment that ends on the line right above pos.
func (m *GoModel) commentBefore(pos token.Pos) (string, bool) {
	line := m.fset.Position(pos).Line
	for _, cg := range m.File.Comments {
		for _, c := range cg.List {
			if m.fset.Position(c.End()).Line == line-1 && strings.HasPrefix(c.Text, "//") {
				if m.fset.Position(c.Pos()).Line == line-1 {
					return strings.TrimSpace(strings.TrimPrefix(c.Text, "//")), true
				}
			}
		}
	}
	return "", false
}

func (m *GoModel) parseCtor(info *types.Info) {
	var cObj types.Object
	for _, st := range m.Ctor.Body.List {
		switch s := st.(type) {
		case *ast.AssignStmt:
			if len(s.Lhs) != 1 || len(s.Rhs) != 1 {
				m.problem(s.Pos(), "unrecognised assignment in the constructor")
				continue
			}
			lid, ok := s.Lhs[0].(*ast.Ident)
			if !ok {
				m.problem(s.Pos(), "unrecognised assignment target")
				continue
			}
			if lid.Name == "_" {
				continue
			}
			lobj := info.ObjectOf(lid)
			rhs := ast.Unparen(s.Rhs[0])
			if s.Tok == token.DEFINE {
				if u, ok := rhs.(*ast.UnaryExpr); ok && u.Op == token.AND {
					if _, ok := u.X.(*ast.CompositeLit); ok {
						cObj = lobj
						continue
					}
				}
				// helper := pkg.Func  |  helper := c.method
				if se, ok := rhs.(*ast.SelectorExpr); ok {
					if k, ok := helperKinds[se.Sel.Name]; ok {
						m.Helpers[lobj] = k
						continue
					}
				}
				// a helper the checker has no kind for: a function value bound to a local is inert by itself
				// (calls of it outside closures are still caught by the laziness rule R15.2)
				if _, isSel := rhs.(*ast.SelectorExpr); isSel {
					m.Helpers[lobj] = "other:" + lid.Name
					continue
				}
				m.problem(s.Pos(), "unrecognised helper definition %s", lid.Name)
				continue
			}
			// rootGontainer = c
			if rid, ok := rhs.(*ast.Ident); ok && info.ObjectOf(rid) == cObj {
				m.RootAssign = s.Pos()
				continue
			}
			m.problem(s.Pos(), "unrecognised assignment in the constructor")
		case *ast.ExprStmt:
			call, ok := s.X.(*ast.CallExpr)
			if !ok {
				m.problem(s.Pos(), "unrecognised statement")
				continue
			}
			se, ok := ast.Unparen(call.Fun).(*ast.SelectorExpr)
			if !ok {
				m.problem(s.Pos(), "unrecognised call")
				continue
			}
			switch se.Sel.Name {
			case "OverrideParam":
				if len(call.Args) != 2 {
					m.problem(s.Pos(), "OverrideParam arity")
					continue
				}
				name, _ := load.StringOf(info, call.Args[0])
				prm := Param{Name: name, Dep: m.parseDep(info, call.Args[1])}
				prm.Raw, _ = m.commentBefore(s.Pos())
				m.Params = append(m.Params, prm)
			case "AddDecorator":
				if len(call.Args) < 2 {
					m.problem(s.Pos(), "AddDecorator arity")
					continue
				}
				tag, _ := load.StringOf(info, call.Args[0])
				d := Decorator{Tag: tag, Fn: call.Args[1], FnObj: exprObj(info, call.Args[1]), Pos: s.Pos()}
				for _, a := range call.Args[2:] {
					d.Args = append(d.Args, m.parseDep(info, a))
				}
				m.Decorators = append(m.Decorators, d)
			default:
				m.problem(s.Pos(), "unrecognised call %s in the constructor", se.Sel.Name)
			}
		case *ast.BlockStmt:
			m.parseService(info, s)
		case *ast.ReturnStmt:
		default:
			m.problem(st.Pos(), "unrecognised statement %T", st)
		}
	}
}

func exprObj(info *types.Info, e ast.Expr) types.Object {
	switch x := ast.Unparen(e).(type) {
	case *ast.Ident:
		return info.ObjectOf(x)
	case *ast.SelectorExpr:
		return info.ObjectOf(x.Sel)
	}
	return nil
}

func (m *GoModel) parseService(info *types.Info, b *ast.BlockStmt) {
	svc := Service{Pos: b.Pos(), CtorKind: "none"}
	svc.Comment, _ = m.commentBefore(b.Pos())
	var sObj types.Object
	for _, st := range b.List {
		switch s := st.(type) {
		case *ast.AssignStmt:
			if len(s.Lhs) == 1 && s.Tok == token.DEFINE {
				if call, ok := s.Rhs[0].(*ast.CallExpr); ok {
					if id, ok := call.Fun.(*ast.Ident); ok && m.Helpers[info.ObjectOf(id)] == "newService" {
						sObj = info.ObjectOf(s.Lhs[0].(*ast.Ident))
						continue
					}
				}
			}
			m.problem(s.Pos(), "unrecognised assignment in a service block")
		case *ast.ExprStmt:
			call, ok := s.X.(*ast.CallExpr)
			if !ok {
				m.problem(s.Pos(), "unrecognised statement in a service block")
				continue
			}
			se, ok := ast.Unparen(call.Fun).(*ast.SelectorExpr)
			if !ok {
				m.problem(s.Pos(), "unrecognised call in a service block")
				continue
			}
			recv, _ := ast.Unparen(se.X).(*ast.Ident)
			onS := recv != nil && info.ObjectOf(recv) == sObj
			if onS {
				svc.Order = append(svc.Order, se.Sel.Name)
			}
			switch {
			case onS && se.Sel.Name == "SetConstructor":
				if len(call.Args) == 0 {
					m.problem(s.Pos(), "SetConstructor without arguments")
					continue
				}
				svc.Ctor = call.Args[0]
				if fl, ok := ast.Unparen(call.Args[0]).(*ast.FuncLit); ok {
					svc.CtorLit = fl
					svc.CtorKind = classifyCtorLit(fl)
				} else {
					svc.CtorKind = "func"
					svc.CtorObj = exprObj(info, call.Args[0])
				}
				for _, a := range call.Args[1:] {
					svc.Args = append(svc.Args, m.parseDep(info, a))
				}
			case onS && se.Sel.Name == "SetField":
				name, _ := load.StringOf(info, call.Args[0])
				svc.Fields = append(svc.Fields, Field{Name: name, Val: m.parseDep(info, call.Args[1])})
			case onS && (se.Sel.Name == "AppendCall" || se.Sel.Name == "AppendWither") && len(call.Args) == 0:
				m.problem(call.Pos(), "%s without a method name", se.Sel.Name)
			case onS && (se.Sel.Name == "AppendCall" || se.Sel.Name == "AppendWither"):
				name, _ := load.StringOf(info, call.Args[0])
				c := Call{Method: name, Immutable: se.Sel.Name == "AppendWither"}
				for _, a := range call.Args[1:] {
					c.Args = append(c.Args, m.parseDep(info, a))
				}
				svc.Calls = append(svc.Calls, c)
			case onS && se.Sel.Name == "Tag":
				name, _ := load.StringOf(info, call.Args[0])
				prio := 0
				if tv, ok := info.Types[call.Args[1]]; ok && tv.Value != nil {
					if v, ok := constant.Int64Val(constant.ToInt(tv.Value)); ok {
						prio = int(v)
					}
				}
				svc.Tags = append(svc.Tags, Tag{Name: name, Prio: prio})
			case onS && strings.Contains(se.Sel.Name, "Scope"):
				svc.ScopeCall = se.Sel.Name
			case !onS && se.Sel.Name == "OverrideService":
				svc.Name, _ = load.StringOf(info, call.Args[0])
				svc.Order = append(svc.Order, "OverrideService")
				if id, ok := ast.Unparen(call.Args[1]).(*ast.Ident); !ok || info.ObjectOf(id) != sObj {
					m.problem(s.Pos(), "OverrideService does not register the block's service")
				}
			default:
				m.problem(s.Pos(), "unrecognised call %s in a service block", se.Sel.Name)
			}
		default:
			m.problem(st.Pos(), "unrecognised statement %T in a service block", st)
		}
	}
	if svc.Name == "" {
		m.problem(b.Pos(), "service block without OverrideService")
	}
	m.Services = append(m.Services, svc)
}

func classifyCtorLit(fl *ast.FuncLit) string {
	if len(fl.Body.List) != 1 {
		return "unknown"
	}
	rs, ok := fl.Body.List[0].(*ast.ReturnStmt)
	if !ok {
		return "unknown"
	}
	switch len(rs.Results) {
	case 0:
		return "type" // func() (result T) { return }
	case 1:
		return "value" // func() T { return expr }
	case 2:
		if id, ok := rs.Results[0].(*ast.Ident); ok && id.Name == "nil" {
			return "todo"
		}
	}
	return "unknown"
}

func (m *GoModel) parseDep(info *types.Info, e ast.Expr) Dep {
	d := Dep{Kind: "unknown", Expr: e, Full: e, Pos: e.Pos(), Code: types.ExprString(e)}
	d.Raw, d.RawOK = m.commentBefore(e.Pos())
	call, ok := ast.Unparen(e).(*ast.CallExpr)
	if !ok {
		return d
	}
	id, ok := ast.Unparen(call.Fun).(*ast.Ident)
	if !ok || len(call.Args) != 1 {
		return d
	}
	switch m.Helpers[info.ObjectOf(id)] {
	case "service":
		if s, ok := load.StringOf(info, call.Args[0]); ok {
			d.Kind, d.Name = "service", s
		}
	case "tag":
		if s, ok := load.StringOf(info, call.Args[0]); ok {
			d.Kind, d.Name = "tag", s
		}
	case "value":
		d.Kind = "value"
		d.Expr = call.Args[0]
		m.classifyValue(info, &d)
	case "provider":
		fl, ok := ast.Unparen(call.Args[0]).(*ast.FuncLit)
		if !ok {
			return d
		}
		m.parseProvider(info, fl, &d)
	}
	return d
}

func (m *GoModel) classifyValue(info *types.Info, d *Dep) {
	e := ast.Unparen(d.Expr)
	amp := ""
	if u, ok := e.(*ast.UnaryExpr); ok && u.Op == token.AND {
		amp = "&"
		e = ast.Unparen(u.X)
	}
	if tv, ok := info.Types[d.Expr]; ok && tv.Value != nil {
		d.Val = tv.Value
	}
	switch x := e.(type) {
	case *ast.Ident:
		if x.Name == "rootGontainer" {
			if _, isVar := info.ObjectOf(x).(*types.Var); isVar {
				d.Kind = "container"
				return
			}
		}
		d.Obj, d.Form = info.ObjectOf(x), amp+"ident"
	case *ast.SelectorExpr:
		d.Obj, d.Form = info.ObjectOf(x.Sel), amp+"ident"
	case *ast.CompositeLit:
		if len(x.Elts) == 0 {
			d.Obj, d.Form = exprObj(info, x.Type), amp+"T{}"
		}
	case *ast.CallExpr, *ast.BasicLit:
		d.Form = "literal"
	}
	if d.Form == "" {
		d.Form = "literal"
	}
}

// parseProvider recognises the token forms the compiler emits inside dependencyProvider(...).
func (m *GoModel) parseProvider(info *types.Info, fl *ast.FuncLit, d *Dep) {
	// concat: return concatenateChunks(f1, f2, ...)
	if len(fl.Body.List) == 1 {
		if rs, ok := fl.Body.List[0].(*ast.ReturnStmt); ok && len(rs.Results) == 1 {
			if call, ok := rs.Results[0].(*ast.CallExpr); ok {
				if id, ok := call.Fun.(*ast.Ident); ok {
					switch m.Helpers[info.ObjectOf(id)] {
					case "concat":
						d.Kind = "concat"
						for _, a := range call.Args {
							if l, ok := ast.Unparen(a).(*ast.FuncLit); ok {
								d.Toks = append(d.Toks, m.parseTok(info, l))
							} else {
								d.Toks = append(d.Toks, Tok{Kind: "unknown"})
							}
						}
						return
					}
				}
			}
		}
	}
	t := m.parseTok(info, fl)
	d.Single = t
	d.Toks = []Tok{t}
	switch t.Kind {
	case "param":
		d.Kind, d.Name = "param", t.Name
	case "string":
		d.Kind, d.Name = "string", t.Name
	case "percent":
		d.Kind, d.Name = "string", "%"
	case "func":
		d.Kind = "func"
	}
}

func (m *GoModel) parseTok(info *types.Info, fl *ast.FuncLit) Tok {
	t := Tok{Kind: "unknown", Lit: fl}
	if len(fl.Body.List) == 0 {
		return t
	}
	if rs, ok := fl.Body.List[0].(*ast.ReturnStmt); ok && len(fl.Body.List) == 1 {
		if len(rs.Results) == 1 {
			if call, ok := rs.Results[0].(*ast.CallExpr); ok {
				if id, ok := call.Fun.(*ast.Ident); ok && m.Helpers[info.ObjectOf(id)] == "getParam" && len(call.Args) == 1 {
					if s, ok := load.StringOf(info, call.Args[0]); ok {
						return Tok{Kind: "param", Name: s, Lit: fl}
					}
				}
			}
		}
		if len(rs.Results) == 2 {
			if s, ok := load.StringOf(info, rs.Results[0]); ok {
				if id, ok := rs.Results[1].(*ast.Ident); ok && id.Name == "nil" {
					return Tok{Kind: "string", Name: s, Lit: fl}
				}
			}
		}
		return t
	}
	// r, err = callProvider(fn, args...); if err != nil {...}; return
	if as, ok := fl.Body.List[0].(*ast.AssignStmt); ok && len(as.Rhs) == 1 {
		if call, ok := as.Rhs[0].(*ast.CallExpr); ok {
			if id, ok := call.Fun.(*ast.Ident); ok && m.Helpers[info.ObjectOf(id)] == "callProvider" && len(call.Args) >= 1 {
				t.Kind = "func"
				t.Fn = call.Args[0]
				t.FnObj = exprObj(info, call.Args[0])
				if fid, ok := ast.Unparen(call.Args[0]).(*ast.Ident); ok {
					if k, ok := m.Helpers[info.ObjectOf(fid)]; ok {
						t.Name = k
					}
				}
				t.Args = call.Args[1:]
				return t
			}
		}
	}
	return t
}

func (m *GoModel) parseGetters(info *types.Info) {
	for _, d := range m.File.Decls {
		fd, ok := d.(*ast.FuncDecl)
		if !ok || fd.Recv == nil || fd.Body == nil || strings.HasPrefix(fd.Name.Name, "_") {
			continue
		}
		g := Getter{Method: fd.Name.Name, Pos: fd.Pos()}
		if fd.Type.Results != nil && len(fd.Type.Results.List) >= 1 {
			g.Type = info.TypeOf(fd.Type.Results.List[0].Type)
		}
		g.Must = fd.Type.Results != nil && fd.Type.Results.NumFields() == 1
		g.InContext = fd.Type.Params.NumFields() == 1
		ast.Inspect(fd.Body, func(n ast.Node) bool {
			call, ok := n.(*ast.CallExpr)
			if !ok {
				return true
			}
			se, ok := ast.Unparen(call.Fun).(*ast.SelectorExpr)
			if !ok {
				return true
			}
			if rid, ok := ast.Unparen(se.X).(*ast.Ident); !ok || info.ObjectOf(rid) == nil || rid.Name != recvIdent(fd) {
				return true
			}
			switch se.Sel.Name {
			case "Get":
				if len(call.Args) == 1 {
					g.Service, _ = load.StringOf(info, call.Args[0])
					g.Calls = "Get"
				}
			case "GetInContext":
				if len(call.Args) == 2 {
					g.Service, _ = load.StringOf(info, call.Args[1])
					g.Calls = "GetInContext"
				}
			default:
				if g.Must && g.Calls == "" {
					g.Calls = se.Sel.Name
				}
			}
			return true
		})
		m.Getters = append(m.Getters, g)
	}
	// resolve Must getters to their service through the getter they call
	for i := range m.Getters {
		g := &m.Getters[i]
		if g.Must && g.Service == "" {
			for _, h := range m.Getters {
				if h.Method == g.Calls {
					g.Service = h.Service
				}
			}
		}
	}
}

func recvIdent(fd *ast.FuncDecl) string {
	if fd.Recv != nil && len(fd.Recv.List) == 1 && len(fd.Recv.List[0].Names) == 1 {
		return fd.Recv.List[0].Names[0].Name
	}
	return ""
}

// Expr0 returns the whole argument expression as written.
func (d Dep) Expr0() ast.Expr {
	if d.Full != nil {
		return d.Full
	}
	return d.Expr
}
