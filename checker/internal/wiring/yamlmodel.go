package wiring

import (
	"fmt"
	"os"
	"path/filepath"
	"regexp"
	"sort"
	"strings"

	"gopkg.in/yaml.v3"
)

type YCall struct {
	Method    string
	Args      []any
	Immutable bool
}

type YTag struct {
	Name string
	Prio int
}

type YService struct {
	Name        string
	Getter      *string
	MustGetter  *bool
	Type        *string
	Value       *string
	Constructor *string
	Args        []any
	Calls       []YCall
	Fields      map[string]any
	Tags        []YTag
	Scope       *string
	Todo        *bool
}

type YDecorator struct {
	Tag, Decorator string
	Args           []any
}

type YModel struct {
	Files      []string
	Output     string
	Pkg        *string
	Type       *string
	Ctor       *string
	DefMust    *bool
	Imports    map[string]string
	Functions  map[string]string
	Params     map[string]any
	Services   map[string]*YService
	Decorators []YDecorator
	Version    *string
}

func (m *YModel) ServiceNames() []string {
	var s []string
	for k := range m.Services {
		s = append(s, k)
	}
	sort.Strings(s)
	return s
}

func (m *YModel) ParamNames() []string {
	var s []string
	for k := range m.Params {
		s = append(s, k)
	}
	sort.Strings(s)
	return s
}

var reSelf = regexp.MustCompile(`(?m)^self-compile:\s*\n\t(.*)$`)

// SelfCompileArgs reads the Makefile's self-compile recipe: the -i patterns and the -o path.
func SelfCompileArgs(repo string) (patterns []string, out string, err error) {
	b, err := os.ReadFile(filepath.Join(repo, "Makefile"))
	if err != nil {
		return nil, "", err
	}
	mm := reSelf.FindSubmatch(b)
	if mm == nil {
		return nil, "", fmt.Errorf("no self-compile recipe in the Makefile")
	}
	f := strings.Fields(string(mm[1]))
	for i := 0; i < len(f); i++ {
		switch f[i] {
		case "-i", "--input":
			if i+1 < len(f) {
				patterns = append(patterns, strings.ReplaceAll(f[i+1], `\*`, "*"))
				i++
			}
		case "-o", "--output":
			if i+1 < len(f) {
				out = f[i+1]
				i++
			}
		}
	}
	if len(patterns) == 0 || out == "" {
		return nil, "", fmt.Errorf("self-compile recipe without -i/-o")
	}
	return patterns, out, nil
}

// FromYAML reads and merges the self-hosting configuration in the documented order.
func FromYAML(repo string) (*YModel, error) {
	pats, out, err := SelfCompileArgs(repo)
	if err != nil {
		return nil, err
	}
	m := &YModel{Output: out, Imports: map[string]string{}, Functions: map[string]string{}, Params: map[string]any{}, Services: map[string]*YService{}}
	for _, pat := range pats {
		matches, err := filepath.Glob(filepath.Join(repo, pat))
		if err != nil {
			return nil, err
		}
		for i := range matches {
			matches[i] = filepath.Clean(matches[i])
		}
		sort.Strings(matches)
		for _, f := range matches {
			rel, _ := filepath.Rel(repo, f)
			m.Files = append(m.Files, rel)
			b, err := os.ReadFile(f)
			if err != nil {
				return nil, err
			}
			var doc map[string]any
			if err := yaml.Unmarshal(b, &doc); err != nil {
				return nil, fmt.Errorf("%s: %w", rel, err)
			}
			if err := m.merge(doc); err != nil {
				return nil, fmt.Errorf("%s: %w", rel, err)
			}
		}
	}
	return m, nil
}

func strPtr(v any) *string {
	if s, ok := v.(string); ok {
		return &s
	}
	return nil
}
func boolPtr(v any) *bool {
	if s, ok := v.(bool); ok {
		return &s
	}
	return nil
}

func (m *YModel) merge(doc map[string]any) error {
	for k, v := range doc {
		switch k {
		case "version":
			m.Version = strPtr(v)
		case "meta":
			mm, _ := v.(map[string]any)
			for mk, mv := range mm {
				switch mk {
				case "pkg":
					m.Pkg = strPtr(mv)
				case "container_type":
					m.Type = strPtr(mv)
				case "container_constructor":
					m.Ctor = strPtr(mv)
				case "default_must_getter":
					m.DefMust = boolPtr(mv)
				case "imports":
					im, _ := mv.(map[string]any)
					for a, p := range im {
						m.Imports[a] = fmt.Sprint(p)
					}
				case "functions":
					im, _ := mv.(map[string]any)
					for a, p := range im {
						m.Functions[a] = fmt.Sprint(p)
					}
				default:
					return fmt.Errorf("unknown meta key %q", mk)
				}
			}
		case "parameters":
			pm, _ := v.(map[string]any)
			for pk, pv := range pm {
				m.Params[pk] = pv
			}
		case "services":
			sm, _ := v.(map[string]any)
			for name, sv := range sm {
				s := m.Services[name]
				if s == nil {
					s = &YService{Name: name}
					m.Services[name] = s
				}
				attrs, _ := sv.(map[string]any)
				for ak, av := range attrs {
					switch ak {
					case "getter":
						s.Getter = strPtr(av)
					case "must_getter":
						s.MustGetter = boolPtr(av)
					case "type":
						s.Type = strPtr(av)
					case "value":
						s.Value = strPtr(av)
					case "constructor":
						s.Constructor = strPtr(av)
					case "arguments":
						if l, ok := av.([]any); ok && len(l) > 0 {
							s.Args = l
						}
					case "calls":
						l, _ := av.([]any)
						for _, c := range l {
							cl, _ := c.([]any)
							if len(cl) == 0 {
								return fmt.Errorf("service %s: empty call", name)
							}
							yc := YCall{Method: fmt.Sprint(cl[0])}
							if len(cl) > 1 {
								yc.Args, _ = cl[1].([]any)
							}
							if len(cl) > 2 {
								yc.Immutable, _ = cl[2].(bool)
							}
							s.Calls = append(s.Calls, yc)
						}
					case "fields":
						fm, _ := av.(map[string]any)
						if s.Fields == nil {
							s.Fields = map[string]any{}
						}
						for fk, fv := range fm {
							s.Fields[fk] = fv
						}
					case "tags":
						l, _ := av.([]any)
						for _, t := range l {
							switch tv := t.(type) {
							case string:
								s.Tags = append(s.Tags, YTag{Name: tv})
							case map[string]any:
								yt := YTag{Name: fmt.Sprint(tv["name"])}
								if p, ok := tv["priority"].(int); ok {
									yt.Prio = p
								}
								s.Tags = append(s.Tags, yt)
							}
						}
					case "scope":
						s.Scope = strPtr(av)
					case "todo":
						s.Todo = boolPtr(av)
					default:
						return fmt.Errorf("service %s: unknown attribute %q", name, ak)
					}
				}
			}
		case "decorators":
			l, _ := v.([]any)
			for _, d := range l {
				dm, _ := d.(map[string]any)
				yd := YDecorator{Tag: fmt.Sprint(dm["tag"]), Decorator: fmt.Sprint(dm["decorator"])}
				yd.Args, _ = dm["arguments"].([]any)
				m.Decorators = append(m.Decorators, yd)
			}
		default:
			return fmt.Errorf("unknown top-level key %q", k)
		}
	}
	return nil
}

// ---- the documented reading of references and arguments ----

// Ref is a package-qualified symbol reference written in YAML, resolved through meta.imports.
type Ref struct {
	Path string // import path, "" for the current package
	Name string // first identifier
	Rest string // ".Field.Field" for values
	Ptr  string // "*" or "&" or ""
	Lit  bool   // T{}
}

var reRef = regexp.MustCompile(`^([*&])?(?:((?:"[^"]+")|(?:[A-Za-z][A-Za-z0-9._/-]*?))\.)?([A-Za-z][A-Za-z0-9_]*)((?:\.[A-Za-z][A-Za-z0-9_]*)*)(\{\})?$`)

// ParseRef parses `[*&]import.Name[.Sel…][{}]`.
func (m *YModel) ParseRef(s string) (Ref, bool) {
	mm := reRef.FindStringSubmatch(s)
	if mm == nil {
		return Ref{}, false
	}
	r := Ref{Ptr: mm[1], Name: mm[3], Rest: mm[4], Lit: mm[5] != ""}
	imp := strings.Trim(mm[2], `"`)
	if imp == "." {
		imp = ""
	}
	r.Path = m.ResolveImport(imp)
	return r, true
}

// ResolveImport applies the alias table: aliases stand for whole first path segments.
func (m *YModel) ResolveImport(imp string) string {
	if imp == "" {
		return ""
	}
	first, rest, has := strings.Cut(imp, "/")
	if p, ok := m.Imports[first]; ok {
		p = strings.Trim(p, `"`)
		if has {
			return p + "/" + rest
		}
		return p
	}
	return imp
}

// YTok is one chunk of a %pattern%.
type YTok struct {
	Kind string // "string" | "percent" | "param" | "func"
	Text string // literal text, param name, function alias
	Args string
}

var reParamName = regexp.MustCompile(`^[A-Za-z]((\.|-|_)?[A-Za-z0-9])*$`)
var reFn = regexp.MustCompile(`^([A-Za-z][A-Za-z0-9_]*)\((.*)\)$`)

// Tokenize splits a string argument at '%' pairs as documented in docs/PARAMETERS.md.
func Tokenize(s string) ([]YTok, error) {
	if s == "" {
		return []YTok{{Kind: "string", Text: ""}}, nil
	}
	var out []YTok
	opened := false
	buf := ""
	for _, r := range s {
		if r == '%' {
			if opened {
				inner := buf
				switch {
				case inner == "":
					out = append(out, YTok{Kind: "percent"})
				case reParamName.MatchString(inner):
					out = append(out, YTok{Kind: "param", Text: inner})
				case reFn.MatchString(inner):
					mm := reFn.FindStringSubmatch(inner)
					out = append(out, YTok{Kind: "func", Text: mm[1], Args: mm[2]})
				default:
					return nil, fmt.Errorf("unexpected token %%%s%%", inner)
				}
				buf, opened = "", false
				continue
			}
			if buf != "" {
				out = append(out, YTok{Kind: "string", Text: buf})
			}
			buf, opened = "", true
			continue
		}
		buf += string(r)
	}
	if opened {
		return nil, fmt.Errorf("not closed token")
	}
	if buf != "" {
		out = append(out, YTok{Kind: "string", Text: buf})
	}
	return out, nil
}

// YArg is the documented meaning of one argument.
type YArg struct {
	Kind string // "service" | "tag" | "value" | "container" | "param" | "string" | "func" | "concat" | "literal"
	Name string
	Ref  Ref
	Toks []YTok
	Lit  any
}

var reSvc = regexp.MustCompile(`^@([A-Za-z]((\.|-|_)?[A-Za-z0-9])*)$`)
var reTagged = regexp.MustCompile(`^!tagged\s+([A-Za-z]((\.|-|_)?[A-Za-z0-9])*)$`)
var reValue = regexp.MustCompile(`^!value\s+(.+)$`)

func (m *YModel) ParseArg(a any) (YArg, error) {
	s, ok := a.(string)
	if !ok {
		return YArg{Kind: "literal", Lit: a}, nil
	}
	switch {
	case strings.HasPrefix(s, "!value"):
		mm := reValue.FindStringSubmatch(s)
		if mm == nil {
			return YArg{}, fmt.Errorf("invalid value %q", s)
		}
		r, ok := m.ParseRef(mm[1])
		if !ok || r.Ptr == "*" {
			return YArg{}, fmt.Errorf("invalid value %q", s)
		}
		return YArg{Kind: "value", Ref: r}, nil
	case strings.HasPrefix(s, "@"):
		mm := reSvc.FindStringSubmatch(s)
		if mm == nil {
			return YArg{}, fmt.Errorf("invalid service %q", s)
		}
		return YArg{Kind: "service", Name: mm[1]}, nil
	case strings.HasPrefix(s, "!tagged"):
		mm := reTagged.FindStringSubmatch(s)
		if mm == nil {
			return YArg{}, fmt.Errorf("invalid tag %q", s)
		}
		return YArg{Kind: "tag", Name: mm[1]}, nil
	case s == "$gontainer":
		return YArg{Kind: "container"}, nil
	}
	toks, err := Tokenize(s)
	if err != nil {
		return YArg{}, err
	}
	if len(toks) == 1 {
		t := toks[0]
		switch t.Kind {
		case "param":
			return YArg{Kind: "param", Name: t.Text, Toks: toks}, nil
		case "string":
			return YArg{Kind: "string", Name: t.Text, Toks: toks}, nil
		case "percent":
			return YArg{Kind: "string", Name: "%", Toks: toks}, nil
		case "func":
			return YArg{Kind: "func", Name: t.Text, Toks: toks}, nil
		}
	}
	return YArg{Kind: "concat", Toks: toks}, nil
}
